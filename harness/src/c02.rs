//! C02 — array content, equality and kernel results depend only on logical values.
//! Physical arrays travel as c09 `Node` trees; `build` turns a tree into a real array through
//! SAFE public constructors only (path 0: checked ArrayDataBuilder + make_array, path 1: typed
//! `try_new` constructors), `read_lv` reads a real array back through its accessors / iterators.
use crate::c01::from_data;
use crate::c09::{self, Node, Nulls, Ty};
use crate::util::*;
use arrow_array::builder::*;
use arrow_array::cast::AsArray;
use arrow_array::types::*;
use arrow_array::*;
use arrow_buffer::{BooleanBuffer, Buffer, MutableBuffer, NullBuffer, OffsetBuffer, ScalarBuffer, ToByteSlice};
use arrow_data::ArrayData;
use arrow_schema::{ArrowError, DataType, Field, Fields, IntervalUnit, SortOptions, TimeUnit};
use num_bigint::{BigInt, Sign};
use std::sync::Arc;


// ------------------------------------------------------------------ logical values
#[derive(Clone, Debug, PartialEq)]
pub enum LV { Null, Bool(bool), Int(BigInt), Bytes(Vec<u8>), List(Vec<LV>), Struct(Vec<LV>) }

fn enc_lv(v: &LV, out: &mut Group) {
    match v {
        LV::Null => out.push(0.into()),
        LV::Bool(b) => { out.push(1.into()); out.push((*b as u8).into()) }
        LV::Int(z) => { out.push(2.into()); out.push(z.clone()) }
        LV::Bytes(l) => { out.push(3.into()); out.push(l.len().into()); out.extend(l.iter().map(|b| BigInt::from(*b))) }
        LV::List(l) => { out.push(4.into()); out.push(l.len().into()); for x in l { enc_lv(x, out) } }
        LV::Struct(l) => { out.push(5.into()); out.push(l.len().into()); for x in l { enc_lv(x, out) } }
    }
}
pub fn enc_col(vs: &[LV]) -> Group { let mut g: Group = vec![vs.len().into()]; for v in vs { enc_lv(v, &mut g) } g }
fn dec_lv(l: &Group, p: &mut usize) -> LV {
    let tag = i64::try_from(&l[*p]).unwrap(); *p += 1;
    match tag {
        0 => LV::Null,
        1 => { let b = l[*p] != BigInt::from(0); *p += 1; LV::Bool(b) }
        2 => { let z = l[*p].clone(); *p += 1; LV::Int(z) }
        3 => { let k = usize::try_from(&l[*p]).unwrap(); *p += 1; let v = l[*p..*p + k].iter().map(|b| u8::try_from(b).unwrap()).collect(); *p += k; LV::Bytes(v) }
        4 | 5 => { let k = usize::try_from(&l[*p]).unwrap(); *p += 1; let v = (0..k).map(|_| dec_lv(l, p)).collect(); if tag == 4 { LV::List(v) } else { LV::Struct(v) } }
        _ => panic!("lv tag"),
    }
}
pub fn dec_col(l: &Group) -> Vec<LV> { let n = usize::try_from(&l[0]).unwrap(); let mut p = 1; (0..n).map(|_| dec_lv(l, &mut p)).collect() }

// ------------------------------------------------------------------ data types (flavour of fixed-width leaves)
/// flavour: 0 signed ints / decimals, 1 unsigned ints, 2 floats, 3 temporal (Date32 / Timestamp us),
/// 4 temporal-2 (Time32 s / Duration ms / IntervalMonthDayNano)
pub fn prim_dt(w: usize, fl: usize) -> DataType {
    use DataType::*;
    match (w, fl) {
        (1, 1) => UInt8, (2, 1) => UInt16, (4, 1) => UInt32, (8, 1) => UInt64,
        (2, 2) => Float16, (4, 2) => Float32, (8, 2) => Float64,
        (4, 3) => Date32, (8, 3) => Timestamp(TimeUnit::Microsecond, None),
        (4, 4) => Time32(TimeUnit::Second), (8, 4) => Duration(TimeUnit::Millisecond), (16, 4) => Interval(IntervalUnit::MonthDayNano),
        (1, _) => Int8, (2, _) => Int16, (4, _) => Int32, (8, _) => Int64, (16, _) => Decimal128(38, 10), _ => Decimal256(76, 10),
    }
}
fn key_dt(kw: usize, signed: bool) -> DataType {
    use DataType::*;
    match (kw, signed) { (1, true) => Int8, (2, true) => Int16, (4, true) => Int32, (8, true) => Int64, (1, false) => UInt8, (2, false) => UInt16, (4, false) => UInt32, _ => UInt64 }
}
fn item_field(c: &Ty, fl: usize, nullable: bool) -> Arc<Field> { Arc::new(Field::new("item", dt_of(c, fl), nullable)) }
fn struct_fields(fs: &[(bool, Ty)], fl: usize) -> Fields { Fields::from(fs.iter().enumerate().map(|(i, (nb, t))| Field::new(format!("f{i}"), dt_of(t, fl), *nb)).collect::<Vec<_>>()) }
pub fn dt_of(t: &Ty, fl: usize) -> DataType {
    match t {
        Ty::Fixed(w) => prim_dt(*w, fl),
        Ty::List { large, nullable, c } => if *large { DataType::LargeList(item_field(c, fl, *nullable)) } else { DataType::List(item_field(c, fl, *nullable)) },
        Ty::ListView { large, nullable, c } => if *large { DataType::LargeListView(item_field(c, fl, *nullable)) } else { DataType::ListView(item_field(c, fl, *nullable)) },
        Ty::FixedList { n, nullable, c } => DataType::FixedSizeList(item_field(c, fl, *nullable), *n),
        Ty::Struct(fs) => DataType::Struct(struct_fields(fs, fl)),
        Ty::Dict { kw, signed, v } => DataType::Dictionary(Box::new(key_dt(*kw, *signed)), Box::new(dt_of(v, fl))),
        Ty::Ree { rw, v } => DataType::RunEndEncoded(Arc::new(Field::new("run_ends", prim_dt(*rw, 0), false)), Arc::new(Field::new("values", dt_of(v, fl), true))),
        other => c09::to_dt(other),
    }
}

// ------------------------------------------------------------------ Node -> real array
fn abuf(b: &[u8]) -> Buffer { let mut m = MutableBuffer::new(b.len()); m.extend_from_slice(b); m.into() }
fn null_buffer(x: &Nulls) -> NullBuffer { NullBuffer::new(BooleanBuffer::new(abuf(&x.bytes), x.off, x.len)) }

macro_rules! with_prim_type {
    ($dt:expr, $m:ident, $other:expr) => {
        match $dt {
            DataType::Int8 => $m!(Int8Type), DataType::Int16 => $m!(Int16Type), DataType::Int32 => $m!(Int32Type), DataType::Int64 => $m!(Int64Type),
            DataType::UInt8 => $m!(UInt8Type), DataType::UInt16 => $m!(UInt16Type), DataType::UInt32 => $m!(UInt32Type), DataType::UInt64 => $m!(UInt64Type),
            DataType::Float16 => $m!(Float16Type), DataType::Float32 => $m!(Float32Type), DataType::Float64 => $m!(Float64Type),
            DataType::Date32 => $m!(Date32Type), DataType::Timestamp(TimeUnit::Microsecond, _) => $m!(TimestampMicrosecondType),
            DataType::Time32(TimeUnit::Second) => $m!(Time32SecondType), DataType::Duration(TimeUnit::Millisecond) => $m!(DurationMillisecondType),
            DataType::Interval(IntervalUnit::MonthDayNano) => $m!(IntervalMonthDayNanoType),
            DataType::Decimal128(_, _) => $m!(Decimal128Type), DataType::Decimal256(_, _) => $m!(Decimal256Type),
            _ => $other,
        }
    };
}

/// typed primitive array over `bytes` with element offset/len (safe constructors only)
fn prim_array(dt: &DataType, bytes: &[u8], off: usize, len: usize, nulls: Option<NullBuffer>) -> Result<ArrayRef, ArrowError> {
    macro_rules! mk { ($t:ty) => {{
        let sb = ScalarBuffer::<<$t as ArrowPrimitiveType>::Native>::new(abuf(bytes), off, len);
        Arc::new(PrimitiveArray::<$t>::try_new(sb, nulls)?.with_data_type(dt.clone())) as ArrayRef
    }} }
    Ok(with_prim_type!(dt, mk, return Err(ArrowError::NotYetImplemented("prim".into()))))
}

fn offsets_of<O: arrow_buffer::ArrowNativeType + std::ops::Sub<Output = O> + PartialOrd + num_traits::Zero>(b: &[u8], off: usize, len: usize) -> OffsetBuffer<O> where O: arrow_array::OffsetSizeTrait {
    if b.is_empty() && len == 0 { OffsetBuffer::new_empty() } else { OffsetBuffer::new(ScalarBuffer::<O>::new(abuf(b), off, len + 1)) }
}

pub fn build_typed(n: &Node, fl: usize) -> Result<ArrayRef, ArrowError> {
    let nulls = n.nulls.as_ref().map(null_buffer);
    Ok(match &n.ty {
        Ty::Null => Arc::new(NullArray::new(n.len)),
        Ty::Bool => { if let Some(nb) = &nulls { if nb.len() != n.len { return Err(ArrowError::InvalidArgumentError("nulls".into())) } }
            Arc::new(BooleanArray::new(BooleanBuffer::new(abuf(&n.bufs[0]), n.off, n.len), nulls)) }
        Ty::Fixed(w) => prim_array(&prim_dt(*w, fl), &n.bufs[0], n.off, n.len, nulls)?,
        Ty::FixedBin(s) => { let sz = *s as usize; Arc::new(FixedSizeBinaryArray::try_new_with_len(*s, abuf(&n.bufs[0]).slice_with_length(n.off * sz, n.len * sz), nulls, n.len)?) }
        Ty::Bin { large, utf8 } => match (large, utf8) {
            (false, false) => Arc::new(BinaryArray::try_new(offsets_of::<i32>(&n.bufs[0], n.off, n.len), abuf(&n.bufs[1]), nulls)?),
            (true, false) => Arc::new(LargeBinaryArray::try_new(offsets_of::<i64>(&n.bufs[0], n.off, n.len), abuf(&n.bufs[1]), nulls)?),
            (false, true) => Arc::new(StringArray::try_new(offsets_of::<i32>(&n.bufs[0], n.off, n.len), abuf(&n.bufs[1]), nulls)?),
            (true, true) => Arc::new(LargeStringArray::try_new(offsets_of::<i64>(&n.bufs[0], n.off, n.len), abuf(&n.bufs[1]), nulls)?),
        },
        Ty::View { utf8 } => {
            let views = ScalarBuffer::<u128>::new(abuf(&n.bufs[0]), n.off, n.len);
            let data: Vec<Buffer> = n.bufs[1..].iter().map(|b| abuf(b)).collect();
            if *utf8 { Arc::new(StringViewArray::try_new(views, data, nulls)?) } else { Arc::new(BinaryViewArray::try_new(views, data, nulls)?) }
        }
        Ty::List { large, nullable, c } => {
            let child = build_typed(&n.kids[0], fl)?; let f = item_field(c, fl, *nullable);
            if *large { Arc::new(LargeListArray::try_new(f, offsets_of::<i64>(&n.bufs[0], n.off, n.len), child, nulls)?) }
            else { Arc::new(ListArray::try_new(f, offsets_of::<i32>(&n.bufs[0], n.off, n.len), child, nulls)?) }
        }
        Ty::ListView { large, nullable, c } => {
            let child = build_typed(&n.kids[0], fl)?; let f = item_field(c, fl, *nullable);
            if *large { Arc::new(LargeListViewArray::try_new(f, ScalarBuffer::<i64>::new(abuf(&n.bufs[0]), n.off, n.len), ScalarBuffer::<i64>::new(abuf(&n.bufs[1]), n.off, n.len), child, nulls)?) }
            else { Arc::new(ListViewArray::try_new(f, ScalarBuffer::<i32>::new(abuf(&n.bufs[0]), n.off, n.len), ScalarBuffer::<i32>::new(abuf(&n.bufs[1]), n.off, n.len), child, nulls)?) }
        }
        Ty::FixedList { n: s, nullable, c } => {
            let sz = *s as usize;
            let child = build_typed(&n.kids[0], fl)?;
            if (n.off + n.len) * sz > child.len() { return Err(ArrowError::InvalidArgumentError("child".into())) }
            Arc::new(FixedSizeListArray::try_new_with_length(item_field(c, fl, *nullable), *s, child.slice(n.off * sz, n.len * sz), nulls, n.len)?)
        }
        Ty::Struct(fs) => {
            let mut arrays = Vec::new();
            for k in &n.kids { let a = build_typed(k, fl)?; if n.off + n.len > a.len() { return Err(ArrowError::InvalidArgumentError("child".into())) } arrays.push(a.slice(n.off, n.len)) }
            Arc::new(StructArray::try_new_with_length(struct_fields(fs, fl), arrays, nulls, n.len)?)
        }
        Ty::Dict { kw, signed, .. } => {
            let keys = prim_array(&key_dt(*kw, *signed), &n.bufs[0], n.off, n.len, nulls)?;
            let values = build_typed(&n.kids[0], fl)?;
            macro_rules! mk { ($t:ty) => { Arc::new(DictionaryArray::<$t>::try_new(keys.as_primitive::<$t>().clone(), values)?) as ArrayRef } }
            match (kw, signed) { (1, true) => mk!(Int8Type), (2, true) => mk!(Int16Type), (4, true) => mk!(Int32Type), (8, true) => mk!(Int64Type),
                (1, false) => mk!(UInt8Type), (2, false) => mk!(UInt16Type), (4, false) => mk!(UInt32Type), _ => mk!(UInt64Type) }
        }
        Ty::Ree { rw, .. } => {
            if n.nulls.is_some() { return Err(ArrowError::InvalidArgumentError("ree nulls".into())) }
            let r = &n.kids[0];
            let ends = prim_array(&prim_dt(*rw, 0), &r.bufs[0], r.off, r.len, None)?;
            let values = build_typed(&n.kids[1], fl)?;
            macro_rules! mk { ($t:ty) => {{ let ra = RunArray::<$t>::try_new(ends.as_primitive::<$t>(), values.as_ref())?;
                if n.off + n.len > ra.len() { return Err(ArrowError::InvalidArgumentError("ree len".into())) } Arc::new(ra.slice(n.off, n.len)) as ArrayRef }} }
            match rw { 2 => mk!(Int16Type), 4 => mk!(Int32Type), _ => mk!(Int64Type) }
        }
        Ty::Union { .. } => return Err(ArrowError::NotYetImplemented("union".into())),
    })
}

/// checked ArrayDataBuilder at every level (validate_full), explicit NullBuffer (may have its own offset)
pub fn build_data(n: &Node, fl: usize) -> Option<ArrayData> {
    let mut kids = Vec::new();
    for (i, k) in n.kids.iter().enumerate() { kids.push(build_data(k, if matches!(n.ty, Ty::Ree { .. }) && i == 0 { 0 } else { fl })?) }
    if let Some(x) = &n.nulls { if x.off + x.len > 8 * x.bytes.len() || x.len != n.len { return None } }
    ArrayData::builder(dt_of(&n.ty, fl)).len(n.len).offset(n.off)
        .buffers(n.bufs.iter().map(|b| abuf(b)).collect()).child_data(kids)
        .nulls(n.nulls.as_ref().map(null_buffer)).build().ok()
}

/// path 0: ArrayData (checked builder) + make_array;  path 1: typed constructors
pub fn build(n: &Node, fl: usize, path: usize) -> Option<ArrayRef> {
    std::panic::catch_unwind(std::panic::AssertUnwindSafe(|| {
        if path == 0 { build_data(n, fl).map(make_array) } else { build_typed(n, fl).ok() }
    })).unwrap_or(None)
}

/// physical dump of a real array; an all-valid validity buffer (dropped by to_data) is kept at top level
pub fn dump(a: &dyn Array) -> Option<Node> {
    let mut node = from_data(&a.to_data())?;
    if node.nulls.is_none() { if let Some(nb) = a.nulls() { node.nulls = Some(Nulls { bytes: nb.validity().to_vec(), off: nb.offset(), len: nb.len(), count: nb.null_count() }) } }
    Some(node)
}

// ------------------------------------------------------------------ real array -> logical column (accessors / iterators)
fn bits(b: &[u8]) -> LV { LV::Int(BigInt::from_bytes_le(Sign::Plus, b)) }
/// Drains a double-ended, exact-size iterator of the real array in the order given by `mode` and puts every item
/// at its logical position: 1 forwards, 2 backwards (next_back only), 3 alternating next / next_back from both
/// ends, 4 the last third from the back first and then forwards.  len() / size_hint() must count down exactly and
/// both ends must report exhaustion; otherwise a column of the wrong length is returned (so the spec disagrees).
fn drain<I, T>(mut it: I, n: usize, mode: usize, f: impl Fn(T) -> Option<LV>) -> Option<Vec<LV>>
where I: DoubleEndedIterator<Item = Option<T>> + ExactSizeIterator {
    let bad = || Some(vec![LV::Null; n + 1]);
    if it.len() != n || it.size_hint() != (n, Some(n)) { return bad() }
    let mut out: Vec<Option<LV>> = vec![None; n];
    let (mut i, mut j, mut step) = (0usize, n, 0usize);
    while i < j {
        let from_back = match mode { 1 => false, 2 => true, 3 => step % 2 == 1, _ => step < (n / 3).max(1) };
        let Some(item) = (if from_back { it.next_back() } else { it.next() }) else { return bad() };
        let lv = match item { None => LV::Null, Some(v) => f(v)? };
        if from_back { j -= 1; out[j] = Some(lv) } else { out[i] = Some(lv); i += 1 }
        step += 1;
        if it.len() != j - i || it.size_hint() != (j - i, Some(j - i)) { return bad() }
    }
    if it.next().is_some() || it.next_back().is_some() { return bad() }
    out.into_iter().collect()
}
/// RunArrayIter (TypedRunArray::into_iter) for the value types that have a typed accessor; None = no such iterator
fn ree_iter<R: RunEndIndexType>(ra: &RunArray<R>, mode: usize) -> Option<Option<Vec<LV>>> {
    let n = ra.len();
    macro_rules! typed { ($v:ty, $f:expr) => { Some(drain(ra.downcast::<$v>()?.into_iter(), n, mode, $f)) } }
    macro_rules! prim { ($t:ty) => { typed!(PrimitiveArray<$t>, |v: <$t as ArrowPrimitiveType>::Native| Some(bits(v.to_byte_slice()))) } }
    match ra.values().data_type() {
        DataType::Boolean => typed!(BooleanArray, |v: bool| Some(LV::Bool(v))),
        DataType::Utf8 => typed!(StringArray, |v: &str| Some(LV::Bytes(v.as_bytes().to_vec()))),
        DataType::LargeUtf8 => typed!(LargeStringArray, |v: &str| Some(LV::Bytes(v.as_bytes().to_vec()))),
        DataType::Binary => typed!(BinaryArray, |v: &[u8]| Some(LV::Bytes(v.to_vec()))),
        DataType::LargeBinary => typed!(LargeBinaryArray, |v: &[u8]| Some(LV::Bytes(v.to_vec()))),
        DataType::Utf8View => typed!(StringViewArray, |v: &str| Some(LV::Bytes(v.as_bytes().to_vec()))),
        DataType::BinaryView => typed!(BinaryViewArray, |v: &[u8]| Some(LV::Bytes(v.to_vec()))),
        DataType::FixedSizeBinary(_) => typed!(FixedSizeBinaryArray, |v: &[u8]| Some(LV::Bytes(v.to_vec()))),
        dt => with_prim_type!(dt, prim, None),
    }
}
/// mode 0: is_null(i) + value(i);  modes 1..4: the array's iterator (see `drain`) where the array type has one
pub fn read_lv(a: &dyn Array, mode: usize) -> Option<Vec<LV>> {
    let n = a.len();
    macro_rules! by_index { ($arr:expr, $f:expr) => {{ let arr = $arr; (0..n).map(|i| if arr.is_null(i) { LV::Null } else { $f(arr.value(i)) }).collect::<Vec<LV>>() }} }
    macro_rules! by_iter { ($arr:expr, $f:expr) => {{ let arr = $arr; drain(arr.iter(), n, mode, |v| Some($f(v)))? }} }
    macro_rules! rd { ($arr:expr, $f:expr) => { if mode >= 1 { by_iter!($arr, $f) } else { by_index!($arr, $f) } } }
    Some(match a.data_type() {
        DataType::Null => vec![LV::Null; n],
        DataType::Boolean => rd!(a.as_boolean(), |v: bool| LV::Bool(v)),
        DataType::FixedSizeBinary(_) => rd!(a.as_fixed_size_binary(), |v: &[u8]| LV::Bytes(v.to_vec())),
        DataType::Binary => rd!(a.as_binary::<i32>(), |v: &[u8]| LV::Bytes(v.to_vec())),
        DataType::LargeBinary => rd!(a.as_binary::<i64>(), |v: &[u8]| LV::Bytes(v.to_vec())),
        DataType::Utf8 => rd!(a.as_string::<i32>(), |v: &str| LV::Bytes(v.as_bytes().to_vec())),
        DataType::LargeUtf8 => rd!(a.as_string::<i64>(), |v: &str| LV::Bytes(v.as_bytes().to_vec())),
        DataType::BinaryView => rd!(a.as_binary_view(), |v: &[u8]| LV::Bytes(v.to_vec())),
        DataType::Utf8View => rd!(a.as_string_view(), |v: &str| LV::Bytes(v.as_bytes().to_vec())),
        DataType::List(_) | DataType::LargeList(_) | DataType::ListView(_) | DataType::LargeListView(_) | DataType::FixedSizeList(_, _) | DataType::Map(_, _) => {
            let mut out = Vec::with_capacity(n);
            macro_rules! lst { ($arr:expr) => {{ let arr = $arr;
                if mode >= 1 { out = drain(arr.iter(), n, mode, |v: ArrayRef| Some(LV::List(read_lv(v.as_ref(), mode)?)))? }
                else { for i in 0..n { out.push(if arr.is_null(i) { LV::Null } else { LV::List(read_lv(arr.value(i).as_ref(), mode)?) }) } } }} }
            match a.data_type() {
                DataType::List(_) => lst!(a.as_list::<i32>()), DataType::LargeList(_) => lst!(a.as_list::<i64>()),
                DataType::ListView(_) => lst!(a.as_list_view::<i32>()),
                DataType::LargeListView(_) => lst!(a.as_list_view::<i64>()),
                DataType::Map(_, _) => { let arr = a.as_map(); for i in 0..n { out.push(if arr.is_null(i) { LV::Null } else { LV::List(read_lv(&arr.value(i), mode)?) }) } }
                _ => lst!(a.as_fixed_size_list()),
            }
            out
        }
        DataType::Struct(_) => {
            let s = a.as_struct();
            let cols: Vec<Vec<LV>> = s.columns().iter().map(|c| read_lv(c.as_ref(), mode)).collect::<Option<_>>()?;
            (0..n).map(|i| if s.is_null(i) { LV::Null } else { LV::Struct(cols.iter().map(|c| c[i].clone()).collect()) }).collect()
        }
        DataType::Dictionary(_, _) => {
            let d = a.as_any_dictionary();
            let keys = read_lv(d.keys(), mode)?; let vals = read_lv(d.values().as_ref(), mode)?;
            keys.iter().map(|k| match k { LV::Int(z) => { let i = usize::try_from(z).ok()?; vals.get(i).cloned() } _ => Some(LV::Null) }).collect::<Option<Vec<LV>>>()?
        }
        DataType::RunEndEncoded(r, _) => {
            macro_rules! ree { ($t:ty) => {{ let ra = a.as_any().downcast_ref::<RunArray<$t>>()?;
                match if mode >= 1 { ree_iter::<$t>(ra, mode) } else { None } {
                    Some(col) => col?,
                    None => { let vals = read_lv(ra.values().as_ref(), mode)?; (0..n).map(|i| vals[ra.get_physical_index(i)].clone()).collect::<Vec<LV>>() } } }} }
            match r.data_type() { DataType::Int16 => ree!(Int16Type), DataType::Int32 => ree!(Int32Type), DataType::Int64 => ree!(Int64Type), _ => return None }
        }
        DataType::Union(_, _) => return None,
        _ => downcast_primitive_array!(
            a => { if mode >= 1 { drain(a.iter(), n, mode, |v| Some(bits(v.to_byte_slice())))? }
                   else { (0..n).map(|i| if a.is_null(i) { LV::Null } else { bits(a.value(i).to_byte_slice()) }).collect() } }
            _t => return None
        ),
    })
}

// ------------------------------------------------------------------ logical column -> fresh canonical array
fn le_bytes(z: &BigInt, w: usize) -> Vec<u8> { let (_, mut b) = z.to_bytes_le(); b.resize(w, 0); b }
fn nulls_from(vs: &[LV]) -> Option<NullBuffer> { if vs.iter().any(|v| *v == LV::Null) { Some(NullBuffer::from(vs.iter().map(|v| *v != LV::Null).collect::<Vec<bool>>())) } else { None } }
/// a non-null value of the type (payload of slots that must exist physically under a null parent)
pub fn default_lv(t: &Ty) -> LV {
    match t {
        Ty::Null => LV::Null, Ty::Bool => LV::Bool(false), Ty::Fixed(_) => LV::Int(0.into()), Ty::FixedBin(n) => LV::Bytes(vec![0; *n as usize]),
        Ty::Bin { .. } | Ty::View { .. } => LV::Bytes(vec![]), Ty::List { .. } | Ty::ListView { .. } => LV::List(vec![]),
        Ty::FixedList { n, c, .. } => LV::List(vec![default_lv(c); *n as usize]), Ty::Struct(fs) => LV::Struct(fs.iter().map(|(_, t)| default_lv(t)).collect()),
        Ty::Dict { v, .. } | Ty::Ree { v, .. } => default_lv(v), Ty::Union { .. } => LV::Null,
    }
}
fn child_or_default(v: &LV, t: &Ty, nullable: bool) -> LV { if *v == LV::Null && !nullable { default_lv(t) } else { v.clone() } }

pub fn from_lv(t: &Ty, fl: usize, vs: &[LV]) -> Option<ArrayRef> {
    let n = vs.len();
    Some(match t {
        Ty::Null => Arc::new(NullArray::new(n)),
        Ty::Bool => { let mut b = BooleanBuilder::new(); for v in vs { match v { LV::Bool(x) => b.append_value(*x), _ => b.append_null() } } Arc::new(b.finish()) }
        Ty::Fixed(w) => { let mut bytes = Vec::with_capacity(n * w); for v in vs { match v { LV::Int(z) => bytes.extend(le_bytes(z, *w)), _ => bytes.extend(std::iter::repeat(0).take(*w)) } }
            prim_array(&prim_dt(*w, fl), &bytes, 0, n, nulls_from(vs)).ok()? }
        Ty::FixedBin(s) => { let mut b = FixedSizeBinaryBuilder::new(*s); for v in vs { match v { LV::Bytes(x) => b.append_value(x).ok()?, _ => b.append_null() } } Arc::new(b.finish()) }
        Ty::Bin { large, utf8 } => {
            macro_rules! bb { ($b:ty, $conv:expr) => {{ let mut b = <$b>::new(); for v in vs { match v { LV::Bytes(x) => b.append_value($conv(x)), _ => b.append_null() } } Arc::new(b.finish()) as ArrayRef }} }
            match (large, utf8) { (false, false) => bb!(BinaryBuilder, |x: &Vec<u8>| x.clone()), (true, false) => bb!(LargeBinaryBuilder, |x: &Vec<u8>| x.clone()),
                (false, true) => bb!(StringBuilder, |x: &Vec<u8>| String::from_utf8(x.clone()).unwrap()), (true, true) => bb!(LargeStringBuilder, |x: &Vec<u8>| String::from_utf8(x.clone()).unwrap()) }
        }
        Ty::View { utf8 } => if *utf8 { let mut b = StringViewBuilder::new(); for v in vs { match v { LV::Bytes(x) => b.append_value(std::str::from_utf8(x).ok()?), _ => b.append_null() } } Arc::new(b.finish()) }
                             else { let mut b = BinaryViewBuilder::new(); for v in vs { match v { LV::Bytes(x) => b.append_value(x), _ => b.append_null() } } Arc::new(b.finish()) },
        Ty::List { large, nullable, c } => {
            let mut flat = Vec::new(); let mut lens = Vec::new();
            for v in vs { match v { LV::List(l) => { lens.push(l.len()); flat.extend(l.iter().cloned()) } _ => lens.push(0) } }
            let child = from_lv(c, fl, &flat)?; let f = item_field(c, fl, *nullable);
            if *large { Arc::new(LargeListArray::try_new(f, OffsetBuffer::from_lengths(lens), child, nulls_from(vs)).ok()?) } else { Arc::new(ListArray::try_new(f, OffsetBuffer::from_lengths(lens), child, nulls_from(vs)).ok()?) }
        }
        Ty::ListView { large, nullable, c } => {
            let mut flat = Vec::new(); let mut offs = Vec::new(); let mut sizes = Vec::new();
            for v in vs { offs.push(flat.len()); match v { LV::List(l) => { sizes.push(l.len()); flat.extend(l.iter().cloned()) } _ => sizes.push(0) } }
            let child = from_lv(c, fl, &flat)?; let f = item_field(c, fl, *nullable);
            if *large { Arc::new(LargeListViewArray::try_new(f, offs.iter().map(|x| *x as i64).collect::<Vec<_>>().into(), sizes.iter().map(|x| *x as i64).collect::<Vec<_>>().into(), child, nulls_from(vs)).ok()?) }
            else { Arc::new(ListViewArray::try_new(f, offs.iter().map(|x| *x as i32).collect::<Vec<_>>().into(), sizes.iter().map(|x| *x as i32).collect::<Vec<_>>().into(), child, nulls_from(vs)).ok()?) }
        }
        Ty::FixedList { n: s, nullable, c } => {
            let mut flat = Vec::new();
            for v in vs { match v { LV::List(l) => flat.extend(l.iter().cloned()), _ => flat.extend((0..*s).map(|_| child_or_default(&LV::Null, c, *nullable))) } }
            let child = from_lv(c, fl, &flat)?;
            Arc::new(FixedSizeListArray::try_new_with_length(item_field(c, fl, *nullable), *s, child, nulls_from(vs), n).ok()?)
        }
        Ty::Struct(fs) => {
            let mut arrays = Vec::new();
            for (j, (nb, ft)) in fs.iter().enumerate() {
                let col: Vec<LV> = vs.iter().map(|v| match v { LV::Struct(l) => l[j].clone(), _ => child_or_default(&LV::Null, ft, *nb) }).collect();
                arrays.push(from_lv(ft, fl, &col)?);
            }
            Arc::new(StructArray::try_new_with_length(struct_fields(fs, fl), arrays, nulls_from(vs), n).ok()?)
        }
        Ty::Dict { kw, signed, v } => {
            // canonical dictionary: distinct non-null values in first-occurrence order
            let mut dict: Vec<LV> = Vec::new(); let mut keys: Vec<LV> = Vec::new();
            for x in vs { if *x == LV::Null { keys.push(LV::Null) } else { let k = match dict.iter().position(|d| d == x) { Some(k) => k, None => { dict.push(x.clone()); dict.len() - 1 } }; keys.push(LV::Int(k.into())) } }
            dict_from(*kw, *signed, &keys, from_lv(v, fl, &dict)?)?
        }
        Ty::Ree { rw, v } => {
            let mut ends: Vec<LV> = Vec::new(); let mut vals: Vec<LV> = Vec::new();
            for (i, x) in vs.iter().enumerate() { if i > 0 && vals.last() == Some(x) { *ends.last_mut().unwrap() = LV::Int((i + 1).into()) } else { vals.push(x.clone()); ends.push(LV::Int((i + 1).into())) } }
            ree_from(*rw, &ends, from_lv(v, fl, &vals)?)?
        }
        Ty::Union { .. } => return None,
    })
}
pub fn dict_from(kw: usize, signed: bool, keys: &[LV], values: ArrayRef) -> Option<ArrayRef> {
    let ka = from_lv(&Ty::Fixed(kw), if signed { 0 } else { 1 }, keys)?;
    macro_rules! mk { ($t:ty) => { Arc::new(DictionaryArray::<$t>::try_new(ka.as_primitive::<$t>().clone(), values).ok()?) as ArrayRef } }
    Some(match (kw, signed) { (1, true) => mk!(Int8Type), (2, true) => mk!(Int16Type), (4, true) => mk!(Int32Type), (8, true) => mk!(Int64Type),
        (1, false) => mk!(UInt8Type), (2, false) => mk!(UInt16Type), (4, false) => mk!(UInt32Type), _ => mk!(UInt64Type) })
}
pub fn ree_from(rw: usize, ends: &[LV], values: ArrayRef) -> Option<ArrayRef> {
    let ea = from_lv(&Ty::Fixed(rw), 0, ends)?;
    macro_rules! mk { ($t:ty) => { Arc::new(RunArray::<$t>::try_new(ea.as_primitive::<$t>(), values.as_ref()).ok()?) as ArrayRef } }
    Some(match rw { 2 => mk!(Int16Type), 4 => mk!(Int32Type), _ => mk!(Int64Type) })
}

// ------------------------------------------------------------------ kernel table (the REAL kernels)
pub enum Out { Arr(ArrayRef), Col(Vec<LV>) }
fn arr<T: Array + 'static>(a: T) -> Out { Out::Arr(Arc::new(a)) }

fn idx_array(p: &[i64]) -> UInt32Array { p.iter().map(|x| if *x < 0 { None } else { Some(*x as u32) }).collect() }
fn mask_array(p: &[i64]) -> BooleanArray { p.iter().map(|x| match x { 0 => Some(false), 1 => Some(true), _ => None }).collect() }
fn sort_opts(p: &[i64]) -> Option<SortOptions> { if p.first().copied().unwrap_or(0) == 2 { None } else { Some(SortOptions { descending: p.first().copied().unwrap_or(0) != 0, nulls_first: p.get(1).copied().unwrap_or(0) != 0 }) } }
fn fnv(s: &str) -> i64 { let mut h: u32 = 0x811c9dc5; for b in s.bytes() { h ^= b as u32; h = h.wrapping_mul(0x01000193) } h as i64 }
fn na() -> ArrowError { ArrowError::NotYetImplemented("n/a".into()) }
fn cast_target(code: i64, from: &DataType) -> DataType {
    match code { 0 => DataType::Utf8, 1 => DataType::LargeUtf8, 2 => DataType::Utf8View, 3 => DataType::Int64, 4 => DataType::Binary,
        5 => DataType::Dictionary(Box::new(DataType::Int32), Box::new(from.clone())), 6 => DataType::BinaryView, 7 => DataType::Float64,
        8 => DataType::Int8, 9 => DataType::UInt16, 10 => DataType::Boolean, 11 => DataType::Int32, 12 => DataType::Float32,
        13 => DataType::Decimal128(20, 3), 14 => DataType::Date32, 15 => DataType::Timestamp(TimeUnit::Millisecond, None),
        16 => DataType::Dictionary(Box::new(DataType::UInt8), Box::new(DataType::Utf8)), 17 => DataType::LargeBinary, _ => DataType::UInt64 }
}
/// pattern / needle scalar of the same string type as `x` (bytes come from the params)
fn str_scalar(x: &dyn Array, p: &[i64]) -> Result<ArrayRef, ArrowError> {
    let s = String::from_utf8(p.iter().map(|b| *b as u8).collect()).map_err(|_| na())?;
    let dt = match x.data_type() { DataType::Dictionary(_, v) => v.as_ref().clone(), d => d.clone() };
    Ok(match dt { DataType::Utf8 => Arc::new(StringArray::from(vec![s])) as ArrayRef, DataType::LargeUtf8 => Arc::new(LargeStringArray::from(vec![s])), DataType::Utf8View => Arc::new(StringViewArray::from(vec![s])), _ => return Err(na()) })
}
fn opt_col<T, F: Fn(T) -> LV>(o: Option<T>, f: F) -> Out { Out::Col(vec![match o { Some(v) => f(v), None => LV::Null }]) }

pub const K_COUNT: usize = 66;
/// whether kernel k is row-wise (commutes with row selection): 1 unary, 2 binary, 0 no
pub fn rowwise(k: usize) -> usize {
    match k { 14 | 15 | 20 | 22 | 23 | 45 | 46 | 47 | 48..=54 | 38 | 39 | 63 | 58 => 1, 6..=13 | 16..=19 | 21 | 30..=37 | 55 => 2, _ => 0 }
}
/// number of array inputs of kernel k
pub fn arity(k: usize) -> usize { match k { 2 | 3 | 5 | 6..=13 | 16..=19 | 21 | 30..=37 | 38 | 39 | 44 | 55 | 57 => 2, _ => 1 } }

pub fn kernel(k: usize, p: &[i64], ins: &[ArrayRef]) -> Result<Out, ArrowError> {
    use arrow_arith::{aggregate as ag, boolean as bo, numeric as nu};
    use arrow_ord::cmp;
    let x = &ins[0];
    let y = || -> Result<&ArrayRef, ArrowError> { ins.get(1).ok_or_else(na) };
    let xb = || -> Result<&BooleanArray, ArrowError> { x.as_boolean_opt().ok_or_else(na) };
    let yb = || -> Result<&BooleanArray, ArrowError> { y()?.as_boolean_opt().ok_or_else(na) };
    Ok(match k {
        0 => Out::Arr(arrow_select::take::take(x.as_ref(), &idx_array(p), None)?),
        1 => Out::Arr(arrow_select::filter::filter(x.as_ref(), &mask_array(p))?),
        2 => Out::Arr(arrow_select::concat::concat(&[x.as_ref(), y()?.as_ref()])?),
        3 => { let pairs: Vec<(usize, usize)> = p.chunks(2).map(|c| (c[0] as usize, c[1] as usize)).collect(); Out::Arr(arrow_select::interleave::interleave(&[x.as_ref(), y()?.as_ref()], &pairs)?) }
        4 => Out::Arr(arrow_select::nullif::nullif(x.as_ref(), &mask_array(p))?),
        5 => Out::Arr(arrow_select::zip::zip(&mask_array(p), x, y()?)?),
        6 => Out::Arr(nu::add(x, y()?)?), 7 => Out::Arr(nu::sub(x, y()?)?), 8 => Out::Arr(nu::mul(x, y()?)?), 9 => Out::Arr(nu::div(x, y()?)?), 10 => Out::Arr(nu::rem(x, y()?)?),
        11 => Out::Arr(nu::add_wrapping(x, y()?)?), 12 => Out::Arr(nu::sub_wrapping(x, y()?)?), 13 => Out::Arr(nu::mul_wrapping(x, y()?)?),
        14 => Out::Arr(nu::neg(x.as_ref())?), 15 => Out::Arr(nu::neg_wrapping(x.as_ref())?),
        16 => arr(bo::and(xb()?, yb()?)?), 17 => arr(bo::or(xb()?, yb()?)?), 18 => arr(bo::and_kleene(xb()?, yb()?)?), 19 => arr(bo::or_kleene(xb()?, yb()?)?),
        20 => arr(bo::not(xb()?)?), 21 => arr(bo::and_not(xb()?, yb()?)?),
        22 => arr(bo::is_null(x.as_ref())?), 23 => arr(bo::is_not_null(x.as_ref())?),
        24..=27 => {
            macro_rules! agg { ($t:ty) => {{ let a = x.as_primitive::<$t>(); match k {
                24 => opt_col(ag::sum(a), |v| bits(v.to_byte_slice())), 25 => opt_col(ag::min(a), |v| bits(v.to_byte_slice())),
                26 => opt_col(ag::max(a), |v| bits(v.to_byte_slice())), _ => opt_col(ag::sum_checked(a)?, |v| bits(v.to_byte_slice())) } }} }
            match x.data_type() { DataType::Int8 => agg!(Int8Type), DataType::Int16 => agg!(Int16Type), DataType::Int32 => agg!(Int32Type), DataType::Int64 => agg!(Int64Type),
                DataType::UInt8 => agg!(UInt8Type), DataType::UInt16 => agg!(UInt16Type), DataType::UInt32 => agg!(UInt32Type), DataType::UInt64 => agg!(UInt64Type),
                DataType::Float16 => agg!(Float16Type), DataType::Float32 => agg!(Float32Type), DataType::Float64 => agg!(Float64Type),
                DataType::Decimal128(_, _) => agg!(Decimal128Type), DataType::Decimal256(_, _) => agg!(Decimal256Type), _ => return Err(na()) }
        }
        28 => { let a = xb()?; Out::Col(vec![ag::min_boolean(a), ag::max_boolean(a), ag::bool_and(a), ag::bool_or(a)].into_iter().map(|o| o.map(LV::Bool).unwrap_or(LV::Null)).collect()) }
        29 => { let f = |o: Option<&[u8]>| o.map(|v| LV::Bytes(v.to_vec())).unwrap_or(LV::Null); let g = |o: Option<&str>| o.map(|v| LV::Bytes(v.as_bytes().to_vec())).unwrap_or(LV::Null);
            Out::Col(match x.data_type() {
                DataType::Utf8 => vec![g(ag::min_string(x.as_string::<i32>())), g(ag::max_string(x.as_string::<i32>()))],
                DataType::LargeUtf8 => vec![g(ag::min_string(x.as_string::<i64>())), g(ag::max_string(x.as_string::<i64>()))],
                DataType::Utf8View => vec![g(ag::min_string_view(x.as_string_view())), g(ag::max_string_view(x.as_string_view()))],
                DataType::Binary => vec![f(ag::min_binary(x.as_binary::<i32>())), f(ag::max_binary(x.as_binary::<i32>()))],
                DataType::LargeBinary => vec![f(ag::min_binary(x.as_binary::<i64>())), f(ag::max_binary(x.as_binary::<i64>()))],
                DataType::BinaryView => vec![f(ag::min_binary_view(x.as_binary_view())), f(ag::max_binary_view(x.as_binary_view()))],
                DataType::FixedSizeBinary(_) => vec![f(ag::min_fixed_size_binary(x.as_fixed_size_binary())), f(ag::max_fixed_size_binary(x.as_fixed_size_binary()))],
                _ => return Err(na()) }) }
        30 => arr(cmp::eq(x, y()?)?), 31 => arr(cmp::neq(x, y()?)?), 32 => arr(cmp::lt(x, y()?)?), 33 => arr(cmp::lt_eq(x, y()?)?),
        34 => arr(cmp::gt(x, y()?)?), 35 => arr(cmp::gt_eq(x, y()?)?), 36 => arr(cmp::distinct(x, y()?)?), 37 => arr(cmp::not_distinct(x, y()?)?),
        38 => arr(cmp::eq(x, &Scalar::new(y()?.clone()))?), 39 => arr(cmp::lt(x, &Scalar::new(y()?.clone()))?),
        40 => { let limit = p.get(2).and_then(|l| if *l < 0 { None } else { Some(*l as usize) });
                let i = arrow_ord::sort::sort_to_indices(x.as_ref(), sort_opts(p), limit)?; Out::Arr(arrow_select::take::take(x.as_ref(), &i, None)?) }
        41 => Out::Arr(arrow_ord::sort::sort(x.as_ref(), sort_opts(p))?),
        42 => Out::Col(arrow_ord::rank::rank(x.as_ref(), sort_opts(p))?.into_iter().map(|v| LV::Int(v.into())).collect()),
        43 => Out::Col(arrow_ord::partition::partition(&[x.clone()])?.ranges().into_iter().flat_map(|r| [LV::Int(r.start.into()), LV::Int(r.end.into())]).collect()),
        44 => { let cols = vec![arrow_ord::sort::SortColumn { values: x.clone(), options: sort_opts(p) }, arrow_ord::sort::SortColumn { values: y()?.clone(), options: sort_opts(&p[p.len().min(1)..]) }];
                let i = arrow_ord::sort::lexsort_to_indices(&cols, None)?;
                let a = read_lv(arrow_select::take::take(x.as_ref(), &i, None)?.as_ref(), 0).ok_or_else(na)?; let b = read_lv(arrow_select::take::take(y()?.as_ref(), &i, None)?.as_ref(), 0).ok_or_else(na)?;
                Out::Col(a.into_iter().zip(b).map(|(u, v)| LV::Struct(vec![u, v])).collect()) }
        45 => { let to = cast_target(p[0], x.data_type()); if !arrow_cast::can_cast_types(x.data_type(), &to) { return Err(na()) }
                Out::Arr(arrow_cast::cast_with_options(x.as_ref(), &to, &arrow_cast::CastOptions { safe: p.get(1).copied().unwrap_or(1) != 0, ..Default::default() })?) }
        46 => Out::Arr(arrow_string::length::length(x.as_ref())?), 47 => Out::Arr(arrow_string::length::bit_length(x.as_ref())?),
        48..=53 => { let s = Scalar::new(str_scalar(x.as_ref(), p)?); use arrow_string::like as lk;
            arr(match k { 48 => lk::like(x, &s)?, 49 => lk::ilike(x, &s)?, 50 => lk::starts_with(x, &s)?, 51 => lk::ends_with(x, &s)?, 52 => lk::contains(x, &s)?, _ => lk::nlike(x, &s)? }) }
        54 => Out::Arr(arrow_string::substring::substring(x.as_ref(), p[0], if p[1] < 0 { None } else { Some(p[1] as u64) })?),
        55 => Out::Arr(arrow_string::concat_elements::concat_elements_dyn(x.as_ref(), y()?.as_ref())?),
        56 | 57 => { let cols: Vec<ArrayRef> = if k == 56 { vec![x.clone()] } else { vec![x.clone(), y()?.clone()] };
            let conv = arrow_row::RowConverter::new(cols.iter().map(|c| arrow_row::SortField::new_with_options(c.data_type().clone(), sort_opts(p).unwrap_or_default())).collect())?;
            let rows = conv.convert_columns(&cols)?; Out::Col(rows.iter().map(|r| LV::Bytes(r.as_ref().to_vec())).collect()) }
        58 => { let opts = arrow_cast::display::FormatOptions::default().with_null("NULL"); let f = arrow_cast::display::ArrayFormatter::try_new(x.as_ref(), &opts)?;
            let mut out = Vec::new(); for i in 0..x.len() { out.push(LV::Bytes(f.value(i).try_to_string()?.into_bytes())) } Out::Col(out) }
        59 => Out::Arr(arrow_select::window::shift(x.as_ref(), p[0])?),
        60 => Out::Arr(arrow_ord::sort::sort_limit(x.as_ref(), sort_opts(p), Some(p.get(2).copied().unwrap_or(1).max(0) as usize))?),
        61 => Out::Col(vec![LV::Int(x.logical_null_count().into()), LV::Int(x.len().into()), LV::Bool(x.is_empty())]),
        62 => { let o = (p[0] as usize).min(x.len()); let l = (p[1] as usize).min(x.len() - o); Out::Arr(x.slice(o, l)) }
        63 => { use arrow_arith::temporal::{date_part, DatePart as D}; let part = [D::Year, D::Month, D::Day, D::Hour, D::Minute, D::Second, D::DayOfWeekSunday0, D::DayOfYear, D::Week, D::Quarter, D::Nanosecond][(p[0] as usize) % 11];
            Out::Arr(date_part(x.as_ref(), part)?) }
        64 => { Out::Arr(arrow_select::concat::concat(&[x.as_ref(), x.as_ref()])?) }
        65 => { // MutableArrayData extend over ranges
            let d = x.to_data(); let mut m = arrow_data::transform::MutableArrayData::new(vec![&d], true, 0);
            for c in p.chunks(2) { if c[0] < 0 { m.extend_nulls(c[1] as usize) } else { let s = (c[0] as usize).min(d.len()); let e = (c[1] as usize).clamp(s, d.len()); m.extend(0, s, e) } }
            Out::Arr(make_array(m.freeze())) }
        _ => return Err(na()),
    })
}

/// outcome group: Ok -> 1 typehash column... ; Err -> -1 ; panic -> -8
pub fn outcome(k: usize, p: &[i64], ins: &[ArrayRef]) -> Group {
    let r = std::panic::catch_unwind(std::panic::AssertUnwindSafe(|| kernel(k, p, ins)));
    match r {
        Err(e) => { if std::env::var("VERIF_PANIC_MSG").is_ok() { let m = e.downcast_ref::<String>().cloned().or_else(|| e.downcast_ref::<&str>().map(|s| s.to_string())).unwrap_or_default(); eprintln!("kernel {k} panic: {m}") } vec![BigInt::from(-8)] }
        Ok(Err(e)) => { if std::env::var("VERIF_PANIC_MSG").is_ok() { eprintln!("kernel {k} error: {e}") } vec![BigInt::from(-1)] }
        Ok(Ok(Out::Col(c))) => { let mut g: Group = vec![1.into(), 0.into()]; g.extend(enc_col(&c)); g }
        // reading the result back may itself panic when a kernel returned a malformed array: outcome -9
        Ok(Ok(Out::Arr(a))) => match std::panic::catch_unwind(std::panic::AssertUnwindSafe(|| read_lv(a.as_ref(), 0))) {
            Ok(Some(c)) => { let mut g: Group = vec![1.into(), fnv(&format!("{:?}", logical_type(a.data_type()))).into()]; g.extend(enc_col(&c)); g }
            Ok(None) => vec![BigInt::from(-2)],
            Err(_) => vec![BigInt::from(-9)],
        },
    }
}
/// result type up to encoding choices the property does not fix (dictionary / run-end wrappers are
/// part of the type; field names and metadata are kept)
fn logical_type(dt: &DataType) -> DataType { dt.clone() }

fn decode_n(a: &Args, start: usize, n: usize) -> Vec<Node> { let rest: Args = a[start..].to_vec(); let mut p = 0; (0..n).map(|_| c09::decode(&rest, &mut p)).collect() }

pub fn run(op: &str, a: &Args) -> Option<Args> {
    if std::env::var("VERIF_PANIC_MSG").is_ok() {
        // debugging aid: show the panic message of a replayed case
        return match std::panic::catch_unwind(std::panic::AssertUnwindSafe(|| run_inner(op, a))) {
            Ok(o) => o,
            Err(e) => { let m = e.downcast_ref::<String>().cloned().or_else(|| e.downcast_ref::<&str>().map(|s| s.to_string())).unwrap_or_default(); eprintln!("panic in {op}: {m}"); std::panic::resume_unwind(e) }
        };
    }
    run_inner(op, a)
}
fn run_inner(op: &str, a: &Args) -> Option<Args> {
    let h = to_i64s(&a[0]);
    match op {
        // [path; fl; mode] tree -> logical column read through the real accessors / iterators
        "c02.logical" => {
            let node = decode_n(a, 1, 1).remove(0);
            let Some(arr) = build(&node, h[1] as usize, h[0] as usize) else { return Some(skip()) };
            Some(match read_lv(arr.as_ref(), h[2] as usize) { Some(c) => vec![enc_col(&c)], None => skip() })
        }
        // [pathA; fl; pathB; level] treeA treeB -> a == b   (level 0: ArrayData ==, 1: dyn Array ==)
        "c02.eq" => {
            let nodes = decode_n(a, 1, 2);
            let fl = h[1] as usize;
            if h[3] == 0 {
                let (Some(x), Some(y)) = (build_data(&nodes[0], fl), build_data(&nodes[1], fl)) else { return Some(skip()) };
                Some(vec![g((x == y) as u8)])
            } else {
                let (Some(x), Some(y)) = (build(&nodes[0], fl, h[0] as usize), build(&nodes[1], fl, h[2] as usize)) else { return Some(skip()) };
                Some(vec![g((x.as_ref() == y.as_ref()) as u8)])
            }
        }
        // [path; fl; mode; o; n] tree -> logical column of Array::slice(o, n)
        "c02.slice" => {
            let node = decode_n(a, 1, 1).remove(0);
            let Some(arr) = build(&node, h[1] as usize, h[0] as usize) else { return Some(skip()) };
            let (o, n) = (h[3] as usize, h[4] as usize);
            if o + n > arr.len() { return Some(skip()) }
            let s = if h[5] == 1 { make_array(arr.to_data().slice(o, n)) } else { arr.slice(o, n) };
            Some(match read_lv(s.as_ref(), h[2] as usize) { Some(c) => vec![enc_col(&c)], None => skip() })
        }
        // [kind; w; large; utf8] [column] -> logical column read back from the builder-made array / its physical dump
        "c02.build" | "c02.buildphys" => {
            let vs = dec_col(&a[1]);
            let arr = build_with_builders(h[0], h[1] as usize, h[2] != 0, h[3] != 0, &vs)?;
            if op == "c02.build" { Some(vec![enc_col(&read_lv(arr.as_ref(), (h.get(4).copied().unwrap_or(0)) as usize)?)]) }
            else { let mut out = Args::new(); c09::encode(&from_data(&arr.to_data())?, &mut out); Some(out) }
        }
        // builder call SEQUENCES: [kind; w; large; utf8; mode; block; dedup] ([step; src; pre] [column])* -> column read back
        "c02.buildseq" => {
            let steps: Vec<(Vec<i64>, Vec<LV>)> = a[1..].chunks(2).filter(|c| c.len() == 2).map(|c| (to_i64s(&c[0]), dec_col(&c[1]))).collect();
            let arr = build_sequence(&h, &steps)?;
            Some(vec![enc_col(&read_lv(arr.as_ref(), h[4] as usize)?)])
        }
        // [k; fl; nreal; nin; npar; paths...] params tree*(nreal*nin) -> outcome per realisation
        "c02.congr" => {
            let (k, fl, nreal, nin, npar) = (h[0] as usize, h[1] as usize, h[2] as usize, h[3] as usize, h[4] as usize);
            let p = to_i64s(&a[1]);
            let nodes = decode_n(a, 1 + npar, nreal * nin);
            let mut outs = Args::new();
            for r in 0..nreal {
                let mut ins = Vec::new();
                for j in 0..nin { let Some(x) = build(&nodes[r * nin + j], fl, h[5 + r * nin + j] as usize) else { return Some(skip()) }; ins.push(x) }
                outs.push(outcome(k, &p, &ins));
            }
            Some(outs)
        }
        // [k; fl; sel; nin; npar; paths...] params sel-params tree*nin -> [K(sel(x))] [sel(K(x))]   (skip when the latter fails)
        "c02.commute" => {
            let (k, fl, sel, nin, npar) = (h[0] as usize, h[1] as usize, h[2], h[3] as usize, h[4] as usize);
            let p = to_i64s(&a[1]); let sp = to_i64s(&a[2]);
            let nodes = decode_n(a, 1 + npar, nin);
            let mut ins = Vec::new();
            for j in 0..nin { let Some(x) = build(&nodes[j], fl, h[5 + j] as usize) else { return Some(skip()) }; ins.push(x) }
            let nk = rowwise(k); if nk == 0 { return Some(skip()) }
            // row-wise operands (scalars of kernels 38/39 and patterns stay fixed)
            let scalar: Vec<ArrayRef> = if k == 38 || k == 39 { vec![ins[1].clone()] } else { vec![] };
            let apply = |xs: &[ArrayRef]| -> Result<ArrayRef, ArrowError> { let mut v = xs.to_vec(); v.extend(scalar.iter().cloned());
                match kernel(k, &p, &v)? { Out::Arr(a) => Ok(a), Out::Col(c) => Ok(Arc::new(BinaryArray::from_iter(c.iter().map(|x| match x { LV::Bytes(b) => Some(b.clone()), _ => None }))) as ArrayRef) } };
            let select = |x: &ArrayRef, x2: Option<&ArrayRef>| -> Result<ArrayRef, ArrowError> { match sel {
                0 => arrow_select::take::take(x.as_ref(), &idx_array(&sp), None),
                1 => { let o = (sp[0] as usize).min(x.len()); let l = (sp[1] as usize).min(x.len() - o); Ok(x.slice(o, l)) }
                2 => arrow_select::concat::concat(&[x.as_ref(), x2.ok_or_else(na)?.as_ref()]),
                _ => arrow_select::filter::filter(x.as_ref(), &mask_array(&sp)) } };
            let res = std::panic::catch_unwind(std::panic::AssertUnwindSafe(|| -> Option<(Group, Group)> {
                // operands: unary [x (x2)] ; binary [x y (x2 y2)]
                let firsts: Vec<ArrayRef> = ins[..nk].to_vec();
                let seconds: Option<Vec<ArrayRef>> = if sel == 2 { Some(ins[ins.len() - nk..].to_vec()) } else { None };
                let k1 = apply(&firsts).ok()?;
                let rhs = match &seconds { Some(s2) => { let k2 = apply(s2).ok()?; select(&k1, Some(&k2)).ok()? } None => select(&k1, None).ok()? };
                let mut sel_ins = Vec::new();
                for j in 0..nk { sel_ins.push(select(&firsts[j], seconds.as_ref().map(|s| &s[j])).ok()?) }
                let lhs = match std::panic::catch_unwind(std::panic::AssertUnwindSafe(|| apply(&sel_ins))) {
                    Ok(Ok(a)) => { let mut g: Group = vec![1.into(), fnv(&format!("{:?}", a.data_type())).into()]; g.extend(enc_col(&read_lv(a.as_ref(), 0)?)); g }
                    Ok(Err(_)) => vec![BigInt::from(-1)], Err(_) => vec![BigInt::from(-8)] };
                let mut gr: Group = vec![1.into(), fnv(&format!("{:?}", rhs.data_type())).into()]; gr.extend(enc_col(&read_lv(rhs.as_ref(), 0)?));
                Some((lhs, gr))
            })).unwrap_or(None);
            Some(match res { Some((l, r)) => vec![l, r], None => skip() })
        }
        _ => None,
    }
}

/// One builder, a SEQUENCE of calls, then finish.  Steps: 0 element-wise append_value / append_option / append_null,
/// 1 append_array of a source array (src 0: made by a default builder, 1: made with tiny data blocks / sliced out
/// of a longer array, `pre` leading elements cut off), 2 extend(iterator of Option), 3 bulk append_values / append_nulls.
/// kind 0 prim (w, unsigned, float), 1 bool, 2 bin (large, utf8), 3 fixedbin (w), 4 view (utf8; block size, dedup).
fn build_sequence(h: &[i64], steps: &[(Vec<i64>, Vec<LV>)]) -> Option<ArrayRef> {
    fn u(z: &BigInt) -> u128 { u128::try_from(z).unwrap() }
    let (kind, w, large, utf8) = (h[0], h[1] as usize, h[2] != 0, h[3] != 0);
    // the source column of an append_array step: `pre` leading elements (taken from the column itself) are sliced away
    let with_pre = |st: &[i64], col: &[LV]| -> (Vec<LV>, usize) { let k = if st[1] == 1 && !col.is_empty() { (st[2] as usize).min(col.len()) } else { 0 }; let mut v: Vec<LV> = col[..k].to_vec(); v.extend(col.iter().cloned()); (v, k) };
    Some(match kind {
        0 => {
            macro_rules! pb { ($t:ty, $conv:expr) => {{
                let fill = |b: &mut PrimitiveBuilder<$t>, col: &[LV]| { for (i, v) in col.iter().enumerate() { match v { LV::Int(z) => if i % 2 == 0 { b.append_value($conv(u(z))) } else { b.append_option(Some($conv(u(z)))) }, _ => if i % 3 == 0 { b.append_option(None) } else { b.append_null() } } } };
                let mut b = PrimitiveBuilder::<$t>::new();
                for (st, col) in steps { match st[0] {
                    1 => { let (src, k) = with_pre(st, col); let mut sb = PrimitiveBuilder::<$t>::new(); fill(&mut sb, &src); b.append_array(&sb.finish().slice(k, col.len())) }
                    2 => b.extend(col.iter().map(|v| match v { LV::Int(z) => Some($conv(u(z))), _ => None })),
                    3 => { if col.iter().all(|v| *v == LV::Null) { b.append_nulls(col.len()) } else if col.iter().all(|v| *v != LV::Null) { b.append_slice(&col.iter().map(|v| match v { LV::Int(z) => $conv(u(z)), _ => Default::default() }).collect::<Vec<_>>()) }
                           else { b.append_values(&col.iter().map(|v| match v { LV::Int(z) => $conv(u(z)), _ => Default::default() }).collect::<Vec<_>>(), &col.iter().map(|v| *v != LV::Null).collect::<Vec<bool>>()) } }
                    _ => fill(&mut b, col),
                } }
                Arc::new(b.finish()) as ArrayRef }} }
            match (w, large, utf8) {
                (1, true, _) => pb!(UInt8Type, |x: u128| x as u8), (2, false, false) => pb!(Int16Type, |x: u128| x as u16 as i16), (4, false, false) => pb!(Int32Type, |x: u128| x as u32 as i32),
                (8, false, false) => pb!(Int64Type, |x: u128| x as u64 as i64), (8, false, true) => pb!(Float64Type, |x: u128| f64::from_bits(x as u64)), (16, _, _) => pb!(Decimal128Type, |x: u128| x as i128), _ => return None }
        }
        1 => {
            let fill = |b: &mut BooleanBuilder, col: &[LV]| { for (i, v) in col.iter().enumerate() { match v { LV::Bool(x) => if i % 2 == 0 { b.append_value(*x) } else { b.append_option(Some(*x)) }, _ => b.append_null() } } };
            let mut b = BooleanBuilder::new();
            for (st, col) in steps { match st[0] {
                1 => { let (src, k) = with_pre(st, col); let mut sb = BooleanBuilder::new(); fill(&mut sb, &src); b.append_array(&sb.finish().slice(k, col.len())) }
                2 => b.extend(col.iter().map(|v| match v { LV::Bool(x) => Some(*x), _ => None })),
                3 => { if col.iter().all(|v| *v == LV::Null) { b.append_nulls(col.len()) } else if col.iter().all(|v| *v != LV::Null) { b.append_slice(&col.iter().map(|v| matches!(v, LV::Bool(true))).collect::<Vec<bool>>()) }
                       else { b.append_values(&col.iter().map(|v| matches!(v, LV::Bool(true))).collect::<Vec<bool>>(), &col.iter().map(|v| *v != LV::Null).collect::<Vec<bool>>()).ok()? } }
                _ => fill(&mut b, col),
            } }
            Arc::new(b.finish())
        }
        2 => {
            macro_rules! bb { ($b:ty, $conv:expr) => {{
                let fill = |b: &mut $b, col: &[LV]| { for (i, v) in col.iter().enumerate() { match v { LV::Bytes(x) => if i % 2 == 0 { b.append_value($conv(x)) } else { b.append_option(Some($conv(x))) }, _ => b.append_null() } } };
                let mut b = <$b>::new();
                for (st, col) in steps { match st[0] {
                    1 => { let (src, k) = with_pre(st, col); let mut sb = <$b>::new(); fill(&mut sb, &src); b.append_array(&sb.finish().slice(k, col.len())).ok()? }
                    2 => b.extend(col.iter().map(|v| match v { LV::Bytes(x) => Some($conv(x)), _ => None })),
                    3 => { if col.iter().all(|v| *v == LV::Null) { b.append_nulls(col.len()) } else { fill(&mut b, col) } }
                    _ => fill(&mut b, col),
                } }
                Arc::new(b.finish()) as ArrayRef }} }
            match (large, utf8) { (false, false) => bb!(BinaryBuilder, |x: &Vec<u8>| x.clone()), (true, false) => bb!(LargeBinaryBuilder, |x: &Vec<u8>| x.clone()),
                (false, true) => bb!(StringBuilder, |x: &Vec<u8>| String::from_utf8(x.clone()).unwrap()), (true, true) => bb!(LargeStringBuilder, |x: &Vec<u8>| String::from_utf8(x.clone()).unwrap()) }
        }
        3 => {
            let fill = |b: &mut FixedSizeBinaryBuilder, col: &[LV]| -> Option<()> { for v in col { match v { LV::Bytes(x) => b.append_value(x).ok()?, _ => b.append_null() } } Some(()) };
            let mut b = FixedSizeBinaryBuilder::new(w as i32);
            for (st, col) in steps { match st[0] {
                1 => { let (src, k) = with_pre(st, col); let mut sb = FixedSizeBinaryBuilder::new(w as i32); fill(&mut sb, &src)?; b.append_array(&sb.finish().slice(k, col.len())).ok()? }
                3 if col.iter().all(|v| *v == LV::Null) => b.append_nulls(col.len()),
                _ => fill(&mut b, col)?,
            } }
            Arc::new(b.finish())
        }
        4 => {
            macro_rules! vb { ($b:ty, $conv:expr) => {{
                let fill = |b: &mut $b, col: &[LV]| { for (i, v) in col.iter().enumerate() { match v { LV::Bytes(x) => if i % 2 == 0 { b.append_value($conv(x)) } else { b.append_option(Some($conv(x))) }, _ => b.append_null() } } };
                let mut b = <$b>::new(); if h[5] > 0 { b = b.with_fixed_block_size(h[5] as u32) } if h[6] != 0 { b = b.with_deduplicate_strings() }
                for (st, col) in steps { match st[0] {
                    // the appended array carries its own data buffers: one (default builder) or many (16-byte blocks), possibly sliced
                    1 => { let (src, k) = with_pre(st, col); let mut sb = <$b>::new(); if st[1] == 1 { sb = sb.with_fixed_block_size(16) } fill(&mut sb, &src); b.append_array(&sb.finish().slice(k, col.len())) }
                    2 => b.extend(col.iter().map(|v| match v { LV::Bytes(x) => Some($conv(x)), _ => None })),
                    _ => fill(&mut b, col),
                } }
                Arc::new(b.finish()) as ArrayRef }} }
            if utf8 { vb!(StringViewBuilder, |x: &Vec<u8>| String::from_utf8(x.clone()).unwrap()) } else { vb!(BinaryViewBuilder, |x: &Vec<u8>| x.clone()) }
        }
        _ => return None,
    })
}

/// the real builders (append_value / append_null / append_option), kind 0 prim (w = width, large = unsigned, utf8 = float), 1 bool, 2 bin, 3 fixedbin
fn build_with_builders(kind: i64, w: usize, large: bool, utf8: bool, vs: &[LV]) -> Option<ArrayRef> {
    fn u(z: &BigInt) -> u128 { u128::try_from(z).unwrap() }
    Some(match kind {
        0 => {
            macro_rules! pb { ($t:ty, $conv:expr) => {{ let mut b = PrimitiveBuilder::<$t>::new(); for (i, v) in vs.iter().enumerate() { match v { LV::Int(z) => if i % 2 == 0 { b.append_value($conv(u(z))) } else { b.append_option(Some($conv(u(z)))) }, _ => if i % 3 == 0 { b.append_option(None) } else { b.append_null() } } } Arc::new(b.finish()) as ArrayRef }} }
            match (w, large, utf8) {
                (1, false, _) => pb!(Int8Type, |x: u128| x as u8 as i8), (2, false, false) => pb!(Int16Type, |x: u128| x as u16 as i16), (4, false, false) => pb!(Int32Type, |x: u128| x as u32 as i32), (8, false, false) => pb!(Int64Type, |x: u128| x as u64 as i64),
                (1, true, _) => pb!(UInt8Type, |x: u128| x as u8), (2, true, _) => pb!(UInt16Type, |x: u128| x as u16), (4, true, _) => pb!(UInt32Type, |x: u128| x as u32), (8, true, _) => pb!(UInt64Type, |x: u128| x as u64),
                (2, false, true) => pb!(Float16Type, |x: u128| half::f16::from_bits(x as u16)), (4, false, true) => pb!(Float32Type, |x: u128| f32::from_bits(x as u32)), (8, false, true) => pb!(Float64Type, |x: u128| f64::from_bits(x as u64)),
                (16, _, _) => pb!(Decimal128Type, |x: u128| x as i128), _ => return None }
        }
        1 => { let mut b = BooleanBuilder::new(); for v in vs { match v { LV::Bool(x) => b.append_value(*x), _ => b.append_null() } } Arc::new(b.finish()) }
        2 => { macro_rules! bb { ($b:ty, $conv:expr) => {{ let mut b = <$b>::new(); for (i, v) in vs.iter().enumerate() { match v { LV::Bytes(x) => if i % 2 == 0 { b.append_value($conv(x)) } else { b.append_option(Some($conv(x))) }, _ => b.append_null() } } Arc::new(b.finish()) as ArrayRef }} }
            match (large, utf8) { (false, false) => bb!(BinaryBuilder, |x: &Vec<u8>| x.clone()), (true, false) => bb!(LargeBinaryBuilder, |x: &Vec<u8>| x.clone()),
                (false, true) => bb!(StringBuilder, |x: &Vec<u8>| String::from_utf8(x.clone()).unwrap()), (true, true) => bb!(LargeStringBuilder, |x: &Vec<u8>| String::from_utf8(x.clone()).unwrap()) } }
        3 => { let mut b = FixedSizeBinaryBuilder::new(w as i32); for v in vs { match v { LV::Bytes(x) => b.append_value(x).ok()?, _ => b.append_null() } } Arc::new(b.finish()) }
        _ => return None,
    })
}

// ------------------------------------------------------------------ generator: logical columns and their physical realisations
fn nb_get(x: &Nulls, i: usize) -> bool { (x.bytes[(x.off + i) / 8] >> ((x.off + i) % 8)) & 1 == 1 }
fn nb_set(x: &mut Nulls, i: usize, v: bool) { let (b, m) = ((x.off + i) / 8, 1u8 << ((x.off + i) % 8)); if v { x.bytes[b] |= m } else { x.bytes[b] &= !m } }
fn nb_recount(x: &mut Nulls) { x.count = (0..x.len).filter(|i| !nb_get(x, *i)).count() }
fn slot_valid(n: &Node, i: usize) -> bool { n.nulls.as_ref().map_or(true, |x| i >= x.len || nb_get(x, i)) }
fn rd_le(b: &[u8], w: usize, i: usize) -> i64 { let mut v: i64 = 0; for k in (0..w.min(8)).rev() { v = (v << 8) | b[i * w + k] as i64 } if w < 8 && v >> (8 * w - 1) & 1 == 1 { v -= 1 << (8 * w) } v }
fn ty_head(t: &Ty) -> String {
    match t { Ty::Null => "null".into(), Ty::Bool => "bool".into(), Ty::Fixed(w) => format!("fx{w}"), Ty::FixedBin(_) => "fsb".into(), Ty::Bin { large, utf8 } => format!("bin{}{}", *large as u8, *utf8 as u8),
        Ty::View { utf8 } => format!("view{}", *utf8 as u8), Ty::List { c, .. } => format!("list<{}>", ty_head(c)), Ty::ListView { c, .. } => format!("lview<{}>", ty_head(c)), Ty::FixedList { c, .. } => format!("fsl<{}>", ty_head(c)),
        Ty::Struct(_) => "struct".into(), Ty::Dict { v, .. } => format!("dict<{}>", ty_head(v)), Ty::Ree { v, .. } => format!("ree<{}>", ty_head(v)), Ty::Union { .. } => "union".into() }
}
fn has_union(t: &Ty) -> bool {
    match t { Ty::Union { .. } => true, Ty::List { c, .. } | Ty::ListView { c, .. } | Ty::FixedList { c, .. } => has_union(c), Ty::Dict { v, .. } | Ty::Ree { v, .. } => has_union(v), Ty::Struct(fs) => fs.iter().any(|(_, t)| has_union(t)), _ => false }
}
fn contains_ty(t: &Ty, f: &dyn Fn(&Ty) -> bool) -> bool {
    f(t) || match t { Ty::List { c, .. } | Ty::ListView { c, .. } | Ty::FixedList { c, .. } => contains_ty(c, f), Ty::Dict { v, .. } | Ty::Ree { v, .. } => contains_ty(v, f), Ty::Struct(fs) => fs.iter().any(|(_, t)| contains_ty(t, f)), _ => false }
}

/// garbage under null slots: the payload of every null slot (recursively: the child slots it owns) is re-randomised
fn scramble_payload(r: &mut Rng, n: &mut Node, i: usize) {
    let p = n.off + i;
    match n.ty.clone() {
        Ty::Bool => { if p / 8 < n.bufs[0].len() && r.bool() { n.bufs[0][p / 8] ^= 1 << (p % 8) } }
        Ty::Fixed(w) => { for k in 0..w { n.bufs[0][p * w + k] = r.next() as u8 } }
        Ty::FixedBin(s) => { let s = s as usize; for k in 0..s { n.bufs[0][p * s + k] = r.next() as u8 } }
        Ty::Bin { large, utf8 } => { let w = if large { 8 } else { 4 }; if n.bufs[0].len() >= (p + 2) * w { let (s, e) = (rd_le(&n.bufs[0], w, p) as usize, rd_le(&n.bufs[0], w, p + 1) as usize);
            for k in s..e.min(n.bufs[1].len()) { n.bufs[1][k] = if utf8 { b'a' + (r.next() % 26) as u8 } else { r.next() as u8 } } } }
        Ty::View { utf8 } => { let b = &mut n.bufs[0][p * 16..p * 16 + 16]; let len = u32::from_le_bytes(b[..4].try_into().unwrap()); if len <= 12 { let nl = r.below(13); for k in 0..16 { b[k] = 0 } b[0] = nl as u8; for k in 0..nl { b[4 + k] = if utf8 { b'a' + (r.next() % 26) as u8 } else { r.next() as u8 } } } }
        Ty::List { large, nullable, .. } => { let w = if large { 8 } else { 4 }; if n.bufs[0].len() >= (p + 2) * w { let (s, e) = (rd_le(&n.bufs[0], w, p) as usize, rd_le(&n.bufs[0], w, p + 1) as usize);
            for j in s..e.min(n.kids[0].len) { scramble_slot(r, &mut n.kids[0], j, nullable) } } }
        Ty::FixedList { n: s, nullable, .. } => { let s = s as usize; for j in p * s..(p + 1) * s { if j < n.kids[0].len { scramble_slot(r, &mut n.kids[0], j, nullable) } } }
        Ty::Struct(fs) => { for (k, (nb, _)) in fs.iter().enumerate() { if p < n.kids[k].len { scramble_slot(r, &mut n.kids[k], p, *nb) } } }
        Ty::Dict { kw, .. } => { let dlen = n.kids[0].len; if !slot_valid(n, i) { for k in 0..kw { n.bufs[0][p * kw + k] = r.next() as u8 } } else if dlen > 0 { let v = r.below(dlen.min(100)); for k in 0..kw { n.bufs[0][p * kw + k] = if k == 0 { v as u8 } else { 0 } } } }
        _ => {}
    }
}
fn scramble_slot(r: &mut Rng, n: &mut Node, i: usize, may_null: bool) {
    // a slot nobody can see: its validity bit may change too (when nulls are allowed there and the payload stays well formed)
    let dict_empty = matches!(n.ty, Ty::Dict { .. }) && n.kids[0].len == 0;
    if may_null && !dict_empty { if let Some(x) = &mut n.nulls { if i < x.len && r.bool() { let v = r.bool(); nb_set(x, i, v); nb_recount(x) } } }
    scramble_payload(r, n, i);
}
pub fn scramble(r: &mut Rng, n: &mut Node) {
    for i in 0..n.len { if !slot_valid(n, i) && r.chance(3, 4) { scramble_payload(r, n, i) } }
    let skip_first = matches!(n.ty, Ty::Ree { .. });
    for (j, k) in n.kids.iter_mut().enumerate() { if !(skip_first && j == 0) { scramble(r, k) } }
}
/// validity buffer absent <-> present with every bit set; or re-packed at another bit offset with junk around
pub fn toggle_validity(r: &mut Rng, n: &mut Node) {
    if !matches!(n.ty, Ty::Null | Ty::Ree { .. } | Ty::Union { .. }) {
        match &n.nulls {
            None => if r.chance(1, 2) { let off = r.below(11); let extra = r.below(2); let mut bytes = vec![0xFFu8; (off + n.len + 7) / 8 + extra];
                for b in 0..off.min(bytes.len() * 8) { if r.bool() { bytes[b / 8] &= !(1 << (b % 8)) } }
                n.nulls = Some(Nulls { bytes, off, len: n.len, count: 0 }) }
            Some(x) => if x.count == 0 && r.chance(1, 2) { n.nulls = None } else if r.chance(1, 2) {
                let off = r.below(11); let extra = r.below(2); let mut bytes = r.bytes((off + x.len + 7) / 8 + extra);
                let mut y = Nulls { bytes: std::mem::take(&mut bytes), off, len: x.len, count: x.count };
                for i in 0..x.len { let v = nb_get(x, i); nb_set(&mut y, i, v) }
                n.nulls = Some(y) }
        }
    }
    let skip_first = matches!(n.ty, Ty::Ree { .. });
    for (j, k) in n.kids.iter_mut().enumerate() { if !(skip_first && j == 0) { toggle_validity(r, k) } }
}
/// views re-split across a different set of data buffers (junk gaps, shared bytes)
pub fn resplit_views(r: &mut Rng, n: &mut Node) {
    if let Ty::View { .. } = n.ty {
        let slots = n.bufs[0].len() / 16;
        let old: Vec<Vec<u8>> = n.bufs[1..].to_vec();
        let nb = 1 + r.below(3);
        let mut data: Vec<Vec<u8>> = (0..nb).map(|_| { let k = r.below(5); r.bytes(k) }).collect();
        let mut placed: Vec<(Vec<u8>, usize, usize)> = Vec::new();
        for i in 0..slots {
            let b = n.bufs[0][i * 16..i * 16 + 16].to_vec();
            let len = u32::from_le_bytes(b[..4].try_into().unwrap()) as usize;
            if len <= 12 { continue }
            let bi = u32::from_le_bytes(b[8..12].try_into().unwrap()) as usize; let o = u32::from_le_bytes(b[12..16].try_into().unwrap()) as usize;
            if bi >= old.len() || o + len > old[bi].len() { continue }
            let s = old[bi][o..o + len].to_vec();
            let (nbi, no) = match placed.iter().find(|(t, _, _)| *t == s) { Some((_, x, y)) if r.bool() => (*x, *y), _ => { let x = r.below(nb); let y = data[x].len(); data[x].extend_from_slice(&s); let junk = r.below(3); data[x].extend(r.bytes(junk)); placed.push((s.clone(), x, y)); (x, y) } };
            n.bufs[0][i * 16 + 8..i * 16 + 12].copy_from_slice(&(nbi as u32).to_le_bytes());
            n.bufs[0][i * 16 + 12..i * 16 + 16].copy_from_slice(&(no as u32).to_le_bytes());
        }
        n.bufs.truncate(1); n.bufs.extend(data);
    }
    let skip_first = matches!(n.ty, Ty::Ree { .. });
    for (j, k) in n.kids.iter_mut().enumerate() { if !(skip_first && j == 0) { resplit_views(r, k) } }
}

// ---- logical value generators
fn int_bits(v: i128, w: usize) -> LV { let m = BigInt::from(1) << (8 * w); LV::Int(((BigInt::from(v) % &m) + &m) % &m) }
fn gen_scalar(r: &mut Rng, t: &Ty, fl: usize) -> LV {
    match t {
        Ty::Null => LV::Null,
        Ty::Bool => LV::Bool(r.bool()),
        Ty::Fixed(w) => {
            let w = *w;
            if fl == 2 && (w == 4 || w == 8 || w == 2) {
                let f = *r.pick(&[0.0f64, -0.0, 1.0, -1.0, 1.5, 2.0, 3.25, 100.0, -7.5, 1e10, 1e-10, f64::NAN, f64::INFINITY, f64::NEG_INFINITY, f64::MAX, f64::MIN_POSITIVE, 0.1, 0.2, 16777217.0]);
                return match w { 8 => LV::Int(f.to_bits().into()), 4 => LV::Int((f as f32).to_bits().into()), _ => LV::Int(half::f16::from_f64(f).to_bits().into()) };
            }
            let bits = 8 * w.min(16) as u32; let signed = fl != 1;
            let (mn, mx): (i128, i128) = if w >= 16 { (i128::MIN / 4, i128::MAX / 4) } else if signed { (-(1i128 << (bits - 1)), (1i128 << (bits - 1)) - 1) } else { (0, (1i128 << bits) - 1) };
            let v = match r.below(12) { 0 => 0, 1 => 1, 2 => mx, 3 => mn, 4 => mx - 1, 5 => mn + 1, 6 => 2, 7 => if signed { -1 } else { 3 }, 8 => r.range(-5, 5) as i128, 9 => r.range(-100, 100) as i128, 10 => (r.next() as i128) % (mx / 3 + 1), _ => r.range(0, 20) as i128 };
            int_bits(v.clamp(mn, mx), w)
        }
        Ty::FixedBin(n) => LV::Bytes(r.bytes(*n as usize)),
        Ty::Bin { utf8, .. } | Ty::View { utf8 } => {
            let long = matches!(t, Ty::View { .. }) && r.chance(1, 3);
            let alpha = ["a", "b", "c", "ab", "A", "é", "ß", "€", "😀", "", "%", "_", "xyz", "0", "12", " ", "abcabc", "\u{7ff}", "\u{10000}"];
            let mut s = Vec::new(); let k = r.below(4) + if long { 5 } else { 0 };
            for _ in 0..k { if *utf8 { s.extend_from_slice(r.pick(&alpha).as_bytes()) } else { let q = r.below(4); s.extend(r.bytes(q)) } }
            if long { while s.len() <= 12 { s.extend_from_slice(b"pad") } }
            LV::Bytes(s)
        }
        Ty::List { nullable, c, .. } | Ty::ListView { nullable, c, .. } => { let k = r.below(4); LV::List((0..k).map(|_| gen_elem(r, c, fl, *nullable)).collect()) }
        Ty::FixedList { n, nullable, c } => LV::List((0..*n).map(|_| gen_elem(r, c, fl, *nullable)).collect()),
        Ty::Struct(fs) => LV::Struct(fs.iter().map(|(nb, t)| gen_elem(r, t, fl, *nb)).collect()),
        Ty::Dict { v, .. } | Ty::Ree { v, .. } => gen_scalar(r, v, fl),
        Ty::Union { .. } => LV::Null,
    }
}
fn gen_elem(r: &mut Rng, t: &Ty, fl: usize, nullable: bool) -> LV { if nullable && r.chance(1, 5) { LV::Null } else { gen_scalar(r, t, fl) } }
/// a logical column; nullp: 0 no nulls, 1 few, 2 half, 3 all null
pub fn gen_lv(r: &mut Rng, t: &Ty, fl: usize, len: usize, nullp: usize) -> Vec<LV> {
    let pool: Vec<LV> = (0..1 + r.below(4)).map(|_| gen_scalar(r, t, fl)).collect();
    let repeat = matches!(t, Ty::Dict { .. } | Ty::Ree { .. }) || r.chance(1, 4);
    let mut out: Vec<LV> = Vec::with_capacity(len);
    for i in 0..len {
        let null = match nullp { 0 => false, 1 => r.chance(1, 8), 2 => r.bool(), _ => true };
        let v = if null || matches!(t, Ty::Null) { LV::Null } else if matches!(t, Ty::Ree { .. }) && i > 0 && r.chance(2, 3) { out[i - 1].clone() } else if repeat { r.pick(&pool).clone() } else { gen_scalar(r, t, fl) };
        out.push(v);
    }
    out
}

// ---- realisations
#[derive(Clone)]
pub struct Col { pub ty: Ty, pub fl: usize, pub lv: Vec<LV>, pub reals: Vec<(Node, usize, &'static str)> }

fn junk_lv(r: &mut Rng, t: &Ty, lv: &[LV], k: usize) -> Vec<LV> { (0..k).map(|_| if lv.is_empty() { default_lv(t) } else { r.pick(lv).clone() }).collect() }
fn pick_path(r: &mut Rng, n: &Node, fl: usize) -> Option<usize> { let p = r.below(2); if build(n, fl, p).is_some() { Some(p) } else if build(n, fl, 1 - p).is_some() { Some(1 - p) } else { None } }

fn derive(r: &mut Rng, kind: usize, ty: &Ty, fl: usize, lv: &[LV], base: &Node, arr: &ArrayRef) -> Option<(Node, &'static str)> {
    let len = lv.len();
    Some(match kind {
        0 => (dump(from_lv(ty, fl, lv)?.as_ref())?, "canon"),
        1 => { let (k1, k2) = (r.below(9), r.below(4)); let j1 = from_lv(ty, fl, &junk_lv(r, ty, lv, k1))?; let j2 = from_lv(ty, fl, &junk_lv(r, ty, lv, k2))?;
               let c = arrow_select::concat::concat(&[j1.as_ref(), arr.as_ref(), j2.as_ref()]).ok()?; (dump(c.slice(k1, len).as_ref())?, "slice-concat") }
        2 => { let (k1, k2) = (r.below(70), r.below(4)); let mut all = junk_lv(r, ty, lv, k1); all.extend(lv.iter().cloned()); all.extend(junk_lv(r, ty, lv, k2));
               (dump(from_lv(ty, fl, &all)?.slice(k1, len).as_ref())?, "slice-canon") }
        3 => { let mut n = base.clone(); scramble(r, &mut n); tame_null_keys(&mut n); (n, "garbage") }
        4 => { let mut n = base.clone(); toggle_validity(r, &mut n); (n, "validity") }
        5 => { if !contains_ty(ty, &|t| matches!(t, Ty::View { .. })) { return None } let mut n = base.clone(); resplit_views(r, &mut n); (n, "views") }
        6 => { let idx: UInt32Array = (0..len as u32).collect(); (dump(arrow_select::take::take(arr.as_ref(), &idx, None).ok()?.as_ref())?, "take-id") }
        7 => match ty {
            Ty::Dict { kw, signed, v } => { // permuted / duplicated / unused dictionary entries
                let d = arr.as_any_dictionary(); let keys = read_lv(d.keys(), 0)?; let vals = read_lv(d.values().as_ref(), 0)?;
                let mut order: Vec<Option<usize>> = Vec::new();
                for i in 0..vals.len() { order.push(Some(i)); if r.chance(1, 3) { order.push(Some(i)) } }
                for _ in 0..r.below(3) { order.push(None) }
                for i in (1..order.len()).rev() { let j = r.below(i + 1); order.swap(i, j) }
                let cap = if *kw == 1 && *signed { 127 } else { 250 }; if order.len() > cap { return None }
                let child_nullable = true;
                let nvals: Vec<LV> = order.iter().map(|o| match o { Some(i) => vals[*i].clone(), None => if vals.is_empty() || r.bool() { child_or_default(&LV::Null, v, child_nullable) } else { r.pick(&vals).clone() } }).collect();
                // a logically null slot is either a null key or a valid key that selects a NULL dictionary value
                let mut nvals = nvals; let null_entry = if r.bool() && nvals.len() < cap { nvals.push(LV::Null); Some(nvals.len() - 1) } else { nvals.iter().position(|x| *x == LV::Null) };
                let nkeys: Vec<LV> = keys.iter().map(|k| match k { LV::Int(z) => { let i = usize::try_from(z).unwrap(); let pos: Vec<usize> = order.iter().enumerate().filter(|(_, o)| **o == Some(i)).map(|(p, _)| p).collect(); LV::Int((*r.pick(&pos)).into()) }
                    _ => match null_entry { Some(e) if r.bool() => LV::Int(e.into()), _ => LV::Null } }).collect();
                (dump(dict_from(*kw, *signed, &nkeys, from_lv(v, fl, &nvals)?)?.as_ref())?, "dict-perm") }
            Ty::Ree { rw, v } => { // runs split differently, extra runs before / after, then slice
                let k1 = r.below(4); let k2 = r.below(3); let mut all = junk_lv(r, ty, lv, k1); all.extend(lv.iter().cloned()); all.extend(junk_lv(r, ty, lv, k2));
                let mut ends: Vec<LV> = Vec::new(); let mut vals: Vec<LV> = Vec::new();
                for (i, x) in all.iter().enumerate() { if i > 0 && vals.last() == Some(x) && !r.chance(1, 3) { *ends.last_mut().unwrap() = LV::Int((i + 1).into()) } else { vals.push(x.clone()); ends.push(LV::Int((i + 1).into())) } }
                (dump(ree_from(*rw, &ends, from_lv(v, fl, &vals)?)?.slice(k1, len).as_ref())?, "runs-split") }
            Ty::ListView { large, nullable, c } => { // children laid out in another order, with gaps and shared ranges
                let mut order: Vec<usize> = (0..len).collect(); for i in (1..len).rev() { let j = r.below(i + 1); order.swap(i, j) }
                let mut flat: Vec<LV> = Vec::new(); let mut offs = vec![0usize; len]; let mut sizes = vec![0usize; len]; let mut seen: Vec<(Vec<LV>, usize)> = Vec::new();
                for &i in &order { for _ in 0..r.below(2) { if let Some(LV::List(l)) = lv.iter().find(|x| matches!(x, LV::List(l) if !l.is_empty())) { flat.push(l[0].clone()) } }
                    match &lv[i] { LV::List(l) => { sizes[i] = l.len(); match seen.iter().find(|(t, _)| t == l) { Some((_, o)) if r.bool() => offs[i] = *o, _ => { offs[i] = flat.len(); seen.push((l.clone(), flat.len())); flat.extend(l.iter().cloned()) } } }
                                   _ => { offs[i] = r.below(flat.len() + 1); sizes[i] = r.below(flat.len() - offs[i] + 1) } } }
                let child = from_lv(c, fl, &flat)?; let f = item_field(c, fl, *nullable);
                let a: ArrayRef = if *large { Arc::new(LargeListViewArray::try_new(f, offs.iter().map(|x| *x as i64).collect::<Vec<_>>().into(), sizes.iter().map(|x| *x as i64).collect::<Vec<_>>().into(), child, nulls_from(lv)).ok()?) }
                    else { Arc::new(ListViewArray::try_new(f, offs.iter().map(|x| *x as i32).collect::<Vec<_>>().into(), sizes.iter().map(|x| *x as i32).collect::<Vec<_>>().into(), child, nulls_from(lv)).ok()?) };
                (dump(a.as_ref())?, "lview-reorder") }
            _ => return None,
        },
        _ => { let mut n = base.clone(); scramble(r, &mut n); tame_null_keys(&mut n); toggle_validity(r, &mut n); resplit_views(r, &mut n); (n, "garbage+validity") }
    })
}

/// k >= 5 physical realisations of one logical column (the first is the base)
pub fn realise(r: &mut Rng, ty: &Ty, fl: usize, base: Node, want: usize) -> Option<Col> {
    let p0 = pick_path(r, &base, fl)?;
    let arr = build(&base, fl, p0)?;
    let lv = read_lv(arr.as_ref(), 0)?;
    let mut reals = vec![(base.clone(), p0, "base")];
    let mut kinds: Vec<usize> = vec![0, 1, 2, 3, 4, 6, 8];
    if contains_ty(ty, &|t| matches!(t, Ty::View { .. })) { kinds.push(5); kinds.push(5) }
    if matches!(ty, Ty::Dict { .. } | Ty::Ree { .. } | Ty::ListView { .. }) { kinds.push(7); kinds.push(7); kinds.push(7) }
    let mut tries = 0;
    while reals.len() < want && tries < 4 * want {
        tries += 1;
        let kind = *r.pick(&kinds);
        // derive from the base or from an already derived realisation (compositions)
        let si = if r.chance(1, 3) { r.below(reals.len()) } else { 0 };
        let src = reals[si].0.clone();
        let src_arr = if si == 0 { arr.clone() } else { match build(&src, fl, reals[si].1) { Some(a) => a, None => continue } };
        let d = std::panic::catch_unwind(std::panic::AssertUnwindSafe(|| { let mut r2 = r.clone(); let o = derive(&mut r2, kind, ty, fl, &lv, &src, &src_arr); (o, r2) }));
        let Ok((o, r2)) = d else { r.next(); continue };
        *r = r2;
        let Some((node, name)) = o else { continue };
        if node.ty != *ty || node.len != lv.len() { continue }   // a realisation has the SAME data type and length
        let Some(p) = pick_path(r, &node, fl) else { continue };
        reals.push((node, p, name));
    }
    Some(Col { ty: ty.clone(), fl, lv, reals })
}

/// change one logical value / null / length; false when the type has nothing to change there
fn change_value(r: &mut Rng, t: &Ty, v: &mut LV, nullable: bool) -> bool {
    if *v == LV::Null { let d = default_lv(t); if d == LV::Null { return false } *v = d; return true }
    if nullable && r.chance(1, 4) { *v = LV::Null; return true }
    match (t, v) {
        (Ty::Bool, LV::Bool(b)) => { *b = !*b; true }
        (Ty::Fixed(w), LV::Int(z)) => { let m = BigInt::from(1) << (8 * *w); *z = (z.clone() + 1) % m; true }
        (Ty::FixedBin(n), LV::Bytes(b)) => { if *n == 0 { false } else { let i = r.below(b.len()); b[i] ^= 1 << r.below(8); true } }
        (Ty::Bin { .. } | Ty::View { .. }, LV::Bytes(b)) => { if !b.is_empty() && r.bool() { b.pop(); while std::str::from_utf8(b).is_err() { b.pop(); } } else { b.push(b'x') } true }
        (Ty::List { c, nullable: nb, .. } | Ty::ListView { c, nullable: nb, .. }, LV::List(l)) => { if !l.is_empty() && r.bool() { if r.bool() { l.pop(); true } else { let i = r.below(l.len()); change_value(r, c, &mut l[i], *nb) } } else { l.push(child_or_default(&LV::Null, c, false)); true } }
        (Ty::FixedList { c, nullable: nb, .. }, LV::List(l)) => { if l.is_empty() { false } else { let i = r.below(l.len()); change_value(r, c, &mut l[i], *nb) } }
        (Ty::Struct(fs), LV::Struct(l)) => { if l.is_empty() { false } else { let i = r.below(l.len()); change_value(r, &fs[i].1, &mut l[i], fs[i].0) } }
        (Ty::Dict { v: c, .. } | Ty::Ree { v: c, .. }, x) => change_value(r, c, x, false),
        _ => false,
    }
}
fn perturb(r: &mut Rng, t: &Ty, lv: &[LV]) -> Option<(Vec<LV>, &'static str)> {
    let mut out = lv.to_vec();
    let top_nullable = !matches!(t, Ty::Null);
    match r.below(4) {
        0 | 1 if !out.is_empty() => { let i = r.below(out.len()); if change_value(r, t, &mut out[i], top_nullable) { Some((out, "value")) } else { None } }
        2 if !out.is_empty() => { out.pop(); Some((out, "shorter")) }
        _ => { let v = if out.is_empty() || r.bool() { default_lv(t) } else { r.pick(&out).clone() }; out.push(v); Some((out, "longer")) }
    }
}
fn retype(t: &Ty) -> Option<Ty> {
    match t { Ty::Bin { large, utf8 } => Some(Ty::Bin { large: !*large, utf8: *utf8 }), Ty::List { large, nullable, c } => Some(Ty::List { large: !*large, nullable: *nullable, c: c.clone() }),
        Ty::ListView { large, nullable, c } => Some(Ty::ListView { large: !*large, nullable: *nullable, c: c.clone() }), Ty::Fixed(4) => Some(Ty::Fixed(8)), Ty::View { utf8 } => Some(Ty::Bin { large: false, utf8: *utf8 }), _ => None }
}

// ---- kernel choice and parameters
fn kernels_for(t: &Ty, fl: usize) -> Vec<usize> {
    let mut v = vec![0, 1, 2, 3, 4, 5, 22, 23, 30, 36, 37, 40, 41, 42, 43, 45, 45, 56, 57, 58, 59, 61, 62, 64, 65];
    let leaf = match t { Ty::Dict { v, .. } | Ty::Ree { v, .. } => v.as_ref(), x => x };
    match leaf {
        Ty::Fixed(w) if fl <= 2 => { v.extend([6, 7, 8, 9, 10, 11, 12, 13, 14, 15, 24, 25, 26, 27, 31, 32, 33, 34, 35, 38, 39, 44, 60, 6, 7, 8, 14, 24]); if *w >= 16 { v.extend([45]) } }
        Ty::Fixed(_) => v.extend([63, 63, 32, 38, 39, 45, 44, 60, 6, 7]),
        Ty::Bool => v.extend([16, 17, 18, 19, 20, 21, 28, 32, 38, 39, 16, 17, 18, 19, 20]),
        Ty::Bin { utf8: true, .. } | Ty::View { utf8: true } => v.extend([46, 47, 48, 49, 50, 51, 52, 53, 54, 55, 29, 32, 38, 39, 48, 54, 46, 44]),
        Ty::Bin { .. } | Ty::View { .. } | Ty::FixedBin(_) => v.extend([29, 46, 47, 32, 38, 39, 54, 55]),
        _ => {}
    }
    v
}
fn kernel_params(r: &mut Rng, k: usize, len: usize, ylen: usize) -> Vec<i64> {
    match k {
        0 => (0..r.below(12)).map(|_| if len == 0 || r.chance(1, 6) { -1 } else { r.below(len) as i64 }).collect(),
        1 | 4 | 5 => { let dens = r.below(5); (0..len).map(|_| match dens { 0 => 0, 1 => 1, _ => if r.chance(1, 6) { 2 } else { r.bool() as i64 } }).collect() }
        3 => (0..r.below(10)).flat_map(|_| { let i = r.below(2); let l = if i == 0 { len } else { ylen }; if l == 0 { vec![] } else { vec![i as i64, r.below(l) as i64] } }).collect(),
        40 | 60 => vec![r.below(3) as i64, r.bool() as i64, if r.bool() { -1 } else { r.below(len + 2) as i64 }],
        41 | 42 | 44 | 56 | 57 => vec![r.below(3) as i64, r.bool() as i64],
        45 => vec![r.below(19) as i64, r.bool() as i64],
        48..=53 => r.pick(&["%", "a%", "%a", "_", "a_c", "%é%", "ab", "", "A%", "%%", "a\\%", "%b%c", "€", "_b", "%ab"]).bytes().map(|b| b as i64).collect(),
        54 => vec![r.range(-4, 4), if r.chance(1, 3) { -1 } else { r.below(5) as i64 }],
        59 => vec![r.range(-6, 6)],
        62 => vec![r.below(len + 1) as i64, r.below(len + 2) as i64],
        63 => vec![r.below(11) as i64],
        65 => (0..r.below(5)).flat_map(|_| if r.chance(1, 5) { vec![-1, r.below(4) as i64] } else { let s = r.below(len + 1); vec![s as i64, (s + r.below(len - s + 1)) as i64] }).collect(),
        _ => vec![],
    }
}

fn enc_node(n: &Node, out: &mut Args) { c09::encode(n, out) }
fn any_node(n: &Node, f: &dyn Fn(&Node) -> bool) -> bool { f(n) || n.kids.iter().any(|k| any_node(k, f)) }
/// KNOWN-FINDING candidate (ragged typed buffer): `ArrayData ==` reads offsets / keys / views through
/// ArrayData::buffer::<T>, which asserts that the byte length is a multiple of size_of::<T>(); a validated
/// ArrayData whose buffer carries trailing padding bytes makes `==` panic.  Such layouts are compared at the
/// dyn Array level only.
fn ragged_typed_buffer(n: &Node) -> bool {
    any_node(n, &|x| match &x.ty {
        Ty::View { .. } => x.bufs[0].len() % 16 != 0,
        Ty::Dict { kw, .. } => x.bufs[0].len() % kw != 0,
        Ty::ListView { large, .. } => { let w = if *large { 8 } else { 4 }; x.bufs[0].len() % w != 0 || x.bufs[1].len() % w != 0 }
        // (an EMPTY offsets buffer, which validation accepts for an empty array, makes `==` index out of range)
        Ty::List { large, .. } | Ty::Bin { large, .. } => { let w = if *large { 8 } else { 4 }; x.bufs[0].len() % w != 0 || x.bufs[0].is_empty() }
        _ => false })
}
/// KNOWN-FINDING (F3/F4 family): arrow-data's struct_equal ignores the offset of a Struct ArrayData
fn struct_with_offset(n: &Node) -> bool { any_node(n, &|x| matches!(x.ty, Ty::Struct(_)) && x.off != 0) }
/// KNOWN-FINDING candidate (byte_view_equal): `lhs.is_null(idx)` is tested with the index RELATIVE to the
/// compared range instead of lhs_start + idx, so a view array with nulls compared from a non-zero start
/// (child of a list / struct / dictionary ...) skips the wrong slots.
fn nested_view_with_nulls(n: &Node) -> bool { n.kids.iter().any(|k| any_node(k, &|x| matches!(x.ty, Ty::View { .. }) && x.nulls.as_ref().map_or(false, |v| v.count > 0))) }
/// KNOWN-FINDING candidate (dictionary_equal): a valid key that selects a NULL dictionary value and a null
/// key denote the same (null) slot but compare unequal (equal_nulls looks at the key validity only).
fn dict_with_null_values(n: &Node) -> bool { any_node(n, &|x| matches!(x.ty, Ty::Dict { .. }) && any_node(&x.kids[0], &|v| v.nulls.as_ref().map_or(false, |q| q.count > 0) || (matches!(v.ty, Ty::Null) && v.len > 0))) }
/// KNOWN-FINDING candidate (MutableArrayData dictionary extend, debug builds): keys are re-based with a plain
/// `+ offset`, also under null slots; a null slot whose key payload is close to the key type's maximum makes
/// concat / interleave / zip panic with "attempt to add with overflow".  Payloads under null keys stay
/// arbitrary (out of range included) but below half of the key range.
fn tame_null_keys(n: &mut Node) {
    if let Ty::Dict { kw, signed, .. } = n.ty { let slots = n.bufs[0].len() / kw;
        for p in 0..slots { let i = p as isize - n.off as isize; let valid = i >= 0 && (i as usize) < n.len && slot_valid(n, i as usize);
            if !valid { let m = &mut n.bufs[0][p * kw + kw - 1]; if signed { if *m & 0x80 == 0 { *m &= 0x3F } } else { *m &= 0x7F } } } }
    for k in n.kids.iter_mut() { tame_null_keys(k) }
}
/// a null slot of a Utf8 / LargeUtf8 node whose payload holds a multi-byte character
fn null_slot_multibyte(n: &Node) -> bool {
    any_node(n, &|x| if let Ty::Bin { large, utf8: true } = x.ty { let w = if large { 8 } else { 4 };
        (0..x.len).any(|i| !slot_valid(x, i) && x.bufs[0].len() >= (x.off + i + 2) * w && { let (s, e) = (rd_le(&x.bufs[0], w, x.off + i) as usize, rd_le(&x.bufs[0], w, x.off + i + 1) as usize); x.bufs[1][s.min(x.bufs[1].len())..e.min(x.bufs[1].len())].iter().any(|b| *b >= 0x80) }) } else { false })
}

fn emit_col_cases(r: &mut Rng, col: &Col, emit: &mut dyn FnMut(Case), tier_eq_pairs: usize) {
    let th = ty_head(&col.ty); let fl = col.fl;
    // (1) accessors / iterators read back exactly the denoted column
    for (node, path, name) in &col.reals {
        let mode = r.below(5);
        let mut args: Args = vec![gs(&[*path as i64, fl as i64, mode as i64])]; enc_node(node, &mut args);
        emit(Case::new("c02.logical", args, &["c02.logical.spec"], format!("logical {th} {name} p{path} m{mode}")));
    }
    // (2) == on every pair of realisations; M (arrow-data equal on the ArrayData as given) where modelled
    let k = col.reals.len();
    let mut pairs: Vec<(usize, usize)> = Vec::new(); for i in 0..k { for j in 0..k { if i != j { pairs.push((i, j)) } } }
    for i in (1..pairs.len()).rev() { let j = r.below(i + 1); pairs.swap(i, j) }
    let modelled = !contains_ty(&col.ty, &|t| matches!(t, Ty::ListView { .. } | Ty::Union { .. }));
    // KNOWN-FINDING candidate (list_view_equal): children are compared with equal_values (their validity is
    // never compared) and, when the range holds nulls, only the LEFT sizes are used: logically different
    // list-view arrays compare equal.  ListView types are excluded from the == cases.
    let eq_excluded = contains_ty(&col.ty, &|t| matches!(t, Ty::ListView { .. }));
    let level_of = |r: &mut Rng, x: &Node, y: &Node| -> usize { if ragged_typed_buffer(x) || ragged_typed_buffer(y) || struct_with_offset(x) || struct_with_offset(y) { 1 } else { r.below(2) } };
    let skip_pair = |x: &Node, y: &Node| -> bool { eq_excluded || nested_view_with_nulls(x) || nested_view_with_nulls(y) || dict_with_null_values(x) || dict_with_null_values(y) };
    for (i, j) in pairs.into_iter().take(tier_eq_pairs) {
        let (na, pa, an) = &col.reals[i]; let (nb, pb, bn) = &col.reals[j];
        if skip_pair(na, nb) { continue }
        let level = level_of(r, na, nb);
        let mut args: Args = vec![gs(&[*pa as i64, fl as i64, *pb as i64, level as i64])]; enc_node(na, &mut args); enc_node(nb, &mut args);
        let models: &[&'static str] = if level == 0 && modelled { &["c02.eq", "c02.eq.spec"] } else { &["c02.eq.spec"] };
        emit(Case::new("c02.eq", args, models, format!("eq {th} {an}/{bn} l{level}")));
    }
    // (3) a perturbed column / another type must NOT be equal
    for _ in 0..4 {
        let Some((lv2, what)) = perturb(r, &col.ty, &col.lv) else { continue };
        let Some(a2) = from_lv(&col.ty, fl, &lv2) else { continue }; let Some(n2) = dump(a2.as_ref()) else { continue };
        let (na, pa, an) = r.pick(&col.reals).clone();
        if skip_pair(&na, &n2) { continue }
        let level = level_of(r, &na, &n2);
        let Some(p2) = pick_path(r, &n2, fl) else { continue };
        let (first, second, ps) = if r.bool() { (&na, &n2, [pa, p2]) } else { (&n2, &na, [p2, pa]) };
        let mut args: Args = vec![gs(&[ps[0] as i64, fl as i64, ps[1] as i64, level as i64])]; enc_node(first, &mut args); enc_node(second, &mut args);
        let models: &[&'static str] = if level == 0 && modelled { &["c02.eq", "c02.eq.spec"] } else { &["c02.eq.spec"] };
        emit(Case::new("c02.eq", args, models, format!("neq {th} {an} {what} l{level}")));
    }
    if let Some(t2) = retype(&col.ty) { if let Some(a2) = from_lv(&t2, fl, &col.lv) { if let Some(n2) = dump(a2.as_ref()) {
        let (na, pa, an) = r.pick(&col.reals).clone();
        let Some(p2) = pick_path(r, &n2, fl) else { return };
        let mut args: Args = vec![gs(&[pa as i64, fl as i64, p2 as i64, 1])]; enc_node(&na, &mut args); enc_node(&n2, &mut args);
        emit(Case::new("c02.eq", args, &["c02.eq.spec"], format!("neq {th} {an} type")));
    } } }
    // (4) slice = window on the column
    // (run-end types: twice as many, every second one through the iterator backwards / from both ends, with a
    //  non-zero offset and an end that cuts off trailing physical runs whenever the length allows)
    let has_ree = contains_ty(&col.ty, &|t| matches!(t, Ty::Ree { .. }));
    for c in 0..(if has_ree { 4 } else { 2 }) {
        let (node, path, name) = r.pick(&col.reals).clone(); let len = node.len;
        let (mut o, mut n, mut mode) = (r.below(len + 1), 0, r.below(5)); n = r.below(len - o + 1);
        if has_ree && c % 2 == 1 && len >= 3 { o = 1 + r.below(len - 2); n = 1 + r.below(len - o - 1); mode = 2 + r.below(3) }
        // KNOWN-FINDING candidate (F3): ArrayData::slice on a Struct keeps the offset AND slices the children; excluded
        let via_data = (!contains_ty(&col.ty, &|t| matches!(t, Ty::Struct(_))) && r.chance(1, 3)) as i64;
        let mut args: Args = vec![gs(&[path as i64, fl as i64, mode as i64, o as i64, n as i64, via_data])]; enc_node(&node, &mut args);
        emit(Case::new("c02.slice", args, &["c02.slice", "c02.slice.spec"], format!("slice {th} {name} d{via_data} m{mode}")));
    }
}

fn emit_kernel_cases(r: &mut Rng, x: &Col, y: &Col, s: &Col, x2: &Col, y2: &Col, emit: &mut dyn FnMut(Case), nk: usize) {
    let th = ty_head(&x.ty); let fl = x.fl; let len = x.lv.len();
    // KNOWN-FINDING candidate (zero-width arrays): take / filter / interleave on FixedSizeBinary(0) and
    // FixedSizeList(_, 0) derive the result length from values.len() / 0 (0, or the validity's length when there
    // is one), at any nesting depth (struct field, list child, run values): results depend on whether a validity
    // buffer is present, or the kernel panics on the inconsistent child length.  No kernel case for such types.
    if contains_ty(&x.ty, &|t| matches!(t, Ty::FixedList { n: 0, .. } | Ty::FixedBin(0))) { return }
    let ks = kernels_for(&x.ty, fl);
    // null-related kernels always run on types whose nulls live in dictionary / run values
    let mut forced: Vec<usize> = if contains_ty(&x.ty, &|t| matches!(t, Ty::Dict { .. } | Ty::Ree { .. })) { vec![22, 23, 61] } else { vec![*r.pick(&[22, 23])] };
    for _ in 0..nk + forced.len() {
        let k = match forced.pop() { Some(k) => k, None => *r.pick(&ks) };
        let mut p = kernel_params(r, k, len, y.lv.len());
        // KNOWN-FINDING candidate (cmp on an EMPTY slice of a RunEndEncoded array taken at a non-zero offset):
        // ree_physical_indices / expand_from_runs compute run_end - pos with pos = offset > first run end
        if (30..=39).contains(&k) && len == 0 && matches!(x.ty, Ty::Ree { .. }) { continue }
        // KNOWN-FINDING candidate (substring): utf-8 boundaries are checked on the payload of NULL slots too, so
        // Ok/Err depends on the bytes under a null; columns with such a null slot are not given to substring
        if k == 54 && x.reals.iter().any(|(n, _, _)| null_slot_multibyte(n)) { continue }
        // (on a dictionary the VALUES are processed: unused entries and entries behind null keys decide as well)
        if k == 54 && contains_ty(&x.ty, &|t| matches!(t, Ty::Dict { .. })) { continue }
        // KNOWN-FINDING candidate (cast binary -> string, safe = false): try_from_binary / to_string_view validate
        // the bytes of null slots (and unreferenced bytes), so the error outcome depends on garbage under nulls
        if k == 45 && contains_ty(&x.ty, &|t| matches!(t, Ty::Bin { utf8: false, .. } | Ty::View { utf8: false } | Ty::FixedBin(_))) { p[1] = 1 }
        // KNOWN-FINDING candidate (cast of a dictionary, safe = false): the dictionary VALUES are cast, unused
        // entries and entries only reachable through null keys included, so they decide the error outcome
        if k == 45 && contains_ty(&x.ty, &|t| matches!(t, Ty::Dict { .. })) { p[1] = 1 }
        // (temporal values that cannot be rendered make the cast to a string fail even with safe = true)
        if k == 45 && fl >= 3 && contains_ty(&x.ty, &|t| matches!(t, Ty::Dict { .. })) { continue }
        // KNOWN-FINDING candidate (cast FixedSizeList(_, 1) -> non-list): cast_single_element_fixed_size_list_to_values
        // casts values() and drops the list's validity: null lists expose the child payload under them
        if k == 45 && contains_ty(&x.ty, &|t| matches!(t, Ty::FixedList { n: 1, .. })) { continue }
        // KNOWN-FINDING candidate (concat of List<RunEndEncoded>): when no list references a child value the
        // child slices are all empty and concat fails with "concat requires input of at least one array"
        // (same with a dictionary / struct parent: any RunEndEncoded array that is a CHILD may be empty)
        let ree_child = |t: &Ty| -> bool { match t { Ty::List { c, .. } | Ty::FixedList { c, .. } | Ty::ListView { c, .. } => contains_ty(c, &|u| matches!(u, Ty::Ree { .. })),
            Ty::Dict { v, .. } | Ty::Ree { v, .. } => contains_ty(v, &|u| matches!(u, Ty::Ree { .. })), Ty::Struct(fs) => fs.iter().any(|(_, u)| contains_ty(u, &|w| matches!(w, Ty::Ree { .. }))), _ => false } };
        if matches!(k, 2 | 3 | 5 | 59 | 64 | 65) && contains_ty(&x.ty, &ree_child) { continue }
        // ---- congruence over the realisations
        let second: Option<&Col> = if arity(k) == 2 { Some(if k == 38 || k == 39 { s } else { y }) } else { None };
        let nreal = match second { Some(c) => x.reals.len().min(c.reals.len()), None => x.reals.len() };
        let nin = if second.is_some() { 2 } else { 1 };
        let mut h: Vec<i64> = vec![k as i64, fl as i64, nreal as i64, nin as i64, 1];
        let mut trees = Args::new();
        for i in 0..nreal { h.push(x.reals[i].1 as i64); enc_node(&x.reals[i].0, &mut trees); if let Some(c) = second { h.push(c.reals[i].1 as i64); enc_node(&c.reals[i].0, &mut trees) } }
        let mut args: Args = vec![gs(&h), gs(&p)]; args.extend(trees);
        emit(Case::new("c02.congr", args, &["c02.congr.post"], format!("congr k{k} {th}")));
        // ---- commutation with row selection
        let rw = rowwise(k);
        if rw > 0 && r.chance(2, 3) {
            let sel = r.below(4);
            // take with NULL indices commutes only with kernels that map a null row to a null row: is_null /
            // is_not_null / distinct / not_distinct / the formatter never return null.
            // KNOWN-FINDING candidate (take_run): take on a RunEndEncoded array ignores the validity of the
            // indices (logical_indices.values()), a null index yields the row its payload selects: excluded.
            let null_idx_ok = !matches!(k, 22 | 23 | 36 | 37 | 58) && !contains_ty(&x.ty, &|t| matches!(t, Ty::Ree { .. }));
            let mut sp: Vec<i64> = match sel { 0 => kernel_params(r, 0, len, 0), 1 => kernel_params(r, 62, len, 0), 2 => vec![], _ => kernel_params(r, 1, len, 0) };
            if sel == 0 && !null_idx_ok { sp.retain(|v| *v >= 0) }
            // (the empty-REE-slice cmp finding, reached through slice(o, 0))
            if (30..=39).contains(&k) && matches!(x.ty, Ty::Ree { .. }) && sel == 1 && (sp[1] == 0 || sp[0] as usize >= len) { continue }
            // KNOWN-FINDING candidate (take on FixedSizeList(_, 0)): the result length is derived from
            // values.len() / 0 and comes out as 0 (or the null count's length) instead of indices.len(): excluded.
            // (filter behaves the same; substring can produce FixedSizeBinary(0) from any FixedSizeBinary)
            if (sel == 0 || sel == 3) && (contains_ty(&x.ty, &|t| matches!(t, Ty::FixedList { n: 0, .. } | Ty::FixedBin(0))) || (k == 54 && contains_ty(&x.ty, &|t| matches!(t, Ty::FixedBin(_))))) { continue }
            let pick = |r: &mut Rng, c: &Col| -> (Node, usize) { let (n, p, _) = r.pick(&c.reals).clone(); (n, p) };
            let mut ins: Vec<(Node, usize)> = vec![pick(r, x)];
            if rw == 2 { ins.push(pick(r, y)) } else if k == 38 || k == 39 { ins.push(pick(r, s)) }
            if sel == 2 { ins.push(pick(r, x2)); if rw == 2 { ins.push(pick(r, y2)) } }
            let mut h: Vec<i64> = vec![k as i64, fl as i64, sel as i64, ins.len() as i64, 2];
            let mut trees = Args::new(); for (n, p) in &ins { h.push(*p as i64); enc_node(n, &mut trees) }
            let mut args: Args = vec![gs(&h), gs(&p), gs(&sp)]; args.extend(trees);
            emit(Case::new("c02.commute", args, &["c02.commute.post"], format!("commute k{k} s{sel} {th}")));
        }
    }
}

fn pick_len(r: &mut Rng, big: bool) -> usize {
    if r.chance(1, 12) { 0 } else if big && r.chance(1, 4) { *r.pick(&[7, 8, 9, 15, 16, 17, 31, 32, 33, 63, 64, 65, 100, 127, 128, 130]) } else { 1 + r.below(11) }
}
fn gen_leaf_ty(r: &mut Rng) -> (Ty, usize) {
    match r.below(12) {
        0 | 1 | 2 => (Ty::Fixed(*r.pick(&[1, 2, 4, 8, 4, 8])), r.below(3)),
        3 => (Ty::Fixed(*r.pick(&[4, 8])), 3 + r.below(2)),
        4 => (Ty::Fixed(*r.pick(&[16, 32, 16])), if r.chance(1, 4) { 4 } else { 0 }),
        5 => (Ty::Bool, 0),
        6 | 7 => (Ty::Bin { large: r.bool(), utf8: true }, 0),
        8 => (Ty::Bin { large: r.bool(), utf8: false }, 0),
        9 => (Ty::View { utf8: r.chance(2, 3) }, 0),
        10 => (Ty::FixedBin(1 + r.below(4) as i32), 0),
        _ => (Ty::Fixed(2), 2),
    }
}
fn gen_logical_ty(r: &mut Rng) -> (Ty, usize) {
    let (leaf, fl) = gen_leaf_ty(r);
    let c = Box::new(leaf.clone());
    let t = match r.below(14) {
        0 => Ty::List { large: r.bool(), nullable: r.chance(3, 4), c },
        1 => Ty::ListView { large: r.bool(), nullable: true, c },
        2 => Ty::FixedList { n: r.below(4) as i32, nullable: r.chance(3, 4), c },
        3 => { let (l2, _) = gen_leaf_ty(r); Ty::Struct(vec![(r.chance(3, 4), leaf), (r.chance(3, 4), if matches!(l2, Ty::Fixed(_)) { Ty::Bool } else { l2 })]) }
        4 | 5 => Ty::Dict { kw: *r.pick(&[1, 2, 4, 8]), signed: r.bool(), v: c },
        6 => Ty::Ree { rw: *r.pick(&[2, 4, 8]), v: c },
        7 => Ty::List { large: false, nullable: true, c: Box::new(Ty::Dict { kw: 4, signed: true, v: c }) },
        8 => Ty::List { large: r.bool(), nullable: true, c: Box::new(Ty::List { large: false, nullable: true, c }) },
        _ => leaf,
    };
    (t, fl)
}

pub fn generate(tier: &str, r: &mut Rng, emit: &mut dyn FnMut(Case)) {
    let thorough = tier == "thorough";
    let iters = if thorough { 5000 } else { 600 };
    for it in 0..iters {
        // scenario A: a random PHYSICAL layout of a random type (c09 generator); scenario B: a random LOGICAL column
        let physical = it % 5 < 2;
        // (a non-nullable field whose nulls would live elsewhere — Null type, dictionary / run VALUES — is not
        //  generated: the C09 layout generator only constrains the field's own validity buffer, and such a layout,
        //  although accepted by ArrayData validation, is rejected by the typed constructors kernels rebuild with)
        let hidden_nulls = |f: &Ty| matches!(f, Ty::Null | Ty::Dict { .. } | Ty::Ree { .. });
        let degenerate = |t: &Ty| contains_ty(t, &|u| match u { Ty::List { nullable: false, c, .. } | Ty::FixedList { nullable: false, c, .. } | Ty::ListView { nullable: false, c, .. } => hidden_nulls(c.as_ref()), Ty::Struct(fs) => fs.iter().any(|(nb, f)| !*nb && hidden_nulls(f)), _ => false });
        let (ty, fl) = if physical { let mut t = c09::gen_ty(r, 2); while has_union(&t) || degenerate(&t) { t = c09::gen_ty(r, 2) } (t, if r.chance(1, 4) { r.below(5) } else { 0 }) } else { gen_logical_ty(r) };
        let leafy = !contains_ty(&ty, &|t| matches!(t, Ty::List { .. } | Ty::ListView { .. } | Ty::FixedList { .. } | Ty::Struct(_)));
        let len = pick_len(r, leafy);
        let want = 5 + r.below(2);
        let mut mk = |r: &mut Rng, len: usize| -> Option<Col> {
            let base = if physical { let mut b = c09::gen_valid(r, &ty, len, false); tame_null_keys(&mut b); b } else { let nullp = *r.pick(&[0, 1, 1, 2, 2, 3, 1]); dump(from_lv(&ty, fl, &gen_lv(r, &ty, fl, len, nullp))?.as_ref())? };
            realise(r, &ty, fl, base, want)
        };
        let Some(x) = mk(r, len) else { continue };
        emit_col_cases(r, &x, emit, if thorough { 8 } else { 6 });
        let Some(y) = mk(r, len) else { continue };
        let Some(s) = mk(r, 1) else { continue };
        let l2 = r.below(6);
        let Some(x2) = mk(r, l2) else { continue };
        let Some(y2) = mk(r, l2) else { continue };
        emit_kernel_cases(r, &x, &y, &s, &x2, &y2, emit, 8);
    }
    // builder call sequences (append_value.., append_array of arrays with their own buffers, extend, bulk forms), half of
    // them on view builders; a view sequence starts, every second time, with a long (> 12 byte) value in the in-progress block
    let nseq = if thorough { 2400 } else { 300 };
    for it in 0..nseq {
        let kind: i64 = if it % 2 == 0 { 4 } else { r.below(4) as i64 };
        let (ty, w, large, utf8, fl): (Ty, usize, bool, bool, usize) = match kind {
            0 => r.pick(&[(Ty::Fixed(1), 1usize, true, false, 1usize), (Ty::Fixed(2), 2, false, false, 0), (Ty::Fixed(4), 4, false, false, 0), (Ty::Fixed(8), 8, false, false, 0), (Ty::Fixed(8), 8, false, true, 2), (Ty::Fixed(16), 16, false, false, 0)]).clone(),
            1 => (Ty::Bool, 0, false, false, 0),
            2 => { let (l, u) = (r.bool(), r.bool()); (Ty::Bin { large: l, utf8: u }, 0, l, u, 0) }
            3 => { let n = 1 + r.below(4); (Ty::FixedBin(n as i32), n, false, false, 0) }
            _ => { let u = r.chance(2, 3); (Ty::View { utf8: u }, 0, false, u, 0) }
        };
        let block = if kind == 4 { *r.pick(&[0i64, 0, 0, 16, 40]) } else { 0 }; let dedup = (kind == 4 && r.chance(1, 5)) as i64;
        let mode = r.below(5) as i64;
        let mut args: Args = vec![gs(&[kind, w as i64, large as i64, utf8 as i64, mode, block, dedup])];
        let nsteps = 1 + r.below(4); let mut shape = String::new();
        for sidx in 0..nsteps {
            let mut step = if kind == 4 && it % 4 == 0 { if sidx == 0 { 0 } else if sidx == 1 { 1 } else { r.below(4) } } else { r.below(4) } as i64;
            if kind == 4 && step == 3 { step = 1 }
            let len = if r.chance(1, 8) { 0 } else { 1 + r.below(7) }; let nullp = *r.pick(&[0, 0, 1, 2, 3]);
            let mut col = gen_lv(r, &ty, fl, len, nullp);
            if kind == 4 && it % 4 == 0 && sidx < 2 { // a long value on both sides of the append_array boundary
                let long: Vec<u8> = format!("long-value-{}-{}-abcdefghijklmnopqrstuvwxyz", it, sidx).into_bytes()[..13 + r.below(20)].to_vec();
                if col.is_empty() { col.push(LV::Bytes(long)) } else { let i = r.below(col.len()); col[i] = LV::Bytes(long) } }
            args.push(gs(&[step, r.below(2) as i64, r.below(4) as i64])); args.push(enc_col(&col));
            shape.push_str(&format!("{step}"));
        }
        emit(Case::new("c02.buildseq", args, &["c02.buildseq.spec"], format!("buildseq {} s{shape} b{block} d{dedup} m{mode}", ty_head(&ty))));
    }
    // builders: readback and physical form
    let nb = if thorough { 2700 } else { 300 };
    for _ in 0..nb {
        let kind = r.below(4) as i64;
        let (ty, w, large, utf8): (Ty, usize, bool, bool) = match kind {
            0 => { let w = *r.pick(&[1usize, 2, 4, 8, 16]); let unsigned = w < 16 && r.chance(1, 3); let float = !unsigned && w >= 2 && w <= 8 && r.chance(1, 3); (Ty::Fixed(w), w, unsigned, float) }
            1 => (Ty::Bool, 0, false, false),
            2 => { let (l, u) = (r.bool(), r.bool()); (Ty::Bin { large: l, utf8: u }, 0, l, u) }
            _ => { let n = r.below(5); (Ty::FixedBin(n as i32), n, false, false) }
        };
        let len = pick_len(r, true); let nullp = *r.pick(&[0, 0, 1, 2, 3]);
        let vs = gen_lv(r, &ty, if kind == 0 && utf8 { 2 } else if kind == 0 && large { 1 } else { 0 }, len, nullp);
        let mode = r.below(5) as i64;
        let args: Args = vec![gs(&[kind, w as i64, large as i64, utf8 as i64, mode]), enc_col(&vs)];
        let th = ty_head(&ty);
        emit(Case::new("c02.build", args.clone(), &["c02.build", "c02.build.spec"], format!("build {th} n{nullp} m{mode}")));
        emit(Case::new("c02.buildphys", args, &["c02.buildphys"], format!("buildphys {th} n{nullp}")));
    }
}
