//! C04 — Arrow IPC file / stream / StreamEncoder / Flight round trip on the REAL writers and readers.
//!
//! A case = write options + schema (physical type code of crate::c09 + a "decoration" stream choosing the
//! concrete arrow DataType, names, nullability, metadata) + 0..4 record batches given as physical array
//! trees (crate::c09::Node: offsets, padding, garbage under nulls) + optional batch-level slicing + a
//! dictionary evolution history (unchanged / extended / shrunk / replaced between batches).
//!
//! Args layout (all groups are integers):
//!   g0  options [kind, alignment, v5, legacy, compression, ipc dict handling, flight max size,
//!                flight dict handling, share equal dictionaries, chunk seed, flight with_schema]
//!         kind: 0 FileWriter->FileReader  1 StreamWriter->StreamReader  2 StreamEncoder->StreamDecoder(chunked)
//!               3 FlightDataEncoder->FlightRecordBatchStream  4 StreamWriter->StreamDecoder  5 StreamEncoder->StreamReader
//!   g1  projection: [] = none, else [n, i1..in]
//!   g2  [ncols, nbatches, schema metadata code]
//!   g3  DERIVED by the generator for the type-level models (ignored by the implementation ops): per batch
//!         [rows, nv, v1..vnv, then per dictionary in encode order: len, id1..idlen, nvd, vd1..]  flattened with a
//!         leading batch count; see `derive`
//!   then per column: [type code (c09::enc_ty)] [nullable, name code, metadata code, decoration...]
//!   then per batch:  [rows, slice_off, slice_len (slice_len < 0: no batch-level slice)] followed by one c09 tree per column
use crate::c01;
use crate::c09::{self, Node, Nulls, Ty};
use crate::util::*;
use arrow_array::{make_array, Array, ArrayRef, RecordBatch, RecordBatchOptions};
use arrow_buffer::{BooleanBuffer, Buffer, MutableBuffer, NullBuffer};
use arrow_data::ArrayData;
use arrow_flight::decode::FlightRecordBatchStream;
use arrow_flight::encode::{DictionaryHandling as FlightDictHandling, FlightDataEncoderBuilder};
use arrow_flight::error::FlightError;
use arrow_flight::FlightData;
use arrow_ipc::reader::{FileReader, StreamDecoder, StreamReader};
use arrow_ipc::writer::{DictionaryHandling, FileWriter, IpcWriteOptions, StreamEncoder, StreamWriter};
use arrow_ipc::{CompressionType, MessageHeader, MetadataVersion};
use arrow_schema::{ArrowError, DataType, Field, Fields, IntervalUnit, Schema, SchemaRef, TimeUnit, UnionFields, UnionMode};
use futures::{StreamExt, TryStreamExt};
use num_bigint::BigInt;
use std::collections::HashMap;
use std::io::Cursor;
use std::sync::Arc;

// ------------------------------------------------------------------ case data
#[derive(Clone, Debug)]
pub struct Opts { kind: i64, align: i64, v5: bool, legacy: bool, comp: i64, dh: i64, fmax: i64, fdh: i64, share: bool, chunk_seed: i64, with_schema: bool }
#[derive(Clone, Debug)]
pub struct Col { ty: Ty, nullable: bool, name: i64, meta: i64, deco: Vec<i64> }
#[derive(Clone, Debug)]
pub struct Batch { rows: usize, slice: Option<(usize, usize)>, cols: Vec<Node> }
#[derive(Clone, Debug)]
pub struct CaseData { opts: Opts, proj: Option<Vec<usize>>, schema_meta: i64, cols: Vec<Col>, batches: Vec<Batch>, derived: Vec<i64> }

fn enc_ty_vec(t: &Ty) -> Vec<i64> {
    // c09::encode writes the type code as the first group of a node
    let n = Node { ty: t.clone(), len: 0, off: 0, nulls: None, bufs: vec![], kids: vec![] };
    let mut a = Args::new(); c09::encode(&n, &mut a); to_i64s(&a[0])
}
fn dec_ty_vec(code: &[i64]) -> Ty {
    let a: Args = vec![gs(code), vec![0.into(), 0.into()], vec![], vec![], vec![0.into(), 0.into()]];
    let mut p = 0; c09::decode(&a, &mut p).ty
}

pub fn encode_case(c: &CaseData) -> Args {
    let o = &c.opts;
    let mut a: Args = vec![gs(&[o.kind, o.align, o.v5 as i64, o.legacy as i64, o.comp, o.dh, o.fmax, o.fdh, o.share as i64, o.chunk_seed, o.with_schema as i64])];
    a.push(match &c.proj { None => vec![], Some(p) => { let mut v = vec![BigInt::from(p.len())]; v.extend(p.iter().map(|x| BigInt::from(*x))); v } });
    a.push(gs(&[c.cols.len() as i64, c.batches.len() as i64, c.schema_meta]));
    a.push(gs(&c.derived));
    for col in &c.cols {
        a.push(gs(&enc_ty_vec(&col.ty)));
        let mut v = vec![col.nullable as i64, col.name, col.meta]; v.extend(&col.deco); a.push(gs(&v));
    }
    for b in &c.batches {
        let (so, sl) = match b.slice { Some((o, l)) => (o as i64, l as i64), None => (0, -1) };
        a.push(gs(&[b.rows as i64, so, sl]));
        for n in &b.cols { c09::encode(n, &mut a) }
    }
    a
}
pub fn decode_case(a: &Args) -> CaseData {
    let o = to_i64s(&a[0]);
    let opts = Opts { kind: o[0], align: o[1], v5: o[2] != 0, legacy: o[3] != 0, comp: o[4], dh: o[5], fmax: o[6], fdh: o[7], share: o[8] != 0, chunk_seed: o[9], with_schema: o[10] != 0 };
    let pj = to_i64s(&a[1]);
    let proj = if pj.is_empty() { None } else { Some(pj[1..].iter().map(|x| *x as usize).collect()) };
    let h = to_i64s(&a[2]);
    let derived = to_i64s(&a[3]);
    let mut p = 4;
    let mut cols = Vec::new();
    for _ in 0..h[0] {
        let ty = dec_ty_vec(&to_i64s(&a[p]));
        let f = to_i64s(&a[p + 1]);
        cols.push(Col { ty, nullable: f[0] != 0, name: f[1], meta: f[2], deco: f[3..].to_vec() });
        p += 2;
    }
    let mut batches = Vec::new();
    for _ in 0..h[1] {
        let b = to_i64s(&a[p]); p += 1;
        let mut nodes = Vec::new();
        for _ in 0..h[0] { nodes.push(c09::decode(a, &mut p)) }
        batches.push(Batch { rows: b[0] as usize, slice: if b[2] < 0 { None } else { Some((b[1] as usize, b[2] as usize)) }, cols: nodes });
    }
    CaseData { opts, proj, schema_meta: h[2], cols, batches, derived }
}

// ------------------------------------------------------------------ decorated types
struct Deco<'a> { v: &'a [i64], p: usize }
impl Deco<'_> { fn next(&mut self) -> usize { let x = self.v.get(self.p).copied().unwrap_or(0); self.p += 1; x.unsigned_abs() as usize } }

fn name_of(k: usize) -> String {
    ["item", "a", "col", "x y", "ünï", "", "key", "value", "entries", "element", "f.g", "Z"][k % 12].to_string()
}
fn meta_of(k: usize) -> HashMap<String, String> {
    let mut m = HashMap::new();
    match k % 5 {
        0 | 1 => {}
        2 => { m.insert("k".to_string(), "v".to_string()); }
        3 => { m.insert("ARROW:extension:name".to_string(), "verif.ext".to_string()); m.insert("é".to_string(), "".to_string()); }
        _ => { m.insert("".to_string(), "empty key".to_string()); m.insert("b".to_string(), "2".to_string()); m.insert("a".to_string(), "1".to_string()); }
    }
    m
}
fn unit_of(k: usize) -> TimeUnit { [TimeUnit::Second, TimeUnit::Millisecond, TimeUnit::Microsecond, TimeUnit::Nanosecond][k % 4] }
fn tz_of(k: usize) -> Option<Arc<str>> { match k % 3 { 0 => None, 1 => Some("UTC".into()), _ => Some("+05:30".into()) } }

fn child_field(d: &mut Deco, default_name: &str, t: &Ty, nullable: bool) -> Field {
    let k = d.next();
    let name = if k % 3 == 0 { default_name.to_string() } else { name_of(k / 3) };
    let m = d.next();
    Field::new(name, decorate(t, d), nullable).with_metadata(meta_of(m))
}

/// The concrete arrow DataType of a physical type code: the decoration stream picks among the types of
/// the same physical layout (and names / metadata of nested fields). Deterministic in (ty, deco).
pub fn decorate(t: &Ty, d: &mut Deco) -> DataType {
    use DataType::*;
    match t {
        Ty::Null => Null,
        Ty::Bool => Boolean,
        Ty::Fixed(w) => { let k = d.next(); match w {
            1 => [Int8, UInt8][k % 2].clone(),
            2 => [Int16, UInt16, Float16][k % 3].clone(),
            4 => match k % 8 { 0 => Int32, 1 => UInt32, 2 => Float32, 3 => Date32, 4 => Time32(TimeUnit::Second), 5 => Time32(TimeUnit::Millisecond), 6 => Interval(IntervalUnit::YearMonth), _ => Decimal32(1 + (k / 8 % 9) as u8, (k / 80 % 3) as i8) },
            8 => match k % 11 { 0 => Int64, 1 => UInt64, 2 => Float64, 3 => Date64, 4 => Time64(TimeUnit::Microsecond), 5 => Time64(TimeUnit::Nanosecond),
                                6 | 7 => Timestamp(unit_of(k / 11), tz_of(k / 44)), 8 => Duration(unit_of(k / 11)), 9 => Interval(IntervalUnit::DayTime), _ => Decimal64(1 + (k / 11 % 18) as u8, (k / 200 % 4) as i8) },
            16 => if k % 3 == 0 { Interval(IntervalUnit::MonthDayNano) } else { Decimal128(1 + (k / 3 % 38) as u8, (k / 120 % 5) as i8 - 1) },
            _ => Decimal256(1 + (k % 76) as u8, (k / 76 % 5) as i8),
        } }
        Ty::FixedBin(n) => FixedSizeBinary(*n),
        Ty::Bin { large, utf8 } => match (large, utf8) { (false, false) => Binary, (true, false) => LargeBinary, (false, true) => Utf8, (true, true) => LargeUtf8 },
        Ty::View { utf8 } => if *utf8 { Utf8View } else { BinaryView },
        Ty::List { large, nullable, c } => {
            let k = d.next();
            // Map = List<Struct<key non-null, value>> with a non-nullable entries field
            if let (false, false, Ty::Struct(fs)) = (*large, *nullable, c.as_ref()) {
                if fs.len() == 2 && !fs[0].0 && k % 4 != 3 {
                    let kf = child_field(d, "key", &fs[0].1, false);
                    let vf = child_field(d, "value", &fs[1].1, fs[1].0);
                    let en = d.next();
                    let entries = Field::new(if en % 2 == 0 { "entries" } else { "key_value" }, Struct(Fields::from(vec![kf, vf])), false);
                    return Map(Arc::new(entries), k % 2 == 1);
                }
            }
            let f = Arc::new(child_field(d, "item", c, *nullable));
            if *large { LargeList(f) } else { List(f) }
        }
        Ty::ListView { large, nullable, c } => { let f = Arc::new(child_field(d, "item", c, *nullable)); if *large { LargeListView(f) } else { ListView(f) } }
        Ty::FixedList { n, nullable, c } => FixedSizeList(Arc::new(child_field(d, "item", c, *nullable)), *n),
        Ty::Struct(fs) => Struct(Fields::from(fs.iter().enumerate().map(|(i, (nb, t))| {
            let k = d.next(); let m = d.next();
            Field::new(format!("{}{}", name_of(k), i), decorate(t, d), *nb).with_metadata(meta_of(m))
        }).collect::<Vec<_>>())),
        Ty::Dict { kw, signed, v } => {
            let k = match (kw, signed) { (1, true) => Int8, (2, true) => Int16, (4, true) => Int32, (8, true) => Int64, (1, false) => UInt8, (2, false) => UInt16, (4, false) => UInt32, _ => UInt64 };
            Dictionary(Box::new(k), Box::new(decorate(v, d)))
        }
        Ty::Ree { rw, v } => {
            let re = match rw { 2 => Int16, 4 => Int32, _ => Int64 };
            let k = d.next();
            let vf = child_field(d, "values", v, true);
            RunEndEncoded(Arc::new(Field::new(if k % 4 == 0 { "ends" } else { "run_ends" }, re, false)), Arc::new(vf))
        }
        Ty::Union { dense, fs } => {
            let fields: Vec<Field> = fs.iter().enumerate().map(|(i, (_, t))| {
                let k = d.next(); let m = d.next();
                Field::new(format!("{}{}", name_of(k), i), decorate(t, d), true).with_metadata(meta_of(m))
            }).collect();
            Union(UnionFields::try_new(fs.iter().map(|(id, _)| *id), fields).expect("union fields"), if *dense { UnionMode::Dense } else { UnionMode::Sparse })
        }
    }
}

pub fn field_of(i: usize, c: &Col) -> Field {
    let mut d = Deco { v: &c.deco, p: 0 };
    Field::new(format!("c{i}{}", name_of(c.name as usize)), decorate(&c.ty, &mut d), c.nullable).with_metadata(meta_of(c.meta as usize))
}
pub fn schema_of(c: &CaseData) -> Schema {
    Schema::new_with_metadata(c.cols.iter().enumerate().map(|(i, col)| field_of(i, col)).collect::<Vec<_>>(), meta_of(c.schema_meta as usize))
}

// ------------------------------------------------------------------ arrays from physical trees
fn abuf(b: &[u8]) -> Buffer { let mut m = MutableBuffer::new(b.len()); m.extend_from_slice(b); m.into() }
fn child_types(dt: &DataType) -> Vec<DataType> {
    use DataType::*;
    match dt {
        List(f) | LargeList(f) | ListView(f) | LargeListView(f) | FixedSizeList(f, _) | Map(f, _) => vec![f.data_type().clone()],
        Struct(fs) => fs.iter().map(|f| f.data_type().clone()).collect(),
        Dictionary(_, v) => vec![v.as_ref().clone()],
        RunEndEncoded(r, v) => vec![r.data_type().clone(), v.data_type().clone()],
        Union(fs, _) => fs.iter().map(|(_, f)| f.data_type().clone()).collect(),
        _ => vec![],
    }
}
type DictCache = HashMap<(String, String), ArrayData>;
/// ArrayData::try_new at every level with the decorated type; dictionary values that are physically
/// identical to an earlier batch's are the SAME allocation when `share` (the writer's ptr_eq fast path).
fn build(n: &Node, dt: &DataType, share: bool, cache: &mut DictCache) -> Option<ArrayData> {
    let cts = child_types(dt);
    if cts.len() != n.kids.len() { return None }
    let mut kids = Vec::new();
    for (i, k) in n.kids.iter().enumerate() {
        if share && matches!(dt, DataType::Dictionary(_, _)) {
            let mut a = Args::new(); c09::encode(k, &mut a);
            let key = (fmt_args(&a), format!("{:?}", cts[i]));
            if let Some(d) = cache.get(&key) { kids.push(d.clone()); continue }
            let d = build(k, &cts[i], share, cache)?;
            cache.insert(key, d.clone()); kids.push(d);
        } else { kids.push(build(k, &cts[i], share, cache)?) }
    }
    // Parents whose typed constructors cut their children (Struct, FixedSizeList, sparse Union) are built with
    // ARRAY-level slices: StructArray::from / FixedSizeListArray::from(ArrayData) cut children with ArrayData::slice, and
    // UnionArray::from(ArrayData) does not apply a sparse union's offset to its children, so make_array of such a
    // layout is not the array the layout denotes (an arrow-array matter, not an IPC one)
    let own_nulls = |n: &Node| n.nulls.as_ref().and_then(|x| if x.bytes.len() * 8 >= x.off + x.len { Some(NullBuffer::new(BooleanBuffer::new(abuf(&x.bytes), x.off, x.len))) } else { None });
    if n.nulls.is_some() && own_nulls(n).is_none() { return None }
    match dt {
        DataType::Union(fields, UnionMode::Sparse) => {
            if n.bufs.is_empty() || n.bufs[0].len() < n.off + n.len { return None }
            let type_ids: Vec<i8> = n.bufs[0][n.off..n.off + n.len].iter().map(|b| *b as i8).collect();
            let mut children: Vec<ArrayRef> = Vec::new();
            for k in kids { let a = make_array(k); if a.len() < n.off + n.len { return None } children.push(a.slice(n.off, n.len)) }
            return arrow_array::UnionArray::try_new(fields.clone(), arrow_buffer::ScalarBuffer::from(type_ids), None, children).ok().map(|u| u.into_data());
        }
        DataType::Struct(fields) if !fields.is_empty() => {
            let mut children: Vec<ArrayRef> = Vec::new();
            for k in kids { let a = make_array(k); if a.len() < n.off + n.len { return None } children.push(a.slice(n.off, n.len)) }
            return arrow_array::StructArray::try_new(fields.clone(), children, own_nulls(n)).ok().map(|u| u.into_data());
        }
        DataType::FixedSizeList(f, size) => {
            let k = *size as usize;
            let a = make_array(kids.into_iter().next()?);
            if a.len() < (n.off + n.len) * k { return None }
            return arrow_array::FixedSizeListArray::try_new_with_length(f.clone(), *size, a.slice(n.off * k, n.len * k), own_nulls(n), n.len).ok().map(|u| u.into_data());
        }
        _ => {}
    }
    let nb = n.nulls.as_ref().map(|x| abuf(&x.bytes));
    match ArrayData::try_new(dt.clone(), n.len, nb, n.off, n.bufs.iter().map(|b| abuf(b)).collect(), kids) {
        Ok(d) => Some(d),
        Err(e) => { if std::env::var("C04_DEBUG").is_ok() { eprintln!("C04_DEBUG build: {e} for {dt}") } None }
    }
}

pub fn build_batches(c: &CaseData) -> Option<(SchemaRef, Vec<RecordBatch>)> {
    let schema = Arc::new(schema_of(c));
    let mut cache = DictCache::new();
    let mut out = Vec::new();
    for b in &c.batches {
        let mut cols: Vec<ArrayRef> = Vec::new();
        let mut total = b.rows;
        for (i, n) in b.cols.iter().enumerate() {
            let d = build(n, schema.field(i).data_type(), c.opts.share, &mut cache)?;
            total = d.len();
            cols.push(make_array(d));
        }
        if let Some((o, l)) = b.slice { if b.cols.is_empty() { total = o + l + 1 } }
        let rb = RecordBatch::try_new_with_options(schema.clone(), cols, &RecordBatchOptions::new().with_row_count(Some(total))).ok()?;
        let rb = match b.slice { Some((o, l)) => if o + l <= rb.num_rows() { rb.slice(o, l) } else { return None }, None => rb };
        if rb.num_rows() != b.rows { return None }
        out.push(rb);
    }
    Some((schema, out))
}

// ------------------------------------------------------------------ logical rows of a physical dump
fn rd(b: &[u8], w: usize, i: usize) -> i128 {
    let mut v: i128 = 0;
    for k in 0..w.min(16) { v |= (b[i * w + k] as i128) << (8 * k) }
    if w < 16 && (v >> (8 * w - 1)) & 1 == 1 { v -= 1i128 << (8 * w) }
    v
}
fn rdu(b: &[u8], w: usize, i: usize) -> usize { let mut v: u128 = 0; for k in 0..w { v |= (b[i * w + k] as u128) << (8 * k) } v as usize }
fn valid_at(n: &Node, i: usize) -> bool { match &n.nulls { None => true, Some(x) => (x.bytes[(x.off + i) / 8] >> ((x.off + i) % 8)) & 1 == 1 } }

/// Canonical logical value of slot `i` (relative to the node's own offset): [0] for null, else 1 followed
/// by the value. Written from the columnar format's definition of each layout.
pub fn row(n: &Node, i: usize, out: &mut Vec<i64>) {
    if matches!(n.ty, Ty::Null) { out.push(0); return }
    // Union and RunEndEncoded have no validity of their own; their nullness is their child's
    if !matches!(n.ty, Ty::Union { .. } | Ty::Ree { .. }) && !valid_at(n, i) { out.push(0); return }
    let j = n.off + i;
    match &n.ty {
        Ty::Null => unreachable!(),
        Ty::Bool => { out.push(1); out.push(((n.bufs[0][j / 8] >> (j % 8)) & 1) as i64) }
        Ty::Fixed(w) => { out.push(1); out.extend(n.bufs[0][j * w..(j + 1) * w].iter().map(|b| *b as i64)) }
        Ty::FixedBin(s) => { let s = *s as usize; out.push(1); out.extend(n.bufs[0][j * s..(j + 1) * s].iter().map(|b| *b as i64)) }
        Ty::Bin { large, .. } => {
            let w = if *large { 8 } else { 4 };
            let (s, e) = (rdu(&n.bufs[0], w, j), rdu(&n.bufs[0], w, j + 1));
            out.push(1); out.push((e - s) as i64); out.extend(n.bufs[1][s..e].iter().map(|b| *b as i64))
        }
        Ty::View { .. } => {
            let v = &n.bufs[0][j * 16..(j + 1) * 16];
            let len = u32::from_le_bytes(v[0..4].try_into().unwrap()) as usize;
            out.push(1); out.push(len as i64);
            if len <= 12 { out.extend(v[4..4 + len].iter().map(|b| *b as i64)) }
            else { let bi = u32::from_le_bytes(v[8..12].try_into().unwrap()) as usize; let o = u32::from_le_bytes(v[12..16].try_into().unwrap()) as usize;
                   out.extend(n.bufs[1 + bi][o..o + len].iter().map(|b| *b as i64)) }
        }
        Ty::List { large, .. } => {
            let w = if *large { 8 } else { 4 };
            let (s, e) = (rdu(&n.bufs[0], w, j), rdu(&n.bufs[0], w, j + 1));
            out.push(1); out.push((e - s) as i64);
            for k in s..e { row(&n.kids[0], k, out) }
        }
        Ty::ListView { large, .. } => {
            let w = if *large { 8 } else { 4 };
            let (s, l) = (rdu(&n.bufs[0], w, j), rdu(&n.bufs[1], w, j));
            out.push(1); out.push(l as i64);
            for k in s..s + l { row(&n.kids[0], k, out) }
        }
        Ty::FixedList { n: s, .. } => { let s = *s as usize; out.push(1); for k in j * s..(j + 1) * s { row(&n.kids[0], k, out) } }
        Ty::Struct(_) => { out.push(1); for k in &n.kids { row(k, j, out) } }
        Ty::Dict { kw, signed, .. } => {
            let key = if *signed { rd(&n.bufs[0], *kw, j) as usize } else { rdu(&n.bufs[0], *kw, j) };
            row(&n.kids[0], key, out)
        }
        Ty::Ree { rw, .. } => {
            // physical run of logical index j: first run end > j
            let ends = &n.kids[0];
            let mut p = 0; while rd(&ends.bufs[0], *rw, ends.off + p) as usize <= j { p += 1 }
            row(&n.kids[1], p, out)
        }
        Ty::Union { dense, fs } => {
            let id = n.bufs[0][j] as i8;
            let ci = fs.iter().position(|(x, _)| *x == id).expect("declared type id");
            out.push(2); out.push(id as i64);
            if *dense { let o = rd(&n.bufs[1], 4, j) as usize; row(&n.kids[ci], o, out) } else { row(&n.kids[ci], j, out) }
        }
    }
}
pub fn rows_of(a: &dyn Array) -> Option<Vec<Vec<i64>>> {
    let n = c01::from_data(&a.to_data())?;
    Some((0..a.len()).map(|i| { let mut v = Vec::new(); row(&n, i, &mut v); v }).collect())
}

// ------------------------------------------------------------------ write / read
fn write_options(o: &Opts) -> Result<IpcWriteOptions, ArrowError> {
    let v = if o.v5 { MetadataVersion::V5 } else { MetadataVersion::V4 };
    let w = IpcWriteOptions::try_new(o.align as usize, o.legacy, v)?;
    let w = w.try_with_compression(match o.comp { 1 => Some(CompressionType::LZ4_FRAME), 2 => Some(CompressionType::ZSTD), _ => None })?;
    Ok(w.with_dictionary_handling(if o.dh == 1 { DictionaryHandling::Delta } else { DictionaryHandling::Resend }))
}

pub enum Wire { Bytes(Vec<u8>), Flight(Vec<FlightData>) }

pub fn write_all(o: &Opts, schema: &SchemaRef, batches: &[RecordBatch]) -> Result<Wire, ArrowError> {
    let wo = write_options(o)?;
    match o.kind {
        0 => {
            let mut w = FileWriter::try_new_with_options(Vec::new(), schema, wo)?;
            for b in batches { w.write(b)? }
            w.finish()?;
            Ok(Wire::Bytes(w.into_inner()?))
        }
        1 | 4 => {
            let mut w = StreamWriter::try_new_with_options(Vec::new(), schema, wo)?;
            for b in batches { w.write(b)? }
            w.finish()?;
            Ok(Wire::Bytes(w.into_inner()?))
        }
        2 | 5 => {
            let mut e = StreamEncoder::try_new_with_options(schema, wo)?;
            let mut out = Vec::new();
            for b in batches { for buf in e.encode(b)? { out.extend_from_slice(buf.as_slice()) } }
            for buf in e.finish()? { out.extend_from_slice(buf.as_slice()) }
            Ok(Wire::Bytes(out))
        }
        _ => {
            let mut bld = FlightDataEncoderBuilder::new().with_options(wo).with_max_flight_data_size(o.fmax.max(1) as usize)
                .with_dictionary_handling(if o.fdh == 1 { FlightDictHandling::Resend } else { FlightDictHandling::Hydrate });
            if o.with_schema { bld = bld.with_schema(schema.clone()) }
            let input: Vec<Result<RecordBatch, FlightError>> = batches.iter().cloned().map(Ok).collect();
            let enc = bld.build(futures::stream::iter(input));
            let data: Result<Vec<FlightData>, FlightError> = futures::executor::block_on(enc.try_collect());
            data.map(Wire::Flight).map_err(|e| match e { FlightError::Arrow(a) => a, other => ArrowError::ExternalError(Box::new(other)) })
        }
    }
}

pub fn read_all(o: &Opts, wire: &Wire, proj: Option<Vec<usize>>) -> Result<(Option<SchemaRef>, Vec<RecordBatch>), ArrowError> {
    match (o.kind, wire) {
        (0, Wire::Bytes(b)) => {
            let r = FileReader::try_new(Cursor::new(b.as_slice()), proj)?;
            let s = r.schema();
            Ok((Some(s), r.collect::<Result<Vec<_>, _>>()?))
        }
        (1, Wire::Bytes(b)) | (5, Wire::Bytes(b)) => {
            let r = StreamReader::try_new(Cursor::new(b.as_slice()), proj)?;
            let s = r.schema();
            Ok((Some(s), r.collect::<Result<Vec<_>, _>>()?))
        }
        (2, Wire::Bytes(b)) | (4, Wire::Bytes(b)) => {
            // push-based decoder fed with chunks of pseudo-random sizes (including 1-byte chunks)
            let mut r = Rng::new(o.chunk_seed.unsigned_abs());
            let mut dec = StreamDecoder::new();
            let mut out = Vec::new();
            let mut pos = 0;
            let mode = r.below(4);
            while pos < b.len() {
                let n = match mode { 0 => b.len(), 1 => 1 + r.below(7), 2 => 1 + r.below(200), _ => if r.bool() { 1 } else { 1 + r.below(64) } };
                // a negative chunk seed asks for chunk sizes that keep every message body 8-byte aligned
                let n = if o.chunk_seed < 0 && mode != 0 { 8 * (1 + r.below(40)) } else { n };
                let n = n.min(b.len() - pos);
                let mut buf = Buffer::from(&b[pos..pos + n]);
                pos += n;
                while !buf.is_empty() { if let Some(rb) = dec.decode(&mut buf)? { out.push(rb) } }
            }
            dec.finish()?;
            Ok((dec.schema(), out))
        }
        (_, Wire::Flight(d)) => {
            let input: Vec<Result<FlightData, FlightError>> = d.iter().cloned().map(Ok).collect();
            let mut s = FlightRecordBatchStream::new_from_flight_data(futures::stream::iter(input));
            let mut out = Vec::new();
            let res: Result<(), FlightError> = futures::executor::block_on(async { while let Some(rb) = s.next().await { out.push(rb?) } Ok(()) });
            res.map_err(|e| match e { FlightError::Arrow(a) => a, other => ArrowError::ExternalError(Box::new(other)) })?;
            Ok((s.schema().cloned(), out))
        }
        _ => Err(ArrowError::NotYetImplemented("kind".into())),
    }
}

fn kind_of(e: &ArrowError) -> i64 {
    if std::env::var("C04_DEBUG").is_ok() { eprintln!("C04_DEBUG error: {e}") }
    match e {
        ArrowError::InvalidArgumentError(_) => E_INVALID, ArrowError::IoError(_, _) => E_IO, ArrowError::NotYetImplemented(_) => E_UNSUPPORTED,
        ArrowError::ParseError(_) | ArrowError::IpcError(_) | ArrowError::SchemaError(_) => E_INVALID, _ => E_INVALID,
    }
}

// Flight with DictionaryHandling::Hydrate sends dictionary columns as their value type (documented)
fn hydrate_type(dt: &DataType) -> DataType {
    use DataType::*;
    let hf = |f: &Arc<Field>| Arc::new(f.as_ref().clone().with_data_type(hydrate_type(f.data_type())));
    match dt {
        Dictionary(_, v) => hydrate_type(v),
        List(f) => List(hf(f)), LargeList(f) => LargeList(hf(f)), ListView(f) => ListView(hf(f)), LargeListView(f) => LargeListView(hf(f)),
        FixedSizeList(f, n) => FixedSizeList(hf(f), *n), Map(f, s) => Map(hf(f), *s),
        Struct(fs) => Struct(fs.iter().map(|f| hf(f)).collect::<Vec<_>>().into()),
        RunEndEncoded(r, v) => RunEndEncoded(r.clone(), hf(v)),
        Union(fs, m) => Union(UnionFields::try_new(fs.iter().map(|(i, _)| i), fs.iter().map(|(_, f)| hf(f).as_ref().clone())).unwrap(), *m),
        other => other.clone(),
    }
}
fn expected_schema(c: &CaseData, s: &Schema) -> Schema {
    if c.opts.kind == 3 && c.opts.fdh == 0 {
        Schema::new_with_metadata(s.fields().iter().map(|f| f.as_ref().clone().with_data_type(hydrate_type(f.data_type()))).collect::<Vec<_>>(), s.metadata().clone())
    } else { s.clone() }
}

/// The property predicate on one case: [1] = round trip is the identity; [0, stage, batch, column, row]
/// otherwise; [-1, kind] when a writer / reader returned an error.
fn roundtrip(c: &CaseData) -> Args {
    let Some((schema, batches)) = std::panic::catch_unwind(std::panic::AssertUnwindSafe(|| build_batches(c))).ok().flatten() else { return skip() };
    let wire = match write_all(&c.opts, &schema, &batches) { Ok(w) => w, Err(e) => return vec![gs(&[-1, kind_of(&e), 1])] };
    let (rs, rbs) = match read_all(&c.opts, &wire, None) { Ok(x) => x, Err(e) => return vec![gs(&[-1, kind_of(&e), 2])] };
    let want_schema = expected_schema(c, &schema);
    if let Some(rs) = &rs { if rs.as_ref() != &want_schema { return vec![gs(&[0, 1, 0, 0, 0])] } }
    else if c.opts.kind != 3 || c.opts.with_schema || !batches.is_empty() { return vec![gs(&[0, 1, 1, 0, 0])] }
    // rows of inputs and outputs
    let flight = c.opts.kind == 3;
    let dump = |bs: &[RecordBatch]| -> Option<Vec<(usize, Vec<Vec<Vec<i64>>>)>> {
        bs.iter().map(|b| Some((b.num_rows(), b.columns().iter().map(|a| rows_of(a.as_ref())).collect::<Option<Vec<_>>>()?))).collect()
    };
    let (Some(din), Some(dout)) = (dump(&batches), dump(&rbs)) else { return skip() };
    for b in &rbs { if b.schema().as_ref() != &want_schema { return vec![gs(&[0, 2, 0, 0, 0])] } }
    if flight {
        // large batches are split without reordering rows, empty batches may vanish: compare the concatenation
        let ncols = schema.fields().len();
        let tot_in: usize = din.iter().map(|x| x.0).sum(); let tot_out: usize = dout.iter().map(|x| x.0).sum();
        if tot_in != tot_out { return vec![gs(&[0, 3, 0, 0, tot_out as i64])] }
        for ci in 0..ncols {
            let a: Vec<&Vec<i64>> = din.iter().flat_map(|x| x.1[ci].iter()).collect();
            let b: Vec<&Vec<i64>> = dout.iter().flat_map(|x| x.1[ci].iter()).collect();
            if let Some(r) = (0..a.len().max(b.len())).find(|r| a.get(*r) != b.get(*r)) { return vec![gs(&[0, 4, 0, ci as i64, r as i64])] }
        }
    } else {
        if din.len() != dout.len() { return vec![gs(&[0, 3, dout.len() as i64, 0, 0])] }
        for (bi, (x, y)) in din.iter().zip(dout.iter()).enumerate() {
            if x.0 != y.0 { return vec![gs(&[0, 3, bi as i64, 0, y.0 as i64])] }
            for ci in 0..x.1.len() {
                if let Some(r) = (0..x.1[ci].len().max(y.1[ci].len())).find(|r| x.1[ci].get(*r) != y.1[ci].get(*r)) { return vec![gs(&[0, 4, bi as i64, ci as i64, r as i64])] }
            }
        }
    }
    // projection on read = projection after the full read
    if let Some(p) = &c.proj {
        let (ps, pbs) = match read_all(&c.opts, &wire, Some(p.clone())) { Ok(x) => x, Err(e) => return vec![gs(&[-1, kind_of(&e), 3])] };
        let want = match want_schema.project(p) { Ok(s) => s, Err(_) => return skip() };
        if ps.as_deref() != Some(&want) { return vec![gs(&[0, 6, 0, 0, 0])] }
        if pbs.len() != rbs.len() { return vec![gs(&[0, 7, 0, 0, 0])] }
        for (bi, (full, got)) in rbs.iter().zip(pbs.iter()).enumerate() {
            let Ok(exp) = full.project(p) else { return skip() };
            if got.schema().as_ref() != &want || got.num_rows() != exp.num_rows() { return vec![gs(&[0, 7, bi as i64, 0, 0])] }
            for ci in 0..p.len() {
                if rows_of(got.column(ci).as_ref()) != rows_of(exp.column(ci).as_ref()) { return vec![gs(&[0, 8, bi as i64, ci as i64, 0])] }
            }
        }
    }
    vec![g(1)]
}

// ------------------------------------------------------------------ message-level observables
struct Frame { start: usize, prefix: usize, meta_len: usize, body_len: usize, meta_pos: usize, body_pos: usize, kind: i64, is_delta: i64, id: i64, nodes: i64, bufs: i64, rows: i64, vars: Vec<i64> }

fn inspect(meta: &[u8]) -> Option<(i64, i64, i64, i64, i64, i64, Vec<i64>, usize)> {
    let m = arrow_ipc::root_as_message(meta).ok()?;
    let body = m.bodyLength() as usize;
    let rbinfo = |rb: arrow_ipc::RecordBatch| (rb.nodes().map_or(0, |n| n.len()) as i64, rb.buffers().map_or(0, |n| n.len()) as i64, rb.length(),
                                             rb.variadicBufferCounts().map_or(vec![], |v| v.iter().collect::<Vec<i64>>()));
    match m.header_type() {
        MessageHeader::Schema => Some((1, 0, 0, 0, 0, 0, vec![], body)),
        MessageHeader::DictionaryBatch => { let d = m.header_as_dictionary_batch()?; let (n, b, r, v) = rbinfo(d.data()?); Some((2, d.isDelta() as i64, d.id(), n, b, r, v, body)) }
        MessageHeader::RecordBatch => { let (n, b, r, v) = rbinfo(m.header_as_record_batch()?); Some((3, 0, 0, n, b, r, v, body)) }
        _ => None,
    }
}
/// Walks the encapsulated messages of a stream (the harness's own framing parser).
fn frames(b: &[u8], mut pos: usize) -> Option<(Vec<Frame>, bool, usize)> {
    let mut out = Vec::new();
    loop {
        if pos + 4 > b.len() { return Some((out, false, pos)) }
        let start = pos;
        let mut prefix = 4;
        let mut w: [u8; 4] = b[pos..pos + 4].try_into().unwrap();
        if w == [0xFF; 4] { if pos + 8 > b.len() { return None } w = b[pos + 4..pos + 8].try_into().unwrap(); prefix = 8 }
        let len = i32::from_le_bytes(w);
        pos += prefix;
        if len == 0 { return Some((out, true, pos)) }
        if len < 0 || pos + len as usize > b.len() { return None }
        let (kind, is_delta, id, nodes, bufs, rows, vars, body_len) = inspect(&b[pos..pos + len as usize])?;
        let meta_pos = pos;
        pos += len as usize;
        if pos + body_len > b.len() { return None }
        let body_pos = pos;
        pos += body_len;
        out.push(Frame { start, prefix, meta_len: len as usize, body_len, meta_pos, body_pos, kind, is_delta, id, nodes, bufs, rows, vars });
    }
}
fn pad8(n: usize, a: usize) -> usize { (a - n % a) % a }

/// Per message [kind, isDelta, dict id, #nodes, #buffers, rows, prefix, (prefix+meta) mod align, body mod align,
/// variadic counts...], then [eos seen]; Flight: one group per FlightData (prefix and paddings 0).
fn messages(c: &CaseData) -> Args {
    let Some((schema, batches)) = std::panic::catch_unwind(std::panic::AssertUnwindSafe(|| build_batches(c))).ok().flatten() else { return skip() };
    let wire = match write_all(&c.opts, &schema, &batches) { Ok(w) => w, Err(e) => return err(kind_of(&e)) };
    let a = c.opts.align as usize;
    let mut out = Args::new();
    match &wire {
        Wire::Bytes(b) => {
            let start = if c.opts.kind == 0 { 6 + pad8(6, a) } else { 0 };
            if c.opts.kind == 0 && (&b[..6] != b"ARROW1" || b[6..start].iter().any(|x| *x != 0)) { return vec![gs(&[-2, 0])] }
            let Some((fs, eos, _end)) = frames(b, start) else { return vec![gs(&[-2, 1])] };
            for f in &fs {
                let mut v = vec![f.kind, f.is_delta, f.id, f.nodes, f.bufs, f.rows, f.prefix as i64, ((f.prefix + f.meta_len) % a) as i64, (f.body_len % a) as i64];
                v.extend(&f.vars); out.push(gs(&v));
            }
            out.push(gs(&[eos as i64]));
        }
        Wire::Flight(ds) => {
            for d in ds {
                let Some((kind, is_delta, id, nodes, bufs, rows, vars, body_len)) = inspect(&d.data_header) else { return vec![gs(&[-2, 2])] };
                if body_len != d.data_body.len() { return vec![gs(&[-2, 3])] }
                let mut v = vec![kind, is_delta, id, nodes, bufs, rows, 0, 0, (body_len % a) as i64];
                v.extend(&vars); out.push(gs(&v));
            }
            out.push(gs(&[1]));
        }
    }
    out
}

/// File layout: [align, header size, legacy] [per message: start, prefix+meta, body, kind] [dictionary blocks: offset, meta, body]
/// [record blocks] [eos position, footer_len + 10 + eos end == file length]
fn file_layout(c: &CaseData) -> Args {
    let Some((schema, batches)) = std::panic::catch_unwind(std::panic::AssertUnwindSafe(|| build_batches(c))).ok().flatten() else { return skip() };
    let wire = match write_all(&c.opts, &schema, &batches) { Ok(w) => w, Err(_) => return skip() };
    let Wire::Bytes(b) = wire else { return skip() };
    let a = c.opts.align as usize;
    let start = 6 + pad8(6, a);
    let Some((fs, eos, end)) = frames(&b, start) else { return vec![gs(&[-2, 1])] };
    if !eos || b.len() < end + 10 || &b[b.len() - 6..] != b"ARROW1" { return vec![gs(&[-2, 2])] }
    let flen = i32::from_le_bytes(b[b.len() - 10..b.len() - 6].try_into().unwrap()) as usize;
    let Ok(footer) = arrow_ipc::root_as_footer(&b[b.len() - 10 - flen..b.len() - 10]) else { return vec![gs(&[-2, 3])] };
    let blk = |v: Option<flatbuffers::Vector<arrow_ipc::Block>>| -> Vec<i64> { v.map_or(vec![], |v| v.iter().flat_map(|x| [x.offset(), x.metaDataLength() as i64, x.bodyLength()]).collect()) };
    vec![gs(&[a as i64, start as i64, c.opts.legacy as i64]),
         fs.iter().flat_map(|f| [f.start as i64, (f.prefix + f.meta_len) as i64, f.body_len as i64, f.kind]).map(BigInt::from).collect(),
         gs(&blk(footer.dictionaries())), gs(&blk(footer.recordBatches())),
         gs(&[end as i64, (end + flen + 10 == b.len()) as i64])]
}

pub fn run(op: &str, a: &Args) -> Option<Args> {
    if std::env::var("C04_DEBUG").is_ok() { std::panic::set_hook(Box::new(|info| eprintln!("C04_DEBUG panic: {info}"))) }
    match op {
        "c04.roundtrip" => Some(roundtrip(&decode_case(a))),
        "c04.messages" => Some(messages(&decode_case(a))),
        "c04.file_layout" => Some(file_layout(&decode_case(a))),
        // physical dump of one decoded array: the readers' outputs must be well-formed (C01 validator)
        "c04.read_array" => {
            let n = a.len();
            let sel = to_i64s(&a[n - 1]);
            let c = decode_case(&a[..n - 1].to_vec());
            let Some((schema, batches)) = std::panic::catch_unwind(std::panic::AssertUnwindSafe(|| build_batches(&c))).ok().flatten() else { return Some(skip()) };
            let Ok(wire) = write_all(&c.opts, &schema, &batches) else { return Some(skip()) };
            let Ok((_, rbs)) = read_all(&c.opts, &wire, None) else { return Some(skip()) };
            if rbs.is_empty() || rbs[0].num_columns() == 0 { return Some(skip()) }
            let b = &rbs[sel[0] as usize % rbs.len()];
            Some(c01::dump(b.column(sel[1] as usize % b.num_columns()).as_ref()).unwrap_or_else(skip))
        }
        // one column of one batch written alone (uncompressed): the physical array handed to the writer and, per
        // dictionary / record batch message, the field nodes, variadic counts and the bytes of every buffer
        "c04.encode" => {
            let n = a.len();
            let sel = to_i64s(&a[n - 1]);
            let c = decode_case(&a[..n - 1].to_vec());
            let Some((schema, batches)) = std::panic::catch_unwind(std::panic::AssertUnwindSafe(|| build_batches(&c))).ok().flatten() else { return Some(skip()) };
            if batches.is_empty() || schema.fields().is_empty() { return Some(skip()) }
            let b = &batches[sel[0] as usize % batches.len()];
            let ci = sel[1] as usize % b.num_columns();
            let col = b.column(ci).clone();
            let s1 = Arc::new(Schema::new(vec![schema.field(ci).clone()]));
            let Ok(rb) = RecordBatch::try_new(s1.clone(), vec![col.clone()]) else { return Some(skip()) };
            let mut o = c.opts.clone(); o.kind = 1; o.comp = 0; o.dh = 0;
            let Ok(Wire::Bytes(bytes)) = write_all(&o, &s1, &[rb]) else { return Some(skip()) };
            let Some(dump) = c01::from_data(&col.to_data()) else { return Some(skip()) };
            let mut out: Args = vec![gs(&[c.opts.v5 as i64, c.opts.align])];
            c09::encode(&dump, &mut out);
            out.push(gs(&[-7777]));
            let Some((fs, _, _)) = frames(&bytes, 0) else { return Some(vec![gs(&[-2, 1])]) };
            for f in fs.iter().filter(|f| f.kind != 1) {
                let m = arrow_ipc::root_as_message(&bytes[f.meta_pos..f.meta_pos + f.meta_len]).ok()?;
                let rbm = if f.kind == 2 { m.header_as_dictionary_batch()?.data()? } else { m.header_as_record_batch()? };
                let body = &bytes[f.body_pos..f.body_pos + f.body_len];
                let bufs = rbm.buffers()?;
                out.push(gs(&[f.kind, f.is_delta, f.id, f.rows, bufs.len() as i64, f.body_len as i64]));
                out.push(rbm.nodes()?.iter().flat_map(|x| [BigInt::from(x.length()), BigInt::from(x.null_count())]).collect());
                out.push(gs(&f.vars));
                for x in bufs.iter() { out.push(gbytes(&body[x.offset() as usize..(x.offset() + x.length()) as usize])) }
            }
            Some(out)
        }
        "c04.probe" => { probe(to_i64s(&a[0])[0]); Some(vec![g(1)]) }
        // diagnosis: the round trip of every (column, batch) of a case on its own
        "c04.dbg" => {
            let c = decode_case(a);
            for ci in 0..c.cols.len() {
                for bi in 0..c.batches.len() {
                    let mut c1 = c.clone();
                    c1.cols = vec![c.cols[ci].clone()]; c1.proj = None;
                    c1.batches = vec![Batch { rows: c.batches[bi].rows, slice: c.batches[bi].slice, cols: vec![c.batches[bi].cols[ci].clone()] }];
                    let out = roundtrip(&c1);
                    eprintln!("col {ci} batch {bi} type {:?} field {:?} -> {}", enc_ty_vec(&c.cols[ci].ty), field_of(0, &c.cols[ci]), fmt_args(&out));
                }
            }
            Some(vec![g(1)])
        }
        // split_batch_for_grpc_response observed through the encoder: [size seen by the encoder; rows of each piece]
        "c04.flight_split" => {
            let v = to_i64s(&a[0]);
            let (rows, max, ncols) = (v[0] as usize, v[1] as usize, v[2] as usize);
            let mut cols: Vec<ArrayRef> = Vec::new();
            let mut fields = Vec::new();
            for i in 0..ncols {
                // Vec-backed buffers: get_buffer_memory_size is the capacity of the allocation
                let c: ArrayRef = if i % 2 == 0 { Arc::new(arrow_array::Int64Array::from((0..rows as i64).collect::<Vec<_>>())) } else { Arc::new(arrow_array::Int8Array::from((0..rows).map(|x| x as i8).collect::<Vec<_>>())) };
                fields.push(Field::new(format!("c{i}"), c.data_type().clone(), false));
                cols.push(c);
            }
            let schema = Arc::new(Schema::new(fields));
            let Ok(rb) = RecordBatch::try_new_with_options(schema.clone(), cols, &RecordBatchOptions::new().with_row_count(Some(rows))) else { return Some(skip()) };
            let size: usize = rb.columns().iter().map(|c| c.get_buffer_memory_size()).sum();
            let o = Opts { kind: 3, align: 8, v5: true, legacy: false, comp: 0, dh: 0, fmax: max as i64, fdh: 1, share: false, chunk_seed: 0, with_schema: false };
            let Ok(Wire::Flight(ds)) = write_all(&o, &schema, &[rb]) else { return Some(err(E_INVALID)) };
            let mut out = vec![BigInt::from(size)];
            for d in &ds { if let Some((3, _, _, _, _, r, _, _)) = inspect(&d.data_header) { out.push(BigInt::from(r)) } }
            Some(vec![out])
        }
        _ => None,
    }
}

// ------------------------------------------------------------------ generator
fn has_dict_in_dict(t: &Ty) -> bool {
    match t {
        Ty::Dict { v, .. } => matches!(v.as_ref(), Ty::Dict { .. }) || has_dict_in_dict(v),
        Ty::List { c, .. } | Ty::ListView { c, .. } | Ty::FixedList { c, .. } => has_dict_in_dict(c),
        Ty::Ree { v, .. } => has_dict_in_dict(v),
        Ty::Struct(fs) => fs.iter().any(|(_, t)| has_dict_in_dict(t)),
        Ty::Union { fs, .. } => fs.iter().any(|(_, t)| has_dict_in_dict(t)),
        _ => false,
    }
}
fn any_ty(t: &Ty, p: &dyn Fn(&Ty) -> bool) -> bool {
    p(t) || match t {
        Ty::Dict { v, .. } | Ty::Ree { v, .. } => any_ty(v, p),
        Ty::List { c, .. } | Ty::ListView { c, .. } | Ty::FixedList { c, .. } => any_ty(c, p),
        Ty::Struct(fs) => fs.iter().any(|(_, t)| any_ty(t, p)),
        Ty::Union { fs, .. } => fs.iter().any(|(_, t)| any_ty(t, p)),
        _ => false,
    }
}
/// types whose slots can be null without a validity bitmap of their own (nulls come from the values /
/// children): a field of such a type must be declared nullable or typed constructors reject the data
fn logical_nulls(t: &Ty) -> bool { matches!(t, Ty::Null | Ty::Dict { .. } | Ty::Ree { .. } | Ty::Union { .. }) }
fn fix_nullable(t: &mut Ty) {
    match t {
        Ty::List { nullable, c, .. } | Ty::ListView { nullable, c, .. } | Ty::FixedList { nullable, c, .. } => { fix_nullable(c); if logical_nulls(c) { *nullable = true } }
        Ty::Struct(fs) => for (nb, t) in fs.iter_mut() { fix_nullable(t); if logical_nulls(t) { *nb = true } },
        Ty::Dict { v, .. } | Ty::Ree { v, .. } => fix_nullable(v),
        Ty::Union { fs, .. } => for (_, t) in fs.iter_mut() { fix_nullable(t) },
        _ => {}
    }
}
fn gen_col_ty(r: &mut Rng) -> Ty {
    loop {
        let depth = match r.below(10) { 0..=2 => 0, 3..=5 => 1, 6..=8 => 2, _ => 3 };
        let mut t = match r.below(12) {
            // shapes the generic generator rarely produces: Map, dictionary of strings, nested dictionaries
            0 => { let key = loop { let k = c09::gen_ty(r, 0); if !logical_nulls(&k) { break k } };
                   Ty::List { large: false, nullable: false, c: Box::new(Ty::Struct(vec![(false, key), (true, c09::gen_ty(r, depth.min(2)))])) } }
            1 => Ty::Dict { kw: *r.pick(&[1, 2, 4, 8]), signed: r.bool(), v: Box::new(Ty::Bin { large: r.bool(), utf8: true }) },
            2 => Ty::Dict { kw: *r.pick(&[1, 2, 4]), signed: r.bool(), v: Box::new(c09::gen_ty(r, 1)) },
            3 => Ty::List { large: r.bool(), nullable: true, c: Box::new(Ty::Dict { kw: 4, signed: true, v: Box::new(c09::gen_ty(r, 0)) }) },
            4 => Ty::ListView { large: r.bool(), nullable: true, c: Box::new(c09::gen_ty(r, depth.min(1))) },
            5 => Ty::Dict { kw: *r.pick(&[1, 2, 4, 8]), signed: r.bool(), v: Box::new(Ty::Fixed(*r.pick(&[1, 2, 4, 8]))) },
            _ => c09::gen_ty(r, depth),
        };
        if has_dict_in_dict(&t) { continue }
        fix_nullable(&mut t);
        return t;
    }
}

/// Simulation of the slices the writer takes (write_array_data): reports the two input classes that are
/// excluded from the generator because arrow-rs does not round-trip them (see `gen_case`).
///   A: a Union array reached through a non-trivial ArrayData::slice (child of a List / LargeList / Map whose
///      addressed range is not the whole child, possibly through Struct / FixedSizeList): the writer emits the
///      union's buffers and children ignoring the slice
///   B: a RunEndEncoded array of logical length 0 whose run-ends child is not empty: the writer emits the run end 0
/// `s`, `l`: the logical range of `n` that is written; `imp`: the range was cut by an ArrayData-level slice
fn hazard(n: &Node, s: usize, l: usize, imp: bool) -> bool {
    let off = n.off + s;
    match &n.ty {
        Ty::Union { dense, .. } => {
            if imp { return true }
            n.kids.iter().any(|k| if *dense { hazard(k, 0, k.len, false) } else { hazard(k, off, l, false) })
        }
        Ty::Ree { rw, .. } => {
            let ends = &n.kids[0];
            if l == 0 && ends.len > 0 { return true }
            let e: Vec<usize> = (0..ends.len).map(|i| rd(&ends.bufs[0], *rw, ends.off + i) as usize).collect();
            // into_zero_offset_run_array: an unsliced run array is written as it is (values whole) ...
            if off == 0 && e.last().copied().unwrap_or(0) == l { return hazard(&n.kids[1], 0, n.kids[1].len, false) }
            // ... otherwise the values are cut to the physical runs covering [off, off+l)
            let sp = e.iter().filter(|x| **x <= off).count();
            let ep = e.iter().filter(|x| **x < off + l).count();
            hazard(&n.kids[1], sp, ep - sp + 1, false)
        }
        Ty::Struct(_) => n.kids.iter().any(|k| hazard(k, off, l, imp)),
        Ty::List { large, .. } => {
            let c = &n.kids[0];
            if l == 0 { return hazard(c, 0, 0, c.len != 0) }
            let w = if *large { 8 } else { 4 };
            let (st, en) = (rdu(&n.bufs[0], w, off), rdu(&n.bufs[0], w, off + l));
            hazard(c, st, en - st, st != 0 || en - st != c.len)
        }
        Ty::ListView { .. } => { let c = &n.kids[0]; if l == 0 { hazard(c, 0, 0, c.len != 0) } else { hazard(c, 0, c.len, false) } }
        Ty::FixedList { n: k, .. } => { let k = *k as usize; hazard(&n.kids[0], off * k, l * k, imp) }
        _ => false,
    }
}
fn col_hazard(n: &Node, slice: Option<(usize, usize)>) -> bool {
    match slice { Some((o, l)) => hazard(n, o, l, false), None => hazard(n, 0, n.len, false) }
}
/// a dictionary's values are written whole (no hazard from slicing) but may contain hazards themselves
fn dict_hazard(n: &Node) -> bool {
    if let Ty::Dict { .. } = n.ty { return hazard(&n.kids[0], 0, n.kids[0].len, false) || dict_hazard(&n.kids[0]) }
    n.kids.iter().any(dict_hazard)
}

/// prefix of length d of a values array (a longer backing array is a valid layout of the shorter one)
fn prefix(u: &Node, d: usize) -> Node {
    let mut n = u.clone(); n.len = d;
    if let Some(x) = &mut n.nulls { x.len = d; x.count = (0..d).filter(|i| (x.bytes[(x.off + i) / 8] >> ((x.off + i) % 8)) & 1 == 0).count() }
    n
}
/// Dictionary evolution: every dictionary position (path in the column type) has a universe of values;
/// a batch uses a prefix of it (same / extended / shrunk w.r.t. the previous batch) or fresh values (replaced).
fn evolve(r: &mut Rng, n: &mut Node, path: &mut Vec<usize>, uni: &mut HashMap<Vec<usize>, (Node, usize)>, grow_only: bool) {
    if let Ty::Dict { .. } = n.ty {
        let need = n.kids[0].len;
        match uni.get(path).cloned() {
            // a replacement that keeps the first entries and changes a later one (same or greater length)
            Some((u, prev)) if !grow_only && matches!(u.ty, Ty::Fixed(_)) && u.ty == n.kids[0].ty && need <= u.len && prev >= 2 && r.chance(1, 5) => {
                let Ty::Fixed(w) = u.ty else { unreachable!() };
                let mut u2 = u.clone();
                let j = 1 + r.below(prev - 1);
                u2.bufs[0][(u2.off + j) * w] ^= 0x5a;
                if let Some(x) = &mut u2.nulls { x.bytes[(x.off + j) / 8] |= 1 << ((x.off + j) % 8); x.count = (0..x.len).filter(|i| (x.bytes[(x.off + i) / 8] >> ((x.off + i) % 8)) & 1 == 0).count() }
                let d = prev.max(need) + r.below(u2.len - prev.max(need) + 1);
                n.kids[0] = prefix(&u2, d);
                uni.insert(path.clone(), (u2, d));
            }
            Some((u, prev)) if u.ty == n.kids[0].ty && need <= u.len && !r.chance(1, if grow_only { 12 } else { 5 }) => {
                let lo = if grow_only { need.max(prev) } else { need };
                let d = if lo >= u.len { u.len } else { match r.below(4) { 0 => prev.clamp(lo, u.len), 1 => u.len, _ => lo + r.below(u.len - lo + 1) } };
                n.kids[0] = prefix(&u, d);
                uni.insert(path.clone(), (u, d));
            }
            _ => {
                // fresh values; become the universe (with some spare entries appended by regenerating longer)
                let cur = n.kids[0].clone();
                uni.insert(path.clone(), (cur.clone(), cur.len));
            }
        }
        return;
    }
    for (i, k) in n.kids.iter_mut().enumerate() { path.push(i); evolve(r, k, path, uni, grow_only); path.pop(); }
}
/// first batch: make dictionary universes larger than what the first batch uses, so later batches can extend
fn seed_universe(r: &mut Rng, n: &mut Node, path: &mut Vec<usize>, uni: &mut HashMap<Vec<usize>, (Node, usize)>) {
    if let Ty::Dict { v, kw, signed, .. } = &n.ty {
        let need = n.kids[0].len;
        let maxk: usize = if *kw == 1 { if *signed { 127 } else { 255 } } else { 1000 };
        let big = (need + r.below(5)).min(maxk);
        let u = c09::gen_valid(r, v, big, false);
        let d = need + r.below(big - need + 1);
        n.kids[0] = prefix(&u, d);
        uni.insert(path.clone(), (u, d));
        return;
    }
    for (i, k) in n.kids.iter_mut().enumerate() { path.push(i); seed_universe(r, k, path, uni); path.pop(); }
}

// ---- derived information for the type-level models
fn views_supply(n: &Node, out: &mut Vec<i64>) {
    match n.ty { Ty::View { .. } => out.push(n.bufs.len() as i64 - 1), Ty::Dict { .. } => {}, _ => for k in &n.kids { views_supply(k, out) } }
}
/// dictionaries of one array in encode_dictionaries order: the dictionaries nested in the values first,
/// then the dictionary itself (the order in which dictionary ids are assigned to the schema)
fn dicts_of<'a>(n: &'a Node, out: &mut Vec<&'a Node>) {
    if let Ty::Dict { .. } = n.ty {
        let v = &n.kids[0];
        for k in &v.kids { dicts_of(k, out) }
        out.push(v);
        return;
    }
    for k in &n.kids { dicts_of(k, out) }
}

fn derive(c: &CaseData) -> Option<Vec<i64>> {
    let (_, batches) = std::panic::catch_unwind(std::panic::AssertUnwindSafe(|| build_batches(c))).ok().flatten()?;
    let mut intern: HashMap<Vec<i64>, i64> = HashMap::new();
    let mut out = vec![batches.len() as i64];
    for b in &batches {
        out.push(b.num_rows() as i64);
        let dumps: Vec<Node> = b.columns().iter().map(|a| c01::from_data(&a.to_data())).collect::<Option<Vec<_>>>()?;
        let mut vs = Vec::new(); for n in &dumps { views_supply(n, &mut vs) }
        out.push(vs.len() as i64); out.extend(&vs);
        let mut ds = Vec::new(); for n in &dumps { dicts_of(n, &mut ds) }
        out.push(ds.len() as i64);
        for d in ds {
            out.push(d.len as i64);
            for i in 0..d.len { let mut v = Vec::new(); row(d, i, &mut v); let k = intern.len() as i64; out.push(*intern.entry(v).or_insert(k)) }
            let mut vs = Vec::new(); views_supply(d, &mut vs);
            out.push(vs.len() as i64); out.extend(&vs);
        }
    }
    Some(out)
}

fn tag_ty(t: &Ty) -> &'static str {
    match t { Ty::Null => "null", Ty::Bool => "bool", Ty::Fixed(_) => "fixed", Ty::FixedBin(_) => "fsb", Ty::Bin { .. } => "bin", Ty::View { .. } => "view", Ty::List { .. } => "list",
        Ty::ListView { .. } => "listview", Ty::FixedList { .. } => "fsl", Ty::Struct(_) => "struct", Ty::Dict { .. } => "dict", Ty::Ree { .. } => "ree", Ty::Union { .. } => "union" }
}

pub fn gen_case(r: &mut Rng, tier: &str) -> CaseData {
    // C04_FINDINGS=1 switches the exclusions off: used once to collect the witnesses in replays/C04-known-finding-candidates.cases
    let findings = std::env::var("C04_FINDINGS").is_ok();
    let kind = *r.pick(&[0i64, 0, 0, 1, 1, 1, 2, 2, 3, 3, 3, 4, 5]);
    let mut v5 = r.chance(3, 4);
    let mut legacy = !v5 && r.chance(1, 3);
    let fdh = r.below(2) as i64;
    let dh = r.below(2) as i64;
    let ncols = if r.chance(1, 12) { 0 } else { 1 + r.below(4) };
    let cols: Vec<Col> = (0..ncols).map(|_| {
        let ty = loop {
            let t = gen_col_ty(r);
            // KNOWN-FINDING candidate (Flight, Union): FlightDataEncoder::prepare_field_for_flight rebuilds every Union-typed
            // field with Field::new_union: the field becomes non-nullable and loses its metadata, so the decoded schema
            // differs from the input schema, and for nested unions encoding fails (cast Union -> Union / validation errors)
            if !findings && kind == 3 && any_ty(&t, &|x| matches!(x, Ty::Union { .. })) { continue }
            // KNOWN-FINDING candidates (Flight, DictionaryHandling::Hydrate goes through arrow_cast::cast):
            //   Dictionary<_, RunEndEncoded<..>> loses the run-end / values field names and metadata of the target type
            //   ("column types must match schema types"); zero-width FixedSizeBinary(0) / FixedSizeList(_, 0) next to a
            //   dictionary lose their row count ("all columns in a record batch must have the specified row count")
            if !findings && kind == 3 && fdh == 0 && any_ty(&t, &|x| matches!(x, Ty::Dict { .. })) {
                if any_ty(&t, &|x| matches!(x, Ty::Dict { v, .. } if any_ty(v, &|y| matches!(y, Ty::Ree { .. })))) { continue }
                if any_ty(&t, &|x| matches!(x, Ty::Ree { v, .. } if any_ty(v, &|y| matches!(y, Ty::Dict { .. })))) { continue }
                if any_ty(&t, &|x| matches!(x, Ty::FixedBin(0) | Ty::FixedList { n: 0, .. })) { continue }
            }
            // KNOWN-FINDING candidate (delta dictionaries): DictionaryUpdate::Delta slices the new values with ArrayData::slice;
            // a Union in the values (directly or through Struct / FixedSizeList) is then written ignoring the slice (class A)
            if !findings && dh == 1 && any_ty(&t, &|x| matches!(x, Ty::Dict { v, .. } if union_reachable(v))) { continue }
            break t;
        };
        Col { ty, nullable: r.chance(3, 4) || logical_nulls(&ty_dummy()), name: r.below(12) as i64, meta: r.below(5) as i64, deco: (0..24).map(|_| r.below(1000) as i64).collect() }
    }).collect();
    let cols: Vec<Col> = cols.into_iter().map(|mut c| { if logical_nulls(&c.ty) { c.nullable = true } c }).collect();
    // KNOWN-FINDING candidate (MetadataVersion::V4 + RunEndEncoded): the V4 writer emits a validity buffer for the run array
    // (has_validity_bitmap) that the reader never consumes; every later buffer is shifted by one and the read fails
    if !findings && cols.iter().any(|c| any_ty(&c.ty, &|x| matches!(x, Ty::Ree { .. }))) { v5 = true; legacy = false }
    let comp = if v5 && r.chance(1, if tier == "thorough" { 2 } else { 4 }) { 1 + r.below(2) as i64 } else { 0 };
    let mut opts = Opts { kind, align: *r.pick(&[8i64, 16, 32, 64]), v5, legacy, comp, dh,
        fmax: *r.pick(&[1i64, 16, 64, 200, 1000, 2097152]), fdh, share: r.bool(), chunk_seed: 1 + r.below(1 << 30) as i64, with_schema: r.bool() };
    // KNOWN-FINDING candidate (StreamDecoder, dense Union): create_array turns the dense union offsets buffer into a
    // ScalarBuffer<i32> without re-aligning it (every other type goes through align_buffers); when the chunks handed to
    // StreamDecoder::decode leave a message body unaligned the decoder panics ("Memory pointer is not aligned with the
    // specified scalar type"). Streams with a dense union are fed in chunks that keep bodies 8-byte aligned.
    if !findings && (kind == 2 || kind == 4) && cols.iter().any(|c| any_ty(&c.ty, &|x| matches!(x, Ty::Union { dense: true, .. }))) { opts.chunk_seed = -opts.chunk_seed }
    let nb = if r.chance(1, 15) { 0 } else { 1 + r.below(4) };
    let mut unis: Vec<HashMap<Vec<usize>, (Node, usize)>> = (0..ncols).map(|_| HashMap::new()).collect();
    // the file format allows only one dictionary per field (delta extensions with DictionaryHandling::Delta):
    // most file histories only grow their dictionaries; some replace them and must be rejected
    let grow_only = kind == 0 && r.chance(4, 5);
    let mut batches = Vec::new();
    for bi in 0..nb {
        let rows = if r.chance(1, 8) { 0 } else if r.chance(1, 6) { *r.pick(&[7usize, 8, 9, 16, 17, 31, 32, 33, 40]) } else { 1 + r.below(12) };
        let slice = if r.chance(1, 3) { Some((r.below(10), rows)) } else { None };
        let total = match slice { Some((o, l)) => o + l + r.below(4), None => rows };
        let mut nodes = Vec::new();
        for (ci, col) in cols.iter().enumerate() {
            let mut tries = 0;
            let n = loop {
                let mut n = c09::gen_valid(r, &col.ty, total, !col.nullable);
                let mut path = Vec::new();
                let mut u = unis[ci].clone();
                if bi == 0 { seed_universe(r, &mut n, &mut path, &mut u) } else { evolve(r, &mut n, &mut path, &mut u, grow_only) }
                // KNOWN-FINDING candidates A (Union under a non-trivial ArrayData::slice) and B (empty slice of a non-empty
                // RunEndEncoded array), see `hazard`: such layouts are not generated
                tries += 1;
                if !findings && (col_hazard(&n, slice) || dict_hazard(&n)) && tries < 200 { continue }
                if !findings && kind == 3 && tries < 200 && flight_hazard(&n, slice, rows) { continue }
                // layouts the typed constructors reject (e.g. an empty offsets buffer at a non-zero offset) are regenerated
                let dt = field_of(ci, col).data_type().clone();
                let ok = std::panic::catch_unwind(std::panic::AssertUnwindSafe(|| build(&n, &dt, false, &mut DictCache::new()).map(make_array).is_some())).unwrap_or(false);
                if !ok && tries < 200 { continue }
                unis[ci] = u;
                break n;
            };
            nodes.push(n);
        }
        batches.push(Batch { rows, slice, cols: nodes });
    }
    let proj = if (kind == 0 || kind == 1 || kind == 5) && ncols > 0 && r.bool() {
        let k = r.below(ncols + 2);
        let mut p: Vec<usize> = (0..k).map(|_| r.below(ncols)).collect();
        if r.bool() { p.sort(); p.dedup() }
        Some(p)
    } else { None };
    let mut c = CaseData { opts, proj, schema_meta: r.below(5) as i64, cols, batches, derived: vec![] };
    c.derived = derive(&c).unwrap_or_default();
    if c.derived.is_empty() && std::env::var("C04_DEBUG").is_ok() { eprintln!("C04_DEBUG unbuildable case: {:?}", c.cols.iter().map(|x| enc_ty_vec(&x.ty)).collect::<Vec<_>>()) }
    c
}
fn ty_dummy() -> Ty { Ty::Bool }
/// a Union reachable from the root through Struct / FixedSizeList only (what an ArrayData::slice propagates to)
fn union_reachable(t: &Ty) -> bool {
    match t { Ty::Union { .. } => true, Ty::Struct(fs) => fs.iter().any(|(_, t)| union_reachable(t)), Ty::FixedList { c, .. } => union_reachable(c), _ => false }
}
fn flight_hazard(n: &Node, slice: Option<(usize, usize)>, rows: usize) -> bool {
    // Flight cuts a batch into row ranges (array-level slices): no piece may fall into class A / B either
    let base = slice.map_or(0, |x| x.0);
    (0..rows).any(|o| (1..=rows - o).any(|l| hazard(n, base + o, l, false)))
}
pub fn case_has_hazard(c: &CaseData) -> bool {
    c.batches.iter().any(|b| b.cols.iter().any(|n| col_hazard(n, b.slice) || dict_hazard(n) || (c.opts.kind == 3 && flight_hazard(n, b.slice, b.rows))))
}

pub fn generate(tier: &str, r: &mut Rng, emit: &mut dyn FnMut(Case)) {
    let n = if tier == "thorough" { 12000 } else { 1200 };
    for _ in 0..n / 2 {
        let hi = if r.bool() { 12 } else { 300 };
        let rows = if r.chance(1, 10) { 0 } else { r.below(hi) };
        let max = *r.pick(&[1usize, 2, 7, 8, 9, 63, 64, 65, 100, 512, 1000, 4096, 2097152]);
        let ncols = r.below(4);
        emit(Case::new("c04.flight_split", vec![gs(&[rows as i64, max as i64, ncols as i64])], &["c04.flight_split.post"], format!("rows{} max{} c{}", rows.min(13), max, ncols)));
    }
    for _ in 0..n {
        let c = gen_case(r, tier);
        if case_has_hazard(&c) && std::env::var("C04_FINDINGS").is_err() { continue }
        let args = encode_case(&c);
        let types: Vec<&str> = c.cols.iter().map(|c| tag_ty(&c.ty)).collect();
        let tag = format!("k{} a{} v{}{} c{} d{} f{} nb{} {}", c.opts.kind, c.opts.align, if c.opts.v5 { 5 } else { 4 }, if c.opts.legacy { "L" } else { "" }, c.opts.comp, c.opts.dh, c.opts.fdh, c.batches.len(), types.join("+"));
        emit(Case::new("c04.roundtrip", args.clone(), &["c04.roundtrip.spec"], tag.clone()));
        if c.derived.is_empty() { continue }
        // the message-sequence model decides "same / extended / replaced dictionary" by LOGICAL equality of the values;
        // arrow's ArrayData equality on RunEndEncoded values is not purely logical (compare_dictionaries then falls back
        // to a full replacement, which still round-trips): such dictionaries are left to the round-trip suites
        let ree_dict = c.cols.iter().any(|col| any_ty(&col.ty, &|x| matches!(x, Ty::Dict { v, .. } if any_ty(v, &|y| matches!(y, Ty::Ree { .. })))));
        if c.opts.kind != 3 && !ree_dict { emit(Case::new("c04.messages", args.clone(), &["c04.messages"], tag.clone())) }
        if c.opts.kind == 0 { emit(Case::new("c04.file_layout", args.clone(), &["c04.file_layout.post1"], tag.clone())) }
        if !c.cols.is_empty() && !c.batches.is_empty() {
            let mut a2 = args.clone(); a2.push(gs(&[r.below(4) as i64, r.below(4) as i64]));
            emit(Case::new("c04.read_array", a2, &["c01.valid.post1"], tag.clone()));
            let mut a3 = args.clone(); a3.push(gs(&[r.below(4) as i64, r.below(4) as i64]));
            emit(Case::new("c04.encode", a3, &["c04.encode.post1"], tag));
        }
    }
}

// ------------------------------------------------------------------ probes (manual witnesses of findings)
fn probe_rt(name: &str, col: ArrayRef, v5: bool) {
    let schema = Arc::new(Schema::new(vec![Field::new("c", col.data_type().clone(), true)]));
    let rb = RecordBatch::try_new(schema.clone(), vec![col.clone()]).unwrap();
    let o = Opts { kind: 1, align: 8, v5, legacy: false, comp: 0, dh: 0, fmax: 1 << 20, fdh: 1, share: false, chunk_seed: 0, with_schema: false };
    match write_all(&o, &schema, &[rb.clone()]) {
        Err(e) => eprintln!("{name}: WRITE ERROR {e}"),
        Ok(w) => match read_all(&o, &w, None) {
            Err(e) => eprintln!("{name}: READ ERROR {e}"),
            Ok((_, rbs)) => { let same = rbs.len() == 1 && rbs[0].column(0).as_ref() == col.as_ref();
                eprintln!("{name}: read ok, equal={same}\n  in  = {:?}\n  out = {:?}", col, rbs[0].column(0)) }
        },
    }
}
fn probe(k: i64) {
    use arrow_array::*;
    use arrow_buffer::{OffsetBuffer, ScalarBuffer};
    let ints: ArrayRef = Arc::new(Int32Array::from(vec![10, 20, 30, 40]));
    let ufields = UnionFields::try_new(vec![0i8], vec![Field::new("a", DataType::Int32, true)]).unwrap();
    match k {
        1 => { // List<SparseUnion> whose child has one element more than the last offset
            let u = UnionArray::try_new(ufields.clone(), ScalarBuffer::from(vec![0i8, 0, 0, 0]), None, vec![ints.clone()]).unwrap();
            let l = ListArray::new(Arc::new(Field::new("item", u.data_type().clone(), true)), OffsetBuffer::new(ScalarBuffer::from(vec![0i32, 1, 3])), Arc::new(u), None);
            probe_rt("list<sparse union> with unused trailing child slot", Arc::new(l), true);
        }
        2 => { // List<DenseUnion> sliced
            let u = UnionArray::try_new(ufields.clone(), ScalarBuffer::from(vec![0i8, 0, 0, 0]), Some(ScalarBuffer::from(vec![3i32, 2, 1, 0])), vec![ints.clone()]).unwrap();
            let l = ListArray::new(Arc::new(Field::new("item", u.data_type().clone(), true)), OffsetBuffer::new(ScalarBuffer::from(vec![0i32, 1, 2, 4])), Arc::new(u), None);
            probe_rt("list<dense union>.slice(1,2)", Arc::new(l.slice(1, 2)), true);
        }
        3 => { // empty slice of a run array
            let r = RunArray::<arrow_array::types::Int32Type>::try_new(&Int32Array::from(vec![2, 4]), &Int32Array::from(vec![7, 8])).unwrap();
            probe_rt("run array .slice(1,0)", Arc::new(r.slice(1, 0)), true);
            probe_rt("run array .slice(0,0)", Arc::new(r.slice(0, 0)), true);
        }
        4 => { let r = RunArray::<arrow_array::types::Int32Type>::try_new(&Int32Array::from(vec![2, 4]), &Int32Array::from(vec![7, 8])).unwrap();
               probe_rt("run array, MetadataVersion::V4", Arc::new(r), false); }
        5 => { // FixedSizeList<SparseUnion> sliced
            let u = UnionArray::try_new(ufields.clone(), ScalarBuffer::from(vec![0i8, 0, 0, 0]), None, vec![ints.clone()]).unwrap();
            let l = FixedSizeListArray::new(Arc::new(Field::new("item", u.data_type().clone(), true)), 2, Arc::new(u), None);
            probe_rt("fixed_size_list<sparse union>.slice(1,1)", Arc::new(l.slice(1, 1)), true);
        }
        6 => { // delta dictionaries whose values are unions
            use arrow_array::types::Int32Type;
            let mk = |n: usize| -> ArrayRef {
                let vals: ArrayRef = Arc::new(Int32Array::from((0..n as i32).map(|x| 100 + x).collect::<Vec<_>>()));
                let u = UnionArray::try_new(ufields.clone(), ScalarBuffer::from(vec![0i8; n]), None, vec![vals]).unwrap();
                let keys = Int32Array::from((0..n as i32).rev().collect::<Vec<_>>());
                Arc::new(DictionaryArray::<Int32Type>::try_new(keys, Arc::new(u)).unwrap())
            };
            let (a, b) = (mk(2), mk(4));
            let schema = Arc::new(Schema::new(vec![Field::new("c", a.data_type().clone(), true)]));
            let o = Opts { kind: 1, align: 8, v5: true, legacy: false, comp: 0, dh: 1, fmax: 1 << 20, fdh: 1, share: false, chunk_seed: 0, with_schema: false };
            let rbs = vec![RecordBatch::try_new(schema.clone(), vec![a]).unwrap(), RecordBatch::try_new(schema.clone(), vec![b]).unwrap()];
            match write_all(&o, &schema, &rbs).and_then(|w| read_all(&o, &w, None)) {
                Err(e) => eprintln!("delta dict of sparse union: ERROR {e}"),
                Ok((_, out)) => for (x, y) in rbs.iter().zip(out.iter()) { eprintln!("delta dict of sparse union: rows in {:?} out {:?}", rows_of(x.column(0).as_ref()), rows_of(y.column(0).as_ref())) },
            }
        }
        _ => {}
    }
}
