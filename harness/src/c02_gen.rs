// ------------------------------------------------------------------ generator: logical columns and their physical realisations
fn nb_get(x: &Nulls, i: usize) -> bool { (x.bytes[(x.off + i) / 8] >> ((x.off + i) % 8)) & 1 == 1 }
fn nb_set(x: &mut Nulls, i: usize, v: bool) { let (b, m) = ((x.off + i) / 8, 1u8 << ((x.off + i) % 8)); if v { x.bytes[b] |= m } else { x.bytes[b] &= !m } }
fn nb_recount(x: &mut Nulls) { x.count = (0..x.len).filter(|i| !nb_get(x, *i)).count() }
fn slot_valid(n: &Node, i: usize) -> bool { n.nulls.as_ref().map_or(true, |x| i >= x.len || nb_get(x, i)) }
fn rd_le(b: &[u8], w: usize, i: usize) -> i64 { let mut v: i64 = 0; for k in (0..w.min(8)).rev() { v = (v << 8) | b[i * w + k] as i64 } if w < 8 && v >> (8 * w - 1) & 1 == 1 { v -= 1 << (8 * w) } v }
fn ty_head(t: &Ty) -> String {
    match t { Ty::Null => "null".into(), Ty::Bool => "bool".into(), Ty::Fixed(w) => format!("fx{w}"), Ty::FixedBin(_) => "fsb".into(), Ty::Bin { large, utf8 } => format!("bin{}{}", *large as u8, *utf8 as u8),
        Ty::View { utf8 } => format!("view{}", *utf8 as u8), Ty::List { c, .. } => format!("list<{}>", ty_head(c)), Ty::ListView { c, .. } => format!("lview<{}>", ty_head(c)), Ty::FixedList { c, .. } => format!("fsl<{}>", ty_head(c)),
        Ty::Struct(_) => "struct".into(), Ty::Dict { v, .. } => format!("dict<{}>", ty_head(v)), Ty::Ree { v, .. } => format!("ree<{}>", ty_head(v)), Ty::Union { .. } => "union".into() }
}
fn has_union(t: &Ty) -> bool {
    match t { Ty::Union { .. } => true, Ty::List { c, .. } | Ty::ListView { c, .. } | Ty::FixedList { c, .. } => has_union(c), Ty::Dict { v, .. } | Ty::Ree { v, .. } => has_union(v), Ty::Struct(fs) => fs.iter().any(|(_, t)| has_union(t)), _ => false }
}
fn contains_ty(t: &Ty, f: &dyn Fn(&Ty) -> bool) -> bool {
    f(t) || match t { Ty::List { c, .. } | Ty::ListView { c, .. } | Ty::FixedList { c, .. } => contains_ty(c, f), Ty::Dict { v, .. } | Ty::Ree { v, .. } => contains_ty(v, f), Ty::Struct(fs) => fs.iter().any(|(_, t)| contains_ty(t, f)), _ => false }
}

/// garbage under null slots: the payload of every null slot (recursively: the child slots it owns) is re-randomised
fn scramble_payload(r: &mut Rng, n: &mut Node, i: usize) {
    let p = n.off + i;
    match n.ty.clone() {
        Ty::Bool => { if p / 8 < n.bufs[0].len() && r.bool() { n.bufs[0][p / 8] ^= 1 << (p % 8) } }
        Ty::Fixed(w) => { for k in 0..w { n.bufs[0][p * w + k] = r.next() as u8 } }
        Ty::FixedBin(s) => { let s = s as usize; for k in 0..s { n.bufs[0][p * s + k] = r.next() as u8 } }
        Ty::Bin { large, utf8 } => { let w = if large { 8 } else { 4 }; if n.bufs[0].len() >= (p + 2) * w { let (s, e) = (rd_le(&n.bufs[0], w, p) as usize, rd_le(&n.bufs[0], w, p + 1) as usize);
            for k in s..e.min(n.bufs[1].len()) { n.bufs[1][k] = if utf8 { b'a' + (r.next() % 26) as u8 } else { r.next() as u8 } } } }
        Ty::View { utf8 } => { let b = &mut n.bufs[0][p * 16..p * 16 + 16]; let len = u32::from_le_bytes(b[..4].try_into().unwrap()); if len <= 12 { let nl = r.below(13); for k in 0..16 { b[k] = 0 } b[0] = nl as u8; for k in 0..nl { b[4 + k] = if utf8 { b'a' + (r.next() % 26) as u8 } else { r.next() as u8 } } } }
        Ty::List { large, nullable, .. } => { let w = if large { 8 } else { 4 }; if n.bufs[0].len() >= (p + 2) * w { let (s, e) = (rd_le(&n.bufs[0], w, p) as usize, rd_le(&n.bufs[0], w, p + 1) as usize);
            for j in s..e.min(n.kids[0].len) { scramble_slot(r, &mut n.kids[0], j, nullable) } } }
        Ty::FixedList { n: s, nullable, .. } => { let s = s as usize; for j in p * s..(p + 1) * s { if j < n.kids[0].len { scramble_slot(r, &mut n.kids[0], j, nullable) } } }
        Ty::Struct(fs) => { for (k, (nb, _)) in fs.iter().enumerate() { if p < n.kids[k].len { scramble_slot(r, &mut n.kids[k], p, *nb) } } }
        Ty::Dict { kw, .. } => { let dlen = n.kids[0].len; if !slot_valid(n, i) { for k in 0..kw { n.bufs[0][p * kw + k] = r.next() as u8 } } else if dlen > 0 { let v = r.below(dlen.min(100)); for k in 0..kw { n.bufs[0][p * kw + k] = if k == 0 { v as u8 } else { 0 } } } }
        _ => {}
    }
}
fn scramble_slot(r: &mut Rng, n: &mut Node, i: usize, may_null: bool) {
    // a slot nobody can see: its validity bit may change too (when nulls are allowed there and the payload stays well formed)
    let dict_empty = matches!(n.ty, Ty::Dict { .. }) && n.kids[0].len == 0;
    if may_null && !dict_empty { if let Some(x) = &mut n.nulls { if i < x.len && r.bool() { let v = r.bool(); nb_set(x, i, v); nb_recount(x) } } }
    scramble_payload(r, n, i);
}
pub fn scramble(r: &mut Rng, n: &mut Node) {
    for i in 0..n.len { if !slot_valid(n, i) && r.chance(3, 4) { scramble_payload(r, n, i) } }
    let skip_first = matches!(n.ty, Ty::Ree { .. });
    for (j, k) in n.kids.iter_mut().enumerate() { if !(skip_first && j == 0) { scramble(r, k) } }
}
/// validity buffer absent <-> present with every bit set; or re-packed at another bit offset with junk around
pub fn toggle_validity(r: &mut Rng, n: &mut Node) {
    if !matches!(n.ty, Ty::Null | Ty::Ree { .. } | Ty::Union { .. }) {
        match &n.nulls {
            None => if r.chance(1, 2) { let off = r.below(11); let extra = r.below(2); let mut bytes = vec![0xFFu8; (off + n.len + 7) / 8 + extra];
                for b in 0..off.min(bytes.len() * 8) { if r.bool() { bytes[b / 8] &= !(1 << (b % 8)) } }
                n.nulls = Some(Nulls { bytes, off, len: n.len, count: 0 }) }
            Some(x) => if x.count == 0 && r.chance(1, 2) { n.nulls = None } else if r.chance(1, 2) {
                let off = r.below(11); let extra = r.below(2); let mut bytes = r.bytes((off + x.len + 7) / 8 + extra);
                let mut y = Nulls { bytes: std::mem::take(&mut bytes), off, len: x.len, count: x.count };
                for i in 0..x.len { let v = nb_get(x, i); nb_set(&mut y, i, v) }
                n.nulls = Some(y) }
        }
    }
    let skip_first = matches!(n.ty, Ty::Ree { .. });
    for (j, k) in n.kids.iter_mut().enumerate() { if !(skip_first && j == 0) { toggle_validity(r, k) } }
}
/// views re-split across a different set of data buffers (junk gaps, shared bytes)
pub fn resplit_views(r: &mut Rng, n: &mut Node) {
    if let Ty::View { .. } = n.ty {
        let slots = n.bufs[0].len() / 16;
        let old: Vec<Vec<u8>> = n.bufs[1..].to_vec();
        let nb = 1 + r.below(3);
        let mut data: Vec<Vec<u8>> = (0..nb).map(|_| { let k = r.below(5); r.bytes(k) }).collect();
        let mut placed: Vec<(Vec<u8>, usize, usize)> = Vec::new();
        for i in 0..slots {
            let b = n.bufs[0][i * 16..i * 16 + 16].to_vec();
            let len = u32::from_le_bytes(b[..4].try_into().unwrap()) as usize;
            if len <= 12 { continue }
            let bi = u32::from_le_bytes(b[8..12].try_into().unwrap()) as usize; let o = u32::from_le_bytes(b[12..16].try_into().unwrap()) as usize;
            if bi >= old.len() || o + len > old[bi].len() { continue }
            let s = old[bi][o..o + len].to_vec();
            let (nbi, no) = match placed.iter().find(|(t, _, _)| *t == s) { Some((_, x, y)) if r.bool() => (*x, *y), _ => { let x = r.below(nb); let y = data[x].len(); data[x].extend_from_slice(&s); let junk = r.below(3); data[x].extend(r.bytes(junk)); placed.push((s.clone(), x, y)); (x, y) } };
            n.bufs[0][i * 16 + 8..i * 16 + 12].copy_from_slice(&(nbi as u32).to_le_bytes());
            n.bufs[0][i * 16 + 12..i * 16 + 16].copy_from_slice(&(no as u32).to_le_bytes());
        }
        n.bufs.truncate(1); n.bufs.extend(data);
    }
    let skip_first = matches!(n.ty, Ty::Ree { .. });
    for (j, k) in n.kids.iter_mut().enumerate() { if !(skip_first && j == 0) { resplit_views(r, k) } }
}

// ---- logical value generators
fn int_bits(v: i128, w: usize) -> LV { let m = BigInt::from(1) << (8 * w); LV::Int(((BigInt::from(v) % &m) + &m) % &m) }
fn gen_scalar(r: &mut Rng, t: &Ty, fl: usize) -> LV {
    match t {
        Ty::Null => LV::Null,
        Ty::Bool => LV::Bool(r.bool()),
        Ty::Fixed(w) => {
            let w = *w;
            if fl == 2 && (w == 4 || w == 8 || w == 2) {
                let f = *r.pick(&[0.0f64, -0.0, 1.0, -1.0, 1.5, 2.0, 3.25, 100.0, -7.5, 1e10, 1e-10, f64::NAN, f64::INFINITY, f64::NEG_INFINITY, f64::MAX, f64::MIN_POSITIVE, 0.1, 0.2, 16777217.0]);
                return match w { 8 => LV::Int(f.to_bits().into()), 4 => LV::Int((f as f32).to_bits().into()), _ => LV::Int(half::f16::from_f64(f).to_bits().into()) };
            }
            let bits = 8 * w.min(16) as u32; let signed = fl != 1;
            let (mn, mx): (i128, i128) = if w >= 16 { (i128::MIN / 4, i128::MAX / 4) } else if signed { (-(1i128 << (bits - 1)), (1i128 << (bits - 1)) - 1) } else { (0, (1i128 << bits) - 1) };
            let v = match r.below(12) { 0 => 0, 1 => 1, 2 => mx, 3 => mn, 4 => mx - 1, 5 => mn + 1, 6 => 2, 7 => if signed { -1 } else { 3 }, 8 => r.range(-5, 5) as i128, 9 => r.range(-100, 100) as i128, 10 => (r.next() as i128) % (mx / 3 + 1), _ => r.range(0, 20) as i128 };
            int_bits(v.clamp(mn, mx), w)
        }
        Ty::FixedBin(n) => LV::Bytes(r.bytes(*n as usize)),
        Ty::Bin { utf8, .. } | Ty::View { utf8 } => {
            let long = matches!(t, Ty::View { .. }) && r.chance(1, 3);
            let alpha = ["a", "b", "c", "ab", "A", "é", "ß", "€", "😀", "", "%", "_", "xyz", "0", "12", " ", "abcabc", "\u{7ff}", "\u{10000}"];
            let mut s = Vec::new(); let k = r.below(4) + if long { 5 } else { 0 };
            for _ in 0..k { if *utf8 { s.extend_from_slice(r.pick(&alpha).as_bytes()) } else { let q = r.below(4); s.extend(r.bytes(q)) } }
            if long { while s.len() <= 12 { s.extend_from_slice(b"pad") } }
            LV::Bytes(s)
        }
        Ty::List { nullable, c, .. } | Ty::ListView { nullable, c, .. } => { let k = r.below(4); LV::List((0..k).map(|_| gen_elem(r, c, fl, *nullable)).collect()) }
        Ty::FixedList { n, nullable, c } => LV::List((0..*n).map(|_| gen_elem(r, c, fl, *nullable)).collect()),
        Ty::Struct(fs) => LV::Struct(fs.iter().map(|(nb, t)| gen_elem(r, t, fl, *nb)).collect()),
        Ty::Dict { v, .. } | Ty::Ree { v, .. } => gen_scalar(r, v, fl),
        Ty::Union { .. } => LV::Null,
    }
}
fn gen_elem(r: &mut Rng, t: &Ty, fl: usize, nullable: bool) -> LV { if nullable && r.chance(1, 5) { LV::Null } else { gen_scalar(r, t, fl) } }
/// a logical column; nullp: 0 no nulls, 1 few, 2 half, 3 all null
pub fn gen_lv(r: &mut Rng, t: &Ty, fl: usize, len: usize, nullp: usize) -> Vec<LV> {
    let pool: Vec<LV> = (0..1 + r.below(4)).map(|_| gen_scalar(r, t, fl)).collect();
    let repeat = matches!(t, Ty::Dict { .. } | Ty::Ree { .. }) || r.chance(1, 4);
    let mut out: Vec<LV> = Vec::with_capacity(len);
    for i in 0..len {
        let null = match nullp { 0 => false, 1 => r.chance(1, 8), 2 => r.bool(), _ => true };
        let v = if null || matches!(t, Ty::Null) { LV::Null } else if matches!(t, Ty::Ree { .. }) && i > 0 && r.chance(2, 3) { out[i - 1].clone() } else if repeat { r.pick(&pool).clone() } else { gen_scalar(r, t, fl) };
        out.push(v);
    }
    out
}

// ---- realisations
#[derive(Clone)]
pub struct Col { pub ty: Ty, pub fl: usize, pub lv: Vec<LV>, pub reals: Vec<(Node, usize, &'static str)> }

fn junk_lv(r: &mut Rng, t: &Ty, lv: &[LV], k: usize) -> Vec<LV> { (0..k).map(|_| if lv.is_empty() { default_lv(t) } else { r.pick(lv).clone() }).collect() }
fn pick_path(r: &mut Rng, n: &Node, fl: usize) -> Option<usize> { let p = r.below(2); if build(n, fl, p).is_some() { Some(p) } else if build(n, fl, 1 - p).is_some() { Some(1 - p) } else { None } }

fn derive(r: &mut Rng, kind: usize, ty: &Ty, fl: usize, lv: &[LV], base: &Node, arr: &ArrayRef) -> Option<(Node, &'static str)> {
    let len = lv.len();
    Some(match kind {
        0 => (dump(from_lv(ty, fl, lv)?.as_ref())?, "canon"),
        1 => { let (k1, k2) = (r.below(9), r.below(4)); let j1 = from_lv(ty, fl, &junk_lv(r, ty, lv, k1))?; let j2 = from_lv(ty, fl, &junk_lv(r, ty, lv, k2))?;
               let c = arrow_select::concat::concat(&[j1.as_ref(), arr.as_ref(), j2.as_ref()]).ok()?; (dump(c.slice(k1, len).as_ref())?, "slice-concat") }
        2 => { let (k1, k2) = (r.below(70), r.below(4)); let mut all = junk_lv(r, ty, lv, k1); all.extend(lv.iter().cloned()); all.extend(junk_lv(r, ty, lv, k2));
               (dump(from_lv(ty, fl, &all)?.slice(k1, len).as_ref())?, "slice-canon") }
        3 => { let mut n = base.clone(); scramble(r, &mut n); tame_null_keys(&mut n); (n, "garbage") }
        4 => { let mut n = base.clone(); toggle_validity(r, &mut n); (n, "validity") }
        5 => { if !contains_ty(ty, &|t| matches!(t, Ty::View { .. })) { return None } let mut n = base.clone(); resplit_views(r, &mut n); (n, "views") }
        6 => { let idx: UInt32Array = (0..len as u32).collect(); (dump(arrow_select::take::take(arr.as_ref(), &idx, None).ok()?.as_ref())?, "take-id") }
        7 => match ty {
            Ty::Dict { kw, signed, v } => { // permuted / duplicated / unused dictionary entries
                let d = arr.as_any_dictionary(); let keys = read_lv(d.keys(), 0)?; let vals = read_lv(d.values().as_ref(), 0)?;
                let mut order: Vec<Option<usize>> = Vec::new();
                for i in 0..vals.len() { order.push(Some(i)); if r.chance(1, 3) { order.push(Some(i)) } }
                for _ in 0..r.below(3) { order.push(None) }
                for i in (1..order.len()).rev() { let j = r.below(i + 1); order.swap(i, j) }
                let cap = if *kw == 1 && *signed { 127 } else { 250 }; if order.len() > cap { return None }
                let child_nullable = true;
                let nvals: Vec<LV> = order.iter().map(|o| match o { Some(i) => vals[*i].clone(), None => if vals.is_empty() || r.bool() { child_or_default(&LV::Null, v, child_nullable) } else { r.pick(&vals).clone() } }).collect();
                let nkeys: Vec<LV> = keys.iter().map(|k| match k { LV::Int(z) => { let i = usize::try_from(z).unwrap(); let pos: Vec<usize> = order.iter().enumerate().filter(|(_, o)| **o == Some(i)).map(|(p, _)| p).collect(); LV::Int((*r.pick(&pos)).into()) } _ => LV::Null }).collect();
                (dump(dict_from(*kw, *signed, &nkeys, from_lv(v, fl, &nvals)?)?.as_ref())?, "dict-perm") }
            Ty::Ree { rw, v } => { // runs split differently, extra runs before / after, then slice
                let k1 = r.below(4); let k2 = r.below(3); let mut all = junk_lv(r, ty, lv, k1); all.extend(lv.iter().cloned()); all.extend(junk_lv(r, ty, lv, k2));
                let mut ends: Vec<LV> = Vec::new(); let mut vals: Vec<LV> = Vec::new();
                for (i, x) in all.iter().enumerate() { if i > 0 && vals.last() == Some(x) && !r.chance(1, 3) { *ends.last_mut().unwrap() = LV::Int((i + 1).into()) } else { vals.push(x.clone()); ends.push(LV::Int((i + 1).into())) } }
                (dump(ree_from(*rw, &ends, from_lv(v, fl, &vals)?)?.slice(k1, len).as_ref())?, "runs-split") }
            Ty::ListView { large, nullable, c } => { // children laid out in another order, with gaps and shared ranges
                let mut order: Vec<usize> = (0..len).collect(); for i in (1..len).rev() { let j = r.below(i + 1); order.swap(i, j) }
                let mut flat: Vec<LV> = Vec::new(); let mut offs = vec![0usize; len]; let mut sizes = vec![0usize; len]; let mut seen: Vec<(Vec<LV>, usize)> = Vec::new();
                for &i in &order { for _ in 0..r.below(2) { if let Some(LV::List(l)) = lv.iter().find(|x| matches!(x, LV::List(l) if !l.is_empty())) { flat.push(l[0].clone()) } }
                    match &lv[i] { LV::List(l) => { sizes[i] = l.len(); match seen.iter().find(|(t, _)| t == l) { Some((_, o)) if r.bool() => offs[i] = *o, _ => { offs[i] = flat.len(); seen.push((l.clone(), flat.len())); flat.extend(l.iter().cloned()) } } }
                                   _ => { offs[i] = r.below(flat.len() + 1); sizes[i] = r.below(flat.len() - offs[i] + 1) } } }
                let child = from_lv(c, fl, &flat)?; let f = item_field(c, fl, *nullable);
                let a: ArrayRef = if *large { Arc::new(LargeListViewArray::try_new(f, offs.iter().map(|x| *x as i64).collect::<Vec<_>>().into(), sizes.iter().map(|x| *x as i64).collect::<Vec<_>>().into(), child, nulls_from(lv)).ok()?) }
                    else { Arc::new(ListViewArray::try_new(f, offs.iter().map(|x| *x as i32).collect::<Vec<_>>().into(), sizes.iter().map(|x| *x as i32).collect::<Vec<_>>().into(), child, nulls_from(lv)).ok()?) };
                (dump(a.as_ref())?, "lview-reorder") }
            _ => return None,
        },
        _ => { let mut n = base.clone(); scramble(r, &mut n); tame_null_keys(&mut n); toggle_validity(r, &mut n); resplit_views(r, &mut n); (n, "garbage+validity") }
    })
}

/// k >= 5 physical realisations of one logical column (the first is the base)
pub fn realise(r: &mut Rng, ty: &Ty, fl: usize, base: Node, want: usize) -> Option<Col> {
    let p0 = pick_path(r, &base, fl)?;
    let arr = build(&base, fl, p0)?;
    let lv = read_lv(arr.as_ref(), 0)?;
    let mut reals = vec![(base.clone(), p0, "base")];
    let mut kinds: Vec<usize> = vec![0, 1, 2, 3, 4, 6, 8];
    if contains_ty(ty, &|t| matches!(t, Ty::View { .. })) { kinds.push(5); kinds.push(5) }
    if matches!(ty, Ty::Dict { .. } | Ty::Ree { .. } | Ty::ListView { .. }) { kinds.push(7); kinds.push(7); kinds.push(7) }
    let mut tries = 0;
    while reals.len() < want && tries < 4 * want {
        tries += 1;
        let kind = *r.pick(&kinds);
        // derive from the base or from an already derived realisation (compositions)
        let si = if r.chance(1, 3) { r.below(reals.len()) } else { 0 };
        let src = reals[si].0.clone();
        let src_arr = if si == 0 { arr.clone() } else { match build(&src, fl, reals[si].1) { Some(a) => a, None => continue } };
        let d = std::panic::catch_unwind(std::panic::AssertUnwindSafe(|| { let mut r2 = r.clone(); let o = derive(&mut r2, kind, ty, fl, &lv, &src, &src_arr); (o, r2) }));
        let Ok((o, r2)) = d else { r.next(); continue };
        *r = r2;
        let Some((node, name)) = o else { continue };
        if node.ty != *ty || node.len != lv.len() { continue }   // a realisation has the SAME data type and length
        let Some(p) = pick_path(r, &node, fl) else { continue };
        reals.push((node, p, name));
    }
    Some(Col { ty: ty.clone(), fl, lv, reals })
}

/// change one logical value / null / length; false when the type has nothing to change there
fn change_value(r: &mut Rng, t: &Ty, v: &mut LV, nullable: bool) -> bool {
    if *v == LV::Null { let d = default_lv(t); if d == LV::Null { return false } *v = d; return true }
    if nullable && r.chance(1, 4) { *v = LV::Null; return true }
    match (t, v) {
        (Ty::Bool, LV::Bool(b)) => { *b = !*b; true }
        (Ty::Fixed(w), LV::Int(z)) => { let m = BigInt::from(1) << (8 * *w); *z = (z.clone() + 1) % m; true }
        (Ty::FixedBin(n), LV::Bytes(b)) => { if *n == 0 { false } else { let i = r.below(b.len()); b[i] ^= 1 << r.below(8); true } }
        (Ty::Bin { .. } | Ty::View { .. }, LV::Bytes(b)) => { if !b.is_empty() && r.bool() { b.pop(); while std::str::from_utf8(b).is_err() { b.pop(); } } else { b.push(b'x') } true }
        (Ty::List { c, nullable: nb, .. } | Ty::ListView { c, nullable: nb, .. }, LV::List(l)) => { if !l.is_empty() && r.bool() { if r.bool() { l.pop(); true } else { let i = r.below(l.len()); change_value(r, c, &mut l[i], *nb) } } else { l.push(child_or_default(&LV::Null, c, false)); true } }
        (Ty::FixedList { c, nullable: nb, .. }, LV::List(l)) => { if l.is_empty() { false } else { let i = r.below(l.len()); change_value(r, c, &mut l[i], *nb) } }
        (Ty::Struct(fs), LV::Struct(l)) => { if l.is_empty() { false } else { let i = r.below(l.len()); change_value(r, &fs[i].1, &mut l[i], fs[i].0) } }
        (Ty::Dict { v: c, .. } | Ty::Ree { v: c, .. }, x) => change_value(r, c, x, false),
        _ => false,
    }
}
fn perturb(r: &mut Rng, t: &Ty, lv: &[LV]) -> Option<(Vec<LV>, &'static str)> {
    let mut out = lv.to_vec();
    let top_nullable = !matches!(t, Ty::Null);
    match r.below(4) {
        0 | 1 if !out.is_empty() => { let i = r.below(out.len()); if change_value(r, t, &mut out[i], top_nullable) { Some((out, "value")) } else { None } }
        2 if !out.is_empty() => { out.pop(); Some((out, "shorter")) }
        _ => { let v = if out.is_empty() || r.bool() { default_lv(t) } else { r.pick(&out).clone() }; out.push(v); Some((out, "longer")) }
    }
}
fn retype(t: &Ty) -> Option<Ty> {
    match t { Ty::Bin { large, utf8 } => Some(Ty::Bin { large: !*large, utf8: *utf8 }), Ty::List { large, nullable, c } => Some(Ty::List { large: !*large, nullable: *nullable, c: c.clone() }),
        Ty::ListView { large, nullable, c } => Some(Ty::ListView { large: !*large, nullable: *nullable, c: c.clone() }), Ty::Fixed(4) => Some(Ty::Fixed(8)), Ty::View { utf8 } => Some(Ty::Bin { large: false, utf8: *utf8 }), _ => None }
}

// ---- kernel choice and parameters
fn kernels_for(t: &Ty, fl: usize) -> Vec<usize> {
    let mut v = vec![0, 1, 2, 3, 4, 5, 22, 23, 30, 36, 37, 40, 41, 42, 43, 45, 45, 56, 57, 58, 59, 61, 62, 64, 65];
    let leaf = match t { Ty::Dict { v, .. } | Ty::Ree { v, .. } => v.as_ref(), x => x };
    match leaf {
        Ty::Fixed(w) if fl <= 2 => { v.extend([6, 7, 8, 9, 10, 11, 12, 13, 14, 15, 24, 25, 26, 27, 31, 32, 33, 34, 35, 38, 39, 44, 60, 6, 7, 8, 14, 24]); if *w >= 16 { v.extend([45]) } }
        Ty::Fixed(_) => v.extend([63, 63, 32, 38, 39, 45, 44, 60, 6, 7]),
        Ty::Bool => v.extend([16, 17, 18, 19, 20, 21, 28, 32, 38, 39, 16, 17, 18, 19, 20]),
        Ty::Bin { utf8: true, .. } | Ty::View { utf8: true } => v.extend([46, 47, 48, 49, 50, 51, 52, 53, 54, 55, 29, 32, 38, 39, 48, 54, 46, 44]),
        Ty::Bin { .. } | Ty::View { .. } | Ty::FixedBin(_) => v.extend([29, 46, 47, 32, 38, 39, 54, 55]),
        _ => {}
    }
    v
}
fn kernel_params(r: &mut Rng, k: usize, len: usize, ylen: usize) -> Vec<i64> {
    match k {
        0 => (0..r.below(12)).map(|_| if len == 0 || r.chance(1, 6) { -1 } else { r.below(len) as i64 }).collect(),
        1 | 4 | 5 => { let dens = r.below(5); (0..len).map(|_| match dens { 0 => 0, 1 => 1, _ => if r.chance(1, 6) { 2 } else { r.bool() as i64 } }).collect() }
        3 => (0..r.below(10)).flat_map(|_| { let i = r.below(2); let l = if i == 0 { len } else { ylen }; if l == 0 { vec![] } else { vec![i as i64, r.below(l) as i64] } }).collect(),
        40 | 60 => vec![r.below(3) as i64, r.bool() as i64, if r.bool() { -1 } else { r.below(len + 2) as i64 }],
        41 | 42 | 44 | 56 | 57 => vec![r.below(3) as i64, r.bool() as i64],
        45 => vec![r.below(19) as i64, r.bool() as i64],
        48..=53 => r.pick(&["%", "a%", "%a", "_", "a_c", "%é%", "ab", "", "A%", "%%", "a\\%", "%b%c", "€", "_b", "%ab"]).bytes().map(|b| b as i64).collect(),
        54 => vec![r.range(-4, 4), if r.chance(1, 3) { -1 } else { r.below(5) as i64 }],
        59 => vec![r.range(-6, 6)],
        62 => vec![r.below(len + 1) as i64, r.below(len + 2) as i64],
        63 => vec![r.below(11) as i64],
        65 => (0..r.below(5)).flat_map(|_| if r.chance(1, 5) { vec![-1, r.below(4) as i64] } else { let s = r.below(len + 1); vec![s as i64, (s + r.below(len - s + 1)) as i64] }).collect(),
        _ => vec![],
    }
}

fn enc_node(n: &Node, out: &mut Args) { c09::encode(n, out) }
fn any_node(n: &Node, f: &dyn Fn(&Node) -> bool) -> bool { f(n) || n.kids.iter().any(|k| any_node(k, f)) }
/// KNOWN-FINDING candidate (ragged typed buffer): `ArrayData ==` reads offsets / keys / views through
/// ArrayData::buffer::<T>, which asserts that the byte length is a multiple of size_of::<T>(); a validated
/// ArrayData whose buffer carries trailing padding bytes makes `==` panic.  Such layouts are compared at the
/// dyn Array level only.
fn ragged_typed_buffer(n: &Node) -> bool {
    any_node(n, &|x| match &x.ty {
        Ty::View { .. } => x.bufs[0].len() % 16 != 0,
        Ty::Dict { kw, .. } => x.bufs[0].len() % kw != 0,
        Ty::ListView { large, .. } => { let w = if *large { 8 } else { 4 }; x.bufs[0].len() % w != 0 || x.bufs[1].len() % w != 0 }
        // (an EMPTY offsets buffer, which validation accepts for an empty array, makes `==` index out of range)
        Ty::List { large, .. } | Ty::Bin { large, .. } => { let w = if *large { 8 } else { 4 }; x.bufs[0].len() % w != 0 || x.bufs[0].is_empty() }
        _ => false })
}
/// KNOWN-FINDING (F3/F4 family): arrow-data's struct_equal ignores the offset of a Struct ArrayData
fn struct_with_offset(n: &Node) -> bool { any_node(n, &|x| matches!(x.ty, Ty::Struct(_)) && x.off != 0) }
/// KNOWN-FINDING candidate (byte_view_equal): `lhs.is_null(idx)` is tested with the index RELATIVE to the
/// compared range instead of lhs_start + idx, so a view array with nulls compared from a non-zero start
/// (child of a list / struct / dictionary ...) skips the wrong slots.
fn nested_view_with_nulls(n: &Node) -> bool { n.kids.iter().any(|k| any_node(k, &|x| matches!(x.ty, Ty::View { .. }) && x.nulls.as_ref().map_or(false, |v| v.count > 0))) }
/// KNOWN-FINDING candidate (dictionary_equal): a valid key that selects a NULL dictionary value and a null
/// key denote the same (null) slot but compare unequal (equal_nulls looks at the key validity only).
fn dict_with_null_values(n: &Node) -> bool { any_node(n, &|x| matches!(x.ty, Ty::Dict { .. }) && any_node(&x.kids[0], &|v| v.nulls.as_ref().map_or(false, |q| q.count > 0) || (matches!(v.ty, Ty::Null) && v.len > 0))) }
/// KNOWN-FINDING candidate (MutableArrayData dictionary extend, debug builds): keys are re-based with a plain
/// `+ offset`, also under null slots; a null slot whose key payload is close to the key type's maximum makes
/// concat / interleave / zip panic with "attempt to add with overflow".  Payloads under null keys stay
/// arbitrary (out of range included) but below half of the key range.
fn tame_null_keys(n: &mut Node) {
    if let Ty::Dict { kw, signed, .. } = n.ty { let slots = n.bufs[0].len() / kw;
        for p in 0..slots { let i = p as isize - n.off as isize; let valid = i >= 0 && (i as usize) < n.len && slot_valid(n, i as usize);
            if !valid { let m = &mut n.bufs[0][p * kw + kw - 1]; if signed { if *m & 0x80 == 0 { *m &= 0x3F } } else { *m &= 0x7F } } } }
    for k in n.kids.iter_mut() { tame_null_keys(k) }
}
/// a null slot of a Utf8 / LargeUtf8 node whose payload holds a multi-byte character
fn null_slot_multibyte(n: &Node) -> bool {
    any_node(n, &|x| if let Ty::Bin { large, utf8: true } = x.ty { let w = if large { 8 } else { 4 };
        (0..x.len).any(|i| !slot_valid(x, i) && x.bufs[0].len() >= (x.off + i + 2) * w && { let (s, e) = (rd_le(&x.bufs[0], w, x.off + i) as usize, rd_le(&x.bufs[0], w, x.off + i + 1) as usize); x.bufs[1][s.min(x.bufs[1].len())..e.min(x.bufs[1].len())].iter().any(|b| *b >= 0x80) }) } else { false })
}

fn emit_col_cases(r: &mut Rng, col: &Col, emit: &mut dyn FnMut(Case), tier_eq_pairs: usize) {
    let th = ty_head(&col.ty); let fl = col.fl;
    // (1) accessors / iterators read back exactly the denoted column
    for (node, path, name) in &col.reals {
        let mode = r.below(2);
        let mut args: Args = vec![gs(&[*path as i64, fl as i64, mode as i64])]; enc_node(node, &mut args);
        emit(Case::new("c02.logical", args, &["c02.logical.spec"], format!("logical {th} {name} p{path} m{mode}")));
    }
    // (2) == on every pair of realisations; M (arrow-data equal on the ArrayData as given) where modelled
    let k = col.reals.len();
    let mut pairs: Vec<(usize, usize)> = Vec::new(); for i in 0..k { for j in 0..k { if i != j { pairs.push((i, j)) } } }
    for i in (1..pairs.len()).rev() { let j = r.below(i + 1); pairs.swap(i, j) }
    let modelled = !contains_ty(&col.ty, &|t| matches!(t, Ty::ListView { .. } | Ty::Union { .. }));
    // KNOWN-FINDING candidate (list_view_equal): children are compared with equal_values (their validity is
    // never compared) and, when the range holds nulls, only the LEFT sizes are used: logically different
    // list-view arrays compare equal.  ListView types are excluded from the == cases.
    let eq_excluded = contains_ty(&col.ty, &|t| matches!(t, Ty::ListView { .. }));
    let level_of = |r: &mut Rng, x: &Node, y: &Node| -> usize { if ragged_typed_buffer(x) || ragged_typed_buffer(y) || struct_with_offset(x) || struct_with_offset(y) { 1 } else { r.below(2) } };
    let skip_pair = |x: &Node, y: &Node| -> bool { eq_excluded || nested_view_with_nulls(x) || nested_view_with_nulls(y) || dict_with_null_values(x) || dict_with_null_values(y) };
    for (i, j) in pairs.into_iter().take(tier_eq_pairs) {
        let (na, pa, an) = &col.reals[i]; let (nb, pb, bn) = &col.reals[j];
        if skip_pair(na, nb) { continue }
        let level = level_of(r, na, nb);
        let mut args: Args = vec![gs(&[*pa as i64, fl as i64, *pb as i64, level as i64])]; enc_node(na, &mut args); enc_node(nb, &mut args);
        let models: &[&'static str] = if level == 0 && modelled { &["c02.eq", "c02.eq.spec"] } else { &["c02.eq.spec"] };
        emit(Case::new("c02.eq", args, models, format!("eq {th} {an}/{bn} l{level}")));
    }
    // (3) a perturbed column / another type must NOT be equal
    for _ in 0..2 {
        let Some((lv2, what)) = perturb(r, &col.ty, &col.lv) else { continue };
        let Some(a2) = from_lv(&col.ty, fl, &lv2) else { continue }; let Some(n2) = dump(a2.as_ref()) else { continue };
        let (na, pa, an) = r.pick(&col.reals).clone();
        if skip_pair(&na, &n2) { continue }
        let level = level_of(r, &na, &n2);
        let Some(p2) = pick_path(r, &n2, fl) else { continue };
        let (first, second, ps) = if r.bool() { (&na, &n2, [pa, p2]) } else { (&n2, &na, [p2, pa]) };
        let mut args: Args = vec![gs(&[ps[0] as i64, fl as i64, ps[1] as i64, level as i64])]; enc_node(first, &mut args); enc_node(second, &mut args);
        let models: &[&'static str] = if level == 0 && modelled { &["c02.eq", "c02.eq.spec"] } else { &["c02.eq.spec"] };
        emit(Case::new("c02.eq", args, models, format!("neq {th} {an} {what} l{level}")));
    }
    if let Some(t2) = retype(&col.ty) { if let Some(a2) = from_lv(&t2, fl, &col.lv) { if let Some(n2) = dump(a2.as_ref()) {
        let (na, pa, an) = r.pick(&col.reals).clone();
        let Some(p2) = pick_path(r, &n2, fl) else { return };
        let mut args: Args = vec![gs(&[pa as i64, fl as i64, p2 as i64, 1])]; enc_node(&na, &mut args); enc_node(&n2, &mut args);
        emit(Case::new("c02.eq", args, &["c02.eq.spec"], format!("neq {th} {an} type")));
    } } }
    // (4) slice = window on the column
    for _ in 0..2 {
        let (node, path, name) = r.pick(&col.reals).clone(); let len = node.len;
        let o = r.below(len + 1); let n = r.below(len - o + 1); let mode = r.below(2);
        // KNOWN-FINDING candidate (F3): ArrayData::slice on a Struct keeps the offset AND slices the children; excluded
        let via_data = (!contains_ty(&col.ty, &|t| matches!(t, Ty::Struct(_))) && r.chance(1, 3)) as i64;
        let mut args: Args = vec![gs(&[path as i64, fl as i64, mode as i64, o as i64, n as i64, via_data])]; enc_node(&node, &mut args);
        emit(Case::new("c02.slice", args, &["c02.slice", "c02.slice.spec"], format!("slice {th} {name} d{via_data}")));
    }
}

fn emit_kernel_cases(r: &mut Rng, x: &Col, y: &Col, s: &Col, x2: &Col, y2: &Col, emit: &mut dyn FnMut(Case), nk: usize) {
    let th = ty_head(&x.ty); let fl = x.fl; let len = x.lv.len();
    let ks = kernels_for(&x.ty, fl);
    for _ in 0..nk {
        let k = *r.pick(&ks);
        let mut p = kernel_params(r, k, len, y.lv.len());
        // KNOWN-FINDING candidate (cmp on an EMPTY slice of a RunEndEncoded array taken at a non-zero offset):
        // ree_physical_indices / expand_from_runs compute run_end - pos with pos = offset > first run end
        if (30..=39).contains(&k) && len == 0 && matches!(x.ty, Ty::Ree { .. }) { continue }
        // KNOWN-FINDING candidate (substring): utf-8 boundaries are checked on the payload of NULL slots too, so
        // Ok/Err depends on the bytes under a null; columns with such a null slot are not given to substring
        if k == 54 && x.reals.iter().any(|(n, _, _)| null_slot_multibyte(n)) { continue }
        // KNOWN-FINDING candidate (cast binary -> string, safe = false): try_from_binary / to_string_view validate
        // the bytes of null slots (and unreferenced bytes), so the error outcome depends on garbage under nulls
        if k == 45 && contains_ty(&x.ty, &|t| matches!(t, Ty::Bin { utf8: false, .. } | Ty::View { utf8: false } | Ty::FixedBin(_))) { p[1] = 1 }
        // KNOWN-FINDING candidate (cast of a dictionary, safe = false): the dictionary VALUES are cast, unused
        // entries and entries only reachable through null keys included, so they decide the error outcome
        if k == 45 && contains_ty(&x.ty, &|t| matches!(t, Ty::Dict { .. })) { p[1] = 1 }
        // KNOWN-FINDING candidate (cast FixedSizeList(_, 1) -> non-list): cast_single_element_fixed_size_list_to_values
        // casts values() and drops the list's validity: null lists expose the child payload under them
        if k == 45 && matches!(x.ty, Ty::FixedList { n: 1, .. }) { continue }
        // KNOWN-FINDING candidate (concat of List<RunEndEncoded>): when no list references a child value the
        // child slices are all empty and concat fails with "concat requires input of at least one array"
        if matches!(k, 2 | 3 | 5 | 64 | 65) && contains_ty(&x.ty, &|t| matches!(t, Ty::List { c, .. } | Ty::FixedList { c, .. } | Ty::ListView { c, .. } if matches!(c.as_ref(), Ty::Ree { .. }))) { continue }
        // ---- congruence over the realisations
        let second: Option<&Col> = if arity(k) == 2 { Some(if k == 38 || k == 39 { s } else { y }) } else { None };
        let nreal = match second { Some(c) => x.reals.len().min(c.reals.len()), None => x.reals.len() };
        let nin = if second.is_some() { 2 } else { 1 };
        let mut h: Vec<i64> = vec![k as i64, fl as i64, nreal as i64, nin as i64, 1];
        let mut trees = Args::new();
        for i in 0..nreal { h.push(x.reals[i].1 as i64); enc_node(&x.reals[i].0, &mut trees); if let Some(c) = second { h.push(c.reals[i].1 as i64); enc_node(&c.reals[i].0, &mut trees) } }
        let mut args: Args = vec![gs(&h), gs(&p)]; args.extend(trees);
        emit(Case::new("c02.congr", args, &["c02.congr.post"], format!("congr k{k} {th}")));
        // ---- commutation with row selection
        let rw = rowwise(k);
        if rw > 0 && r.chance(2, 3) {
            let sel = r.below(4);
            // take with NULL indices commutes only with kernels that map a null row to a null row: is_null /
            // is_not_null / distinct / not_distinct / the formatter never return null.
            // KNOWN-FINDING candidate (take_run): take on a RunEndEncoded array ignores the validity of the
            // indices (logical_indices.values()), a null index yields the row its payload selects: excluded.
            let null_idx_ok = !matches!(k, 22 | 23 | 36 | 37 | 58) && !contains_ty(&x.ty, &|t| matches!(t, Ty::Ree { .. }));
            let mut sp: Vec<i64> = match sel { 0 => kernel_params(r, 0, len, 0), 1 => kernel_params(r, 62, len, 0), 2 => vec![], _ => kernel_params(r, 1, len, 0) };
            if sel == 0 && !null_idx_ok { sp.retain(|v| *v >= 0) }
            // (the empty-REE-slice cmp finding, reached through slice(o, 0))
            if (30..=39).contains(&k) && matches!(x.ty, Ty::Ree { .. }) && sel == 1 && (sp[1] == 0 || sp[0] as usize >= len) { continue }
            // KNOWN-FINDING candidate (take on FixedSizeList(_, 0)): the result length is derived from
            // values.len() / 0 and comes out as 0 (or the null count's length) instead of indices.len(): excluded.
            // (filter behaves the same; substring can produce FixedSizeBinary(0) from any FixedSizeBinary)
            if (sel == 0 || sel == 3) && (contains_ty(&x.ty, &|t| matches!(t, Ty::FixedList { n: 0, .. } | Ty::FixedBin(0))) || (k == 54 && contains_ty(&x.ty, &|t| matches!(t, Ty::FixedBin(_))))) { continue }
            let pick = |r: &mut Rng, c: &Col| -> (Node, usize) { let (n, p, _) = r.pick(&c.reals).clone(); (n, p) };
            let mut ins: Vec<(Node, usize)> = vec![pick(r, x)];
            if rw == 2 { ins.push(pick(r, y)) } else if k == 38 || k == 39 { ins.push(pick(r, s)) }
            if sel == 2 { ins.push(pick(r, x2)); if rw == 2 { ins.push(pick(r, y2)) } }
            let mut h: Vec<i64> = vec![k as i64, fl as i64, sel as i64, ins.len() as i64, 2];
            let mut trees = Args::new(); for (n, p) in &ins { h.push(*p as i64); enc_node(n, &mut trees) }
            let mut args: Args = vec![gs(&h), gs(&p), gs(&sp)]; args.extend(trees);
            emit(Case::new("c02.commute", args, &["c02.commute.post"], format!("commute k{k} s{sel} {th}")));
        }
    }
}

fn pick_len(r: &mut Rng, big: bool) -> usize {
    if r.chance(1, 12) { 0 } else if big && r.chance(1, 4) { *r.pick(&[7, 8, 9, 15, 16, 17, 31, 32, 33, 63, 64, 65, 100, 127, 128, 130]) } else { 1 + r.below(11) }
}
fn gen_leaf_ty(r: &mut Rng) -> (Ty, usize) {
    match r.below(12) {
        0 | 1 | 2 => (Ty::Fixed(*r.pick(&[1, 2, 4, 8, 4, 8])), r.below(3)),
        3 => (Ty::Fixed(*r.pick(&[4, 8])), 3 + r.below(2)),
        4 => (Ty::Fixed(*r.pick(&[16, 32, 16])), if r.chance(1, 4) { 4 } else { 0 }),
        5 => (Ty::Bool, 0),
        6 | 7 => (Ty::Bin { large: r.bool(), utf8: true }, 0),
        8 => (Ty::Bin { large: r.bool(), utf8: false }, 0),
        9 => (Ty::View { utf8: r.chance(2, 3) }, 0),
        10 => (Ty::FixedBin(1 + r.below(4) as i32), 0),
        _ => (Ty::Fixed(2), 2),
    }
}
fn gen_logical_ty(r: &mut Rng) -> (Ty, usize) {
    let (leaf, fl) = gen_leaf_ty(r);
    let c = Box::new(leaf.clone());
    let t = match r.below(14) {
        0 => Ty::List { large: r.bool(), nullable: r.chance(3, 4), c },
        1 => Ty::ListView { large: r.bool(), nullable: true, c },
        2 => Ty::FixedList { n: r.below(4) as i32, nullable: r.chance(3, 4), c },
        3 => { let (l2, _) = gen_leaf_ty(r); Ty::Struct(vec![(r.chance(3, 4), leaf), (r.chance(3, 4), if matches!(l2, Ty::Fixed(_)) { Ty::Bool } else { l2 })]) }
        4 | 5 => Ty::Dict { kw: *r.pick(&[1, 2, 4, 8]), signed: r.bool(), v: c },
        6 => Ty::Ree { rw: *r.pick(&[2, 4, 8]), v: c },
        7 => Ty::List { large: false, nullable: true, c: Box::new(Ty::Dict { kw: 4, signed: true, v: c }) },
        8 => Ty::List { large: r.bool(), nullable: true, c: Box::new(Ty::List { large: false, nullable: true, c }) },
        _ => leaf,
    };
    (t, fl)
}

pub fn generate(tier: &str, r: &mut Rng, emit: &mut dyn FnMut(Case)) {
    let thorough = tier == "thorough";
    let iters = if thorough { 2600 } else { 260 };
    for it in 0..iters {
        // scenario A: a random PHYSICAL layout of a random type (c09 generator); scenario B: a random LOGICAL column
        let physical = it % 5 < 2;
        let (ty, fl) = if physical { let mut t = c09::gen_ty(r, 2); while has_union(&t) { t = c09::gen_ty(r, 2) } (t, if r.chance(1, 4) { r.below(5) } else { 0 }) } else { gen_logical_ty(r) };
        let leafy = !contains_ty(&ty, &|t| matches!(t, Ty::List { .. } | Ty::ListView { .. } | Ty::FixedList { .. } | Ty::Struct(_)));
        let len = pick_len(r, leafy);
        let want = 5 + r.below(2);
        let mut mk = |r: &mut Rng, len: usize| -> Option<Col> {
            let base = if physical { let mut b = c09::gen_valid(r, &ty, len, false); tame_null_keys(&mut b); b } else { let nullp = *r.pick(&[0, 1, 1, 2, 2, 3, 1]); dump(from_lv(&ty, fl, &gen_lv(r, &ty, fl, len, nullp))?.as_ref())? };
            realise(r, &ty, fl, base, want)
        };
        let Some(x) = mk(r, len) else { continue };
        emit_col_cases(r, &x, emit, if thorough { 8 } else { 6 });
        let Some(y) = mk(r, len) else { continue };
        let Some(s) = mk(r, 1) else { continue };
        let l2 = r.below(6);
        let Some(x2) = mk(r, l2) else { continue };
        let Some(y2) = mk(r, l2) else { continue };
        emit_kernel_cases(r, &x, &y, &s, &x2, &y2, emit, 5);
    }
    // builders: readback and physical form
    let nb = if thorough { 3000 } else { 400 };
    for _ in 0..nb {
        let kind = r.below(4) as i64;
        let (ty, w, large, utf8): (Ty, usize, bool, bool) = match kind {
            0 => { let w = *r.pick(&[1usize, 2, 4, 8, 16]); let unsigned = w < 16 && r.chance(1, 3); let float = !unsigned && w >= 2 && w <= 8 && r.chance(1, 3); (Ty::Fixed(w), w, unsigned, float) }
            1 => (Ty::Bool, 0, false, false),
            2 => { let (l, u) = (r.bool(), r.bool()); (Ty::Bin { large: l, utf8: u }, 0, l, u) }
            _ => { let n = r.below(5); (Ty::FixedBin(n as i32), n, false, false) }
        };
        let len = pick_len(r, true); let nullp = *r.pick(&[0, 0, 1, 2, 3]);
        let vs = gen_lv(r, &ty, if kind == 0 && utf8 { 2 } else if kind == 0 && large { 1 } else { 0 }, len, nullp);
        let mode = r.below(2) as i64;
        let args: Args = vec![gs(&[kind, w as i64, large as i64, utf8 as i64, mode]), enc_col(&vs)];
        let th = ty_head(&ty);
        emit(Case::new("c02.build", args.clone(), &["c02.build", "c02.build.spec"], format!("build {th} n{nullp} m{mode}")));
        emit(Case::new("c02.buildphys", args, &["c02.buildphys"], format!("buildphys {th} n{nullp}")));
    }
}
