// ---------------------------------------------------------------------------------------------
// Generator: artefacts x mutations -> worker batch -> cases
// ---------------------------------------------------------------------------------------------

/// KNOWN-FINDING candidate classes: inputs whose outcome is a panic / hang of one of these classes
/// (file|message prefix, see panic_class) are genuine arrow-rs defects reported to the maintainers of
/// this framework; exactly these classes are excluded from the emitted cases (they are still run
/// and counted under the tag `known:<class>`).  C08_INCLUDE_KNOWN=1 emits them as ordinary cases.
pub const KNOWN_CLASSES: &[&str] = &[
];
pub const KNOWN_TIMEOUT_KINDS: &[i64] = &[];

fn include_known() -> bool { std::env::var("C08_INCLUDE_KNOWN").is_ok() }
fn out_code(o: &Args) -> i64 { o.get(0).and_then(|g| g.get(0)).map(|x| i64::try_from(x).unwrap_or(-9)).unwrap_or(-9) }
fn out_loc(o: &Args) -> String { o.get(2).map(|g| g.iter().map(|x| u8::try_from(x).map(|b| b as char).unwrap_or('?')).collect::<String>()).unwrap_or_default() }
fn code_name(c: i64) -> &'static str { match c { 0 => "ok", 1 => "err", 2 => "PANIC", 3 => "TIMEOUT", 4 => "ABORT", 5 => "GARBAGE", _ => "?" } }
fn is_known(kind: i64, o: &Args) -> bool {
    match out_code(o) { PANIC => KNOWN_CLASSES.contains(&out_loc(o).as_str()), TIMEOUT => KNOWN_TIMEOUT_KINDS.contains(&kind), _ => false }
}

struct Input { kind: i64, bytes: Vec<u8>, aux: Vec<i64>, tag: String }
fn in_args(i: &Input) -> Args { vec![g(i.kind), gbytes(&i.bytes), gs(&i.aux)] }

fn sample_pos(r: &mut Rng, regions: &[(usize, usize)], total: usize) -> usize {
    let sz: usize = regions.iter().map(|(a, b)| b - a).sum();
    if sz == 0 { return r.below(total.max(1)) }
    let mut k = r.below(sz);
    for (a, b) in regions { if k < b - a { return a + k } k -= b - a }
    0
}

/// generic mutants of `b` concentrated on `regions` (metadata), `other`: another artefact of the family
fn generic_mutants(r: &mut Rng, b: &[u8], regions: &[(usize, usize)], other: &[u8], n: usize, out: &mut Vec<Mutant>) {
    if b.is_empty() { return }
    for _ in 0..n {
        let m = match r.below(20) {
            0..=7 => { let p = sample_pos(r, regions, b.len()); m_flip(b, p, r) }
            8..=11 => { let w = if r.bool() { 4 } else { 8 }; let p = sample_pos(r, regions, b.len()) & !(w - 1); if p + w <= b.len() { m_word(b, p, w, r) } else { m_trunc(b, p) } }
            12 => { let w = 4; let p = r.below(b.len()) & !(w - 1); if p + w <= b.len() { let (o, t) = m_word(b, p, w, r); (o, format!("body{t}")) } else { m_trunc(b, p) } }
            13 => { let p = r.below(b.len()); let (o, t) = m_flip(b, p, r); (o, format!("any{t}")) }
            14..=16 => m_trunc(b, if r.bool() { r.below(b.len()) } else { b.len() - 1 - r.below(b.len().min(40)) }),
            17 => m_splice(b, other, r),
            18 => m_insdel(b, r),
            _ => { let (o1, _) = m_flip(b, sample_pos(r, regions, b.len()), r); let p2 = sample_pos(r, regions, o1.len()); let (o2, _) = m_flip(&o1, p2, r); (o2, "flip2".into()) }
        };
        out.push(m);
    }
}

fn overlong_varints() -> Vec<Vec<u8>> {
    let mut v = vec![];
    for k in [9usize, 10, 11, 12] { let mut x = vec![0x80u8; k]; x.push(0x00); v.push(x); let mut y = vec![0xFFu8; k]; y.push(0x01); v.push(y); let mut z = vec![0xFFu8; k]; z.push(0x7F); v.push(z); }
    v.push(vec![0x80; 9].into_iter().chain([0x02]).collect());
    v.push(vec![0xFF; 9].into_iter().chain([0x80, 0x01]).collect());
    v
}

fn slot_mutants(r: &mut Rng, b: &[u8], slots: &[TSlot], n: usize, footer: Option<(usize, usize)>, out: &mut Vec<Mutant>) {
    if slots.is_empty() { return }
    let ov = overlong_varints();
    for _ in 0..n {
        let s = r.pick(slots).clone();
        if s.what <= 2 && r.chance(1, 8) {
            let e = r.pick(&ov).clone();
            let mut o = b[..s.pos].to_vec(); o.extend(&e); o.extend_from_slice(&b[s.pos + s.len..]);
            if let Some((_, flen)) = footer { let nl = (flen + o.len()).saturating_sub(b.len()); set_pq_footer_len(&mut o, nl) }
            out.push((o, format!("t{}overlong{}", s.what, e.len())));
        } else {
            let fix = footer.is_some() && !r.chance(1, 5); out.push(m_thrift_slot(b, &s, r, footer, fix));
        }
    }
}

fn text_mutants(r: &mut Rng, b: &[u8], json: bool, n: usize, out: &mut Vec<Mutant>) {
    for _ in 0..n {
        let mut o = b.to_vec();
        let p = r.below(o.len().max(1));
        let tag = match r.below(9) {
            0 => { o.insert(p, 0xFF); "badutf8" }
            1 => { o.splice(p..p, *b"99999999999999999999999999999999999999999"); "bignum" }
            2 => { o.insert(p, b'"'); "quote" }
            3 => { o.insert(p, if json { b'{' } else { b',' }); "delim" }
            4 => { o.insert(p, b'\n'); "newline" }
            5 => { if json { let d = 50 + r.below(400); let mut s = vec![b'['; d]; s.extend(vec![b']'; d]); o.splice(p..p, s); } else { o.splice(p..p, vec![b','; 30]); } "nest" }
            6 => { o.insert(p, 0); "nul" }
            7 => { o.splice(p..p, *b"1e999"); "exp" }
            _ => { o.splice(p..p, *b"\xED\xA0\x80"); "surrogate" }
        };
        out.push((o, tag.into()));
    }
}

fn build_inputs(tier: &str, r: &mut Rng) -> Vec<Input> {
    let scale = if tier == "thorough" { 5 } else { 1 };
    let mut inputs: Vec<Input> = Vec::new();
    // ---- Arrow IPC file / stream / decoder
    for stream in [false, true] {
        let arts: Vec<Artefact> = (0..8 * scale).filter_map(|_| ipc_artefact(r, stream)).collect();
        for (ai, a) in arts.iter().enumerate() {
            let other = &arts[(ai + 1) % arts.len()].bytes;
            let regions = ipc_meta_regions(&a.bytes, !stream);
            let mut ms: Vec<Mutant> = vec![(a.bytes.clone(), "valid".into())];
            generic_mutants(r, &a.bytes, &regions, other, 60, &mut ms);
            for (k, (bytes, t)) in ms.into_iter().enumerate() {
                let (kind, aux) = if !stream { (K_IPC_FILE, vec![(k % 5 == 4) as i64]) } else if k % 2 == 0 { (K_IPC_STREAM, vec![(k % 6 == 4) as i64]) } else { (K_IPC_DECODER, vec![*r.pick(&[0i64, 1, 7, 64])]) };
                inputs.push(Input { kind, bytes, aux, tag: format!("{} {t}", a.label) });
            }
        }
    }
    // ---- Flight
    {
        let arts: Vec<Artefact> = (0..4 * scale).filter_map(|_| flight_artefact(r)).collect();
        for (ai, a) in arts.iter().enumerate() {
            // mutate only inside the data_header / data_body payloads (the container framing is the harness's own)
            let mut regions = Vec::new(); let mut p = 0;
            while p + 4 <= a.bytes.len() { let l = u32::from_le_bytes(a.bytes[p..p + 4].try_into().unwrap()) as usize; regions.push((p + 4, p + 4 + l)); p += 4 + l; }
            let hdr_regions: Vec<(usize, usize)> = regions.iter().step_by(2).cloned().collect();
            let mut ms: Vec<Mutant> = vec![(a.bytes.clone(), "valid".into())];
            for _ in 0..50 {
                let m = match r.below(10) { 0..=5 => { let p = sample_pos(r, &hdr_regions, a.bytes.len()); m_flip(&a.bytes, p, r) }
                    6..=7 => { let p = sample_pos(r, &hdr_regions, a.bytes.len()) & !3; if p + 4 <= a.bytes.len() && hdr_regions.iter().any(|(s, e)| *s <= p && p + 4 <= *e) { m_word(&a.bytes, p, 4, r) } else { continue } }
                    _ => { let p = sample_pos(r, &regions, a.bytes.len()); m_flip(&a.bytes, p, r) } };
                ms.push(m);
            }
            let _ = ai;
            for (bytes, t) in ms { inputs.push(Input { kind: K_FLIGHT, bytes, aux: vec![0], tag: format!("flight {t}") }) }
        }
    }
    // ---- Parquet
    {
        let arts: Vec<Artefact> = (0..10 * scale).filter_map(|_| parquet_artefact(r)).collect();
        for (ai, a) in arts.iter().enumerate() {
            let other = &arts[(ai + 1) % arts.len()].bytes;
            let b = &a.bytes;
            let Some((fs, fl)) = pq_footer(b) else { continue };
            let mut ms: Vec<Mutant> = vec![(b.clone(), "valid".into())];
            // footer: thrift slots
            let mut slots = Vec::new(); let mut p = fs;
            let _ = t_struct(b, &mut p, 0, &mut slots);
            slot_mutants(r, b, &slots, 45, Some((fs, fl)), &mut ms);
            // page headers
            let pages = pq_page_headers(b);
            let hslots: Vec<TSlot> = pages.iter().flat_map(|(_, s)| s.clone()).collect();
            slot_mutants(r, b, &hslots, 25, None, &mut ms);
            // page payload starts (levels / RLE headers / dictionary indices) and everything else
            let pay: Vec<(usize, usize)> = pages.iter().map(|(p, s)| { let e = s.last().map(|x| x.pos + 1).unwrap_or(*p); (e, (e + 24).min(b.len())) }).collect();
            generic_mutants(r, b, &pay, other, 20, &mut ms);
            generic_mutants(r, b, &[(fs, b.len())], other, 25, &mut ms);
            for (k, (bytes, t)) in ms.into_iter().enumerate() {
                let (kind, aux) = match k % 8 { 0..=4 => (K_PQ_ARROW, vec![(k % 3 == 0) as i64]), 5 => (K_PQ_META, vec![(k / 8 % 3) as i64]), 6 => (K_PQ_ROWS, vec![0]), _ => (K_PQ_ARROW, vec![1]) };
                inputs.push(Input { kind, bytes, aux, tag: format!("{} {t}", a.label.split(' ').take(2).collect::<Vec<_>>().join("")) });
            }
            // the raw footer through decode_metadata
            let foot = b[fs..fs + fl].to_vec();
            let mut fsl = Vec::new(); let mut p = 0; let _ = t_struct(&foot, &mut p, 0, &mut fsl);
            let mut fm: Vec<Mutant> = vec![(foot.clone(), "valid".into())];
            slot_mutants(r, &foot, &fsl, 20, None, &mut fm);
            generic_mutants(r, &foot, &[], &foot, 10, &mut fm);
            for (bytes, t) in fm { inputs.push(Input { kind: K_PQ_FOOTER, bytes, aux: vec![0], tag: format!("footer {t}") }) }
        }
        // design-phase witness F2 (thrift list pre-allocation)
        inputs.push(Input { kind: K_PQ_FOOTER, bytes: vec![0x15, 0x02, 0x19, 0xFC, 0xFF, 0xFF, 0xFF, 0xFF, 0x07, 0x00], aux: vec![0], tag: "footer F2witness".into() });
    }
    // ---- Avro
    {
        let arts: Vec<Artefact> = (0..6 * scale).filter_map(|_| avro_artefact(r)).collect();
        for (ai, a) in arts.iter().enumerate() {
            let other = &arts[(ai + 1) % arts.len()].bytes;
            let slots = avro_varints(&a.bytes);
            let hdr_end = slots.iter().filter(|s| s.what != 1).map(|s| s.pos).max().unwrap_or(0).min(a.bytes.len());
            let mut ms: Vec<Mutant> = vec![(a.bytes.clone(), "valid".into())];
            slot_mutants(r, &a.bytes, &slots, 30, None, &mut ms);
            generic_mutants(r, &a.bytes, &[(0, hdr_end.max(1))], other, 25, &mut ms);
            generic_mutants(r, &a.bytes, &[(hdr_end, a.bytes.len())], other, 25, &mut ms);
            for (k, (bytes, t)) in ms.into_iter().enumerate() { inputs.push(Input { kind: K_AVRO, bytes, aux: vec![(k % 3) as i64], tag: format!("{} {t}", a.label.replace(' ', "")) }) }
        }
    }
    // ---- CSV / JSON
    for _ in 0..4 * scale {
        let a = csv_artefact(r); let o = csv_artefact(r);
        let mut ms: Vec<Mutant> = vec![(a.bytes.clone(), "valid".into())];
        generic_mutants(r, &a.bytes, &[], &o.bytes, 25, &mut ms); text_mutants(r, &a.bytes, false, 25, &mut ms);
        for (bytes, t) in ms { inputs.push(Input { kind: K_CSV, bytes, aux: a.aux.clone(), tag: format!("{} {t}", a.label) }) }
        let a = json_artefact(r); let o = json_artefact(r);
        let mut ms: Vec<Mutant> = vec![(a.bytes.clone(), "valid".into())];
        generic_mutants(r, &a.bytes, &[], &o.bytes, 30, &mut ms); text_mutants(r, &a.bytes, true, 30, &mut ms);
        for (bytes, t) in ms { inputs.push(Input { kind: K_JSON, bytes, aux: a.aux.clone(), tag: format!("{} {t}", a.label) }) }
    }
    // ---- Variant
    {
        let arts: Vec<Artefact> = (0..10 * scale).filter_map(|_| variant_artefact(r)).collect();
        for (ai, a) in arts.iter().enumerate() {
            let other = &arts[(ai + 1) % arts.len()].bytes;
            let mut ms: Vec<Mutant> = vec![(a.bytes.clone(), "valid".into())];
            generic_mutants(r, &a.bytes, &[], other, 45, &mut ms);
            for (bytes, t) in ms {
                // truncations / insertions in the metadata part move the split with them only sometimes
                let split = a.aux[0].min(bytes.len() as i64);
                inputs.push(Input { kind: K_VARIANT, bytes, aux: vec![split], tag: format!("variant {t}") })
            }
        }
    }
    structured_inputs(tier, r, &mut inputs);
    inputs
}

pub fn generate(tier: &str, r: &mut Rng, emit: &mut dyn FnMut(Case)) {
    if std::env::var("C08_WITNESS").is_ok() { witness_search(r); return }
    let inputs = build_inputs(tier, r);
    let t0 = std::time::Instant::now();
    let jobs: Vec<(String, Args)> = inputs.iter().map(|i| ("c08.outcome".to_string(), in_args(i))).collect();
    let outs = run_batch(jobs);
    eprintln!("c08: {} corrupted inputs executed in {:.1}s", inputs.len(), t0.elapsed().as_secs_f64());
    // columns of the Ok outcomes
    let mut col_jobs: Vec<(String, Args)> = Vec::new(); let mut col_of: Vec<usize> = Vec::new();
    for (k, o) in outs.iter().enumerate() {
        if out_code(o) == OK { let n = o.get(1).map(|g| to_usize(g)).unwrap_or(0); for c in 0..n.min(8) { let mut a = in_args(&inputs[k]); a.push(g(c as i64)); col_jobs.push(("c08.column".into(), a)); col_of.push(k) } }
    }
    let col_outs = run_batch(col_jobs.clone());
    eprintln!("c08: {} returned columns dumped, total {:.1}s", col_outs.len(), t0.elapsed().as_secs_f64());
    let mut seen = std::collections::HashSet::new();
    let mut stats: std::collections::BTreeMap<String, usize> = Default::default();
    for (k, o) in outs.iter().enumerate() {
        let i = &inputs[k];
        let code = out_code(o);
        *stats.entry(format!("{} {}", KIND_NAMES[i.kind as usize], code_name(code))).or_default() += 1;
        if code >= PANIC { eprintln!("c08: {} on {} [{}] class={:?} len={}", code_name(code), KIND_NAMES[i.kind as usize], i.tag, out_loc(o), i.bytes.len()); }
        let mtag = i.tag.split(' ').last().unwrap_or("").trim_end_matches(|c: char| c.is_ascii_digit());
        if is_known(i.kind, o) && !include_known() {
            emit(Case::new("c08.outcome", in_args(i), &[], format!("known:{}", out_loc(o))));
            continue;
        }
        emit(Case::new("c08.outcome", in_args(i), &["c08.outcome.post"], format!("{} {} {}", KIND_NAMES[i.kind as usize], mtag, code_name(code))));
    }
    for (j, (op, a)) in col_jobs.into_iter().enumerate() {
        let _ = op;
        let d = &col_outs[j];
        if is_skip(d) { continue }
        let h = key("dump", d);
        if !seen.insert(h) { continue }
        let ty = d.get(1).and_then(|g| g.get(0)).map(|x| x.to_string()).unwrap_or_default();
        emit(Case::new("c08.column", a, &["c01.valid.post1"], format!("col {} ty{}", KIND_NAMES[inputs[col_of[j]].kind as usize], ty)));
    }
    for (k, v) in &stats { eprintln!("c08: {k}: {v}") }
    gen_probes(tier, r, emit);
}
