#![allow(dead_code, unused_imports)]
//! Correspondence harness: generates cases, runs the arrow-rs implementation built from
//! /repo's working tree, and writes one line per (case, model op):
//!     id \t model_op \t args \t impl_output
//! The extracted Coq model (driver) recomputes the output from args and compares.
mod util;

use std::io::{BufRead, BufWriter, Write};
use std::panic::{catch_unwind, AssertUnwindSafe};
use util::*;

include!(concat!(env!("OUT_DIR"), "/registry.rs"));

thread_local! { static QUIET: std::cell::Cell<bool> = std::cell::Cell::new(false); }

fn run_guarded(op: &str, a: &Args) -> String {
    QUIET.with(|q| q.set(true));
    let res = catch_unwind(AssertUnwindSafe(|| run_impl(op, a)));
    QUIET.with(|q| q.set(false));
    match res {
        Ok(Some(out)) => if is_skip(&out) { "?".to_string() } else { fmt_args(&out) },
        Ok(None) => "!noimpl".to_string(),
        Err(_) => fmt_args(&err(E_PANIC)),
    }
}

fn main() {
    let argv: Vec<String> = std::env::args().collect();
    std::panic::set_hook(Box::new(|info| { if !QUIET.with(|q| q.get()) { eprintln!("harness panic (generator): {info}"); } else if std::env::var("VERIF_PANIC_MSG").is_ok() { eprintln!("panic in implementation: {info}"); } }));
    match argv.get(1).map(|s| s.as_str()) {
        Some("gen") => {
            let prop = argv[2].to_lowercase();
            let tier = argv[3].as_str();
            let seed: u64 = argv[4].parse().expect("seed");
            let out = std::fs::File::create(&argv[5]).expect("outfile");
            let mut w = BufWriter::new(out);
            let tags = std::fs::File::create(format!("{}.tags", &argv[5])).expect("tags");
            let mut tw = BufWriter::new(tags);
            let mut r = Rng::new(seed);
            let mut n = 0u64;
            let cur_path = format!("{}.current", &argv[5]);
            let mut emit = |c: Case| {
                let args = fmt_args(&c.args);
                // ops that may abort the process (std UB precondition checks in the debug build) leave their
                // case behind, so that a crash can be reported with the input that caused it
                if c.op.ends_with("panel") || c.op.contains("risky") {
                    let _ = std::fs::write(&cur_path, format!("{}:{}\t{}\t{}\t!crash\n", n, c.op, c.models.first().copied().unwrap_or(c.op), args));
                }
                let out = run_guarded(c.op, &c.args);
                for m in &c.models {
                    writeln!(w, "{}:{}\t{}\t{}\t{}", n, c.op, m, args, out).unwrap();
                }
                writeln!(tw, "{}\t{}", c.op, c.tag).unwrap();
                n += 1;
            };
            if !generate(prop.as_str(), tier, &mut r, &mut emit) {
                eprintln!("unknown property {prop}"); std::process::exit(2);
            }
            w.flush().unwrap();
            tw.flush().unwrap();
            let _ = std::fs::remove_file(&cur_path);
        }
        Some("replay") => {
            // re-run the implementation on the cases of a replay/case file; same output format
            let f = std::fs::File::open(&argv[2]).expect("replay file");
            let stdout = std::io::stdout();
            let mut w = BufWriter::new(stdout.lock());
            for line in std::io::BufReader::new(f).lines() {
                let line = line.unwrap();
                if line.starts_with('#') || line.is_empty() { continue; }
                let parts: Vec<&str> = line.split('\t').collect();
                if parts.len() < 3 { continue; }
                let implop = parts[0].splitn(2, ':').nth(1).unwrap_or(parts[1]);
                let args = parse_args(parts[2]);
                let out = run_guarded(implop, &args);
                writeln!(w, "{}\t{}\t{}\t{}", parts[0], parts[1], parts[2], out).unwrap();
            }
        }
        _ => { eprintln!("usage: harness gen <prop> <tier> <seed> <out> | replay <file>"); std::process::exit(2); }
    }
}
