//! C05 — Parquet write -> read round trip: implementation runs and case generators.
//!  (a) c05.roundtrip : end to end on the real ArrowWriter / ArrowColumnWriter / ParquetRecordBatchReader
//!  (b) c05.levels / c05.assemble : def/rep levels of a written file (low-level ColumnReader::read_records)
//!      and what the Arrow reader assembles from them, against the Dremel model
//!  (c) c05.bw_put .. c05.dec : BitWriter/BitReader, VLQ, RLE hybrid, value encoders/decoders byte-for-byte
use crate::util::*;
use num_bigint::BigInt;
use std::sync::Arc;

#[path = "c05_e2e.rs"]
mod e2e;

use bytes::Bytes;
use parquet::basic::{Encoding, Type as PhysicalType};
use parquet::data_type::{
    BoolType, ByteArray, ByteArrayType, DataType as PqDataType, DoubleType, FixedLenByteArray, FixedLenByteArrayType,
    FloatType, Int32Type, Int64Type,
};
use parquet::decoding::{get_decoder, Decoder};
use parquet::encoding::{get_encoder, Encoder};
use parquet::encodings::rle::{RleDecoder, RleEncoder};
use parquet::schema::types::{ColumnDescPtr, ColumnDescriptor, ColumnPath, Type as SchemaType};
use parquet::util::bit_util::{BitReader, BitWriter};

fn to_u64s(gr: &Group) -> Vec<u64> { gr.iter().map(|b| u64::try_from(b).expect("u64")).collect() }
fn to_usizes(gr: &Group) -> Vec<usize> { gr.iter().map(|b| usize::try_from(b).expect("usize")).collect() }

fn descr(pt: PhysicalType, len: i32) -> ColumnDescPtr {
    let mut b = SchemaType::primitive_type_builder("c", pt);
    if pt == PhysicalType::FIXED_LEN_BYTE_ARRAY { b = b.with_length(len); }
    let t = b.build().expect("type");
    Arc::new(ColumnDescriptor::new(Arc::new(t), 0, 0, ColumnPath::new(vec!["c".to_string()])))
}

fn encoding_of(id: i64) -> Encoding {
    match id {
        0 => Encoding::PLAIN,
        1 => Encoding::RLE,
        2 => Encoding::DELTA_BINARY_PACKED,
        3 => Encoding::DELTA_LENGTH_BYTE_ARRAY,
        4 => Encoding::DELTA_BYTE_ARRAY,
        _ => Encoding::BYTE_STREAM_SPLIT,
    }
}

/// Encode `vals` with the real encoder, feeding them in the `put` calls given by `splits`.
fn enc_with<T: PqDataType>(enc: Encoding, d: &ColumnDescPtr, vals: &[T::T], splits: &[usize]) -> Result<Vec<u8>, i64> {
    let mut e: Box<dyn Encoder<T>> = get_encoder::<T>(enc, d).map_err(|_| E_UNSUPPORTED)?;
    let mut pos = 0;
    for &s in splits {
        let end = (pos + s).min(vals.len());
        e.put(&vals[pos..end]).map_err(|_| E_INVALID)?;
        pos = end;
    }
    if pos < vals.len() || splits.is_empty() { e.put(&vals[pos..]).map_err(|_| E_INVALID)?; }
    Ok(e.flush_buffer().map_err(|_| E_INVALID)?.to_vec())
}

/// Decode with the real decoder following the get/skip pattern `reads` (k>0: get(k); k<0: skip(-k)).
fn dec_with<T: PqDataType>(enc: Encoding, d: &ColumnDescPtr, bytes: &[u8], n: usize, reads: &[i64]) -> Result<Vec<T::T>, i64>
where T::T: Default + Clone {
    let mut dec: Box<dyn Decoder<T>> = get_decoder::<T>(d.clone(), enc).map_err(|_| E_UNSUPPORTED)?;
    dec.set_data(Bytes::copy_from_slice(bytes), n).map_err(|_| E_INVALID)?;
    let mut out = Vec::new();
    for &r in reads {
        if r > 0 {
            let mut buf = vec![T::T::default(); r as usize];
            let got = dec.get(&mut buf).map_err(|_| E_INVALID)?;
            out.extend_from_slice(&buf[..got]);
        } else {
            dec.skip((-r) as usize).map_err(|_| E_INVALID)?;
        }
    }
    Ok(out)
}

struct Head { enc: i64, ty: i64, flba: usize, n: usize }
fn head(gr: &Group) -> Head {
    let v = to_i64s(gr);
    Head { enc: v[0], ty: v[1], flba: v[2] as usize, n: *v.get(3).unwrap_or(&0) as usize }
}

fn split_bas(lens: &[usize], data: &[u8]) -> Vec<Vec<u8>> {
    let mut out = Vec::new(); let mut p = 0;
    for &l in lens { out.push(data[p..p + l].to_vec()); p += l; }
    out
}

fn out_ints<T: Into<BigInt> + Copy>(v: &[T]) -> Args { vec![gs(v), vec![], vec![]] }
fn out_bas(v: &[Vec<u8>]) -> Args {
    let lens: Vec<usize> = v.iter().map(|b| b.len()).collect();
    let data: Vec<u8> = v.iter().flat_map(|b| b.iter().copied()).collect();
    vec![vec![], gs(&lens), gbytes(&data)]
}

/// Real encoder bytes for the value layout of the case interface.
fn encode_case(h: &Head, splits: &[usize], ints: &[i64], bas: &[Vec<u8>]) -> Result<Vec<u8>, i64> {
    let e = encoding_of(h.enc);
    match h.ty {
        0 => enc_with::<BoolType>(e, &descr(PhysicalType::BOOLEAN, 0), &ints.iter().map(|x| *x != 0).collect::<Vec<_>>(), splits),
        1 => enc_with::<Int32Type>(e, &descr(PhysicalType::INT32, 0), &ints.iter().map(|x| *x as i32).collect::<Vec<_>>(), splits),
        2 => enc_with::<Int64Type>(e, &descr(PhysicalType::INT64, 0), ints, splits),
        3 => enc_with::<FloatType>(e, &descr(PhysicalType::FLOAT, 0), &ints.iter().map(|x| f32::from_bits(*x as i32 as u32)).collect::<Vec<_>>(), splits),
        4 => enc_with::<DoubleType>(e, &descr(PhysicalType::DOUBLE, 0), &ints.iter().map(|x| f64::from_bits(*x as u64)).collect::<Vec<_>>(), splits),
        5 => enc_with::<ByteArrayType>(e, &descr(PhysicalType::BYTE_ARRAY, 0), &bas.iter().map(|b| ByteArray::from(b.clone())).collect::<Vec<_>>(), splits),
        _ => enc_with::<FixedLenByteArrayType>(e, &descr(PhysicalType::FIXED_LEN_BYTE_ARRAY, h.flba as i32),
                &bas.iter().map(|b| FixedLenByteArray::from(ByteArray::from(b.clone()))).collect::<Vec<_>>(), splits),
    }
}

fn decode_case(h: &Head, bytes: &[u8], n: usize, reads: &[i64]) -> Result<Args, i64> {
    let e = encoding_of(h.enc);
    Ok(match h.ty {
        0 => out_ints(&dec_with::<BoolType>(e, &descr(PhysicalType::BOOLEAN, 0), bytes, n, reads)?.iter().map(|b| *b as i64).collect::<Vec<_>>()),
        1 => out_ints(&dec_with::<Int32Type>(e, &descr(PhysicalType::INT32, 0), bytes, n, reads)?),
        2 => out_ints(&dec_with::<Int64Type>(e, &descr(PhysicalType::INT64, 0), bytes, n, reads)?),
        3 => out_ints(&dec_with::<FloatType>(e, &descr(PhysicalType::FLOAT, 0), bytes, n, reads)?.iter().map(|f| f.to_bits() as i32 as i64).collect::<Vec<_>>()),
        4 => out_ints(&dec_with::<DoubleType>(e, &descr(PhysicalType::DOUBLE, 0), bytes, n, reads)?.iter().map(|f| f.to_bits() as i64).collect::<Vec<_>>()),
        5 => out_bas(&dec_with::<ByteArrayType>(e, &descr(PhysicalType::BYTE_ARRAY, 0), bytes, n, reads)?.iter().map(|b| b.data().to_vec()).collect::<Vec<_>>()),
        _ => out_bas(&dec_with::<FixedLenByteArrayType>(e, &descr(PhysicalType::FIXED_LEN_BYTE_ARRAY, h.flba as i32), bytes, n, reads)?
                .iter().map(|b| b.data().to_vec()).collect::<Vec<_>>()),
    })
}

fn rle_decode_as(t: usize, w: u8, n: usize, data: &[u8]) -> Result<Vec<u64>, i64> {
    let mut d = RleDecoder::new(w);
    d.set_data(Bytes::copy_from_slice(data)).map_err(|_| E_INVALID)?;
    macro_rules! go { ($t:ty, $conv:expr) => {{
        let mut buf: Vec<$t> = vec![Default::default(); n];
        let got = d.get_batch::<$t>(&mut buf).map_err(|_| E_INVALID)?;
        Ok(buf[..got].iter().map($conv).collect())
    }}}
    match t {
        1 => go!(u8, |x| *x as u64),
        2 => go!(u16, |x| *x as u64),
        3 => go!(i16, |x| *x as u16 as u64),
        4 => go!(u32, |x| *x as u64),
        5 => go!(i32, |x| *x as u32 as u64),
        6 => go!(bool, |x| *x as u64),
        7 => { // value-at-a-time path
            let mut out = Vec::new();
            while out.len() < n { match d.get::<u64>().map_err(|_| E_INVALID)? { Some(v) => out.push(v), None => break } }
            Ok(out)
        }
        _ => go!(u64, |x| *x),
    }
}

pub fn run(op: &str, a: &Args) -> Option<Args> {
    if std::env::var_os("C05_DEBUG").is_some() { std::panic::set_hook(Box::new(|i| eprintln!("PANIC {i}"))); }
    Some(match op {
        "c05.bw_put" => {
            let vals = to_u64s(&a[0]); let ws = to_usizes(&a[1]);
            let mut w = BitWriter::new(16);
            for (v, nb) in vals.iter().zip(ws.iter()) { w.put_value(*v, *nb); }
            vec![gbytes(&w.consume())]
        }
        "c05.br_get" => {
            let data = to_u8s(&a[0]); let ws = to_usizes(&a[1]);
            let mut r = BitReader::new(Bytes::from(data));
            let mut out: Vec<u64> = Vec::new();
            for nb in ws { match r.get_value::<u64>(nb) { Some(v) => out.push(v), None => break } }
            vec![gs(&out)]
        }
        "c05.vlq_enc" => {
            let mut w = BitWriter::new(16);
            for v in to_u64s(&a[0]) { w.put_vlq_int(v); }
            vec![gbytes(&w.consume())]
        }
        "c05.vlq_dec" | "c05.zz_dec" => {
            let mut r = BitReader::new(Bytes::from(to_u8s(&a[0])));
            let mut out: Vec<i64> = Vec::new();
            loop {
                let v = if op == "c05.vlq_dec" { r.get_vlq_int() } else { r.get_zigzag_vlq_int() };
                match v { Some(v) => out.push(v), None => break }
            }
            vec![gs(&out)]
        }
        "c05.zz_enc" => {
            let mut w = BitWriter::new(16);
            for v in to_i64s(&a[0]) { w.put_zigzag_vlq_int(v); }
            vec![gbytes(&w.consume())]
        }
        "c05.rle_enc" => {
            let w = to_usize(&a[0]) as u8;
            let mut e = RleEncoder::new(w, 64);
            for v in to_u64s(&a[1]) { e.put(v); }
            vec![gbytes(&e.consume())]
        }
        "c05.rle_rt" => {
            let h = to_usizes(&a[0]); let w = h[0] as u8; let t = *h.get(1).unwrap_or(&0);
            let vals = to_u64s(&a[1]);
            let mut e = RleEncoder::new(w, 64);
            for v in &vals { e.put(*v); }
            let bytes = e.consume();
            match rle_decode_as(t, w, vals.len(), &bytes) { Ok(v) => vec![gs(&v)], Err(k) => return Some(err(k)) }
        }
        "c05.rle_dec" => {
            let h = to_usizes(&a[0]);
            match rle_decode_as(*h.get(2).unwrap_or(&0), h[0] as u8, h[1], &to_u8s(&a[1])) { Ok(v) => vec![gs(&v)], Err(k) => return Some(err(k)) }
        }
        "c05.enc" | "c05.enc_rt" => {
            let h = head(&a[0]);
            let splits = to_usizes(&a[1]);
            let ints = to_i64s(&a[2]);
            let bas = split_bas(&to_usizes(&a[3]), &to_u8s(&a[4]));
            let bytes = match encode_case(&h, &splits, &ints, &bas) { Ok(b) => b, Err(k) => return Some(err(k)) };
            if op == "c05.enc" { vec![gbytes(&bytes)] } else {
                let n = if h.ty <= 4 { ints.len() } else { bas.len() };
                match decode_case(&h, &bytes, n, &(if n == 0 { vec![] } else { vec![n as i64] })) { Ok(o) => o, Err(k) => return Some(err(k)) }
            }
        }
        "c05.dec" => {
            let h = head(&a[0]);
            match decode_case(&h, &to_u8s(&a[2]), h.n, &to_i64s(&a[1])) { Ok(o) => o, Err(k) => return Some(err(k)) }
        }
        "c05.levels" | "c05.assemble" => return e2e::run_levels(op, a),
        "c05.roundtrip" => return e2e::run_roundtrip(a),
        _ => return None,
    })
}

// ------------------------------------------------------------------------------------------ generators

fn rand_width_value(r: &mut Rng, w: usize) -> u64 {
    if w == 0 { return 0; }
    let mask = if w >= 64 { u64::MAX } else { (1u64 << w) - 1 };
    match r.below(6) { 0 => 0, 1 => mask, 2 => 1, 3 => mask >> 1, _ => r.next() & mask }
}

/// values of width `w` with run structure (so both RLE and bit-packed runs and their transitions occur)
fn run_values(r: &mut Rng, w: usize, n: usize) -> Vec<u64> {
    let mut v = Vec::with_capacity(n);
    let style = r.below(5);
    while v.len() < n {
        let x = rand_width_value(r, w);
        let len = match style {
            0 => 1,                                     // no repeats (given enough width)
            1 => 1 + r.below(20),                       // mixed
            2 => *r.pick(&[1, 2, 7, 8, 9, 15, 16, 17]), // around the 8-value threshold
            3 => 1 + r.below(3),
            _ => if r.chance(1, 4) { 8 + r.below(600) } else { 1 + r.below(9) },
        };
        for _ in 0..len { if v.len() < n { v.push(x); } }
    }
    v
}

fn ext_i(r: &mut Rng, bits: u32) -> i64 {
    let (lo, hi) = if bits == 32 { (i32::MIN as i64, i32::MAX as i64) } else { (i64::MIN, i64::MAX) };
    match r.below(12) {
        0 => lo, 1 => hi, 2 => 0, 3 => -1, 4 => 1, 5 => lo + 1, 6 => hi - 1,
        7 => r.range(-130, 130),
        8 => (r.next() as i64) >> (64 - 1 - r.below(bits as usize) as u32).min(63),
        _ => if bits == 32 { r.next() as i32 as i64 } else { r.next() as i64 },
    }
}

/// integer sequences for the delta encoder: constant, arithmetic progressions (bit width 0 mini blocks),
/// small noise, wrap-around extremes
fn int_seq(r: &mut Rng, bits: u32, n: usize) -> Vec<i64> {
    let wrap = |x: i64| if bits == 32 { x as i32 as i64 } else { x };
    let style = r.below(8);
    let mut v = Vec::with_capacity(n);
    let mut cur = ext_i(r, bits);
    let step = match r.below(4) { 0 => 0, 1 => r.range(-5, 5), 2 => ext_i(r, bits), _ => r.range(-100000, 100000) };
    for i in 0..n {
        let x = match style {
            0 => cur,
            1 => { cur = wrap(cur.wrapping_add(step)); cur }
            2 => { cur = wrap(cur.wrapping_add(step).wrapping_add(r.range(0, 3))); cur }
            3 => ext_i(r, bits),
            4 => if r.bool() { if bits == 32 { i32::MIN as i64 } else { i64::MIN } } else if bits == 32 { i32::MAX as i64 } else { i64::MAX },
            5 => { if i % (1 + r.below(70)) == 0 { cur = ext_i(r, bits); } cur = wrap(cur.wrapping_add(step)); cur }
            6 => r.range(-3, 3),
            _ => { cur = wrap(cur.wrapping_add(r.range(-1000, 1000))); cur }
        };
        v.push(x);
    }
    v
}

fn byte_strings(r: &mut Rng, n: usize, fixed: Option<usize>) -> Vec<Vec<u8>> {
    let style = r.below(5);
    let mut prev: Vec<u8> = Vec::new();
    (0..n).map(|_| {
        let len = fixed.unwrap_or_else(|| match r.below(6) { 0 => 0, 1 => 1, 2 => 31 + r.below(4), 3 => 64 + r.below(70), _ => r.below(12) });
        let mut b: Vec<u8> = match style {
            0 => r.bytes(len),
            1 => vec![b'a' + r.below(3) as u8; len],
            _ => { // shared prefixes with the previous value (DELTA_BYTE_ARRAY), incl. across the 32-byte compare block
                let keep = if prev.is_empty() { 0 } else { r.below(prev.len().min(len) + 1) };
                let mut b = prev[..keep].to_vec();
                while b.len() < len { b.push(if r.chance(1, 3) { r.next() as u8 } else { b'x' }); }
                b
            }
        };
        b.truncate(len);
        prev = b.clone();
        b
    }).collect()
}

fn splits_for(r: &mut Rng, n: usize) -> Vec<usize> {
    match r.below(4) {
        0 => vec![],
        1 => vec![1; n.min(40)],
        _ => { let mut v = Vec::new(); let mut left = n; while left > 0 && v.len() < 12 { let k = r.below(left + 1).min(*r.pick(&[0, 1, 31, 32, 33, 127, 128, 129, 300])); v.push(k); left -= k.min(left); } v }
    }
}

fn reads_for(r: &mut Rng, n: usize) -> Vec<i64> {
    match r.below(4) {
        0 => vec![n.max(1) as i64],
        1 => vec![(n + 5) as i64],
        _ => {
            let mut v = Vec::new(); let mut left = n as i64;
            while left > 0 && v.len() < 24 {
                let m = *r.pick(&[1usize, 3, 31, 32, 33, 64, 65, 130]); let k = 1 + r.below(m) as i64;
                v.push(if r.chance(1, 3) { -k } else { k }); left -= k;
            }
            if left > 0 { v.push(left); }
            v
        }
    }
}

fn pick_len(r: &mut Rng, thorough: bool) -> usize {
    let hi = if thorough { 260 } else { 260 };
    match r.below(5) {
        0 => r.below(10),
        1 => *r.pick(&[7usize, 8, 9, 31, 32, 33, 63, 64, 65, 127, 128, 129, 130, 255, 256, 257, 258, 260]),
        _ => r.below(hi + 1),
    }
}

/// serialise hybrid runs the way the format document says (independent of the encoder under test)
fn ser_runs(w: usize, runs: &[(bool, usize, Vec<u64>)]) -> (Vec<u8>, Vec<i128>) {
    let mut bytes = Vec::new(); let mut desc: Vec<i128> = Vec::new();
    let vlq = |mut v: u64, out: &mut Vec<u8>| { while v >= 128 { out.push((v & 127) as u8 | 128); v >>= 7; } out.push(v as u8); };
    for (is_rle, count, vals) in runs {
        if *is_rle {
            vlq((*count as u64) << 1, &mut bytes);
            bytes.extend_from_slice(&vals[0].to_le_bytes()[..(w + 7) / 8]);
            desc.extend_from_slice(&[0, *count as i128, vals[0] as i128]);
        } else {
            vlq(((*count as u64) << 1) | 1, &mut bytes);
            let mut acc: u128 = 0; let mut nb = 0usize;
            for v in vals { acc |= (*v as u128) << nb; nb += w; while nb >= 8 { bytes.push(acc as u8); acc >>= 8; nb -= 8; } }
            debug_assert_eq!(nb, 0);
            desc.push(1); desc.push(*count as i128); desc.extend(vals.iter().map(|v| *v as i128));
        }
    }
    (bytes, desc)
}

pub fn generate(tier: &str, r: &mut Rng, emit: &mut dyn FnMut(Case)) {
    let thorough = tier == "thorough";
    let scale = if thorough { 10 } else { 1 };

    // ---- BitWriter / BitReader: every width 0..=64, lengths 0..=260, mixed widths
    for w in 0..=64usize {
        for rep in 0..(2 * scale) {
            let n = if rep == 0 { *r.pick(&[0usize, 1, 8, 64, 65]) } else { pick_len(r, thorough) };
            let vals: Vec<u64> = (0..n).map(|_| rand_width_value(r, w)).collect();
            let ws = vec![w; n];
            emit(Case::new("c05.bw_put", vec![gs(&vals), gs(&ws)], &["c05.bw_put", "c05.bw_put.spec"], format!("bw w{w} n{}", n.min(70))));
            // reader: real packed bytes (plus slack), widths asking for a few more than present
            let mut bw = BitWriter::new(8);
            for v in &vals { bw.put_value(*v, w); }
            let mut data = bw.consume();
            let slack = r.below(3) * r.below(9); data.extend(r.bytes(slack));
            let ws2 = vec![w; n + r.below(4)];
            emit(Case::new("c05.br_get", vec![gbytes(&data), gs(&ws2)], &["c05.br_get", "c05.br_get.spec"], format!("br w{w} n{}", n.min(70))));
        }
    }
    for _ in 0..(150 * scale) {
        let n = pick_len(r, thorough);
        let ws: Vec<usize> = (0..n).map(|_| match r.below(4) { 0 => *r.pick(&[0usize, 1, 7, 8, 9, 31, 32, 33, 63, 64]), _ => r.below(65) }).collect();
        let vals: Vec<u64> = ws.iter().map(|w| rand_width_value(r, *w)).collect();
        emit(Case::new("c05.bw_put", vec![gs(&vals), gs(&ws)], &["c05.bw_put", "c05.bw_put.spec"], "bw mixed"));
        let dl = r.below(80); let data = r.bytes(dl);
        emit(Case::new("c05.br_get", vec![gbytes(&data), gs(&ws)], &["c05.br_get", "c05.br_get.spec"], "br mixed"));
    }

    // ---- VLQ / zig-zag
    for _ in 0..(60 * scale) {
        let n = r.below(30);
        let us: Vec<u64> = (0..n).map(|_| match r.below(6) { 0 => 0, 1 => u64::MAX, 2 => 127, 3 => 128, 4 => 1u64 << (7 * r.below(10)).min(63), _ => r.next() >> r.below(64) }).collect();
        emit(Case::new("c05.vlq_enc", vec![gs(&us)], &["c05.vlq_enc"], "vlq enc"));
        let is: Vec<i64> = (0..n).map(|_| ext_i(r, 64)).collect();
        emit(Case::new("c05.zz_enc", vec![gs(&is)], &["c05.zz_enc", "c05.zz_enc.spec"], "zz enc"));
        let mut w = BitWriter::new(8);
        for u in &us { w.put_vlq_int(*u); }
        let mut b = w.consume();
        if r.chance(1, 3) && !b.is_empty() { let k = r.below(b.len()); b.truncate(k); }
        emit(Case::new("c05.vlq_dec", vec![gbytes(&b)], &["c05.vlq_dec"], "vlq dec"));
        let mut w = BitWriter::new(8);
        for i in &is { w.put_zigzag_vlq_int(*i); }
        let mut b = w.consume();
        if r.chance(1, 3) && !b.is_empty() { let k = r.below(b.len()); b.truncate(k); }
        emit(Case::new("c05.zz_dec", vec![gbytes(&b)], &["c05.zz_dec", "c05.zz_dec.spec"], "zz dec"));
    }

    // ---- RLE / bit-packed hybrid: all widths, lengths 0..=260 (+ some long ones crossing the 504-value run limit)
    for w in 0..=64usize {
        for rep in 0..(3 * scale) {
            let n = if rep == 1 && w <= 20 { 500 + r.below(700) } else { pick_len(r, thorough) };
            let vals = run_values(r, w, n);
            let t = match w { 0 => *r.pick(&[0usize, 1, 2, 3, 4, 5, 7]), 1 => *r.pick(&[0usize, 1, 2, 3, 4, 5, 6, 7]), 2..=8 => *r.pick(&[0usize, 1, 2, 3, 4, 5, 7]), 9..=16 => *r.pick(&[0usize, 2, 3, 4, 5, 7]), 17..=32 => *r.pick(&[0usize, 4, 5, 7]), _ => *r.pick(&[0usize, 7]) };
            emit(Case::new("c05.rle_enc", vec![g(w), gs(&vals)], &["c05.rle_enc"], format!("rle enc w{w}")));
            emit(Case::new("c05.rle_rt", vec![gs(&[w, t]), gs(&vals)], &["c05.rle_rt", "c05.rle_rt.spec"], format!("rle rt w{w} t{t}")));
            // decoder on hand-serialised runs (short RLE runs, long bit-packed runs, zero padding, truncation)
            let mut runs: Vec<(bool, usize, Vec<u64>)> = Vec::new();
            let mut total = 0usize;
            for _ in 0..(1 + r.below(6)) {
                if r.bool() { let m = *r.pick(&[3usize, 9, 70, 300]); let c = 1 + r.below(m); runs.push((true, c, vec![rand_width_value(r, w)])); total += c; }
                else { let m = *r.pick(&[1usize, 2, 9, 70]); let gcount = 1 + r.below(m); let vs = run_values(r, w, 8 * gcount); runs.push((false, gcount, vs)); total += 8 * gcount; }
            }
            let (mut bytes, desc) = ser_runs(w, &runs);
            let n = match r.below(4) { 0 => total, 1 => r.below(total + 1), 2 => total + 1 + r.below(9), _ => total.saturating_sub(r.below(9)) };
            let full = n <= total;
            if r.chance(1, 4) { bytes.push(0); let k = r.below(4); bytes.extend(r.bytes(k)); }   // zero header = padding, decoding stops
            let models: &[&str] = if full { &["c05.rle_dec", "c05.rle_dec.spec"] } else { &["c05.rle_dec"] };
            emit(Case::new("c05.rle_dec", vec![gs(&[w, n, t]), gbytes(&bytes), gs(&desc)], models, format!("rle dec w{w} t{t} full{}", full as u8)));
            // truncated final bit-packed run ("writers which truncate the final block")
            if let Some((false, gcount, _)) = runs.last() {
                if w > 0 && *gcount * w > 1 {
                    let cut = 1 + r.below((*gcount * w - 1).min(2 * w));
                    let tb = bytes_truncate(&ser_runs(w, &runs).0, cut);
                    let t = if t == 7 { 0 } else { t };   // get() reports a truncated block as an error; get_batch() tolerates it
                    emit(Case::new("c05.rle_dec", vec![gs(&[w, total, t]), gbytes(&tb), vec![]], &["c05.rle_dec"], format!("rle dec trunc w{w}")));
                }
            }
        }
    }

    // ---- value encoders / decoders through get_encoder / get_decoder
    let combos: &[(i64, i64)] = &[(0, 0), (0, 1), (0, 2), (0, 3), (0, 4), (0, 5), (0, 6), (1, 0), (2, 1), (2, 2), (3, 5), (4, 5), (4, 6),
                                  (5, 1), (5, 2), (5, 3), (5, 4), (5, 6)];
    for &(enc, ty) in combos {
        for _ in 0..(30 * scale) {
            let n = pick_len(r, thorough) + if (enc == 2 || enc == 3 || enc == 4) && r.chance(1, 6) { 250 + r.below(300) } else { 0 };
            let flba = if ty == 6 { *r.pick(&[1usize, 2, 3, 4, 5, 7, 8, 12, 16, 19]) } else { 0 };
            let ints: Vec<i64> = match ty {
                0 => run_values(r, 1, n).iter().map(|x| *x as i64).collect(),
                1 | 3 => int_seq(r, 32, n),
                2 | 4 => int_seq(r, 64, n),
                _ => vec![],
            };
            let bas = match ty { 5 => byte_strings(r, n, None), 6 => byte_strings(r, n, Some(flba)), _ => vec![] };
            let lens: Vec<usize> = bas.iter().map(|b| b.len()).collect();
            let data: Vec<u8> = bas.iter().flat_map(|b| b.iter().copied()).collect();
            let splits = splits_for(r, n);
            let h = gs(&[enc, ty, flba as i64, n as i64]);
            let args = vec![h.clone(), gs(&splits), gs(&ints), gs(&lens), gbytes(&data)];
            let tag = format!("e{enc} t{ty} n{}", if n == 0 { 0 } else if n < 33 { 1 } else if n < 130 { 2 } else { 3 });
            emit(Case::new("c05.enc", args.clone(), &["c05.enc"], format!("enc {tag}")));
            emit(Case::new("c05.enc_rt", args, &["c05.enc_rt", "c05.enc_rt.spec"], format!("rt {tag}")));
            // decoder under get/skip patterns, on the real encoder's bytes (which c05.enc ties to the model's)
            let hd = Head { enc, ty, flba, n };
            if let Ok(bytes) = encode_case(&hd, &[], &ints, &bas) {
                // KNOWN-FINDING candidate: DeltaBitPackDecoder::get on a page whose header says 0 values, with a
                // non-empty output buffer, takes `first_value` anyway and underflows `values_left` (decoding.rs:749,
                // "attempt to subtract with overflow" in debug builds).  Not reachable through the Arrow reader, which
                // never asks an empty page for values; n = 0 is therefore read with no get/skip calls here.
                let mut reads = if enc == 2 && n == 0 { vec![] } else { reads_for(r, n) };
                // KNOWN-FINDING candidate: DeltaBitPackDecoder::<Int32Type>::skip over a bit-width-0 mini block computes
                // min_delta * n in i64 and rejects it with "delta*n overflow in skip" when it does not fit an i32, although
                // deltas are wrapping (witness: -1, i32::MAX, -1, i32::MAX, ... then skip(20)).  Full reads (this property)
                // never skip; INT32 sequences whose wrapped deltas can reach 2^31/64 are therefore read without skip().
                if enc == 2 && ty == 1 {
                    let big = ints.windows(2).any(|w| ((w[1] as i32).wrapping_sub(w[0] as i32) as i64).abs() >= (1 << 31) / 64);
                    if big { for x in reads.iter_mut() { *x = x.abs(); } }
                }
                // DELTA_BYTE_ARRAY skip() decodes into a buffer of the requested size; keep requests within what is left
                emit(Case::new("c05.dec", vec![h, gs(&reads), gbytes(&bytes)], &["c05.dec"], format!("dec {tag} r{}", reads.len().min(3))));
            }
        }
    }

    e2e::generate(tier, r, emit);
}

fn bytes_truncate(b: &[u8], cut: usize) -> Vec<u8> { b[..b.len().saturating_sub(cut)].to_vec() }
