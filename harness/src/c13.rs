//! C13 — casts preserve representable values; strict/safe modes agree; text round-trips.
//! Everything here runs the REAL arrow_cast::{cast_with_options, can_cast_types}, arrow_cast::parse,
//! arrow_cast::display and arrow_schema DataType Display/FromStr; the Coq models (coq/Model/C13_*.v)
//! replay the same cases.
//!
//! Type encoding shared with coq/Model/D_C13.v (one group of integers):
//!   [0,bits,signed] Int | [1] Bool | [2,bits,p,s] Decimal | [3] Date32 | [4] Date64
//!   [5,u] Time32 | [6,u] Time64 | [7,u,tz] Timestamp (tz 0 = None, 1 = "+00:00", i.e. UTC without needing the chrono-tz feature) | [8,u] Duration
//!   time units u: 0 s, 1 ms, 2 us, 3 ns
//! Column encoding: [validity 0/1 ...] [raw values ...] (raw values of null slots are garbage on purpose);
//! outputs are normalised: the value of a null slot is printed as 0.
use crate::util::*;
use arrow_array::types::*;
use arrow_array::*;
use arrow_buffer::{i256, BooleanBuffer, NullBuffer, OffsetBuffer, ScalarBuffer};
use arrow_cast::display::{ArrayFormatter, FormatOptions};
use arrow_cast::{can_cast_types, cast_with_options, CastOptions};
use arrow_schema::{ArrowError, DataType, Field, Fields, IntervalUnit, TimeUnit, UnionFields, UnionMode};
use num_bigint::{BigInt, Sign};
use num_traits::{One, Signed, ToPrimitive, Zero};
use std::sync::Arc;

// ------------------------------------------------------------------ modelled leaf types
#[derive(Clone, Copy, Debug, PartialEq)]
pub enum MT {
    Int { bits: u32, signed: bool },
    Bool,
    Dec { bits: u32, p: u8, s: i8 },
    Date32,
    Date64,
    Time32(u8),
    Time64(u8),
    Ts(u8, u8),
    Dur(u8),
}

fn enc(t: &MT) -> Group {
    match *t {
        MT::Int { bits, signed } => gs(&[0i64, bits as i64, signed as i64]),
        MT::Bool => gs(&[1i64]),
        MT::Dec { bits, p, s } => gs(&[2i64, bits as i64, p as i64, s as i64]),
        MT::Date32 => gs(&[3i64]),
        MT::Date64 => gs(&[4i64]),
        MT::Time32(u) => gs(&[5i64, u as i64]),
        MT::Time64(u) => gs(&[6i64, u as i64]),
        MT::Ts(u, z) => gs(&[7i64, u as i64, z as i64]),
        MT::Dur(u) => gs(&[8i64, u as i64]),
    }
}
fn dec(gr: &Group) -> MT {
    let l = to_i64s(gr);
    match l[0] {
        0 => MT::Int { bits: l[1] as u32, signed: l[2] != 0 },
        1 => MT::Bool,
        2 => MT::Dec { bits: l[1] as u32, p: l[2] as u8, s: l[3] as i8 },
        3 => MT::Date32,
        4 => MT::Date64,
        5 => MT::Time32(l[1] as u8),
        6 => MT::Time64(l[1] as u8),
        7 => MT::Ts(l[1] as u8, l[2] as u8),
        _ => MT::Dur(l[1] as u8),
    }
}
fn unit(u: u8) -> TimeUnit {
    match u { 0 => TimeUnit::Second, 1 => TimeUnit::Millisecond, 2 => TimeUnit::Microsecond, _ => TimeUnit::Nanosecond }
}
fn to_dt(t: &MT) -> DataType {
    match *t {
        MT::Int { bits, signed } => match (bits, signed) {
            (8, true) => DataType::Int8, (16, true) => DataType::Int16, (32, true) => DataType::Int32, (64, true) => DataType::Int64,
            (8, false) => DataType::UInt8, (16, false) => DataType::UInt16, (32, false) => DataType::UInt32, _ => DataType::UInt64,
        },
        MT::Bool => DataType::Boolean,
        MT::Dec { bits, p, s } => match bits { 32 => DataType::Decimal32(p, s), 64 => DataType::Decimal64(p, s), 128 => DataType::Decimal128(p, s), _ => DataType::Decimal256(p, s) },
        MT::Date32 => DataType::Date32,
        MT::Date64 => DataType::Date64,
        MT::Time32(u) => DataType::Time32(unit(u)),
        MT::Time64(u) => DataType::Time64(unit(u)),
        MT::Ts(u, z) => DataType::Timestamp(unit(u), if z == 0 { None } else { Some("+00:00".into()) }),
        MT::Dur(u) => DataType::Duration(unit(u)),
    }
}
/// physical width in bits and signedness of the native type
fn native(t: &MT) -> (u32, bool) {
    match *t {
        MT::Int { bits, signed } => (bits, signed),
        MT::Bool => (1, false),
        MT::Dec { bits, .. } => (bits, true),
        MT::Date32 | MT::Time32(_) => (32, true),
        _ => (64, true),
    }
}
fn nmin(t: &MT) -> BigInt { let (b, s) = native(t); if s { -(BigInt::one() << (b - 1)) } else { BigInt::zero() } }
fn nmax(t: &MT) -> BigInt { let (b, s) = native(t); if s { (BigInt::one() << (b - 1)) - 1 } else { (BigInt::one() << b) - 1 } }

fn big_to_i256(x: &BigInt) -> i256 {
    let mut b = x.to_signed_bytes_le();
    let fill = if x.sign() == Sign::Minus { 0xFF } else { 0 };
    b.resize(32, fill);
    let mut a = [0u8; 32];
    a.copy_from_slice(&b[..32]);
    i256::from_le_bytes(a)
}
fn i256_to_big(x: i256) -> BigInt { BigInt::from_signed_bytes_le(&x.to_le_bytes()) }

fn nulls_of(valid: &[bool], force: bool) -> Option<NullBuffer> {
    if !force && valid.iter().all(|b| *b) { None } else { Some(NullBuffer::from(valid.to_vec())) }
}

macro_rules! mk_prim {
    ($T:ty, $n:ty, $vals:expr, $valid:expr, $force:expr) => {{
        let v: Vec<$n> = $vals.iter().map(|x| <$n>::try_from(x).expect("native range")).collect();
        PrimitiveArray::<$T>::new(ScalarBuffer::from(v), nulls_of($valid, $force))
    }};
}

/// Builds the array of modelled type `t` holding exactly (valid, raw values); `force` attaches a null
/// buffer even when every slot is valid.
fn build_flat(t: &MT, valid: &[bool], vals: &[BigInt], force: bool) -> ArrayRef {
    let dt = to_dt(t);
    match *t {
        MT::Bool => {
            let bits: Vec<bool> = vals.iter().map(|x| !x.is_zero()).collect();
            Arc::new(BooleanArray::new(BooleanBuffer::from(bits), nulls_of(valid, force)))
        }
        MT::Int { bits, signed } => match (bits, signed) {
            (8, true) => Arc::new(mk_prim!(Int8Type, i8, vals, valid, force)),
            (16, true) => Arc::new(mk_prim!(Int16Type, i16, vals, valid, force)),
            (32, true) => Arc::new(mk_prim!(Int32Type, i32, vals, valid, force)),
            (64, true) => Arc::new(mk_prim!(Int64Type, i64, vals, valid, force)),
            (8, false) => Arc::new(mk_prim!(UInt8Type, u8, vals, valid, force)),
            (16, false) => Arc::new(mk_prim!(UInt16Type, u16, vals, valid, force)),
            (32, false) => Arc::new(mk_prim!(UInt32Type, u32, vals, valid, force)),
            _ => Arc::new(mk_prim!(UInt64Type, u64, vals, valid, force)),
        },
        MT::Dec { bits, p, s } => match bits {
            32 => Arc::new(mk_prim!(Decimal32Type, i32, vals, valid, force).with_precision_and_scale(p, s).expect("decimal type")),
            64 => Arc::new(mk_prim!(Decimal64Type, i64, vals, valid, force).with_precision_and_scale(p, s).expect("decimal type")),
            128 => Arc::new(mk_prim!(Decimal128Type, i128, vals, valid, force).with_precision_and_scale(p, s).expect("decimal type")),
            _ => {
                let v: Vec<i256> = vals.iter().map(big_to_i256).collect();
                Arc::new(PrimitiveArray::<Decimal256Type>::new(ScalarBuffer::from(v), nulls_of(valid, force)).with_precision_and_scale(p, s).expect("decimal type"))
            }
        },
        MT::Date32 => Arc::new(mk_prim!(Date32Type, i32, vals, valid, force)),
        MT::Date64 => Arc::new(mk_prim!(Date64Type, i64, vals, valid, force)),
        MT::Time32(0) => Arc::new(mk_prim!(Time32SecondType, i32, vals, valid, force)),
        MT::Time32(_) => Arc::new(mk_prim!(Time32MillisecondType, i32, vals, valid, force)),
        MT::Time64(2) => Arc::new(mk_prim!(Time64MicrosecondType, i64, vals, valid, force)),
        MT::Time64(_) => Arc::new(mk_prim!(Time64NanosecondType, i64, vals, valid, force)),
        MT::Ts(u, _) => match u {
            0 => Arc::new(mk_prim!(TimestampSecondType, i64, vals, valid, force).with_data_type(dt)),
            1 => Arc::new(mk_prim!(TimestampMillisecondType, i64, vals, valid, force).with_data_type(dt)),
            2 => Arc::new(mk_prim!(TimestampMicrosecondType, i64, vals, valid, force).with_data_type(dt)),
            _ => Arc::new(mk_prim!(TimestampNanosecondType, i64, vals, valid, force).with_data_type(dt)),
        },
        MT::Dur(u) => match u {
            0 => Arc::new(mk_prim!(DurationSecondType, i64, vals, valid, force)),
            1 => Arc::new(mk_prim!(DurationMillisecondType, i64, vals, valid, force)),
            2 => Arc::new(mk_prim!(DurationMicrosecondType, i64, vals, valid, force)),
            _ => Arc::new(mk_prim!(DurationNanosecondType, i64, vals, valid, force)),
        },
    }
}

/// layout = [prefix, suffix, force_null_buffer]: the logical column is embedded in a longer array
/// (prefix/suffix slots repeat the column's own slots, alternating validity) and sliced out.
fn build(t: &MT, valid: &[bool], vals: &[BigInt], layout: &[i64]) -> ArrayRef {
    let pre = layout.first().copied().unwrap_or(0) as usize;
    let suf = layout.get(1).copied().unwrap_or(0) as usize;
    let force = layout.get(2).copied().unwrap_or(0) != 0;
    if pre == 0 && suf == 0 { return build_flat(t, valid, vals, force); }
    let n = vals.len();
    let filler = |i: usize| -> (bool, BigInt) { if n == 0 { (i % 2 == 0, BigInt::zero()) } else { (i % 2 == 0, vals[i % n].clone()) } };
    let mut v2 = Vec::new(); let mut b2 = Vec::new();
    for i in 0..pre { let (b, v) = filler(i); b2.push(b); v2.push(v); }
    v2.extend(vals.iter().cloned()); b2.extend(valid.iter().cloned());
    for i in 0..suf { let (b, v) = filler(i + 1); b2.push(b); v2.push(v); }
    build_flat(t, &b2, &v2, force).slice(pre, n)
}

macro_rules! ex_prim {
    ($T:ty, $a:expr) => {{
        let p = $a.as_any().downcast_ref::<PrimitiveArray<$T>>().expect("downcast");
        (0..p.len()).map(|i| if p.is_null(i) { BigInt::zero() } else { BigInt::from(p.value(i)) }).collect::<Vec<BigInt>>()
    }};
}
/// (validity, values with null slots printed as 0) of an array of a modelled type
fn extract(a: &ArrayRef) -> Option<(Vec<bool>, Vec<BigInt>)> {
    let valid: Vec<bool> = (0..a.len()).map(|i| a.is_valid(i)).collect();
    use DataType::*;
    let vals = match a.data_type() {
        Boolean => { let b = a.as_any().downcast_ref::<BooleanArray>()?; (0..b.len()).map(|i| if b.is_null(i) { BigInt::zero() } else { BigInt::from(b.value(i) as u8) }).collect() }
        Int8 => ex_prim!(Int8Type, a), Int16 => ex_prim!(Int16Type, a), Int32 => ex_prim!(Int32Type, a), Int64 => ex_prim!(Int64Type, a),
        UInt8 => ex_prim!(UInt8Type, a), UInt16 => ex_prim!(UInt16Type, a), UInt32 => ex_prim!(UInt32Type, a), UInt64 => ex_prim!(UInt64Type, a),
        Decimal32(_, _) => ex_prim!(Decimal32Type, a), Decimal64(_, _) => ex_prim!(Decimal64Type, a), Decimal128(_, _) => ex_prim!(Decimal128Type, a),
        Decimal256(_, _) => { let p = a.as_any().downcast_ref::<PrimitiveArray<Decimal256Type>>()?; (0..p.len()).map(|i| if p.is_null(i) { BigInt::zero() } else { i256_to_big(p.value(i)) }).collect() }
        Date32 => ex_prim!(Date32Type, a), Date64 => ex_prim!(Date64Type, a),
        Time32(TimeUnit::Second) => ex_prim!(Time32SecondType, a), Time32(_) => ex_prim!(Time32MillisecondType, a),
        Time64(TimeUnit::Microsecond) => ex_prim!(Time64MicrosecondType, a), Time64(_) => ex_prim!(Time64NanosecondType, a),
        Timestamp(TimeUnit::Second, _) => ex_prim!(TimestampSecondType, a), Timestamp(TimeUnit::Millisecond, _) => ex_prim!(TimestampMillisecondType, a),
        Timestamp(TimeUnit::Microsecond, _) => ex_prim!(TimestampMicrosecondType, a), Timestamp(TimeUnit::Nanosecond, _) => ex_prim!(TimestampNanosecondType, a),
        Duration(TimeUnit::Second) => ex_prim!(DurationSecondType, a), Duration(TimeUnit::Millisecond) => ex_prim!(DurationMillisecondType, a),
        Duration(TimeUnit::Microsecond) => ex_prim!(DurationMicrosecondType, a), Duration(TimeUnit::Nanosecond) => ex_prim!(DurationNanosecondType, a),
        _ => return None,
    };
    Some((valid, vals))
}

fn unsupported_style(e: &ArrowError) -> bool {
    if matches!(e, ArrowError::NotYetImplemented(_)) { return true; }
    let m = e.to_string().to_lowercase();
    m.contains("not supported") || m.contains("unsupported") || m.contains("not implemented") || m.contains("not yet implemented")
        || m.contains("cannot cast list to non-list")
}
fn err_kind(e: &ArrowError) -> Args { if unsupported_style(e) { err(E_UNSUPPORTED) } else { err(E_OVERFLOW) } }

fn opts(safe: bool) -> CastOptions<'static> { CastOptions { safe, format_options: FormatOptions::default() } }

fn out_col(r: &ArrayRef, want: &DataType, len: usize) -> Args {
    if r.data_type() != want { return vec![gs(&[-2i64, 1])]; }
    if r.len() != len { return vec![gs(&[-2i64, 2])]; }
    if r.to_data().validate_full().is_err() { return vec![gs(&[-2i64, 3])]; }
    match extract(r) { Some((b, v)) => vec![gbools(b), v], None => vec![gs(&[-2i64, 4])] }
}

/// c13.cast: [layout] [ta] [tb] [safe] [validity] [values]  ->  [validity] [values] | error
fn run_cast(a: &Args) -> Args {
    let layout = to_i64s(&a[0]);
    let (ta, tb) = (dec(&a[1]), dec(&a[2]));
    let safe = to_i64(&a[3]) != 0;
    let valid = to_bools(&a[4]);
    let arr = build(&ta, &valid, &a[5], &layout);
    let want = to_dt(&tb);
    match cast_with_options(&arr, &want, &opts(safe)) {
        Err(e) => err_kind(&e),
        Ok(r) => out_col(&r, &want, valid.len()),
    }
}

/// c13.inverse: [layout] [ta] [tb] [validity] [values]: strict cast a -> b -> a; skipped when the
/// forward cast reports an error (some value not representable in b)
fn run_inverse(a: &Args) -> Args {
    let layout = to_i64s(&a[0]);
    let (ta, tb) = (dec(&a[1]), dec(&a[2]));
    let valid = to_bools(&a[3]);
    let arr = build(&ta, &valid, &a[4], &layout);
    let fwd = match cast_with_options(&arr, &to_dt(&tb), &opts(false)) { Ok(r) => r, Err(_) => return skip() };
    match cast_with_options(&fwd, &to_dt(&ta), &opts(false)) {
        Err(e) => err_kind(&e),
        Ok(r) => out_col(&r, &to_dt(&ta), valid.len()),
    }
}

// ------------------------------------------------------------------ text
fn str_arr(kind: i64, vals: Vec<Option<String>>) -> ArrayRef {
    match kind {
        0 => Arc::new(StringArray::from(vals)),
        1 => Arc::new(LargeStringArray::from(vals)),
        _ => Arc::new(StringViewArray::from(vals)),
    }
}
fn str_dt(kind: i64) -> DataType { match kind { 0 => DataType::Utf8, 1 => DataType::LargeUtf8, _ => DataType::Utf8View } }
fn str_get(a: &ArrayRef, i: usize) -> Option<String> {
    if a.is_null(i) { return None; }
    Some(match a.data_type() {
        DataType::Utf8 => a.as_any().downcast_ref::<StringArray>()?.value(i).to_string(),
        DataType::LargeUtf8 => a.as_any().downcast_ref::<LargeStringArray>()?.value(i).to_string(),
        _ => a.as_any().downcast_ref::<StringViewArray>()?.value(i).to_string(),
    })
}

/// c13.fmt: [t] [value]  ->  [bytes of the text produced by cast(t -> Utf8)]
fn run_fmt(a: &Args) -> Args {
    let t = dec(&a[0]);
    let arr = build_flat(&t, &[true], &a[1], false);
    match cast_with_options(&arr, &DataType::Utf8, &opts(false)) {
        Err(e) => err_kind(&e),
        Ok(r) => match str_get(&r, 0) { Some(s) => vec![gbytes(s.as_bytes())], None => vec![gs(&[-2i64, 5])] },
    }
}

/// c13.parse: [t] [strkind] [safe] [bytes]  ->  cast(Utf8-like [s] -> t): [validity] [value] | error
fn run_parse(a: &Args) -> Args {
    let t = dec(&a[0]);
    let kind = to_i64(&a[1]);
    let safe = to_i64(&a[2]) != 0;
    let s = match String::from_utf8(to_u8s(&a[3])) { Ok(s) => s, Err(_) => return skip() };
    let arr = str_arr(kind, vec![Some(s)]);
    let want = to_dt(&t);
    match cast_with_options(&arr, &want, &opts(safe)) {
        Err(e) => err_kind(&e),
        Ok(r) => out_col(&r, &want, 1),
    }
}

/// c13.parse_decimal: [bits] [p] [s] [bytes] -> arrow_cast::parse::parse_decimal::<DecimalNN>(s, p, s): [value] | error
fn run_parse_decimal(a: &Args) -> Args {
    let bits = to_i64(&a[0]);
    let p = to_i64(&a[1]) as u8;
    let sc = to_i64(&a[2]) as i8;
    let s = match String::from_utf8(to_u8s(&a[3])) { Ok(s) => s, Err(_) => return skip() };
    use arrow_cast::parse::parse_decimal;
    let r: Result<BigInt, ArrowError> = match bits {
        32 => parse_decimal::<Decimal32Type>(&s, p, sc).map(BigInt::from),
        64 => parse_decimal::<Decimal64Type>(&s, p, sc).map(BigInt::from),
        128 => parse_decimal::<Decimal128Type>(&s, p, sc).map(BigInt::from),
        _ => parse_decimal::<Decimal256Type>(&s, p, sc).map(i256_to_big),
    };
    match r { Ok(v) => vec![vec![v]], Err(_) => err(E_INVALID) }
}

/// c13.text_rt: [t] [strkind] [validity] [values]: cast t -> string kind -> t (strict); output column
fn run_text_rt(a: &Args) -> Args {
    let t = dec(&a[0]);
    let kind = to_i64(&a[1]);
    let valid = to_bools(&a[2]);
    let arr = build_flat(&t, &valid, &a[3], false);
    let s = match cast_with_options(&arr, &str_dt(kind), &opts(false)) { Ok(s) => s, Err(e) => return err_kind(&e) };
    if s.null_count() != arr.null_count() { return vec![gs(&[-2i64, 6])]; }
    match cast_with_options(&s, &to_dt(&t), &opts(false)) {
        Err(e) => err_kind(&e),
        Ok(r) => out_col(&r, &to_dt(&t), valid.len()),
    }
}

/// c13.float_rt: [bits 16|32|64] [bit patterns]: format through cast -> Utf8 and parse back; 1 iff every
/// finite value comes back with identical bits (NaN: stays NaN)
fn run_float_rt(a: &Args) -> Args {
    let bits = to_i64(&a[0]);
    let pats: Vec<u64> = a[1].iter().map(|x| x.to_u64().expect("pattern")).collect();
    let (arr, dt): (ArrayRef, DataType) = match bits {
        16 => (Arc::new(Float16Array::from(pats.iter().map(|p| half::f16::from_bits(*p as u16)).collect::<Vec<_>>())), DataType::Float16),
        32 => (Arc::new(Float32Array::from(pats.iter().map(|p| f32::from_bits(*p as u32)).collect::<Vec<_>>())), DataType::Float32),
        _ => (Arc::new(Float64Array::from(pats.iter().map(|p| f64::from_bits(*p)).collect::<Vec<_>>())), DataType::Float64),
    };
    let s = match cast_with_options(&arr, &DataType::Utf8, &opts(false)) { Ok(s) => s, Err(e) => return err_kind(&e) };
    let back = match cast_with_options(&s, &dt, &opts(false)) { Ok(b) => b, Err(e) => return err_kind(&e) };
    let mut bad = Vec::new();
    for (i, p) in pats.iter().enumerate() {
        let (got, nan): (u64, bool) = match bits {
            16 => { let v = back.as_any().downcast_ref::<Float16Array>().unwrap().value(i); (v.to_bits() as u64, v.is_nan()) }
            32 => { let v = back.as_any().downcast_ref::<Float32Array>().unwrap().value(i); (v.to_bits() as u64, v.is_nan()) }
            _ => { let v = back.as_any().downcast_ref::<Float64Array>().unwrap().value(i); (v.to_bits(), v.is_nan()) }
        };
        let src_nan = match bits { 16 => half::f16::from_bits(*p as u16).is_nan(), 32 => f32::from_bits(*p as u32).is_nan(), _ => f64::from_bits(*p).is_nan() };
        let ok = if src_nan { nan } else { got == *p };
        if !ok { bad.push(*p); }
    }
    if bad.is_empty() { vec![g(1)] } else { vec![g(0), bad.iter().map(|b| BigInt::from(*b)).collect()] }
}

// ------------------------------------------------------------------ (a) can_cast_types vs cast over the type grid
pub fn leaf_grid() -> Vec<DataType> {
    use DataType::*;
    let mut v = vec![Null, Boolean, Int8, Int16, Int32, Int64, UInt8, UInt16, UInt32, UInt64, Float16, Float32, Float64,
        Decimal32(9, 2), Decimal32(5, 0), Decimal64(18, 4), Decimal64(10, -2), Decimal128(38, 10), Decimal128(20, 0), Decimal128(10, -3),
        Decimal256(76, 20), Decimal256(40, 0), Date32, Date64,
        Time32(TimeUnit::Second), Time32(TimeUnit::Millisecond), Time64(TimeUnit::Microsecond), Time64(TimeUnit::Nanosecond)];
    for u in [TimeUnit::Second, TimeUnit::Millisecond, TimeUnit::Microsecond, TimeUnit::Nanosecond] {
        v.push(Timestamp(u, None));
        v.push(Timestamp(u, Some("+00:00".into())));
        v.push(Duration(u));
    }
    v.push(Timestamp(TimeUnit::Millisecond, Some("+05:30".into())));
    v.extend([Utf8, LargeUtf8, Utf8View, Binary, LargeBinary, BinaryView, FixedSizeBinary(1),
        Interval(IntervalUnit::YearMonth), Interval(IntervalUnit::DayTime), Interval(IntervalUnit::MonthDayNano)]);
    v
}
/// wrappers: 0 none, 1 Dictionary<Int32,T>, 2 List<T>, 3 RunEndEncoded<Int32,T>, 4 LargeList<T>, 5 FixedSizeList<T,1>, 6 Dictionary<UInt8,T>, 7 ListView<T>
fn wrap_dt(w: i64, t: &DataType) -> DataType {
    match w {
        1 => DataType::Dictionary(Box::new(DataType::Int32), Box::new(t.clone())),
        2 => DataType::List(Arc::new(Field::new_list_field(t.clone(), true))),
        3 => DataType::RunEndEncoded(Arc::new(Field::new("run_ends", DataType::Int32, false)), Arc::new(Field::new("values", t.clone(), true))),
        4 => DataType::LargeList(Arc::new(Field::new_list_field(t.clone(), true))),
        5 => DataType::FixedSizeList(Arc::new(Field::new_list_field(t.clone(), true)), 1),
        6 => DataType::Dictionary(Box::new(DataType::UInt8), Box::new(t.clone())),
        7 => DataType::ListView(Arc::new(Field::new_list_field(t.clone(), true))),
        _ => t.clone(),
    }
}

/// A small array of `dt`: shape 0 = empty, 1 = three nulls, 2 = [v0, null, v1, v0] with benign values
/// (0 / 1, "0" / "1").
fn sample_leaf(dt: &DataType, shape: i64) -> ArrayRef {
    use DataType::*;
    match shape {
        0 => return new_empty_array(dt),
        1 => return new_null_array(dt, 3),
        _ => {}
    }
    let valid = [true, false, true, true];
    let nb = || Some(NullBuffer::from(valid.to_vec()));
    macro_rules! p { ($T:ty, $a:expr, $b:expr) => { Arc::new(PrimitiveArray::<$T>::new(ScalarBuffer::from(vec![$a, $a, $b, $a]), nb()).with_data_type(dt.clone())) as ArrayRef }; }
    match dt {
        Null => Arc::new(NullArray::new(4)),
        Boolean => Arc::new(BooleanArray::new(BooleanBuffer::from(vec![false, false, true, false]), nb())),
        Int8 => p!(Int8Type, 0, 1), Int16 => p!(Int16Type, 0, 1), Int32 => p!(Int32Type, 0, 1), Int64 => p!(Int64Type, 0, 1),
        UInt8 => p!(UInt8Type, 0, 1), UInt16 => p!(UInt16Type, 0, 1), UInt32 => p!(UInt32Type, 0, 1), UInt64 => p!(UInt64Type, 0, 1),
        Float16 => p!(Float16Type, half::f16::from_f32(0.0), half::f16::from_f32(1.0)),
        Float32 => p!(Float32Type, 0.0, 1.0), Float64 => p!(Float64Type, 0.0, 1.0),
        Decimal32(_, _) => p!(Decimal32Type, 0, 1), Decimal64(_, _) => p!(Decimal64Type, 0, 1), Decimal128(_, _) => p!(Decimal128Type, 0, 1),
        Decimal256(_, _) => p!(Decimal256Type, i256::ZERO, i256::ONE),
        Date32 => p!(Date32Type, 0, 1), Date64 => p!(Date64Type, 0, 86400000),
        Time32(TimeUnit::Second) => p!(Time32SecondType, 0, 1), Time32(_) => p!(Time32MillisecondType, 0, 1),
        Time64(TimeUnit::Microsecond) => p!(Time64MicrosecondType, 0, 1), Time64(_) => p!(Time64NanosecondType, 0, 1),
        Timestamp(TimeUnit::Second, _) => p!(TimestampSecondType, 0, 1), Timestamp(TimeUnit::Millisecond, _) => p!(TimestampMillisecondType, 0, 1),
        Timestamp(TimeUnit::Microsecond, _) => p!(TimestampMicrosecondType, 0, 1), Timestamp(TimeUnit::Nanosecond, _) => p!(TimestampNanosecondType, 0, 1),
        Duration(TimeUnit::Second) => p!(DurationSecondType, 0, 1), Duration(TimeUnit::Millisecond) => p!(DurationMillisecondType, 0, 1),
        Duration(TimeUnit::Microsecond) => p!(DurationMicrosecondType, 0, 1), Duration(TimeUnit::Nanosecond) => p!(DurationNanosecondType, 0, 1),
        Interval(IntervalUnit::YearMonth) => p!(IntervalYearMonthType, 0, 1),
        Interval(IntervalUnit::DayTime) => p!(IntervalDayTimeType, arrow_buffer::IntervalDayTime::new(0, 0), arrow_buffer::IntervalDayTime::new(0, 1)),
        Interval(IntervalUnit::MonthDayNano) => p!(IntervalMonthDayNanoType, arrow_buffer::IntervalMonthDayNano::new(0, 0, 0), arrow_buffer::IntervalMonthDayNano::new(0, 0, 1)),
        Utf8 => Arc::new(StringArray::from(vec![Some("0"), None, Some("1"), Some("0")])),
        LargeUtf8 => Arc::new(LargeStringArray::from(vec![Some("0"), None, Some("1"), Some("0")])),
        Utf8View => Arc::new(StringViewArray::from(vec![Some("0"), None, Some("1"), Some("0")])),
        Binary => Arc::new(BinaryArray::from(vec![Some(b"0".as_ref()), None, Some(b"1".as_ref()), Some(b"0".as_ref())])),
        LargeBinary => Arc::new(LargeBinaryArray::from(vec![Some(b"0".as_ref()), None, Some(b"1".as_ref()), Some(b"0".as_ref())])),
        BinaryView => Arc::new(BinaryViewArray::from(vec![Some(b"0".as_ref()), None, Some(b"1".as_ref()), Some(b"0".as_ref())])),
        FixedSizeBinary(n) => {
            let it = vec![Some(vec![b'0'; *n as usize]), None, Some(vec![b'1'; *n as usize]), Some(vec![b'0'; *n as usize])];
            Arc::new(FixedSizeBinaryArray::try_from_sparse_iter_with_size(it.into_iter(), *n).expect("fsb"))
        }
        _ => new_null_array(dt, 4),
    }
}
fn sample(w: i64, leaf: &DataType, shape: i64) -> ArrayRef {
    let dt = wrap_dt(w, leaf);
    match shape { 0 => return new_empty_array(&dt), 1 => return new_null_array(&dt, 3), _ => {} }
    let vals = sample_leaf(leaf, 2);
    match w {
        1 => Arc::new(DictionaryArray::<Int32Type>::try_new(Int32Array::from(vec![Some(0), None, Some(2), Some(3), Some(0)]), vals).expect("dict")),
        6 => Arc::new(DictionaryArray::<UInt8Type>::try_new(UInt8Array::from(vec![Some(0), None, Some(2), Some(3), Some(0)]), vals).expect("dict")),
        2 => Arc::new(ListArray::try_new(Arc::new(Field::new_list_field(leaf.clone(), true)), OffsetBuffer::from_lengths([1, 0, 2, 1]), vals, Some(NullBuffer::from(vec![true, false, true, true]))).expect("list")),
        4 => Arc::new(LargeListArray::try_new(Arc::new(Field::new_list_field(leaf.clone(), true)), OffsetBuffer::from_lengths([1, 0, 2, 1]), vals, Some(NullBuffer::from(vec![true, false, true, true]))).expect("list")),
        7 => Arc::new(ListViewArray::try_new(Arc::new(Field::new_list_field(leaf.clone(), true)), ScalarBuffer::from(vec![0i32, 0, 1, 3]), ScalarBuffer::from(vec![1i32, 0, 2, 1]), vals, Some(NullBuffer::from(vec![true, false, true, true]))).expect("listview")),
        5 => Arc::new(FixedSizeListArray::try_new(Arc::new(Field::new_list_field(leaf.clone(), true)), 1, vals, Some(NullBuffer::from(vec![true, true, false, true]))).expect("fsl")),
        3 => Arc::new(RunArray::<Int32Type>::try_new(&Int32Array::from(vec![2, 3, 5, 6]), vals.as_ref()).expect("ree")),
        _ => vals,
    }
}

/// c13.cancast: [wa, ia] [wb, ib] [shape] [safe]: 1 when the pair is consistent:
///   can_cast_types(a,b) = false (nothing claimed), or the cast of the sample array does not fail as
///   unsupported; an empty or all-null input, and any input in safe mode, must not fail at all
///   (there is no value that could be unrepresentable / failures become nulls).
/// Output [1] | [0, reason] (1 unsupported-style error, 2 other error without a possible value cause,
/// 3 wrong result type, 4 wrong length, 5 invalid array, 6 panic)
fn run_cancast(a: &Args) -> Args {
    let grid = leaf_grid();
    let (wa, ia) = (to_i64(&vec![a[0][0].clone()]), to_i64(&vec![a[0][1].clone()]) as usize);
    let (wb, ib) = (to_i64(&vec![a[1][0].clone()]), to_i64(&vec![a[1][1].clone()]) as usize);
    let shape = to_i64(&a[2]);
    let safe = to_i64(&a[3]) != 0;
    let from = wrap_dt(wa, &grid[ia]);
    let to = wrap_dt(wb, &grid[ib]);
    if !can_cast_types(&from, &to) { return skip(); }
    let arr = sample(wa, &grid[ia], shape);
    let res = std::panic::catch_unwind(std::panic::AssertUnwindSafe(|| cast_with_options(&arr, &to, &opts(safe))));
    match res {
        Err(_) => vec![gs(&[0i64, 6])],
        Ok(Err(e)) => {
            if unsupported_style(&e) { vec![gs(&[0i64, 1])] }
            else if shape < 2 || safe { vec![gs(&[0i64, 2])] }
            else { vec![g(1)] }
        }
        Ok(Ok(r)) => {
            if r.data_type() != &to { vec![gs(&[0i64, 3])] }
            else if r.len() != arr.len() { vec![gs(&[0i64, 4])] }
            else if r.to_data().validate_full().is_err() { vec![gs(&[0i64, 5])] }
            else { vec![g(1)] }
        }
    }
}

// ------------------------------------------------------------------ (e) DataType Display -> FromStr
fn rand_type(r: &mut Rng, depth: u32) -> DataType {
    use DataType::*;
    let leafs = leaf_grid();
    if depth == 0 || r.chance(2, 5) {
        return match r.below(8) {
            0 => { let p = r.range(1, 38); Decimal128(p as u8, r.range(-5, p) as i8) }
            1 => { let p = r.range(1, 76); Decimal256(p as u8, r.range(-5, p) as i8) }
            2 => FixedSizeBinary(r.range(0, 40) as i32),
            3 => Timestamp(unit(r.below(4) as u8), Some(["UTC", "+00:00", "-08:00", "America/New_York", "Europe/Paris"][r.below(5)].into())),
            4 => { let p = r.range(1, 9); Decimal32(p as u8, r.range(-3, p) as i8) }
            5 => { let p = r.range(1, 18); Decimal64(p as u8, r.range(-3, p) as i8) }
            _ => leafs[r.below(leafs.len())].clone(),
        };
    }
    let nullable = r.chance(3, 4);
    let item = |r: &mut Rng, t: DataType, nullable: bool| -> Arc<Field> {
        if r.chance(1, 5) { Arc::new(Field::new(["elem", "x", "a b"][r.below(3)], t, nullable)) } else { Arc::new(Field::new_list_field(t, nullable)) }
    };
    match r.below(11) {
        0 => { let t = rand_type(r, depth - 1); List(item(r, t, nullable)) }
        1 => { let t = rand_type(r, depth - 1); LargeList(item(r, t, nullable)) }
        2 => { let t = rand_type(r, depth - 1); ListView(item(r, t, nullable)) }
        3 => { let t = rand_type(r, depth - 1); LargeListView(item(r, t, nullable)) }
        4 => { let t = rand_type(r, depth - 1); let n = r.range(0, 5) as i32; FixedSizeList(item(r, t, nullable), n) }
        5 => {
            let k = r.below(4);
            let fs: Vec<Field> = (0..k).map(|i| { let t = rand_type(r, depth - 1); Field::new(format!("f{i}"), t, r.bool()) }).collect();
            Struct(Fields::from(fs))
        }
        6 => {
            let keys = [Int8, Int16, Int32, Int64, UInt8, UInt16, UInt32, UInt64];
            let k = keys[r.below(8)].clone();
            Dictionary(Box::new(k), Box::new(rand_type(r, depth - 1)))
        }
        7 => {
            let re = [Int16, Int32, Int64][r.below(3)].clone();
            let t = rand_type(r, depth - 1);
            RunEndEncoded(Arc::new(Field::new("run_ends", re, false)), Arc::new(Field::new("values", t, true)))
        }
        8 => {
            let kt = [Utf8, Int32, LargeUtf8][r.below(3)].clone();
            let vt = rand_type(r, depth - 1);
            let entries = Field::new("entries", Struct(Fields::from(vec![Field::new("key", kt, false), Field::new("value", vt, true)])), false);
            Map(Arc::new(entries), r.bool())
        }
        9 => {
            let k = r.below(3) + 1;
            let fs: Vec<(i8, Arc<Field>)> = (0..k).map(|i| { let t = rand_type(r, depth - 1); ((i * 3) as i8, Arc::new(Field::new(format!("u{i}"), t, true))) }).collect();
            Union(UnionFields::from_iter(fs), if r.bool() { UnionMode::Dense } else { UnionMode::Sparse })
        }
        _ => rand_type(r, depth - 1),
    }
}
/// c13.dtype_rt: [seed] [depth]: the random type of that seed; 1 iff Display -> parse gives the same type
fn run_dtype_rt(a: &Args) -> Args {
    let seed = a[0][0].to_u64().expect("seed");
    let depth = to_i64(&a[1]) as u32;
    let mut r = Rng::new(seed);
    let t = rand_type(&mut r, depth);
    let s = t.to_string();
    match s.parse::<DataType>() {
        Ok(t2) if t2 == t => vec![g(1)],
        Ok(_) => vec![g(0), gbytes(s.as_bytes())],
        Err(_) => vec![g(-1), gbytes(s.as_bytes())],
    }
}

// ------------------------------------------------------------------ interval casts
/// c13.ivcast: [kind, unit] [safe] [validity] [g1] [g2] [g3] [prefix, force_null_buffer]
///   kind 0 Interval(MonthDayNano) -> Duration(unit): g1 g2 g3 = months days nanos -> [validity] [values]
///   kind 1 Duration(unit) -> Interval(MonthDayNano): g1 = values            -> [validity] [months] [days] [nanos]
///   kind 2 Interval(YearMonth) -> Interval(MonthDayNano): g1 = months        -> same
///   kind 3 Interval(DayTime) -> Interval(MonthDayNano): g1 g2 = days millis  -> same
///   kind 4 Int32 -> Interval(YearMonth): g1 = values                         -> [validity] [values]
/// The column is embedded behind `prefix` extra slots (copies of its own slots, alternating validity) and sliced out.
fn run_ivcast(a: &Args) -> Args {
    use arrow_buffer::{IntervalDayTime, IntervalMonthDayNano};
    let ku = to_i64s(&a[0]);
    let (kind, u) = (ku[0], ku[1] as u8);
    let safe = to_i64(&a[1]) != 0;
    let valid0 = to_bools(&a[2]);
    let n = valid0.len();
    let lay: Vec<i64> = a.get(6).map(to_i64s).unwrap_or_default();
    let pre = lay.first().copied().unwrap_or(0) as usize;
    let force = lay.get(1).copied().unwrap_or(0) != 0;
    // index map of the physical array: prefix slots reuse the column's slots
    let idx: Vec<usize> = (0..pre).map(|i| if n == 0 { 0 } else { i % n }).chain(0..n).collect();
    let valid: Vec<bool> = (0..pre).map(|i| n != 0 && i % 2 == 0).chain(valid0.iter().cloned()).collect();
    let gi = |g: usize, i: usize| -> i64 { if n == 0 { 0 } else { i64::try_from(&a[g][i]).expect("i64") } };
    let nb = nulls_of(&valid, force);
    let arr: ArrayRef = match kind {
        0 => Arc::new(PrimitiveArray::<IntervalMonthDayNanoType>::new(
            ScalarBuffer::from(idx.iter().map(|&i| IntervalMonthDayNano::new(gi(3, i) as i32, gi(4, i) as i32, gi(5, i))).collect::<Vec<_>>()), nb)),
        1 => {
            let vals: Vec<i64> = idx.iter().map(|&i| gi(3, i)).collect();
            let dt = DataType::Duration(unit(u));
            match u {
                0 => Arc::new(PrimitiveArray::<DurationSecondType>::new(ScalarBuffer::from(vals), nb).with_data_type(dt)) as ArrayRef,
                1 => Arc::new(PrimitiveArray::<DurationMillisecondType>::new(ScalarBuffer::from(vals), nb).with_data_type(dt)),
                2 => Arc::new(PrimitiveArray::<DurationMicrosecondType>::new(ScalarBuffer::from(vals), nb).with_data_type(dt)),
                _ => Arc::new(PrimitiveArray::<DurationNanosecondType>::new(ScalarBuffer::from(vals), nb).with_data_type(dt)),
            }
        }
        2 => Arc::new(PrimitiveArray::<IntervalYearMonthType>::new(ScalarBuffer::from(idx.iter().map(|&i| gi(3, i) as i32).collect::<Vec<_>>()), nb)),
        3 => Arc::new(PrimitiveArray::<IntervalDayTimeType>::new(
            ScalarBuffer::from(idx.iter().map(|&i| IntervalDayTime::new(gi(3, i) as i32, gi(4, i) as i32)).collect::<Vec<_>>()), nb)),
        _ => Arc::new(PrimitiveArray::<Int32Type>::new(ScalarBuffer::from(idx.iter().map(|&i| gi(3, i) as i32).collect::<Vec<_>>()), nb)),
    };
    let arr = if pre > 0 { arr.slice(pre, n) } else { arr };
    let want = match kind {
        0 => DataType::Duration(unit(u)),
        4 => DataType::Interval(IntervalUnit::YearMonth),
        _ => DataType::Interval(IntervalUnit::MonthDayNano),
    };
    let r = match cast_with_options(&arr, &want, &opts(safe)) { Ok(r) => r, Err(e) => return err_kind(&e) };
    if r.data_type() != &want { return vec![gs(&[-2i64, 1])]; }
    if r.len() != n { return vec![gs(&[-2i64, 2])]; }
    if r.to_data().validate_full().is_err() { return vec![gs(&[-2i64, 3])]; }
    let v: Vec<bool> = (0..n).map(|i| r.is_valid(i)).collect();
    match kind {
        0 => out_col(&r, &want, n),
        4 => {
            let p = r.as_any().downcast_ref::<PrimitiveArray<IntervalYearMonthType>>().expect("ym");
            vec![gbools(v.clone()), (0..n).map(|i| if v[i] { BigInt::from(p.value(i)) } else { BigInt::zero() }).collect()]
        }
        _ => {
            let p = r.as_any().downcast_ref::<PrimitiveArray<IntervalMonthDayNanoType>>().expect("mdn");
            let f = |sel: fn(&IntervalMonthDayNano) -> i64| -> Group { (0..n).map(|i| if v[i] { BigInt::from(sel(&p.value(i))) } else { BigInt::zero() }).collect() };
            vec![gbools(v.clone()), f(|x| x.months as i64), f(|x| x.days as i64), f(|x| x.nanoseconds)]
        }
    }
}

// ------------------------------------------------------------------ interval / duration text
/// one-column array for the text ops. kind 0 Interval(MonthDayNano) (a b c = months days nanos), 1 Interval(DayTime)
/// (a b = days millis), 2 Interval(YearMonth) (a = months), 3 Duration(unit c) (a = value)
fn iv_array(kind: i64, valid: &[bool], a: &Group, b: &Group, c: &Group) -> ArrayRef {
    use arrow_buffer::{IntervalDayTime, IntervalMonthDayNano};
    let n = valid.len();
    let at = |g: &Group, i: usize| -> i64 { i64::try_from(&g[i]).expect("i64") };
    let nb = nulls_of(valid, false);
    match kind {
        0 => Arc::new(PrimitiveArray::<IntervalMonthDayNanoType>::new(ScalarBuffer::from((0..n).map(|i| IntervalMonthDayNano::new(at(a, i) as i32, at(b, i) as i32, at(c, i))).collect::<Vec<_>>()), nb)),
        1 => Arc::new(PrimitiveArray::<IntervalDayTimeType>::new(ScalarBuffer::from((0..n).map(|i| IntervalDayTime::new(at(a, i) as i32, at(b, i) as i32)).collect::<Vec<_>>()), nb)),
        2 => Arc::new(PrimitiveArray::<IntervalYearMonthType>::new(ScalarBuffer::from((0..n).map(|i| at(a, i) as i32).collect::<Vec<_>>()), nb)),
        _ => {
            let u = at(c, 0) as u8;
            let vals: Vec<i64> = (0..n).map(|i| at(a, i)).collect();
            let dt = DataType::Duration(unit(u));
            match u {
                0 => Arc::new(PrimitiveArray::<DurationSecondType>::new(ScalarBuffer::from(vals), nb).with_data_type(dt)) as ArrayRef,
                1 => Arc::new(PrimitiveArray::<DurationMillisecondType>::new(ScalarBuffer::from(vals), nb).with_data_type(dt)),
                2 => Arc::new(PrimitiveArray::<DurationMicrosecondType>::new(ScalarBuffer::from(vals), nb).with_data_type(dt)),
                _ => Arc::new(PrimitiveArray::<DurationNanosecondType>::new(ScalarBuffer::from(vals), nb).with_data_type(dt)),
            }
        }
    }
}
/// c13.ivfmt: [kind, strkind] [a] [b] [c] (one value) -> bytes of cast(.. -> string type); durations use DurationFormat::Pretty
fn run_ivfmt(a: &Args) -> Args {
    let ks = to_i64s(&a[0]);
    let (kind, strkind) = (ks[0], ks[1]);
    let arr = iv_array(kind, &[true], &a[1], &a[2], &a[3]);
    let o = CastOptions { safe: false, format_options: FormatOptions::default().with_duration_format(arrow_cast::display::DurationFormat::Pretty) };
    match cast_with_options(&arr, &str_dt(strkind), &o) {
        Err(e) => err_kind(&e),
        Ok(r) => match str_get(&r, 0) { Some(s) => vec![gbytes(s.as_bytes())], None => vec![gs(&[-2i64, 5])] },
    }
}
/// c13.ivtext_rt: [kind, strkind] [validity] [a] [b] [c]: interval -> string -> interval (strict); the column that comes back
fn run_ivtext_rt(a: &Args) -> Args {
    use arrow_buffer::{IntervalDayTime, IntervalMonthDayNano};
    let ks = to_i64s(&a[0]);
    let (kind, strkind) = (ks[0], ks[1]);
    let valid = to_bools(&a[1]);
    let n = valid.len();
    let arr = iv_array(kind, &valid, &a[2], &a[3], &a[4]);
    let s = match cast_with_options(&arr, &str_dt(strkind), &opts(false)) { Ok(s) => s, Err(e) => return err_kind(&e) };
    if s.null_count() != arr.null_count() { return vec![gs(&[-2i64, 6])]; }
    let back = match cast_with_options(&s, arr.data_type(), &opts(false)) { Ok(b) => b, Err(e) => return err_kind(&e) };
    if back.len() != n || back.data_type() != arr.data_type() { return vec![gs(&[-2i64, 2])]; }
    let v: Vec<bool> = (0..n).map(|i| back.is_valid(i)).collect();
    let col = |f: &dyn Fn(usize) -> i64| -> Group { (0..n).map(|i| if v[i] { BigInt::from(f(i)) } else { BigInt::zero() }).collect() };
    match kind {
        0 => { let p = back.as_any().downcast_ref::<PrimitiveArray<IntervalMonthDayNanoType>>().expect("mdn"); let x = |i: usize| -> IntervalMonthDayNano { p.value(i) };
               vec![gbools(v.clone()), col(&|i| x(i).months as i64), col(&|i| x(i).days as i64), col(&|i| x(i).nanoseconds)] }
        1 => { let p = back.as_any().downcast_ref::<PrimitiveArray<IntervalDayTimeType>>().expect("dt"); let x = |i: usize| -> IntervalDayTime { p.value(i) };
               vec![gbools(v.clone()), col(&|i| x(i).days as i64), col(&|i| x(i).milliseconds as i64)] }
        _ => { let p = back.as_any().downcast_ref::<PrimitiveArray<IntervalYearMonthType>>().expect("ym");
               vec![gbools(v.clone()), col(&|i| p.value(i) as i64)] }
    }
}

// ------------------------------------------------------------------ List / LargeList -> FixedSizeList(n)
/// c13.list2fsl: [large, n, safe, inner_to] [offsets of the full list array] [list validity] [child validity]
/// [child values] [row_off, row_len, child_pad]. The child Int32 array is itself a slice (child_pad hidden slots in front),
/// the list array is built on it and then sliced to rows row_off .. row_off + row_len (first offset > 0).
/// inner_to 0: FixedSizeList<Int32>, 1: FixedSizeList<Int64> (inner cast). Output [row validity] [inner validity] [inner values].
fn run_list2fsl(a: &Args) -> Args {
    let h = to_i64s(&a[0]);
    let (large, n, safe, inner_to) = (h[0] != 0, h[1] as i32, h[2] != 0, h[3]);
    let offs = to_i64s(&a[1]);
    let lvalid = to_bools(&a[2]);
    let cvalid = to_bools(&a[3]);
    let cvals = to_i64s(&a[4]);
    let lay = to_i64s(&a[5]);
    let (ro, rl, cpad) = (lay[0] as usize, lay[1] as usize, lay[2] as usize);
    let mut cv: Vec<Option<i32>> = (0..cpad).map(|i| if i % 2 == 0 { Some(-7 - i as i32) } else { None }).collect();
    cv.extend(cvalid.iter().zip(cvals.iter()).map(|(b, v)| if *b { Some(*v as i32) } else { None }));
    let child: ArrayRef = Arc::new(Int32Array::from(cv).slice(cpad, cvalid.len()));
    let field = Arc::new(Field::new_list_field(DataType::Int32, true));
    let nulls = if lvalid.iter().all(|b| *b) && ro % 2 == 0 { None } else { Some(NullBuffer::from(lvalid.clone())) };
    let list: ArrayRef = if large {
        match LargeListArray::try_new(field, OffsetBuffer::new(ScalarBuffer::from(offs.clone())), child, nulls) { Ok(l) => Arc::new(l), Err(_) => return skip() }
    } else {
        match ListArray::try_new(field, OffsetBuffer::new(ScalarBuffer::from(offs.iter().map(|x| *x as i32).collect::<Vec<_>>())), child, nulls) { Ok(l) => Arc::new(l), Err(_) => return skip() }
    };
    let list = list.slice(ro, rl);
    let inner = if inner_to == 0 { DataType::Int32 } else { DataType::Int64 };
    let want = DataType::FixedSizeList(Arc::new(Field::new_list_field(inner, true)), n);
    let r = match cast_with_options(&list, &want, &opts(safe)) { Ok(r) => r, Err(e) => return err_kind(&e) };
    if r.data_type() != &want { return vec![gs(&[-2i64, 1])]; }
    if r.len() != rl { return vec![gs(&[-2i64, 2])]; }
    if r.to_data().validate_full().is_err() { return vec![gs(&[-2i64, 3])]; }
    let f = r.as_any().downcast_ref::<FixedSizeListArray>().expect("fsl");
    let mut rv = Vec::new(); let mut iv: Vec<i64> = Vec::new(); let mut ivals: Vec<i64> = Vec::new();
    for i in 0..rl {
        rv.push(f.is_valid(i));
        let row = f.value(i);
        if row.len() != n as usize { return vec![gs(&[-2i64, 4])]; }
        for j in 0..n as usize {
            if !f.is_valid(i) || row.is_null(j) { iv.push(0); ivals.push(0); continue; }
            iv.push(1);
            ivals.push(if inner_to == 0 { row.as_any().downcast_ref::<Int32Array>().expect("i32").value(j) as i64 } else { row.as_any().downcast_ref::<Int64Array>().expect("i64").value(j) });
        }
    }
    vec![gbools(rv), gs(&iv), gs(&ivals)]
}

// ------------------------------------------------------------------ Dictionary<K, bytes> -> string / binary / view
fn bytes_dt(t: i64) -> DataType {
    match t { 0 => DataType::Binary, 1 => DataType::LargeBinary, 2 => DataType::Utf8, _ => DataType::LargeUtf8 }
}
fn bytes_target(t: i64) -> DataType {
    match t { 0 => DataType::Utf8, 1 => DataType::LargeUtf8, 2 => DataType::Utf8View, 3 => DataType::Binary, 4 => DataType::LargeBinary, _ => DataType::BinaryView }
}
fn dict_key_dt(k: i64) -> DataType { match k { 0 => DataType::Int32, 1 => DataType::UInt8, 2 => DataType::Int8, _ => DataType::Int64 } }
/// c13.dictbytes: [key kind, value type, target, safe, key prefix] [key validity] [keys] [value validity] [value lengths]
/// [value bytes]: a DictionaryArray whose VALUES may hold nulls (with bytes underneath), unused entries and invalid UTF-8,
/// cast to a string / binary / view type. Output [row validity] [row lengths] [bytes of the valid rows].
fn run_dictbytes(a: &Args) -> Args {
    let h = to_i64s(&a[0]);
    let (kk, vt, tg, safe, pre) = (h[0], h[1], h[2], h[3] != 0, h[4] as usize);
    let kvalid0 = to_bools(&a[1]);
    let keys0 = to_i64s(&a[2]);
    let vvalid = to_bools(&a[3]);
    let lens = to_i64s(&a[4]);
    let bytes = to_u8s(&a[5]);
    let n = kvalid0.len();
    // values
    let mut offs: Vec<i64> = vec![0]; for l in &lens { offs.push(offs.last().unwrap() + l); }
    let vn = if vvalid.iter().all(|b| *b) { None } else { Some(NullBuffer::from(vvalid.clone())) };
    let buf = arrow_buffer::Buffer::from_vec(bytes);
    let o32 = || OffsetBuffer::new(ScalarBuffer::from(offs.iter().map(|x| *x as i32).collect::<Vec<_>>()));
    let o64 = || OffsetBuffer::new(ScalarBuffer::from(offs.clone()));
    let values: ArrayRef = match vt {
        0 => match BinaryArray::try_new(o32(), buf, vn) { Ok(x) => Arc::new(x), Err(_) => return skip() },
        1 => match LargeBinaryArray::try_new(o64(), buf, vn) { Ok(x) => Arc::new(x), Err(_) => return skip() },
        2 => match StringArray::try_new(o32(), buf, vn) { Ok(x) => Arc::new(x), Err(_) => return skip() },
        _ => match LargeStringArray::try_new(o64(), buf, vn) { Ok(x) => Arc::new(x), Err(_) => return skip() },
    };
    // keys behind `pre` extra slots, sliced out afterwards
    let idx: Vec<usize> = (0..pre).map(|i| if n == 0 { 0 } else { i % n }).chain(0..n).collect();
    let kvalid: Vec<bool> = (0..pre).map(|i| n != 0 && i % 2 == 0).chain(kvalid0.iter().cloned()).collect();
    let kv = |i: usize| -> i64 { if n == 0 { 0 } else { keys0[i] } };
    let knb = nulls_of(&kvalid, false);
    macro_rules! dict { ($K:ty, $n:ty) => {{
        let keys = PrimitiveArray::<$K>::new(ScalarBuffer::from(idx.iter().map(|&i| kv(i) as $n).collect::<Vec<$n>>()), knb);
        match DictionaryArray::<$K>::try_new(keys, values) { Ok(d) => Arc::new(d) as ArrayRef, Err(_) => return skip() }
    }}; }
    let dict: ArrayRef = match kk { 0 => dict!(Int32Type, i32), 1 => dict!(UInt8Type, u8), 2 => dict!(Int8Type, i8), _ => dict!(Int64Type, i64) };
    let dict = if pre > 0 { dict.slice(pre, n) } else { dict };
    let want = bytes_target(tg);
    let r = match cast_with_options(&dict, &want, &opts(safe)) { Ok(r) => r, Err(e) => return err_kind(&e) };
    if r.data_type() != &want { return vec![gs(&[-2i64, 1])]; }
    if r.len() != n { return vec![gs(&[-2i64, 2])]; }
    if r.to_data().validate_full().is_err() { return vec![gs(&[-2i64, 3])]; }
    let get = |i: usize| -> Vec<u8> {
        match tg {
            0 => r.as_any().downcast_ref::<StringArray>().unwrap().value(i).as_bytes().to_vec(),
            1 => r.as_any().downcast_ref::<LargeStringArray>().unwrap().value(i).as_bytes().to_vec(),
            2 => r.as_any().downcast_ref::<StringViewArray>().unwrap().value(i).as_bytes().to_vec(),
            3 => r.as_any().downcast_ref::<BinaryArray>().unwrap().value(i).to_vec(),
            4 => r.as_any().downcast_ref::<LargeBinaryArray>().unwrap().value(i).to_vec(),
            _ => r.as_any().downcast_ref::<BinaryViewArray>().unwrap().value(i).to_vec(),
        }
    };
    let mut rv = Vec::new(); let mut rl: Vec<i64> = Vec::new(); let mut out: Vec<u8> = Vec::new();
    for i in 0..n { if r.is_valid(i) { let b = get(i); rv.push(true); rl.push(b.len() as i64); out.extend(b); } else { rv.push(false); rl.push(0); } }
    vec![gbools(rv), gs(&rl), gbytes(&out)]
}

pub fn run(op: &str, a: &Args) -> Option<Args> {
    Some(match op {
        "c13.cast" | "c13.cast_m" => run_cast(a),
        "c13.inverse" => run_inverse(a),
        "c13.fmt" => run_fmt(a),
        "c13.parse" => run_parse(a),
        "c13.parse_decimal" => run_parse_decimal(a),
        "c13.text_rt" => run_text_rt(a),
        "c13.float_rt" => run_float_rt(a),
        "c13.cancast" => run_cancast(a),
        "c13.dtype_rt" => run_dtype_rt(a),
        "c13.ivcast" => run_ivcast(a),
        "c13.ivfmt" => run_ivfmt(a),
        "c13.list2fsl" => run_list2fsl(a),
        "c13.dictbytes" => run_dictbytes(a),
        "c13.ivtext_rt" => run_ivtext_rt(a),
        _ => return None,
    })
}

// ------------------------------------------------------------------ generators
fn pow10(k: u32) -> BigInt { num_traits::pow(BigInt::from(10), k as usize) }
fn pow2(k: u32) -> BigInt { BigInt::one() << k }

/// mirror of coq kernel_of <> KNone (the driver reports [-3] if the two ever disagree)
fn modelled(a: &MT, b: &MT) -> bool {
    use MT::*;
    if a == b { return true; }
    let i32t = |t: &MT| matches!(t, Int { bits: 32, signed: true });
    let i64t = |t: &MT| matches!(t, Int { bits: 64, signed: true });
    match (a, b) {
        (Dec { p: p1, s: s1, .. }, Dec { s: s2, .. }) => {
            // KNOWN-FINDING candidate: delta_scale / precision arithmetic is done in i8 (decimal.rs make_upscaler /
            // make_downscaler): |s2 - s1| > 127 or p1 + (s2 - s1) > 127 overflows (panic in a checked build,
            // wrong fast-path decision in release). Such pairs are excluded.
            let d = *s2 as i64 - *s1 as i64;
            d.abs() <= 127 && *p1 as i64 + d <= 127
        }
        (Int { .. }, Int { .. }) | (Int { .. }, Bool) | (Bool, Int { .. }) | (Int { .. }, Dec { .. }) | (Dec { .. }, Int { .. }) => true,
        (Int { .. }, Ts(..) | Dur(_)) | (Ts(..) | Dur(_), Int { .. } | Dec { .. }) | (Dec { .. }, Ts(..) | Dur(_)) => true,
        (_, Date32 | Date64) if i32t(a) || i64t(a) => true,
        (_, Time32(_)) if i32t(a) => true,
        (_, Time64(_)) if i64t(a) => true,
        (Date32 | Date64 | Time32(_), _) if i32t(b) || i64t(b) => true,
        (Time64(_), _) if i64t(b) => true,
        (Date32, Date64) | (Date64, Date32) => true,
        (Time32(_) | Time64(_), Time32(_) | Time64(_)) => true,
        (Ts(..), Ts(..)) | (Dur(_), Dur(_)) => true,
        (Ts(..), Date32 | Date64 | Time32(_) | Time64(_)) => true,
        (Date32 | Date64, Ts(..)) => true,
        _ => false,
    }
}
fn unit_mult(u: u8) -> i64 { [1, 1_000, 1_000_000, 1_000_000_000][u as usize] }
const TS_SAFE_SECONDS: i64 = 100_000_000_000;
fn floor_div(a: &BigInt, b: i64) -> BigInt {
    let b = BigInt::from(b); let q = a / &b; let rm = a - &q * &b;
    if !rm.is_zero() && (rm.is_negative() != b.is_negative()) { q - 1 } else { q }
}

/// mirror of coq value_ok: the preconditions under which the specification speaks about a VALID value
fn value_ok(a: &MT, b: &MT, v: &BigInt) -> bool {
    use MT::*;
    let safe_secs = |u: u8| floor_div(v, unit_mult(u)).abs() <= BigInt::from(TS_SAFE_SECONDS);
    match *a {
        Dec { p, .. } => v.abs() < pow10(p as u32),
        Time32(u) | Time64(u) => !v.is_negative() && *v < BigInt::from(86400i64 * unit_mult(u)),
        Ts(u, z) => match *b {
            Date32 | Time32(_) | Time64(_) => safe_secs(u),
            Ts(_, z2) => if z == 0 && z2 != 0 { safe_secs(u) } else { true },
            _ => true,
        },
        Date32 => if matches!(b, Ts(_, 1)) { (v * 86400i64).abs() <= BigInt::from(TS_SAFE_SECONDS) } else { true },
        Date64 => if matches!(b, Ts(_, 1)) { floor_div(v, 1000).abs() <= BigInt::from(TS_SAFE_SECONDS) } else { true },
        _ => true,
    }
}
/// which raw values may sit in ANY slot (also under a null) without leaving the modelled behaviour
fn raw_ok(a: &MT, b: &MT, v: &BigInt) -> bool {
    use MT::*;
    match (*a, *b) {
        // KNOWN-FINDING candidate: Date64 -> Timestamp(us|ns) multiplies with an unchecked `x * 1000` / `x * 1_000_000`
        // inside `unary` (mod.rs, arms (Date64, Timestamp(Microsecond|Nanosecond, _))): overflow panics in a checked
        // build and silently wraps in release, while Date32 -> Timestamp(us|ns) uses checked_mul. Values whose
        // product overflows i64 are excluded.
        (Date64, Ts(u, _)) if u >= 2 => (v * (unit_mult(u) / 1000)).abs() < pow2(63),
        // unchecked x * 1000 in Time64(us) -> Time64(ns): only reachable with times outside a day (precondition)
        (Time64(2), Time64(3)) => (v * 1000i64).abs() < pow2(63),
        // KNOWN-FINDING candidate: the "infallible" decimal fast path runs `unary(|x| f(x).unwrap())` over every slot,
        // null slots included: a raw value under a null that does not fit the output native type panics.
        (Dec { p: p1, .. }, Dec { .. }) if dec_infallible(a, b) => v.abs() < pow10(p1 as u32),
        // (F37, FIXED in /repo 9a87bc3: <i256 as ToPrimitive>::to_i64 checked the i256 high word twice instead of the upper
        // half of the low word, so Decimal256 -> integer truncated values in [2^63, 2^127) to their low 64 bits. The
        // exclusion is gone: those values are generated and must be rejected — strict Err, safe null.)
        // KNOWN-FINDING candidate: decimal with a NEGATIVE scale -> integer multiplies by 10^-s in the decimal's own
        // native type (cast_decimal_to_integer: array.value(i).mul_checked(div)): Decimal32(3,-8) value -999 stands
        // for -99_900_000_000, which fits Int64, but the i32 product overflows -> error / null. Excluded: values
        // whose scaled value leaves the decimal's native width.
        (Dec { .. }, Int { .. } | Ts(..) | Dur(_)) => dec_negscale_int_ok(a, v),
        _ => true,
    }
}
/// for the inverse casts: the instant a date / timestamp value denotes lies within the modelled calendar range
fn instant_safe(a: &MT, v: &BigInt) -> bool {
    let secs = match *a { MT::Date32 => v * 86400i64, MT::Date64 => floor_div(v, 1000), MT::Ts(u, _) => floor_div(v, unit_mult(u)), _ => return true };
    secs.abs() <= BigInt::from(TS_SAFE_SECONDS)
}
fn dec_negscale_int_ok(a: &MT, v: &BigInt) -> bool {
    if let MT::Dec { bits, s, .. } = *a {
        if s < 0 { return (v * pow10((-(s as i32)) as u32)).abs() < pow2(bits - 1); }
    }
    true
}
fn dec_maxp(bits: u32) -> i64 { match bits { 32 => 9, 64 => 18, 128 => 38, _ => 76 } }
fn dec_infallible(a: &MT, b: &MT) -> bool {
    if let (MT::Dec { bits: w1, p: p1, s: s1 }, MT::Dec { bits: w2, p: p2, s: s2 }) = (*a, *b) {
        let (p1, s1, p2, s2) = (p1 as i64, s1 as i64, p2 as i64, s2 as i64);
        if w1 == w2 && s1 == s2 && p1 <= p2 { return false; }
        if s1 <= s2 { let d = s2 - s1; d <= dec_maxp(w2) && p1 + d <= p2 } else { let d = s1 - s2; d <= dec_maxp(w1) && p1 - d < p2 }
    } else { false }
}

/// KNOWN-FINDING candidate: when a decimal is upscaled by more digits than the 10^k table of the output width holds
/// (s2 - s1 > MAX_PRECISION of the output type), convert_to_bigger_or_equal_scale_decimal returns
/// "Value overflows for output scale" for EVERY input — also for zeros, nulls and empty arrays, which are
/// representable. For such pairs only the transcribed model is compared, not the specification.
fn dec_up_beyond_table(a: &MT, b: &MT) -> bool {
    if let (MT::Dec { bits: w1, p: p1, s: s1 }, MT::Dec { bits: w2, p: p2, s: s2 }) = (*a, *b) {
        if w1 == w2 && s1 == s2 && p1 <= p2 { return false; }
        s1 <= s2 && (s2 as i64 - s1 as i64) > dec_maxp(w2)
    } else { false }
}

fn clamp_native(t: &MT, vs: Vec<BigInt>) -> Vec<BigInt> {
    let (lo, hi) = (nmin(t), nmax(t));
    let mut out: Vec<BigInt> = vs.into_iter().filter(|v| *v >= lo && *v <= hi).collect();
    out.sort(); out.dedup(); out
}
/// boundary-dense candidate values of the source type, including the pre-images of the target's boundaries
fn candidates(a: &MT, b: &MT, r: &mut Rng, thorough: bool) -> Vec<BigInt> {
    let (bits, _) = native(a);
    let mut v: Vec<BigInt> = Vec::new();
    if let MT::Bool = a { return vec![BigInt::zero(), BigInt::one()]; }
    if bits == 8 || (bits == 16 && thorough) {
        let mut x = nmin(a); let hi = nmax(a);
        while x <= hi { v.push(x.clone()); x += 1; }
        return v;
    }
    let three = |v: &mut Vec<BigInt>, c: BigInt| { v.push(&c - 1); v.push(c.clone()); v.push(&c + 1); v.push(-&c - 1); v.push(-&c); v.push(-&c + 1); };
    for k in 0..=bits.min(256) { three(&mut v, pow2(k)); }
    for k in 0..=77u32 { three(&mut v, pow10(k)); three(&mut v, pow10(k) * 5); three(&mut v, pow10(k) / 2); three(&mut v, pow10(k) * 15); three(&mut v, pow10(k) * 25 / 10); }
    for t in [a, b] { three(&mut v, nmin(t)); three(&mut v, nmax(t)); }
    // unit boundaries
    for k in [1000i64, 86_400, 86_400_000, 86_400_000_000, 86_400_000_000_000, 3600, 60] { three(&mut v, BigInt::from(k)); three(&mut v, BigInt::from(k) * 719_163); }
    for d in [-719_162i64, 2_932_896, 0, -1, 1, 18_000, -25_567] { for m in [1i64, 86_400, 86_400_000, 86_400_000_000, 86_400_000_000_000] { three(&mut v, BigInt::from(d) * m); } }
    // i64 / product boundaries for the checked multiplications
    for m in [1000i64, 1_000_000, 1_000_000_000, 86_400_000_000, 86_400_000_000_000, 86_400_000] { three(&mut v, pow2(63) / m); three(&mut v, pow2(31) / m); }
    if let (MT::Dec { s: s1, .. }, MT::Dec { p: p2, s: s2, .. }) = (*a, *b) {
        // rounding and precision boundaries of this very rescale
        let d = s1 as i64 - s2 as i64;
        if d > 0 && d <= 80 {
            let div = pow10(d as u32);
            for q in [BigInt::zero(), BigInt::one(), BigInt::from(7), pow10(p2 as u32) - 1, pow10(p2 as u32), pow10((p2 as u32).saturating_sub(1))] {
                for h in [&div / 2 - 1, &div / 2, &div / 2 + 1, BigInt::zero(), &div - 1] { let x = &q * &div + h; v.push(x.clone()); v.push(-x); }
            }
        } else if d <= 0 && -d <= 80 {
            let mul = pow10((-d) as u32);
            for q in [pow10(p2 as u32), pow10(p2 as u32) - 1, pow2(31), pow2(63), pow2(127), pow2(255)] { let x = &q / &mul; three(&mut v, x); }
        }
    }
    let n_rand = if thorough { 400 } else { 60 };
    for _ in 0..n_rand {
        let k = r.below(bits as usize + 1) as u32;
        let mut x = BigInt::zero();
        for _ in 0..(k / 64 + 1) { x = (x << 64) + BigInt::from(r.next()); }
        x %= pow2(k.max(1));
        v.push(if r.bool() { -x } else { x });
    }
    clamp_native(a, v)
}

const LENS: [usize; 14] = [0, 1, 2, 7, 8, 9, 31, 32, 33, 63, 64, 65, 100, 130];

/// Cuts `vals` into columns and emits them. kind 0: values must satisfy value_ok (M and S compared);
/// kind 1: raw columns, every native value allowed that raw_ok permits (M only).
fn emit_columns(a: &MT, b: &MT, vals: &[BigInt], spec: bool, r: &mut Rng, emit: &mut dyn FnMut(Case), tagp: &str, both_modes: bool) {
    let garbage: Vec<BigInt> = {
        let mut g = vec![nmin(a), nmax(a), BigInt::from(-1), BigInt::from(0x5A5A5A5Au32)];
        g.extend(vals.iter().take(3).cloned());
        clamp_native(a, g).into_iter().filter(|v| raw_ok(a, b, v)).collect()
    };
    let mut pos = 0usize;
    let mut col = 0usize;
    loop {
        let len = if vals.len() - pos > 200 { 128 + r.below(3) } else { LENS[(col + r.below(3)) % LENS.len()] };
        let len = len.min(vals.len() - pos);
        let chunk = &vals[pos..pos + len];
        pos += len;
        let nullmode = (col + r.below(2)) % 4; // 0 none, 1 random nulls with garbage, 2 none + forced null buffer, 3 random
        let mut valid = Vec::with_capacity(len);
        let mut raw = Vec::with_capacity(len);
        for v in chunk {
            let null = matches!(nullmode, 1 | 3) && r.chance(1, 4);
            valid.push(!null);
            if null && !garbage.is_empty() && r.chance(3, 4) { raw.push(r.pick(&garbage).clone()); } else { raw.push(v.clone()); }
        }
        // an all-null column now and then
        if col % 11 == 10 { for x in valid.iter_mut() { *x = false; } }
        let layout = match col % 5 { 0 => vec![0i64, 0, 0], 1 => vec![r.range(1, 9), 0, 0], 2 => vec![0, 0, 1], 3 => vec![r.range(1, 70), r.range(0, 5), 0], _ => vec![0, r.range(1, 3), 0] };
        let modes: &[i64] = if both_modes { &[0, 1] } else if r.bool() { &[0] } else { &[1] };
        for &safe in modes {
            let args: Args = vec![gs(&layout), enc(a), enc(b), g(safe), gbools(valid.iter().cloned()), raw.clone()];
            let tag = format!("{tagp}/{}/n{}/l{}", if safe == 1 { "safe" } else { "strict" }, nullmode, col % 5);
            if spec { emit(Case::new("c13.cast", args, &["c13.cast", "c13.cast.spec"], tag)); }
            else { emit(Case::new("c13.cast_m", args, &["c13.cast_m"], tag)); }
        }
        col += 1;
        if pos >= vals.len() { break; }
    }
}

fn tyclass(t: &MT) -> String {
    match *t {
        MT::Int { bits, signed } => format!("{}{}", if signed { "i" } else { "u" }, bits),
        MT::Bool => "bool".into(),
        MT::Dec { bits, .. } => format!("dec{bits}"),
        MT::Date32 => "date32".into(), MT::Date64 => "date64".into(),
        MT::Time32(u) => format!("time32.{u}"), MT::Time64(u) => format!("time64.{u}"),
        MT::Ts(u, z) => format!("ts.{u}.{z}"), MT::Dur(u) => format!("dur.{u}"),
    }
}

fn model_types() -> Vec<MT> {
    let mut v = Vec::new();
    for bits in [8u32, 16, 32, 64] { v.push(MT::Int { bits, signed: true }); v.push(MT::Int { bits, signed: false }); }
    v.push(MT::Bool);
    for (bits, p, s) in [(32u32, 9u8, 2i8), (32, 5, 0), (32, 9, 9), (32, 4, -2), (64, 18, 4), (64, 10, -2), (64, 18, 0), (128, 38, 10), (128, 20, 0),
                         (128, 10, -3), (128, 38, 38), (128, 5, 3), (256, 76, 20), (256, 40, 0), (256, 76, 0), (256, 50, -5), (256, 76, 76)] {
        v.push(MT::Dec { bits, p, s });
    }
    v.push(MT::Date32); v.push(MT::Date64);
    v.push(MT::Time32(0)); v.push(MT::Time32(1)); v.push(MT::Time64(2)); v.push(MT::Time64(3));
    for u in 0..4u8 { v.push(MT::Ts(u, 0)); v.push(MT::Ts(u, 1)); v.push(MT::Dur(u)); }
    v
}
fn rand_dec(r: &mut Rng) -> MT {
    let bits = [32u32, 64, 128, 256][r.below(4)];
    let maxp = dec_maxp(bits);
    let p = r.range(1, maxp);
    let s = match r.below(6) { 0 => 0, 1 => p, 2 => r.range(-8, 0), _ => r.range(0, p) };
    MT::Dec { bits, p: p as u8, s: s as i8 }
}

fn gen_pair(a: &MT, b: &MT, thorough: bool, r: &mut Rng, emit: &mut dyn FnMut(Case)) {
    if !modelled(a, b) || !can_cast_types(&to_dt(a), &to_dt(b)) { return; }
    let cands = candidates(a, b, r, thorough);
    let ok: Vec<BigInt> = cands.iter().filter(|v| value_ok(a, b, v) && raw_ok(a, b, v)).cloned().collect();
    let tag = format!("cast/{}>{}", tyclass(a), tyclass(b));
    let both = thorough || native(a).0 <= 16 || r.chance(1, 3);
    let spec = !dec_up_beyond_table(a, b);
    if !ok.is_empty() { emit_columns(a, b, &ok, spec, r, emit, &tag, both); }
    // the empty column
    for safe in [0i64, 1] {
        let args: Args = vec![gs(&[0i64, 0, safe]), enc(a), enc(b), g(safe), vec![], vec![]];
        if spec { emit(Case::new("c13.cast", args, &["c13.cast", "c13.cast.spec"], format!("{tag}/empty"))); }
        else { emit(Case::new("c13.cast_m", args, &["c13.cast_m"], format!("{tag}/empty"))); }
    }
    // values outside the preconditions of S: only where M models the behaviour (decimals beyond their declared
    // precision, times outside a day); calendar conversions beyond TS_SAFE_SECONDS are not modelled at all
    let raw: Vec<BigInt> = if matches!(a, MT::Dec { .. } | MT::Time32(_) | MT::Time64(_)) {
        cands.iter().filter(|v| !value_ok(a, b, v) && raw_ok(a, b, v)).cloned().collect()
    } else { Vec::new() };
    if !raw.is_empty() {
        let take = if thorough { raw.len() } else { raw.len().min(150) };
        let mut sel = raw; if sel.len() > take { let st = r.below(sel.len() - take + 1); sel = sel[st..st + take].to_vec(); }
        emit_columns(a, b, &sel, false, r, emit, &format!("raw{tag}"), false);
    }
}

fn gen_values(thorough: bool, r: &mut Rng, emit: &mut dyn FnMut(Case)) {
    let tys = model_types();
    for a in &tys { for b in &tys {
        // quick tier: every pair of non-decimal types, decimals against a rotating subset
        let heavy = matches!(a, MT::Dec { .. }) && matches!(b, MT::Dec { .. });
        if !thorough && heavy && !r.chance(1, 3) { continue; }
        gen_pair(a, b, thorough, r, emit);
    } }
    // random decimal type pairs: every path of make_upscaler / make_downscaler / same-type clone
    let n = if thorough { 1500 } else { 150 };
    for _ in 0..n {
        let a = rand_dec(r);
        let b = match r.below(5) {
            0 => { if let MT::Dec { bits, p, s } = a { MT::Dec { bits, p: (p as i64 + r.range(0, 3)).min(dec_maxp(bits)) as u8, s } } else { a } }
            1 => { if let MT::Dec { bits, p, s } = a { MT::Dec { bits, p: (p as i64 - r.range(0, 3)).max((s as i64).max(1)) as u8, s } } else { a } }
            _ => rand_dec(r),
        };
        gen_pair(&a, &b, false, r, emit);
    }
    // integers / timestamps against random decimal types
    let n2 = if thorough { 400 } else { 60 };
    for _ in 0..n2 {
        let d = rand_dec(r);
        let o = tys[r.below(tys.len())];
        if matches!(o, MT::Dec { .. }) { continue; }
        if r.bool() { gen_pair(&o, &d, false, r, emit); } else { gen_pair(&d, &o, false, r, emit); }
    }
}

/// (c) inverse casts: a -> b -> a in strict mode must give back the input wherever the forward cast succeeds
/// and is lossless; the specification op computes the expected column by composing S with itself.
fn gen_inverse(thorough: bool, r: &mut Rng, emit: &mut dyn FnMut(Case)) {
    let tys = model_types();
    for a in &tys { for b in &tys {
        if a == b || !modelled(a, b) || !modelled(b, a) || dec_up_beyond_table(a, b) || dec_up_beyond_table(b, a) { continue; }
        if !can_cast_types(&to_dt(a), &to_dt(b)) || !can_cast_types(&to_dt(b), &to_dt(a)) { continue; }
        if !thorough && matches!(a, MT::Dec { .. }) && matches!(b, MT::Dec { .. }) && !r.chance(1, 2) { continue; }
        let cands = candidates(a, b, r, false);
        let ok: Vec<BigInt> = cands.iter().filter(|v| value_ok(a, b, v) && raw_ok(a, b, v) && instant_safe(a, v)).cloned().collect();
        // one value per column so that a single unrepresentable value does not hide the others
        let per = if thorough { ok.len() } else { ok.len().min(24) };
        let mut idx: Vec<usize> = (0..ok.len()).collect();
        for i in 0..idx.len() { let j = i + r.below(idx.len() - i); idx.swap(i, j); }
        for &i in idx.iter().take(per) {
            let v = ok[i].clone();
            // the value that arrives in b must satisfy b's own preconditions for the way back: checked by the model (skip => [-3] never emitted)
            let args: Args = vec![gs(&[r.range(0, 3), 0, 0]), enc(a), enc(b), gbools([true, false]), vec![v, nmax(a).min(BigInt::from(77))]];
            emit(Case::new("c13.inverse", args, &["c13.inverse.spec"], format!("inverse/{}>{}", tyclass(a), tyclass(b))));
        }
    } }
}
// ------------------------------------------------------------------ text generators
fn int_types() -> Vec<MT> { let mut v = Vec::new(); for bits in [8u32, 16, 32, 64] { v.push(MT::Int { bits, signed: true }); v.push(MT::Int { bits, signed: false }); } v }
fn text_dec_types() -> Vec<MT> {
    [(32u32, 9u8, 2i8), (32, 5, 0), (32, 9, 9), (64, 18, 4), (64, 18, 18), (64, 3, 1), (128, 38, 10), (128, 38, 0), (128, 38, 38), (128, 5, 3), (128, 21, 19),
     (256, 76, 20), (256, 76, 0), (256, 76, 76), (256, 40, 38), (256, 39, 2)].iter().map(|&(bits, p, s)| MT::Dec { bits, p, s }).collect()
}
fn fmt_plain(v: &BigInt) -> String { v.to_string() }
/// reference rendering of value * 10^-scale (scale >= 0) used only to BUILD candidate strings
fn dec_string(v: &BigInt, scale: u32) -> String {
    let neg = v.is_negative();
    let mut d = v.abs().to_string();
    if scale > 0 {
        while d.len() <= scale as usize { d.insert(0, '0'); }
        d.insert(d.len() - scale as usize, '.');
    }
    if neg { format!("-{d}") } else { d }
}
fn int_values(t: &MT, r: &mut Rng, n_rand: usize) -> Vec<BigInt> {
    let (bits, _) = native(t);
    let mut v = vec![BigInt::zero(), BigInt::one(), BigInt::from(-1), nmin(t), nmax(t), nmin(t) + 1, nmax(t) - 1];
    for k in 0..=bits { for d in [-1i64, 0, 1] { v.push(pow2(k) + d); v.push(-pow2(k) + d); } }
    for k in 0..=20u32 { for d in [-1i64, 0, 1] { v.push(pow10(k) + d); v.push(-pow10(k) + d); } }
    for _ in 0..n_rand { let k = r.below(bits as usize + 1) as u32; let x = BigInt::from(r.next()) % pow2(k.max(1)); v.push(if r.bool() { -x } else { x }); }
    clamp_native(t, v)
}
fn dec_values(t: &MT, r: &mut Rng, n_rand: usize) -> Vec<BigInt> {
    if let MT::Dec { p, .. } = *t {
        let lim = pow10(p as u32);
        let lm1: BigInt = &lim - BigInt::one();
        let mut v: Vec<BigInt> = vec![BigInt::zero(), BigInt::one(), BigInt::from(-1), lm1.clone(), -lm1, BigInt::from(5), BigInt::from(-50)];
        for k in 0..p as u32 { for d in [-1i64, 0, 1] { v.push(pow10(k) + d); v.push(-pow10(k) + d); v.push(pow10(k) * 5 + d); } }
        for _ in 0..n_rand {
            let k = r.below(p as usize + 1) as u32;
            let mut x = BigInt::zero();
            for _ in 0..5 { x = (x << 64) + BigInt::from(r.next()); }
            x %= pow10(k.max(1));
            v.push(if r.bool() { -x } else { x });
        }
        let mut v: Vec<BigInt> = v.into_iter().filter(|x| x.abs() < lim).collect();
        v.sort(); v.dedup(); v
    } else { vec![] }
}
/// KNOWN-FINDING candidate: atoi 3.1.0 declares NUM_SAFE_DIGITS_NON_POSITIVE_RADIX_10 = 5 for i16, so
/// `from_radix_10_signed_checked` accumulates the first FIVE digits of a negative literal with unchecked
/// `number *= 10; number -= digit`: "-32769" .. "-99999" (and longer literals with such a prefix) overflow i16 —
/// a panic in a checked build, a silently wrapped value (e.g. "-32769" -> 32767) in release — instead of
/// being rejected. Reached through parser_primitive!(Int16Type), i.e. the Utf8 -> Int16 cast. Excluded here.
fn atoi_i16_bug(t: &MT, s: &str) -> bool {
    if !matches!(t, MT::Int { bits: 16, signed: true }) { return false; }
    let b = s.trim_matches(|c: char| c.is_ascii_whitespace());
    if let Some(rest) = b.strip_prefix('-') {
        let digs: String = rest.chars().take_while(|c| c.is_ascii_digit()).take(5).collect();
        digs.len() == 5 && digs.parse::<u32>().map(|v| v > 32768).unwrap_or(false)
    } else { false }
}
fn emit_parse(t: &MT, strs: &[String], r: &mut Rng, emit: &mut dyn FnMut(Case), tag: &str) {
    for (i, st) in strs.iter().enumerate() {
        if !st.is_ascii() || atoi_i16_bug(t, st) { continue; }
        let kind = ((i + r.below(3)) % 3) as i64;
        let safe = ((i / 3 + r.below(2)) % 2) as i64;
        let args: Args = vec![enc(t), g(kind), g(safe), gbytes(st.as_bytes())];
        emit(Case::new("c13.parse", args, &["c13.parse", "c13.parse.spec"], format!("{tag}/k{kind}/s{safe}")));
    }
}
fn mutate_num_strings(base: &[String], r: &mut Rng) -> Vec<String> {
    let mut out: Vec<String> = base.to_vec();
    for s in base {
        match r.below(12) {
            0 => out.push(format!("+{s}")),
            1 => out.push(format!(" {s}")),
            2 => out.push(format!("{s} ")),
            3 => out.push(format!("\t{s}\n")),
            4 => out.push(if let Some(rest) = s.strip_prefix('-') { format!("-00{rest}") } else { format!("000{s}") }),
            5 => out.push(format!("{s}a")),
            6 => out.push(format!("\u{b}{s}")),
            7 => out.push(format!("{s}\u{b}")),
            8 => out.push(format!("  {s}\r\n ")),
            9 => out.push(format!("-{s}")),
            10 => out.push(format!("{s}\u{c}")),
            _ => out.push(format!("{s}0")),
        }
    }
    out.extend(["", "-", "+", " ", "  ", "1 2", "a12", "1.0", "1e3", "--1", "+-1", "-+1", "0", "-0", "+0", "00", "0x10", "1_000", "١٢", ".", "+.", "-.5", "5.", ".5", "1.2.3", "1..2", "1,5", "abc", "NaN", "inf",
                "99999999999999999999999999", "-99999999999999999999999999", "0000000000000000000000000000000000000001", "-0000000000000000000012"].iter().map(|x| x.to_string()));
    out
}
fn gen_text(thorough: bool, r: &mut Rng, emit: &mut dyn FnMut(Case)) {
    let nr = if thorough { 300 } else { 30 };
    // integers
    for t in int_types() {
        let vals = int_values(&t, r, nr);
        for v in &vals { emit(Case::new("c13.fmt", vec![enc(&t), vec![v.clone()]], &["c13.fmt"], format!("fmt/{}", tyclass(&t)))); }
        let mut base: Vec<String> = vals.iter().map(fmt_plain).collect();
        base.push(fmt_plain(&(nmax(&t) + 1))); base.push(fmt_plain(&(nmin(&t) - 1))); base.push(fmt_plain(&(nmax(&t) * 10))); base.push(fmt_plain(&(nmin(&t) * 10 - 9)));
        let strs = mutate_num_strings(&base, r);
        emit_parse(&t, &strs, r, emit, &format!("parse/{}", tyclass(&t)));
        for kind in 0..3i64 {
            for chunk in vals.chunks(64) {
                let valid: Vec<bool> = chunk.iter().map(|_| !r.chance(1, 6)).collect();
                emit(Case::new("c13.text_rt", vec![enc(&t), g(kind), gbools(valid), chunk.to_vec()], &["c13.text_rt.spec"], format!("text_rt/{}/k{kind}", tyclass(&t))));
            }
        }
    }
    // decimals
    for t in text_dec_types() {
        let (bits, p, sc) = if let MT::Dec { bits, p, s } = t { (bits, p, s) } else { continue };
        let vals = dec_values(&t, r, nr);
        for v in &vals { emit(Case::new("c13.fmt", vec![enc(&t), vec![v.clone()]], &["c13.fmt"], format!("fmt/{}", tyclass(&t)))); }
        // beyond the declared precision (digits are cut by format_decimal_str): model only
        for v in [pow10(p as u32), -pow10(p as u32) * 12, nmax(&t), nmin(&t)] {
            if v >= nmin(&t) && v <= nmax(&t) { emit(Case::new("c13.fmt", vec![enc(&t), vec![v]], &["c13.fmt"], format!("fmt-over/{}", tyclass(&t)))); }
        }
        let mut base: Vec<String> = vals.iter().map(|v| dec_string(v, sc as u32)).collect();
        let extra: Vec<String> = vals.iter().step_by(3).flat_map(|v| {
            let s = dec_string(v, sc as u32);
            let dot = if sc == 0 { "." } else { "" };
            vec![format!("{s}{dot}5"), format!("{s}{dot}49"), format!("{s}{dot}50"), format!("{s}{dot}4999999999999999999999"), format!("{s}{dot}99"), format!("{s}{dot}04"),
                 dec_string(v, (sc as u32).saturating_sub(1)), dec_string(v, 0), dec_string(v, sc as u32 + 1), dec_string(v, sc as u32 + 25)]
        }).collect();
        base.extend(extra);
        for k in [18u32, 19, 20, 37, 38, 39, 57, 58, 75, 76, 77, 80] {
            base.push(format!("{}", pow10(k) - 1)); base.push(format!("-{}", pow10(k))); base.push(format!("0.{}", pow10(k) - 1)); base.push(format!("{}.{}", pow10(k / 2), pow10(k / 2 + 1) + 7));
        }
        base.push(format!("{}", nmax(&t))); base.push(format!("{}", nmin(&t))); base.push(format!("{}", nmax(&t) + 1)); base.push(format!("{}", nmin(&t) - 1));
        let half_up: BigInt = pow10(p as u32) * BigInt::from(10) - BigInt::from(5);
        base.push(dec_string(&half_up, sc as u32 + 1)); base.push(dec_string(&(-half_up.clone()), sc as u32 + 1));
        base.push(dec_string(&(half_up - BigInt::one()), sc as u32 + 1));
        let strs = mutate_num_strings(&base, r);
        emit_parse(&t, &strs, r, emit, &format!("parse/{}", tyclass(&t)));
        for (i, st) in strs.iter().enumerate() {
            if !thorough && i % 2 == 1 { continue; }
            if !st.is_ascii() || st.contains('e') || st.contains('E') || st.len() > 120 { continue; }
            emit(Case::new("c13.parse_decimal", vec![g(bits), g(p), g(sc), gbytes(st.as_bytes())], &["c13.parse_decimal"], format!("parse_decimal/dec{bits}")));
        }
        for kind in 0..3i64 {
            for chunk in vals.chunks(48) {
                let valid: Vec<bool> = chunk.iter().map(|_| !r.chance(1, 6)).collect();
                emit(Case::new("c13.text_rt", vec![enc(&t), g(kind), gbools(valid), chunk.to_vec()], &["c13.text_rt.spec"], format!("text_rt/{}/k{kind}", tyclass(&t))));
            }
        }
    }
    // a negative-scale decimal target refuses every string (documented in the error text) — see report
    // bool, dates, times, timestamps: cast -> text -> cast is the identity (years 0001..9999)
    let day_lo = -719_162i64; let day_hi = 2_932_896i64;
    let sec_lo = day_lo * 86_400; let sec_hi = day_hi * 86_400 + 86_399;
    let mut temporal: Vec<(MT, Vec<BigInt>)> = Vec::new();
    temporal.push((MT::Bool, vec![BigInt::zero(), BigInt::one()]));
    let mut days: Vec<i64> = vec![day_lo, day_lo + 1, day_hi, day_hi - 1, 0, -1, 1, 59, 60, 11_016, 11_017, -141_427, -141_428, 19_000];
    for _ in 0..nr { days.push(r.range(day_lo, day_hi)); }
    temporal.push((MT::Date32, days.iter().map(|d| BigInt::from(*d)).collect()));
    temporal.push((MT::Date64, days.iter().map(|d| BigInt::from(*d) * 86_400_000i64).collect()));
    for u in 0..2u8 { let m = unit_mult(u); let mut v: Vec<i64> = vec![0, 1, 86_400 * m - 1, 3600 * m, 43_200 * m, 59 * m, 60 * m]; for _ in 0..nr { v.push(r.range(0, 86_400 * m - 1)); } temporal.push((MT::Time32(u), v.iter().map(|x| BigInt::from(*x)).collect())); }
    for u in 2..4u8 { let m = unit_mult(u); let mut v: Vec<i64> = vec![0, 1, 86_400 * m - 1, 3600 * m, 43_200 * m, 999, 1000, 1_000_000, 999_999_999]; for _ in 0..nr { v.push(r.range(0, 86_400 * m - 1)); } temporal.push((MT::Time64(u), v.iter().filter(|x| **x < 86_400 * m).map(|x| BigInt::from(*x)).collect())); }
    for u in 0..4u8 { for z in 0..2u8 {
        let m = unit_mult(u) as i128;
        let lo = (sec_lo as i128 * m).max(i64::MIN as i128 + 1); let hi = ((sec_hi as i128 + 1) * m - 1).min(i64::MAX as i128);
        let mut v: Vec<i128> = vec![lo, lo + 1, hi, hi - 1, 0, -1, 1, -m, m, -m - 1, m + 1, 951_782_400 * m, 951_868_799 * m + (m - 1), -2_208_988_800 * m, 1_700_000_000 * m + m / 2, -1_000_000_000 * m - m / 3];
        for _ in 0..nr { let span = (hi - lo) as u128; let x = lo + ((r.next() as u128 * (u64::MAX as u128 + 1) + r.next() as u128) % span) as i128; v.push(x); }
        temporal.push((MT::Ts(u, z), v.into_iter().filter(|x| *x >= lo && *x <= hi).map(BigInt::from).collect()));
    } }
    for u in 0..4u8 { let mut v: Vec<i64> = vec![0, 1, -1, i64::MAX, i64::MIN, 86_400, -3_600_000]; for _ in 0..nr { v.push(r.next() as i64 >> r.below(64)); } temporal.push((MT::Dur(u), v.iter().map(|x| BigInt::from(*x)).collect())); }
    for (t, vals) in &temporal {
        for kind in 0..3i64 {
            if !can_cast_types(&to_dt(t), &str_dt(kind)) || !can_cast_types(&str_dt(kind), &to_dt(t)) { continue; }
            for chunk in vals.chunks(40) {
                let valid: Vec<bool> = chunk.iter().map(|_| !r.chance(1, 8)).collect();
                emit(Case::new("c13.text_rt", vec![enc(t), g(kind), gbools(valid), chunk.to_vec()], &["c13.text_rt.spec"], format!("text_rt/{}/k{kind}", tyclass(t))));
            }
        }
    }
    // floats: shortest text -> parse returns the identical bits
    for bits in [16i64, 32, 64] {
        let mask: u64 = if bits == 64 { u64::MAX } else { (1u64 << bits) - 1 };
        let (eb, mb) = match bits { 16 => (5u32, 10u32), 32 => (8, 23), _ => (11, 52) };
        let mut pats: Vec<u64> = vec![0, 1, 2, (1 << mb) - 1, 1 << mb, (1 << mb) + 1, ((1u64 << eb) - 2) << mb | ((1 << mb) - 1), ((1u64 << eb) - 1) << mb, (((1u64 << eb) - 1) << mb) + 1,
            1u64 << (bits - 1), (1u64 << (bits - 1)) + 1, ((1u64 << (eb - 1)) - 1) << mb, (((1u64 << (eb - 1)) - 1) << mb) + 1, (((1u64 << (eb - 1)) - 1) << mb) - 1];
        if bits == 16 && thorough { pats = (0..=0xFFFFu64).collect(); }
        let n = if thorough { 20_000 } else { 2_000 };
        for _ in 0..n { pats.push(r.next() & mask); }
        for _ in 0..n / 4 { let e = r.below(1usize << eb) as u64; let m = if r.bool() { r.next() & ((1 << mb) - 1) } else { [0, 1, (1u64 << mb) - 1][r.below(3)] }; pats.push(((r.next() & 1) << (bits - 1)) | (e << mb) | m); }
        // decimal-looking values: k / 10^j
        for _ in 0..n / 4 { let x = r.range(-100_000, 100_000) as f64 / 10f64.powi(r.range(0, 12) as i32); pats.push(match bits { 16 => half::f16::from_f64(x).to_bits() as u64, 32 => (x as f32).to_bits() as u64, _ => x.to_bits() }); }
        for chunk in pats.chunks(256) {
            emit(Case::new("c13.float_rt", vec![g(bits), chunk.iter().map(|p| BigInt::from(*p)).collect()], &["c13.one.post1"], format!("float_rt/f{bits}")));
        }
    }
}

// ------------------------------------------------------------------ (a) grid sweep
fn dt_class(t: &DataType) -> &'static str {
    use DataType::*;
    match t {
        Null => "null", Boolean => "bool", Int8 | Int16 | Int32 | Int64 => "int", UInt8 | UInt16 | UInt32 | UInt64 => "uint", Float16 | Float32 | Float64 => "float",
        Decimal32(_, _) | Decimal64(_, _) | Decimal128(_, _) | Decimal256(_, _) => "decimal", Date32 | Date64 => "date", Time32(_) | Time64(_) => "time",
        Timestamp(_, None) => "ts", Timestamp(_, Some(_)) => "tstz", Duration(_) => "duration", Interval(_) => "interval",
        Utf8 | LargeUtf8 | Utf8View => "string", Binary | LargeBinary | BinaryView | FixedSizeBinary(_) => "binary", _ => "nested",
    }
}
/// KNOWN-FINDING candidates: ordered pairs that can_cast_types accepts although cast_with_options refuses EVERY
/// input, even an empty array (root causes, see the report):
///  R1 target Dictionary<K, V> with V Null / Boolean / Duration / Interval: can_cast_types only asks whether the source can be
///     cast to V, cast_to_dictionary has no packer for V ("Unsupported output type for dictionary packing")
///  R2 Interval(YearMonth | DayTime) -> Int64: listed in can_cast_types, no arm in cast_with_options
///  R3 Utf8 / LargeUtf8 / Utf8View -> Decimal with a negative scale: refused by cast_string_to_decimal
///  R4 target Dictionary<K, V> with V Date32/Date64/Time32/Time64/Timestamp: packed "via primitive", i.e. the source is
///     cast to Int32 / Int64 instead of V, which is unsupported (or means something else) for sources that
///     can be cast to V but not to the backing integer (Time64 -> Dictionary<_, Time32>)
fn known_inconsistent(_wa: i64, a: &DataType, wb: i64, b: &DataType) -> bool {
    use DataType::*;
    let r2 = matches!(a, Interval(IntervalUnit::YearMonth) | Interval(IntervalUnit::DayTime)) && matches!(b, Int64);
    let r3 = matches!(a, Utf8 | LargeUtf8 | Utf8View) && matches!(b, Decimal32(_, s) | Decimal64(_, s) | Decimal128(_, s) | Decimal256(_, s) if *s < 0);
    let to_dict = wb == 1 || wb == 6;
    let r1 = to_dict && matches!(b, Null | Boolean | Duration(_) | Interval(_));
    let r4 = to_dict && match b {
        Date32 | Time32(_) => !can_cast_types(a, &Int32),
        Date64 | Time64(_) | Timestamp(_, _) => !can_cast_types(a, &Int64),
        _ => false,
    };
    r1 || r2 || r3 || r4
}

fn gen_cancast(thorough: bool, r: &mut Rng, emit: &mut dyn FnMut(Case)) {
    let grid = leaf_grid();
    let n = grid.len();
    let wrappers: Vec<i64> = if thorough { vec![0, 1, 2, 3, 4, 5, 6, 7] } else { vec![0, 1, 2, 3] };
    let inner_quick: Vec<usize> = (0..n).filter(|i| i % 4 == 1 || matches!(grid[*i], DataType::Utf8 | DataType::Int32 | DataType::Decimal128(38, 10) | DataType::Date32)).collect();
    for &wa in &wrappers { for &wb in &wrappers {
        for ia in 0..n { for ib in 0..n {
            if !thorough {
                if wa != 0 && !inner_quick.contains(&ia) { continue; }
                if wb != 0 && !inner_quick.contains(&ib) { continue; }
                if wa != 0 && wb != 0 && !r.chance(1, 3) { continue; }
            } else if wa != 0 && wb != 0 && wa != wb && !r.chance(1, 4) { continue; }
            let (from, to) = (wrap_dt(wa, &grid[ia]), wrap_dt(wb, &grid[ib]));
            if from == to || !can_cast_types(&from, &to) { continue; }
            if known_inconsistent(wa, &grid[ia], wb, &grid[ib]) { continue; }
            for shape in 0..3i64 { for safe in 0..2i64 {
                if !thorough && (wa != 0 || wb != 0) && shape == 1 { continue; }
                let args: Args = vec![gs(&[wa, ia as i64]), gs(&[wb, ib as i64]), g(shape), g(safe)];
                emit(Case::new("c13.cancast", args, &["c13.one.post1"], format!("cancast/w{wa}{wb}/{}>{}/s{shape}{safe}", dt_class(&grid[ia]), dt_class(&grid[ib]))));
            } }
        } }
    } }
}

fn gen_dtype(thorough: bool, r: &mut Rng, emit: &mut dyn FnMut(Case)) {
    let n = if thorough { 40_000 } else { 4_000 };
    for i in 0..n {
        let depth = (i % 5) as i64;
        let seed = r.next() >> 1;
        emit(Case::new("c13.dtype_rt", vec![vec![BigInt::from(seed)], g(depth)], &["c13.one.post1"], format!("dtype_rt/d{depth}")));
    }
}

/// Interval(MonthDayNano) <-> Duration(unit), YearMonth / DayTime -> MonthDayNano, Int32 -> YearMonth, both modes.
/// kind 0 is driven through every combination of {months, days, nanos} x {zero, positive, negative}: one valid value
/// per column (so that strict mode is decided by that value alone), then mixed columns whose null slots carry
/// non-representable garbage (months / days != 0 under a null must not fail the strict cast).
fn gen_interval(thorough: bool, r: &mut Rng, emit: &mut dyn FnMut(Case)) {
    const MODELS: [&str; 2] = ["c13.ivcast", "c13.ivcast.spec"];
    let lay = |r: &mut Rng, k: usize| -> Group { match k % 3 { 0 => gs(&[0i64, 0]), 1 => gs(&[r.range(1, 9), 0]), _ => gs(&[0i64, 1]) } };
    let cls = |x: i64| if x == 0 { 'z' } else if x > 0 { 'p' } else { 'n' };
    let mut k = 0usize;
    for u in 0..4u8 {
        let scale: i64 = [1_000_000_000, 1_000_000, 1_000, 1][u as usize];
        let parts: [i64; 3] = [0, 1 + r.range(0, 40), -1 - r.range(0, 40)];
        let nanos: Vec<i64> = vec![0, 1, -1, scale - 1, scale, -scale - 1, 5_000_000_000, -5_000_000_001, 5 * scale + scale / 2 + 1,
                                   i64::MAX, i64::MIN, i64::MIN + 1, r.next() as i64, -(r.next() as i64 >> 1)];
        for &m in &parts { for &d in &parts { for (j, &ns) in nanos.iter().enumerate() {
            // the calendar-free rows see every nanosecond value, the others a rotating subset
            if !thorough && (m != 0 || d != 0) && j % 3 != (k % 3) { k += 1; continue; }
            for safe in 0..2i64 {
                let args: Args = vec![gs(&[0i64, u as i64]), g(safe), gbools([true]), g(m), g(d), g(ns), lay(r, k)];
                emit(Case::new("c13.ivcast", args, &MODELS, format!("ivcast/mdn>dur{u}/s{safe}/m{}d{}n{}", cls(m), cls(d), cls(ns))));
            }
            k += 1;
        } } }
        // extreme calendar parts
        for (m, d) in [(i32::MAX as i64, 0i64), (i32::MIN as i64, 0), (0, i32::MAX as i64), (0, i32::MIN as i64), (i32::MIN as i64, i32::MAX as i64)] {
            for safe in 0..2i64 {
                let args: Args = vec![gs(&[0i64, u as i64]), g(safe), gbools([true]), g(m), g(d), g(7 * scale + 3), lay(r, k)];
                emit(Case::new("c13.ivcast", args, &MODELS, format!("ivcast/mdn>dur{u}/s{safe}/extreme")));
            }
            k += 1;
        }
        // mixed columns: bad = how many VALID rows carry a calendar part (0: strict must succeed although nulls hold garbage)
        for bad in [0usize, 0, 1, 1, 3] {
            let len = [1usize, 7, 8, 9, 33, 64, 65][r.below(7)];
            let mut valid = Vec::new(); let (mut ms, mut ds, mut nss) = (Vec::new(), Vec::new(), Vec::new());
            for _ in 0..len {
                let null = r.chance(1, 3);
                valid.push(!null);
                if null { ms.push(r.range(-5, 5)); ds.push(r.range(-5, 5)); } else { ms.push(0); ds.push(0); }
                nss.push(if r.chance(1, 4) { *r.pick(&nanos) } else { r.range(-10, 10) * scale + r.range(-3, 3) });
            }
            for _ in 0..bad {
                let i = r.below(len); valid[i] = true;
                match r.below(3) { 0 => { ms[i] = 1 + r.range(0, 3); ds[i] = 0; } 1 => { ms[i] = 0; ds[i] = -1 - r.range(0, 3); } _ => { ms[i] = -2; ds[i] = 9; } }
            }
            for safe in 0..2i64 {
                let args: Args = vec![gs(&[0i64, u as i64]), g(safe), gbools(valid.iter().cloned()), gs(&ms), gs(&ds), gs(&nss), lay(r, k)];
                emit(Case::new("c13.ivcast", args, &MODELS, format!("ivcast/mdn>dur{u}/s{safe}/mixed{}", bad.min(2))));
            }
            k += 1;
        }
        // Duration(unit) -> MonthDayNano: the overflow boundary of value * scale
        let lim = i64::MAX / scale;
        let mut vals: Vec<i64> = vec![0, 1, -1, lim, lim + if scale > 1 { 1 } else { 0 }, -lim, -lim - 1, if scale > 1 { -lim - 2 } else { i64::MIN }, i64::MAX, i64::MIN, 86_400, -3_600_000];
        for _ in 0..6 { vals.push(r.next() as i64 >> r.below(40)); }
        for &v in &vals { for safe in 0..2i64 {
            let args: Args = vec![gs(&[1i64, u as i64]), g(safe), gbools([true]), g(v), vec![], vec![], lay(r, k)];
            emit(Case::new("c13.ivcast", args, &MODELS, format!("ivcast/dur{u}>mdn/s{safe}/{}", if (v as i128 * scale as i128).abs() > i64::MAX as i128 { "over" } else { "fit" })));
        } k += 1; }
        for fit_only in [true, false] {
            let col: Vec<i64> = vals.iter().cloned().filter(|v| !fit_only || (*v as i128 * scale as i128 >= i64::MIN as i128 && *v as i128 * scale as i128 <= i64::MAX as i128)).collect();
            // overflowing garbage under the nulls of the all-fit column
            let valid: Vec<bool> = col.iter().map(|_| !r.chance(1, 4)).collect();
            let raw: Vec<i64> = col.iter().zip(valid.iter()).map(|(v, b)| if *b { *v } else { i64::MAX - (*v & 0xFF) }).collect();
            for safe in 0..2i64 {
                let args: Args = vec![gs(&[1i64, u as i64]), g(safe), gbools(valid.iter().cloned()), gs(&raw), vec![], vec![], lay(r, k)];
                emit(Case::new("c13.ivcast", args, &MODELS, format!("ivcast/dur{u}>mdn/s{safe}/col{}", fit_only as u8)));
            }
            k += 1;
        }
    }
    // YearMonth / DayTime -> MonthDayNano, Int32 -> YearMonth
    let i32s: Vec<i64> = { let mut v: Vec<i64> = vec![0, 1, -1, 12, -13, i32::MAX as i64, i32::MIN as i64, 2147, -2148, 2_147_483, -2_147_484]; for _ in 0..8 { v.push(r.next() as i32 as i64); } v };
    for kind in [2i64, 4] { for safe in 0..2i64 { for rep in 0..2 {
        let valid: Vec<bool> = i32s.iter().map(|_| rep == 0 || !r.chance(1, 4)).collect();
        let args: Args = vec![gs(&[kind, 0]), g(safe), gbools(valid), gs(&i32s), vec![], vec![], lay(r, k)];
        emit(Case::new("c13.ivcast", args, &MODELS, format!("ivcast/k{kind}/s{safe}")));
        k += 1;
    } } }
    for safe in 0..2i64 { for rep in 0..3 {
        let mut days = i32s.clone(); let mut ms: Vec<i64> = i32s.iter().rev().cloned().collect();
        if rep == 2 { days = days.iter().map(|_| r.range(-400_000, 400_000)).collect(); ms = ms.iter().map(|_| r.range(-86_400_000, 86_400_000)).collect(); }
        let valid: Vec<bool> = days.iter().map(|_| rep == 0 || !r.chance(1, 4)).collect();
        let args: Args = vec![gs(&[3i64, 0]), g(safe), gbools(valid), gs(&days), gs(&ms), vec![], lay(r, k)];
        emit(Case::new("c13.ivcast", args, &MODELS, format!("ivcast/k3/s{safe}")));
        k += 1;
    } }
}

/// Text form of intervals and (pretty) durations: the h / m / s decomposition of display.rs must be exercised above
/// one hour and one day, with both signs, with and without the calendar parts. `c13.ivfmt` compares the text with the
/// formatter model, `c13.ivtext_rt` checks interval -> text -> interval = identity (the reverse cast exists for the
/// three interval types; Duration has no parser for its text).
fn gen_interval_text(thorough: bool, r: &mut Rng, emit: &mut dyn FnMut(Case)) {
    let mut k = 0i64;
    let mut pm = |v: Vec<i64>| -> Vec<i64> { let mut o = Vec::new(); for x in v { o.push(x); if x != 0 { o.push(x.wrapping_neg()); } } o };
    // Interval(DayTime)
    let mut ms = pm(vec![0, 1, 999, 1_000, 1_001, 59_999, 60_000, 60_001, 3_599_999, 3_600_000, 3_600_001, 3_661_001, 7_322_002, 86_399_999, 86_400_000, 86_400_001, 90_061_001, i32::MAX as i64]);
    ms.push(i32::MIN as i64);
    for _ in 0..(if thorough { 200 } else { 16 }) { ms.push(r.next() as i32 as i64 >> r.below(12)); }
    let dt_days: [i64; 5] = [0, 1, -3, i32::MAX as i64, i32::MIN as i64];
    let mut rows: Vec<(i64, i64)> = Vec::new();
    for (j, &m) in ms.iter().enumerate() { for (i, &d) in dt_days.iter().enumerate() { if thorough || i < 2 || (i + j) % 3 == 0 { rows.push((d, m)); } } }
    for &(d, m) in &rows {
        emit(Case::new("c13.ivfmt", vec![gs(&[1i64, k % 3]), g(d), g(m), vec![]], &["c13.ivfmt"], format!("ivfmt/daytime/d{}h{}", (d != 0) as u8, (m.abs() >= 3_600_000) as u8 + (m.abs() >= 86_400_000) as u8)));
        k += 1;
    }
    for chunk in rows.chunks(24) {
        let valid: Vec<bool> = chunk.iter().map(|_| !r.chance(1, 8)).collect();
        let (a, b): (Vec<i64>, Vec<i64>) = chunk.iter().cloned().unzip();
        emit(Case::new("c13.ivtext_rt", vec![gs(&[1i64, k % 3]), gbools(valid), gs(&a), gs(&b), vec![]], &["c13.ivtext_rt.spec"], "ivtext_rt/daytime".to_string()));
        k += 1;
    }
    // Interval(MonthDayNano)
    let mut ns = pm(vec![0, 1, 999_999_999, 1_000_000_000, 1_000_000_001, 59_999_999_999, 60_000_000_000, 3_599_999_999_999, 3_600_000_000_000, 3_600_000_000_001,
                         3_661_000_000_001, 3_661_001_000_000, 86_399_999_999_999, 86_400_000_000_000, 86_400_000_000_001, 90_061_000_000_001, i64::MAX]);
    ns.push(i64::MIN);
    for _ in 0..(if thorough { 200 } else { 16 }) { ns.push(r.next() as i64 >> r.below(30)); }
    let md: [(i64, i64); 5] = [(0, 0), (1, 0), (0, -2), (-14, 3), (i32::MAX as i64, i32::MIN as i64)];
    let mut rows3: Vec<(i64, i64, i64)> = Vec::new();
    for (j, &n) in ns.iter().enumerate() { for (i, &(mo, d)) in md.iter().enumerate() { if thorough || i < 2 || (i + j) % 3 == 0 { rows3.push((mo, d, n)); } } }
    for &(mo, d, n) in &rows3 {
        emit(Case::new("c13.ivfmt", vec![gs(&[0i64, k % 3]), g(mo), g(d), g(n)], &["c13.ivfmt"], format!("ivfmt/mdn/m{}d{}h{}", (mo != 0) as u8, (d != 0) as u8, (n.unsigned_abs() >= 3_600_000_000_000) as u8 + (n.unsigned_abs() >= 86_400_000_000_000) as u8)));
        k += 1;
    }
    for chunk in rows3.chunks(24) {
        let valid: Vec<bool> = chunk.iter().map(|_| !r.chance(1, 8)).collect();
        let a: Vec<i64> = chunk.iter().map(|x| x.0).collect(); let b: Vec<i64> = chunk.iter().map(|x| x.1).collect(); let c: Vec<i64> = chunk.iter().map(|x| x.2).collect();
        emit(Case::new("c13.ivtext_rt", vec![gs(&[0i64, k % 3]), gbools(valid), gs(&a), gs(&b), gs(&c)], &["c13.ivtext_rt.spec"], "ivtext_rt/mdn".to_string()));
        k += 1;
    }
    // Interval(YearMonth)
    let mut ym = pm(vec![0, 1, 11, 12, 13, 23, 24, 119, 120, 2_147_483_640, i32::MAX as i64]);
    ym.push(i32::MIN as i64);
    for _ in 0..12 { ym.push(r.next() as i32 as i64 >> r.below(20)); }
    for &v in &ym { emit(Case::new("c13.ivfmt", vec![gs(&[2i64, k % 3]), g(v), vec![], vec![]], &["c13.ivfmt"], "ivfmt/yearmonth".to_string())); k += 1; }
    // NOTE (minor, reported): "-178956971 years 4 mons" (i32::MIN months) is printed but the parser computes years * 12 in
    // i32 and overflows; values below -2_147_483_640 are left out of the round trip.
    let ym_rt: Vec<i64> = ym.iter().cloned().filter(|v| *v >= -2_147_483_640).collect();
    for chunk in ym_rt.chunks(24) {
        let valid: Vec<bool> = chunk.iter().map(|_| !r.chance(1, 8)).collect();
        emit(Case::new("c13.ivtext_rt", vec![gs(&[2i64, k % 3]), gbools(valid), gs(chunk), vec![], vec![]], &["c13.ivtext_rt.spec"], "ivtext_rt/yearmonth".to_string()));
        k += 1;
    }
    // Duration, DurationFormat::Pretty (days / hours / mins / secs decomposition); chrono rejects |seconds| > i64::MAX / 1000
    // and i64::MIN milliseconds ("<invalid>"): outside the model
    for u in 0..4i64 {
        let p: i64 = 10i64.pow(3 * u as u32);
        let mut vs = pm(vec![0, 1, 59, 60, 61, 3_599, 3_600, 3_601, 3_661, 86_399, 86_400, 86_401, 90_061, 7 * 86_400 + 3_723]);
        let scaled: Vec<i64> = vs.iter().map(|v| v * p + if p > 1 { (v % 7) * (p / 10) + (v % 2) } else { 0 }).collect();
        vs.extend(scaled);
        vs.extend(pm(vec![999, 1_000, 1_500, 123_456_789_012, if u == 0 { i64::MAX / 1000 } else { i64::MAX }]));
        if u >= 2 { vs.push(i64::MIN); }
        for _ in 0..8 { vs.push((r.next() as i64 >> r.below(40)) / if u == 0 { 1024 } else { 1 }); }
        for &v in &vs {
            if u == 0 && v.unsigned_abs() > (i64::MAX / 1000) as u64 { continue; }
            emit(Case::new("c13.ivfmt", vec![gs(&[3i64, k % 3]), g(v), vec![], g(u)], &["c13.ivfmt"], format!("ivfmt/duration{u}/d{}", (v.unsigned_abs() / p as u64 >= 86_400) as u8)));
            k += 1;
        }
    }
}

/// Fixed regression inputs (witnesses of changes that earlier generators missed); emitted first on every run.
/// (Kept here rather than in corpus/C13.cases: the corpus is replayed by a second harness invocation, and the harness
/// binary is shared between concurrently running checks that rebuild it with other feature sets.)
fn gen_regressions(emit: &mut dyn FnMut(Case)) {
    // Interval(MonthDayNano) -> Duration needs months = 0 AND days = 0 in both modes
    for u in [0i64, 3] { for safe in 0..2i64 {
        for (m, d, n) in [(1i64, 0i64, 5_000_000_000i64), (0, 1, 5_000_000_000), (-1, 0, -1), (0, 0, 5_000_000_001)] {
            emit(Case::new("c13.ivcast", vec![gs(&[0i64, u]), g(safe), gbools([true]), g(m), g(d), g(n), gs(&[0i64, 0])], &["c13.ivcast", "c13.ivcast.spec"], "regress/mdn>dur".to_string()));
        }
    } }
    // sparse Dictionary<K, Binary|LargeBinary> -> Utf8View, safe mode, an invalid UTF-8 value in the dictionary and a NULL value
    // referenced by a valid key: that row is NULL, not ""
    for vt in [0i64, 1] { for tg in [2i64, 0, 5] { for (nk, keys) in [(3usize, vec![1i64, 0, 3]), (20, (0..20).map(|i| (i % 8) as i64).collect::<Vec<i64>>())] {
        let vals: [Option<&[u8]>; 8] = [Some(b"a"), None, Some(b"\xff\xfe"), Some(b"longer than twelve bytes"), Some(b""), None, Some(b"z"), Some(b"unused")];
        let mut lens: Vec<i64> = Vec::new(); let mut bytes: Vec<u8> = Vec::new();
        for v in vals.iter() { let b = v.unwrap_or(b""); lens.push(b.len() as i64); bytes.extend_from_slice(b); }
        let args: Args = vec![gs(&[0i64, vt, tg, 1, 0]), gbools(vec![true; nk]), gs(&keys), gbools(vals.iter().map(|v| v.is_some())), gs(&lens), gbytes(&bytes)];
        emit(Case::new("c13.dictbytes", args, &["c13.dictbytes.spec"], "regress/dict-null-value".to_string()));
    } } }
    // time part of the interval text at and above one hour
    for (i, (d, ms)) in [(0i64, 3_661_001i64), (0, -3_661_001), (2, 86_399_999), (-3, 3_600_000), (0, i32::MAX as i64), (0, i32::MIN as i64)].into_iter().enumerate() {
        emit(Case::new("c13.ivfmt", vec![gs(&[1i64, 0]), g(d), g(ms), vec![]], &["c13.ivfmt"], "regress/daytime-text".to_string()));
        emit(Case::new("c13.ivtext_rt", vec![gs(&[1i64, (i % 3) as i64]), gbools([true]), g(d), g(ms), vec![]], &["c13.ivtext_rt.spec"], "regress/daytime-text".to_string()));
    }
    for (i, (m, d, n)) in [(0i64, 0i64, 3_661_000_000_001i64), (1, -2, -90_061_000_000_001), (0, 0, i64::MAX)].into_iter().enumerate() {
        emit(Case::new("c13.ivfmt", vec![gs(&[0i64, 0]), g(m), g(d), g(n)], &["c13.ivfmt"], "regress/mdn-text".to_string()));
        emit(Case::new("c13.ivtext_rt", vec![gs(&[0i64, (i % 3) as i64]), gbools([true]), g(m), g(d), g(n)], &["c13.ivtext_rt.spec"], "regress/mdn-text".to_string()));
    }
}

/// List / LargeList -> FixedSizeList(n), n = 0..3, on sliced list arrays (first offset > 0, sliced child), both modes:
/// all lists of the right size / some valid lists wrongly sized (strict error, safe null + padding) / null lists of any
/// size with garbage underneath / empty slice.
fn gen_list2fsl(thorough: bool, r: &mut Rng, emit: &mut dyn FnMut(Case)) {
    let reps = if thorough { 12 } else { 3 };
    let mut k = 0usize;
    for n in 0..4i64 { for shape in 0..5usize { for _ in 0..reps {
        let rows = [0usize, 1, 2, 5, 9, 17][r.below(6)];
        let mut offs: Vec<i64> = vec![[0i64, 0, 2, 5][r.below(4)]];
        let mut lvalid = Vec::new();
        for i in 0..rows {
            // shape 0: all right; 1: one wrong valid list; 2: several wrong; 3: null lists (right and wrong size); 4: mixture
            let null = matches!(shape, 3 | 4) && r.chance(1, 3);
            let wrong = match shape { 0 => false, 1 => i == rows / 2, 2 => r.chance(1, 3), 3 => null && r.bool(), _ => r.chance(1, 4) };
            let len = if wrong { let l = r.range(0, 4); if l == n { n + 1 } else { l } } else { n };
            offs.push(offs[i] + len);
            lvalid.push(!null);
        }
        let total = *offs.last().unwrap() as usize + r.below(3);
        let cvalid: Vec<bool> = (0..total).map(|_| !r.chance(1, 5)).collect();
        let cvals: Vec<i64> = (0..total).map(|i| (i as i64 + 1) * 10 + r.range(0, 9)).collect();
        let ro = if rows == 0 { 0 } else { [0usize, 1, rows / 2, rows][r.below(4)].min(rows) };
        let rl = if r.chance(1, 8) { 0 } else { rows - ro };
        let cpad = [0usize, 0, 1, 3][r.below(4)];
        for safe in 0..2i64 {
            let args: Args = vec![gs(&[(k % 2) as i64, n, safe, ((k / 2) % 2) as i64]), gs(&offs), gbools(lvalid.iter().cloned()), gbools(cvalid.iter().cloned()), gs(&cvals), gs(&[ro as i64, rl as i64, cpad as i64])];
            emit(Case::new("c13.list2fsl", args, &["c13.list2fsl", "c13.list2fsl.spec"], format!("list2fsl/n{n}/shape{shape}/s{safe}/off{}/e{}", (ro > 0 || offs[0] > 0) as u8, (rl == 0) as u8)));
        }
        k += 1;
    } } }
}

/// Dictionary<K, Binary | LargeBinary | Utf8 | LargeUtf8> -> Utf8 / LargeUtf8 / Utf8View / Binary / LargeBinary / BinaryView in both
/// modes, sparse (keys.len() < values.len() / 2: the view fast paths) and dense shapes. The dictionary VALUES hold nulls that
/// valid keys reference, unused entries, invalid UTF-8 entries (referenced and unreferenced), long (> 12 byte) and empty strings.
fn gen_dictbytes(thorough: bool, r: &mut Rng, emit: &mut dyn FnMut(Case)) {
    let good: [&[u8]; 8] = [b"", b"a", b"hello", "h\u{e9}llo w\u{f6}rld".as_bytes(), b"exactly12byt", b"thirteen byte", "\u{1F600} long enough to need a buffer".as_bytes(), b"0"];
    let bad: [&[u8]; 4] = [b"\xff", b"ab\xc3", b"\xed\xa0\x80 surrogate, longer than twelve", b"\xc0\xaf"];
    let reps = if thorough { 6 } else { 1 };
    let mut k = 0usize;
    for vt in 0..4i64 { for tg in 0..6i64 { for shape in 0..4usize { for _ in 0..(if shape < 2 { reps + 1 } else { reps }) {
        let (from, to) = (DataType::Dictionary(Box::new(DataType::Int32), Box::new(bytes_dt(vt))), bytes_target(tg));
        if !can_cast_types(&from, &to) { continue; }
        // shape 0/1 sparse (few keys, many values), 2/3 dense
        let nvals = if shape < 2 { 9 + r.below(8) } else { 2 + r.below(4) };
        let nkeys = if shape < 2 { if r.chance(1, 6) { r.below(2) } else { 2 + r.below(nvals / 2 - 2) } } else { nvals * 2 + r.below(20) };
        let binary = vt < 2;
        let mut vvalid = Vec::new(); let mut lens: Vec<i64> = Vec::new(); let mut bytes: Vec<u8> = Vec::new(); let mut vbad = Vec::new();
        for i in 0..nvals {
            let null = (i == 1) || (i != 2 && r.chance(1, 5));
            let invalid = binary && !null && ((shape % 2 == 1 && i == 2) || (shape % 2 == 1 && r.chance(1, 4)));
            let b: &[u8] = if invalid { bad[r.below(4)] } else if null && r.chance(1, 2) { b"" } else { good[r.below(8)] };
            vvalid.push(!null); vbad.push(invalid); lens.push(b.len() as i64); bytes.extend_from_slice(b);
        }
        // keys: make sure the null value (index 1) and, in the odd shapes, the invalid value (index 2) are referenced by valid keys
        let mut kvalid = Vec::new(); let mut keys: Vec<i64> = Vec::new();
        for i in 0..nkeys {
            let key = match i { 0 => 1, 1 if nvals > 2 => 2, _ => r.below(nvals) } as i64;
            kvalid.push(!(i > 1 && r.chance(1, 5))); keys.push(key);
        }
        let referenced_bad = keys.iter().zip(kvalid.iter()).any(|(key, v)| *v && vbad[*key as usize]);
        let any_bad = vbad.iter().any(|b| *b);
        for safe in 0..2i64 {
            // KNOWN-FINDING F74 (open, recorded for C02): strict mode validates the whole values buffer, so it fails on
            // invalid UTF-8 in UNUSED dictionary values. Strict cases are emitted only when every invalid value is
            // absent or some valid key references one (then the error is the specified one).
            if safe == 0 && any_bad && !referenced_bad && tg < 3 { continue; }
            let kk = (k % 4) as i64;
            let pre = [0i64, 0, 3][k % 3];
            let args: Args = vec![gs(&[kk, vt, tg, safe, pre]), gbools(kvalid.iter().cloned()), gs(&keys), gbools(vvalid.iter().cloned()), gs(&lens), gbytes(&bytes)];
            emit(Case::new("c13.dictbytes", args, &["c13.dictbytes.spec"], format!("dictbytes/v{vt}>t{tg}/{}/s{safe}/bad{}{}", if shape < 2 { "sparse" } else { "dense" }, any_bad as u8, referenced_bad as u8)));
            k += 1;
        }
    } } } }
}

pub fn generate(tier: &str, r: &mut Rng, emit: &mut dyn FnMut(Case)) {
    let thorough = tier == "thorough";
    gen_regressions(emit);
    gen_values(thorough, r, emit);
    gen_inverse(thorough, r, emit);
    gen_interval(thorough, r, emit);
    gen_interval_text(thorough, r, emit);
    gen_list2fsl(thorough, r, emit);
    gen_dictbytes(thorough, r, emit);
    gen_text(thorough, r, emit);
    gen_cancast(thorough, r, emit);
    gen_dtype(thorough, r, emit);
}
