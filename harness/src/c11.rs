//! C11 — arrow-row: the row format is order-preserving, injective and invertible.
//!
//! Every op receives the same argument layout (documented in coq/Model/D_C11.v):
//!   0 field types (pre-order quadruples code,param,variant,dict)   1 sort options   2 row count
//!   3 values (row-major tokens)   4 layout [prefix, suffix, seed, split, mode]   5 selection
//! The logical values travel in the arguments; the physical Arrow arrays (slice offsets, garbage
//! under nulls, dictionary / run-end / list-view layouts, child offsets) are derived
//! deterministically from the layout seed, so `run` is a pure function of (op, args).
use crate::util::*;
use arrow_array::cast::AsArray;
use arrow_array::types::*;
use arrow_array::*;
use arrow_buffer::{i256, BooleanBuffer, Buffer, NullBuffer, OffsetBuffer, ScalarBuffer};
use arrow_row::{RowConverter, Rows, SortField};
use arrow_schema::{DataType, Field, Fields, IntervalUnit, SortOptions, TimeUnit};
use num_bigint::{BigInt, Sign};
use num_traits::{One, ToPrimitive, Zero};
use std::sync::Arc;

// ------------------------------------------------------------------------------------------ types
#[derive(Clone, Debug, PartialEq)]
pub struct Ty { code: u8, param: usize, variant: u8, dict: u8, kids: Vec<Ty> }

#[derive(Clone, Debug, PartialEq)]
pub enum Val { Null, Int(BigInt), Bytes(Vec<u8>), Struct(Vec<Val>), List(Vec<Val>) }

const T_INT: u8 = 0; const T_UINT: u8 = 1; const T_BOOL: u8 = 2; const T_FLOAT: u8 = 3; const T_FSB: u8 = 4;
const T_VAR: u8 = 5; const T_STRUCT: u8 = 6; const T_LIST: u8 = 7; const T_FSL: u8 = 8; const T_REE: u8 = 9;
/// Map(key, value): not modelled byte for byte; the specification treats it as List<Struct<key, value>> with non-null entries
const T_MAP: u8 = 10;
/// IntervalDayTime (param 0: days i32, milliseconds i32) / IntervalMonthDayNano (param 1: months i32, days i32, nanoseconds i64);
/// the value is Val::Struct of the signed components
const T_IV: u8 = 11;
fn iv_widths(param: usize) -> &'static [usize] { if param == 0 { &[4, 4] } else { &[4, 4, 8] } }

impl Ty {
    fn leaf(code: u8, param: usize, variant: u8, dict: u8) -> Ty { Ty { code, param, variant, dict, kids: vec![] } }
    fn write(&self, out: &mut Vec<BigInt>) {
        out.push(self.code.into()); out.push(self.param.into()); out.push(self.variant.into()); out.push(self.dict.into());
        for k in &self.kids { k.write(out); }
    }
    fn parse(t: &[i64], pos: &mut usize) -> Ty {
        let (code, param, variant, dict) = (t[*pos] as u8, t[*pos + 1] as usize, t[*pos + 2] as u8, t[*pos + 3] as u8);
        *pos += 4;
        let nk = match code { T_STRUCT => param, T_LIST | T_FSL | T_REE => 1, T_MAP => 2, _ => 0 };
        let kids = (0..nk).map(|_| Ty::parse(t, pos)).collect();
        Ty { code, param, variant, dict, kids }
    }
    /// the entry type of a map seen as a list
    fn entry_ty(&self) -> Ty { Ty { code: T_STRUCT, param: 2, variant: 0, dict: 0, kids: self.kids.clone() } }
    fn has_map(&self) -> bool { self.code == T_MAP || self.kids.iter().any(|k| k.has_map()) }
    fn is_utf8(&self) -> bool { self.code == T_VAR && matches!(self.variant, 2 | 3 | 5) }
    /// Arrow data type of the plain (dictionary-free at this node) values
    fn plain_dtype(&self, strip_dict: bool) -> DataType {
        match (self.code, self.param, self.variant) {
            (T_INT, 1, _) => DataType::Int8,
            (T_INT, 2, _) => DataType::Int16,
            (T_INT, 4, 0) => DataType::Int32,
            (T_INT, 4, 1) => DataType::Date32,
            (T_INT, 4, 2) => DataType::Time32(TimeUnit::Millisecond),
            (T_INT, 4, 3) => DataType::Decimal32(9, 2),
            (T_INT, 4, _) => DataType::Interval(IntervalUnit::YearMonth),
            (T_INT, 8, 0) => DataType::Int64,
            (T_INT, 8, 1) => DataType::Date64,
            (T_INT, 8, 2) => DataType::Timestamp(TimeUnit::Nanosecond, None),
            (T_INT, 8, 3) => DataType::Timestamp(TimeUnit::Second, Some("+01:00".into())),
            (T_INT, 8, 4) => DataType::Duration(TimeUnit::Microsecond),
            (T_INT, 8, 5) => DataType::Time64(TimeUnit::Nanosecond),
            (T_INT, 8, _) => DataType::Decimal64(18, 3),
            (T_INT, 16, _) => DataType::Decimal128(38, 10),
            (T_INT, 32, _) => DataType::Decimal256(76, 5),
            (T_UINT, 1, _) => DataType::UInt8,
            (T_UINT, 2, _) => DataType::UInt16,
            (T_UINT, 4, _) => DataType::UInt32,
            (T_UINT, 8, _) => DataType::UInt64,
            (T_BOOL, _, _) => DataType::Boolean,
            (T_FLOAT, 2, _) => DataType::Float16,
            (T_FLOAT, 4, _) => DataType::Float32,
            (T_FLOAT, 8, _) => DataType::Float64,
            (T_FSB, n, _) => DataType::FixedSizeBinary(n as i32),
            (T_VAR, _, 0) => DataType::Binary,
            (T_VAR, _, 1) => DataType::LargeBinary,
            (T_VAR, _, 2) => DataType::Utf8,
            (T_VAR, _, 3) => DataType::LargeUtf8,
            (T_VAR, _, 4) => DataType::BinaryView,
            (T_VAR, _, _) => DataType::Utf8View,
            (T_STRUCT, _, _) => DataType::Struct(self.kids.iter().enumerate()
                .map(|(i, k)| Field::new(format!("c{i}"), k.dtype(strip_dict), true)).collect::<Vec<_>>().into()),
            (T_LIST, _, v) => {
                let f = Arc::new(Field::new("item", self.kids[0].dtype(strip_dict), true));
                match v { 0 => DataType::List(f), 1 => DataType::LargeList(f), 2 => DataType::ListView(f), _ => DataType::LargeListView(f) }
            }
            (T_FSL, n, _) => DataType::FixedSizeList(Arc::new(Field::new("item", self.kids[0].dtype(strip_dict), true)), n as i32),
            (T_IV, 0, _) => DataType::Interval(IntervalUnit::DayTime),
            (T_IV, _, _) => DataType::Interval(IntervalUnit::MonthDayNano),
            (T_MAP, _, _) => DataType::Map(Arc::new(Field::new("entries", DataType::Struct(vec![
                Field::new("keys", self.kids[0].dtype(strip_dict), false), Field::new("values", self.kids[1].dtype(strip_dict), true)].into()), false)), false),
            (T_REE, _, v) => {
                let r = match v { 0 => DataType::Int16, 1 => DataType::Int32, _ => DataType::Int64 };
                DataType::RunEndEncoded(Arc::new(Field::new("run_ends", r, false)),
                    Arc::new(Field::new("values", self.kids[0].dtype(strip_dict), true)))
            }
            _ => panic!("bad type descriptor"),
        }
    }
    fn key_dtype(&self) -> DataType {
        match self.dict { 1 => DataType::Int8, 2 => DataType::Int32, 3 => DataType::UInt16, _ => DataType::Int64 }
    }
    fn dtype(&self, strip_dict: bool) -> DataType {
        let p = self.plain_dtype(strip_dict);
        if self.dict != 0 && !strip_dict { DataType::Dictionary(Box::new(self.key_dtype()), Box::new(p)) } else { p }
    }
    fn short(&self) -> String {
        let base = match self.code {
            T_INT => format!("i{}", self.param), T_UINT => format!("u{}", self.param), T_BOOL => "b".into(),
            T_FLOAT => format!("f{}", self.param), T_FSB => "fsb".into(), T_VAR => format!("v{}", self.variant),
            T_STRUCT => format!("S({})", self.kids.iter().map(|k| k.short()).collect::<Vec<_>>().join(",")),
            T_LIST => format!("L{}({})", self.variant, self.kids[0].short()),
            T_FSL => format!("F({})", self.kids[0].short()),
            T_IV => format!("iv{}", self.param),
            T_MAP => format!("M({},{})", self.kids[0].short(), self.kids[1].short()),
            _ => format!("R({})", self.kids[0].short()),
        };
        if self.dict != 0 { format!("D{base}") } else { base }
    }
}

fn write_val(ty: &Ty, v: &Val, out: &mut Vec<BigInt>) {
    if ty.code == T_REE { return write_val(&ty.kids[0], v, out); }
    if ty.code == T_MAP { return write_val(&Ty { code: T_LIST, param: 0, variant: 0, dict: 0, kids: vec![ty.entry_ty()] }, v, out); }
    match v {
        Val::Null => out.push(0.into()),
        Val::Int(z) => { out.push(1.into()); out.push(z.clone()); }
        Val::Bytes(b) => { out.push(1.into()); out.push(b.len().into()); out.extend(b.iter().map(|x| BigInt::from(*x))); }
        Val::Struct(vs) if ty.code == T_IV => { out.push(1.into()); for x in vs { let Val::Int(z) = x else { panic!("interval component") }; out.push(z.clone()); } }
        Val::Struct(vs) => { out.push(1.into()); for (k, x) in ty.kids.iter().zip(vs) { write_val(k, x, out); } }
        Val::List(vs) => { out.push(1.into()); out.push(vs.len().into()); for x in vs { write_val(&ty.kids[0], x, out); } }
    }
}

fn parse_val(ty: &Ty, t: &[BigInt], pos: &mut usize) -> Val {
    if ty.code == T_REE { return parse_val(&ty.kids[0], t, pos); }
    if ty.code == T_MAP { return parse_val(&Ty { code: T_LIST, param: 0, variant: 0, dict: 0, kids: vec![ty.entry_ty()] }, t, pos); }
    let tag = &t[*pos]; *pos += 1;
    if tag.is_zero() { return Val::Null; }
    match ty.code {
        T_INT | T_UINT | T_BOOL | T_FLOAT => { let z = t[*pos].clone(); *pos += 1; Val::Int(z) }
        T_FSB | T_VAR => {
            let n = t[*pos].to_usize().unwrap(); *pos += 1;
            let b = t[*pos..*pos + n].iter().map(|x| x.to_u8().unwrap()).collect(); *pos += n;
            Val::Bytes(b)
        }
        T_STRUCT => Val::Struct(ty.kids.iter().map(|k| parse_val(k, t, pos)).collect()),
        T_IV => { let k = iv_widths(ty.param).len(); let v = t[*pos..*pos + k].iter().map(|z| Val::Int(z.clone())).collect(); *pos += k; Val::Struct(v) }
        _ => { let n = t[*pos].to_usize().unwrap(); *pos += 1; Val::List((0..n).map(|_| parse_val(&ty.kids[0], t, pos)).collect()) }
    }
}

// ------------------------------------------------------------------------------------------ native values
trait Nat: Copy {
    fn to_big(self) -> BigInt;
    fn from_big(b: &BigInt) -> Self;
}
macro_rules! nat_int { ($($t:ty),*) => { $(impl Nat for $t {
    fn to_big(self) -> BigInt { BigInt::from(self) }
    fn from_big(b: &BigInt) -> Self { <$t>::try_from(b).expect("integer out of range") }
})* } }
nat_int!(i8, i16, i32, i64, i128, u8, u16, u32, u64);
impl Nat for i256 {
    fn to_big(self) -> BigInt { BigInt::from_signed_bytes_le(&self.to_le_bytes()) }
    fn from_big(b: &BigInt) -> Self {
        let mut bytes = b.to_signed_bytes_le();
        assert!(bytes.len() <= 32);
        let fill = if b.sign() == Sign::Minus { 0xFF } else { 0 };
        bytes.resize(32, fill);
        i256::from_le_bytes(bytes.try_into().unwrap())
    }
}
impl Nat for half::f16 {
    fn to_big(self) -> BigInt { BigInt::from(self.to_bits()) }
    fn from_big(b: &BigInt) -> Self { half::f16::from_bits(u16::try_from(b).unwrap()) }
}
impl Nat for f32 {
    fn to_big(self) -> BigInt { BigInt::from(self.to_bits()) }
    fn from_big(b: &BigInt) -> Self { f32::from_bits(u32::try_from(b).unwrap()) }
}
impl Nat for f64 {
    fn to_big(self) -> BigInt { BigInt::from(self.to_bits()) }
    fn from_big(b: &BigInt) -> Self { f64::from_bits(u64::try_from(b).unwrap()) }
}

macro_rules! prim_dispatch {
    ($ty:expr, $f:ident ( $($a:expr),* )) => {
        match ($ty.code, $ty.param, $ty.variant) {
            (T_INT, 1, _) => $f::<Int8Type>($($a),*),
            (T_INT, 2, _) => $f::<Int16Type>($($a),*),
            (T_INT, 4, 0) => $f::<Int32Type>($($a),*),
            (T_INT, 4, 1) => $f::<Date32Type>($($a),*),
            (T_INT, 4, 2) => $f::<Time32MillisecondType>($($a),*),
            (T_INT, 4, 3) => $f::<Decimal32Type>($($a),*),
            (T_INT, 4, _) => $f::<IntervalYearMonthType>($($a),*),
            (T_INT, 8, 0) => $f::<Int64Type>($($a),*),
            (T_INT, 8, 1) => $f::<Date64Type>($($a),*),
            (T_INT, 8, 2) => $f::<TimestampNanosecondType>($($a),*),
            (T_INT, 8, 3) => $f::<TimestampSecondType>($($a),*),
            (T_INT, 8, 4) => $f::<DurationMicrosecondType>($($a),*),
            (T_INT, 8, 5) => $f::<Time64NanosecondType>($($a),*),
            (T_INT, 8, _) => $f::<Decimal64Type>($($a),*),
            (T_INT, 16, _) => $f::<Decimal128Type>($($a),*),
            (T_INT, 32, _) => $f::<Decimal256Type>($($a),*),
            (T_UINT, 1, _) => $f::<UInt8Type>($($a),*),
            (T_UINT, 2, _) => $f::<UInt16Type>($($a),*),
            (T_UINT, 4, _) => $f::<UInt32Type>($($a),*),
            (T_UINT, 8, _) => $f::<UInt64Type>($($a),*),
            (T_FLOAT, 2, _) => $f::<Float16Type>($($a),*),
            (T_FLOAT, 4, _) => $f::<Float32Type>($($a),*),
            (T_FLOAT, 8, _) => $f::<Float64Type>($($a),*),
            _ => panic!("not a primitive type"),
        }
    };
}

fn nulls_of(vals: &[Val], g: &mut Rng) -> Option<NullBuffer> {
    let any = vals.iter().any(|v| *v == Val::Null);
    // a null buffer without nulls is also a layout of interest
    if any || g.chance(1, 4) { Some(NullBuffer::from(vals.iter().map(|v| *v != Val::Null).collect::<Vec<bool>>())) } else { None }
}

fn garbage_int(ty: &Ty, g: &mut Rng) -> BigInt {
    let w = ty.param;
    let bytes = g.bytes(w);
    if ty.code == T_INT { BigInt::from_signed_bytes_le(&bytes) } else { BigInt::from_bytes_le(Sign::Plus, &bytes) }
}

fn build_prim<T: ArrowPrimitiveType>(ty: &Ty, vals: &[Val], g: &mut Rng) -> ArrayRef where T::Native: Nat {
    let natives: Vec<T::Native> = vals.iter().map(|v| match v {
        Val::Int(z) => T::Native::from_big(z),
        _ => T::Native::from_big(&garbage_int(ty, g)),   // garbage under the null
    }).collect();
    let nulls = nulls_of(vals, g);
    Arc::new(PrimitiveArray::<T>::new(ScalarBuffer::from(natives), nulls).with_data_type(ty.plain_dtype(true)))
}

fn flat_prim<T: ArrowPrimitiveType>(arr: &dyn Array) -> Vec<Val> where T::Native: Nat {
    let a = arr.as_primitive::<T>();
    (0..a.len()).map(|i| if a.is_null(i) { Val::Null } else { Val::Int(a.value(i).to_big()) }).collect()
}

// ------------------------------------------------------------------------------------------ random values
fn pow2(k: usize) -> BigInt { BigInt::one() << k }

fn rand_int(ty: &Ty, g: &mut Rng) -> BigInt {
    let bits = 8 * ty.param;
    let (lo, hi): (BigInt, BigInt) = if ty.code == T_INT { (-pow2(bits - 1), pow2(bits - 1) - 1) } else { (BigInt::zero(), pow2(bits) - 1) };
    let cands: Vec<BigInt> = match g.below(12) {
        0 => vec![lo.clone()], 1 => vec![hi.clone()], 2 => vec![&lo + 1], 3 => vec![&hi - 1],
        4 => vec![0.into(), 1.into(), (-1).into(), 2.into()],
        5 => { // byte boundaries: +-2^(8k) and neighbours
            let k = 8 * (1 + g.below(ty.param)) - g.below(2);
            let b = pow2(k);
            vec![b.clone(), &b - 1, &b + 1, -b.clone(), -&b - 1, -&b + 1]
        }
        6 => vec![127.into(), 128.into(), 255.into(), 256.into(), (-128).into(), (-129).into(), (-256).into(), (-257).into()],
        _ => vec![garbage_int(ty, g)],
    };
    let c = cands[g.below(cands.len())].clone();
    if c < lo || c > hi { garbage_int(ty, g) } else { c }
}

fn rand_float_bits(w: usize, g: &mut Rng) -> BigInt {
    let bits = 8 * w;
    let (mant, exp) = match w { 2 => (10, 5), 4 => (23, 8), _ => (52, 11) };
    let one: BigInt = BigInt::one();
    let exp_all: BigInt = ((&one << exp) - BigInt::one()) << mant;      // exponent all ones = inf / nan
    let mant_all: BigInt = (&one << mant) - BigInt::one();
    let sign: BigInt = if g.bool() { &one << (bits - 1) } else { BigInt::zero() };
    let mag: BigInt = match g.below(14) {
        0 => BigInt::zero(),                          // +-0
        1 => exp_all.clone(),                         // +-inf
        2 => &exp_all + 1,                            // signalling NaN, payload 1
        3 => &exp_all + &mant_all,                    // NaN, all payload bits
        4 => &exp_all + (&one << (mant - 1)),         // canonical quiet NaN
        5 => &exp_all + (&one << (mant - 1)) + g.below(1000.min(1usize << (mant - 1))),
        6 => one.clone(),                             // min subnormal
        7 => mant_all.clone(),                        // max subnormal
        8 => &one << mant,                            // min normal
        9 => &exp_all - 1,                            // max finite
        10 => ((&one << (exp - 1)) - 1) << mant,      // 1.0
        11 => (((&one << (exp - 1)) - 1) << mant) + g.below(3),
        _ => BigInt::from_bytes_le(Sign::Plus, &g.bytes(w)) % (&one << (bits - 1)),
    };
    sign + mag
}

const BYTE_SET: [u8; 5] = [0x00, 0x01, 0x02, 0xFE, 0xFF];
fn rand_len(g: &mut Rng, big: bool) -> usize {
    match g.below(10) {
        0..=4 => g.below(71),
        5 => [0, 1, 7, 8, 9, 15, 16, 17, 23, 24, 25, 31, 32, 33, 39, 40, 41][g.below(17)],
        6 | 7 => { let k = 1 + g.below(if big { 9 } else { 4 }); (32 * k + g.below(5)).saturating_sub(2) }   // 32k-2 ..= 32k+2
        8 => 32 + [0usize, 1, 31, 32, 33, 63, 64, 65][g.below(8)],
        _ => g.below(6),
    }
}
fn rand_byte(g: &mut Rng, mode: usize) -> u8 {
    match mode { 0 => BYTE_SET[g.below(5)], 1 => 0, 2 => 0xFF, 3 => if g.chance(3, 4) { BYTE_SET[g.below(5)] } else { g.next() as u8 }, _ => g.next() as u8 }
}
fn rand_bytes(g: &mut Rng, len: usize) -> Vec<u8> {
    let mode = g.below(6);
    (0..len).map(|_| rand_byte(g, mode)).collect()
}
const CHAR_SET: [char; 12] = ['\0', '\u{1}', '\u{2}', 'a', '\u{7f}', '\u{80}', '\u{ff}', '\u{7ff}', '\u{800}', '\u{ffff}', '\u{10000}', '\u{10ffff}'];
fn rand_utf8(g: &mut Rng, len: usize) -> Vec<u8> {
    let mode = g.below(4);
    let mut s = String::new();
    while s.len() < len {
        let c = match mode { 0 => CHAR_SET[g.below(4)], 1 => CHAR_SET[g.below(12)], 2 => '\0', _ => (32 + g.below(95) as u8) as char };
        if s.len() + c.len_utf8() <= len { s.push(c); } else { s.push(['\0', '\u{1}', '\u{2}', 'z'][g.below(4)]); }
    }
    s.into_bytes()
}
/// a value related to `b`: proper prefixes / extensions with 0x00 or 0xFF / last byte changed /
/// cut or extended at a block boundary — the pairs on which the block encoding decides the order
fn mutate_bytes(b: &[u8], g: &mut Rng, utf8: bool) -> Vec<u8> {
    let mut v = b.to_vec();
    let ext = |g: &mut Rng| -> u8 { if utf8 { [0u8, 1, 2, 0x7f][g.below(4)] } else { [0u8, 0, 1, 0xFE, 0xFF, 0xFF][g.below(6)] } };
    match g.below(8) {
        0 => { let k = 1 + g.below(3); for _ in 0..k { let e = ext(g); v.push(e); } }
        1 => { let k = 1 + g.below(3); for _ in 0..k { v.push(0); } }
        2 => { if !v.is_empty() { let k = 1 + g.below(v.len().min(3)); v.truncate(v.len() - k); } }
        3 => { let t = [7usize, 8, 9, 16, 24, 31, 32, 33, 40, 63, 64, 65][g.below(12)]; if v.len() > t { v.truncate(t) } else { while v.len() < t { let e = ext(g); v.push(e); } } }
        4 => { if let Some(l) = v.last_mut() { *l = if utf8 { (*l ^ 1) & 0x7f } else { l.wrapping_add(if g.bool() { 1 } else { 0xFF }) }; } }
        5 => { if !v.is_empty() { let i = g.below(v.len()); v[i] = if utf8 { (v[i] ^ 1) & 0x7f } else { rand_byte(g, 0) }; } }
        6 => { let e = ext(g); v.push(e); let t = ((v.len() + 31) / 32) * 32 + g.below(2); while v.len() < t { v.push(if utf8 { 0 } else { [0u8, 0xFF][g.below(2)] }); } }
        _ => {}
    }
    if utf8 { sanitize_utf8(v) } else { v }
}
fn sanitize_utf8(v: Vec<u8>) -> Vec<u8> {
    match String::from_utf8(v) {
        Ok(s) => s.into_bytes(),
        Err(e) => e.into_bytes().into_iter().map(|b| if b < 0x80 { b } else { b'?' }).collect(),
    }
}

struct GenCfg { null_pct: u32, big: bool }

fn rand_val(ty: &Ty, g: &mut Rng, c: &GenCfg) -> Val {
    if ty.code == T_REE { return rand_val(&ty.kids[0], g, c); }
    if g.chance(c.null_pct, 100) { return Val::Null; }
    match ty.code {
        T_INT | T_UINT => Val::Int(rand_int(ty, g)),
        T_BOOL => Val::Int(g.below(2).into()),
        T_FLOAT => Val::Int(rand_float_bits(ty.param, g)),
        T_FSB => Val::Bytes(rand_bytes(g, ty.param)),
        T_VAR => { let n = rand_len(g, c.big); Val::Bytes(if ty.is_utf8() { rand_utf8(g, n) } else { rand_bytes(g, n) }) }
        T_STRUCT => Val::Struct(ty.kids.iter().map(|k| rand_val(k, g, c)).collect()),
        T_LIST => { let n = [0, 0, 1, 1, 2, 3, 5][g.below(7)]; rand_list(&ty.kids[0], n, g, c) }
        T_IV => Val::Struct(iv_widths(ty.param).iter().map(|w| Val::Int(rand_comp(*w, g))).collect()),
        T_MAP => { let n = [0, 0, 1, 1, 2, 3][g.below(6)]; Val::List((0..n).map(|_| rand_entry(ty, g, c)).collect()) }
        _ => rand_list(&ty.kids[0], ty.param, g, c),
    }
}
/// a signed interval component: extremes, small values of both signs, random
fn rand_comp(w: usize, g: &mut Rng) -> BigInt {
    let bits = 8 * w;
    match g.below(8) {
        0 => -pow2(bits - 1), 1 => pow2(bits - 1) - 1, 2 => BigInt::zero(), 3 => BigInt::from(-1), 4 => BigInt::one(),
        5 => BigInt::from(g.range(-3, 3)),
        _ => BigInt::from_signed_bytes_le(&g.bytes(w)),
    }
}
/// a map entry: the key is never null
fn rand_entry(ty: &Ty, g: &mut Rng, c: &GenCfg) -> Val {
    Val::Struct(vec![rand_val(&ty.kids[0], g, &GenCfg { null_pct: 0, big: c.big }), rand_val(&ty.kids[1], g, c)])
}
fn rand_list(kid: &Ty, n: usize, g: &mut Rng, c: &GenCfg) -> Val {
    let mut vs: Vec<Val> = Vec::new();
    for i in 0..n {
        let v = if i > 0 && g.chance(1, 3) { vs[i - 1].clone() } else { rand_val(kid, g, c) };
        vs.push(v);
    }
    Val::List(vs)
}
/// a value close to `v` (same prefix, one component changed, shorter / longer list …)
fn mutate_val(ty: &Ty, v: &Val, g: &mut Rng, c: &GenCfg) -> Val {
    if ty.code == T_REE { return mutate_val(&ty.kids[0], v, g, c); }
    match (ty.code, v) {
        (T_INT | T_UINT, Val::Int(z)) => {
            let bits = 8 * ty.param;
            let (lo, hi): (BigInt, BigInt) = if ty.code == T_INT { (-pow2(bits - 1), pow2(bits - 1) - 1) } else { (BigInt::zero(), pow2(bits) - 1) };
            let d: BigInt = match g.below(4) { 0 => 1.into(), 1 => (-1).into(), 2 => pow2(8 * g.below(ty.param)), _ => -pow2(8 * g.below(ty.param)) };
            let n = z + d;
            Val::Int(if n < lo || n > hi { z.clone() } else { n })
        }
        (T_FLOAT, Val::Int(z)) => {
            let bits = 8 * ty.param;
            let n: BigInt = match g.below(4) { 0 => z + 1, 1 => z - 1, 2 => z ^ pow2(bits - 1), _ => z ^ pow2(g.below(bits)) };
            Val::Int(if n.sign() == Sign::Minus || n >= pow2(bits) { z.clone() } else { n })
        }
        (T_FSB, Val::Bytes(b)) => { let mut b = b.clone(); if !b.is_empty() { let i = if g.bool() { b.len() - 1 } else { g.below(b.len()) }; b[i] = b[i].wrapping_add(if g.bool() { 1 } else { 0xFF }); } Val::Bytes(b) }
        (T_VAR, Val::Bytes(b)) => Val::Bytes(mutate_bytes(b, g, ty.is_utf8())),
        (T_STRUCT, Val::Struct(vs)) if !vs.is_empty() => {
            let mut vs = vs.clone();
            let i = if g.bool() { vs.len() - 1 } else { g.below(vs.len()) };
            vs[i] = mutate_val(&ty.kids[i], &vs[i], g, c);
            Val::Struct(vs)
        }
        (T_LIST, Val::List(vs)) => {
            let mut vs = vs.clone();
            match g.below(4) {
                0 => { vs.pop(); }
                1 => { let e = if g.bool() { Val::Null } else { rand_val(&ty.kids[0], g, c) }; vs.push(e); }
                _ => if !vs.is_empty() { let i = if g.bool() { vs.len() - 1 } else { g.below(vs.len()) }; vs[i] = mutate_val(&ty.kids[0], &vs[i], g, c); }
            }
            Val::List(vs)
        }
        (T_IV, Val::Struct(vs)) => {
            // keep the leading components, change a trailing one: sign flipped, extreme, or +-1
            let ws = iv_widths(ty.param);
            let mut vs = vs.clone();
            let i = if g.chance(2, 3) { ws.len() - 1 } else { g.below(ws.len()) };
            let bits = 8 * ws[i];
            if let Val::Int(z) = &vs[i] {
                let n: BigInt = match g.below(6) { 0 => -z.clone(), 1 => -z.clone() - 1, 2 => z + 1, 3 => z - 1, 4 => -pow2(bits - 1), _ => pow2(bits - 1) - 1 };
                vs[i] = Val::Int(if n < -pow2(bits - 1) || n >= pow2(bits - 1) { z.clone() } else { n });
            }
            Val::Struct(vs)
        }
        (T_MAP, Val::List(vs)) => {
            let mut vs = vs.clone();
            match g.below(4) {
                0 => { vs.pop(); }
                1 => { let e = rand_entry(ty, g, c); vs.push(e); }
                _ => if !vs.is_empty() {
                    let i = if g.bool() { vs.len() - 1 } else { g.below(vs.len()) };
                    if let Val::Struct(kv) = &vs[i] {
                        let mut kv = kv.clone();
                        if g.bool() { let k = mutate_val(&ty.kids[0], &kv[0], g, &GenCfg { null_pct: 0, big: c.big }); if k != Val::Null { kv[0] = k; } }
                        else { kv[1] = mutate_val(&ty.kids[1], &kv[1], g, c); }
                        vs[i] = Val::Struct(kv);
                    }
                }
            }
            Val::List(vs)
        }
        (T_FSL, Val::List(vs)) if !vs.is_empty() => {
            let mut vs = vs.clone();
            let i = if g.bool() { vs.len() - 1 } else { g.below(vs.len()) };
            vs[i] = mutate_val(&ty.kids[0], &vs[i], g, c);
            Val::List(vs)
        }
        _ => rand_val(ty, g, c),
    }
}

// ------------------------------------------------------------------------------------------ building arrays
const GARBAGE: GenCfg = GenCfg { null_pct: 15, big: false };

fn build(ty: &Ty, vals: &[Val], g: &mut Rng) -> ArrayRef {
    if ty.dict != 0 { return build_dict(ty, vals, g); }
    let n = vals.len();
    match ty.code {
        T_INT | T_UINT | T_FLOAT => prim_dispatch!(ty, build_prim(ty, vals, g)),
        T_BOOL => {
            let bits: Vec<bool> = vals.iter().map(|v| match v { Val::Int(z) => !z.is_zero(), _ => g.bool() }).collect();
            let nulls = nulls_of(vals, g);
            Arc::new(BooleanArray::new(BooleanBuffer::from(bits), nulls))
        }
        T_FSB => {
            let mut buf = Vec::with_capacity(n * ty.param);
            for v in vals { match v { Val::Bytes(b) => { assert_eq!(b.len(), ty.param); buf.extend_from_slice(b) } _ => buf.extend(g.bytes(ty.param)) } }
            let nulls = nulls_of(vals, g);
            Arc::new(FixedSizeBinaryArray::try_new_with_len(ty.param as i32, Buffer::from(buf), nulls, n).unwrap())
        }
        T_VAR => {
            let utf8 = ty.is_utf8();
            // physical bytes: garbage (non-empty most of the time) under nulls
            let phys: Vec<Vec<u8>> = vals.iter().map(|v| match v {
                Val::Bytes(b) => b.clone(),
                _ => { let l = g.below(4); if utf8 { rand_utf8(g, l) } else { rand_bytes(g, l) } }
            }).collect();
            let nulls = nulls_of(vals, g);
            if ty.variant >= 4 {
                // views: built through the builders (inline / out-of-line decided by length)
                if utf8 {
                    let mut b = arrow_array::builder::StringViewBuilder::new();
                    if g.bool() { b = b.with_fixed_block_size(64); }
                    for (p, v) in phys.iter().zip(vals) { if *v == Val::Null { b.append_null() } else { b.append_value(std::str::from_utf8(p).unwrap()) } }
                    Arc::new(b.finish())
                } else {
                    let mut b = arrow_array::builder::BinaryViewBuilder::new();
                    if g.bool() { b = b.with_fixed_block_size(64); }
                    for (p, v) in phys.iter().zip(vals) { if *v == Val::Null { b.append_null() } else { b.append_value(p) } }
                    Arc::new(b.finish())
                }
            } else {
                let lead = if g.chance(1, 3) { g.below(5) } else { 0 };   // unreferenced bytes before the first offset
                let mut data: Vec<u8> = if utf8 { rand_utf8(g, lead) } else { g.bytes(lead) };
                let mut offs: Vec<usize> = vec![data.len()];
                for p in &phys { data.extend_from_slice(p); offs.push(data.len()); }
                if g.chance(1, 3) { data.extend(if utf8 { rand_utf8(g, 3) } else { g.bytes(3) }); }
                match ty.variant {
                    0 => Arc::new(BinaryArray::try_new(OffsetBuffer::new(offs.iter().map(|o| *o as i32).collect()), Buffer::from(data), nulls).unwrap()),
                    1 => Arc::new(LargeBinaryArray::try_new(OffsetBuffer::new(offs.iter().map(|o| *o as i64).collect()), Buffer::from(data), nulls).unwrap()),
                    2 => Arc::new(StringArray::try_new(OffsetBuffer::new(offs.iter().map(|o| *o as i32).collect()), Buffer::from(data), nulls).unwrap()),
                    _ => Arc::new(LargeStringArray::try_new(OffsetBuffer::new(offs.iter().map(|o| *o as i64).collect()), Buffer::from(data), nulls).unwrap()),
                }
            }
        }
        T_STRUCT => {
            let nulls = nulls_of(vals, g);
            if ty.kids.is_empty() { return Arc::new(StructArray::new_empty_fields(n, nulls)); }
            let DataType::Struct(fields) = ty.dtype(false) else { unreachable!() };
            let cols: Vec<ArrayRef> = ty.kids.iter().enumerate().map(|(k, kt)| {
                // children of a null struct hold arbitrary (also non-null) values
                let col: Vec<Val> = vals.iter().map(|v| match v { Val::Struct(vs) => vs[k].clone(), _ => rand_val(kt, g, &GARBAGE) }).collect();
                build_sliced(kt, &col, g)
            }).collect();
            Arc::new(StructArray::try_new_with_length(fields, cols, nulls, n).unwrap())
        }
        T_LIST => {
            let kt = &ty.kids[0];
            // physical element lists: garbage elements under null lists
            let phys: Vec<Vec<Val>> = vals.iter().map(|v| match v {
                Val::List(vs) => vs.clone(),
                _ => (0..g.below(3)).map(|_| rand_val(kt, g, &GARBAGE)).collect(),
            }).collect();
            let nulls = nulls_of(vals, g);
            let (DataType::List(field) | DataType::LargeList(field) | DataType::ListView(field) | DataType::LargeListView(field)) = ty.dtype(false) else { unreachable!() };
            if ty.variant < 2 {
                let mut elems: Vec<Val> = (0..if g.chance(1, 3) { g.below(4) } else { 0 }).map(|_| rand_val(kt, g, &GARBAGE)).collect();
                let mut offs = vec![elems.len()];
                for p in &phys { elems.extend(p.iter().cloned()); offs.push(elems.len()); }
                if g.chance(1, 3) { elems.push(rand_val(kt, g, &GARBAGE)); }
                let child = build_sliced(kt, &elems, g);
                if ty.variant == 0 {
                    Arc::new(ListArray::try_new(field, OffsetBuffer::new(offs.iter().map(|o| *o as i32).collect()), child, nulls).unwrap())
                } else {
                    Arc::new(LargeListArray::try_new(field, OffsetBuffer::new(offs.iter().map(|o| *o as i64).collect()), child, nulls).unwrap())
                }
            } else {
                // list views: regions in arbitrary order, gaps, shared regions for equal lists
                let mut order: Vec<usize> = (0..n).collect();
                for i in (1..n).rev() { let j = g.below(i + 1); order.swap(i, j); }
                let mut elems: Vec<Val> = (0..if g.chance(1, 2) { g.below(3) } else { 0 }).map(|_| rand_val(kt, g, &GARBAGE)).collect();
                let mut offs = vec![0usize; n]; let mut sizes = vec![0usize; n];
                let mut placed: Vec<usize> = Vec::new();
                for &i in &order {
                    sizes[i] = phys[i].len();
                    if let Some(&j) = placed.iter().find(|&&j| phys[j] == phys[i] && !phys[i].is_empty()) { if g.bool() { offs[i] = offs[j]; placed.push(i); continue; } }
                    if phys[i].is_empty() { offs[i] = g.below(elems.len() + 1); } else { offs[i] = elems.len(); elems.extend(phys[i].iter().cloned()); }
                    if g.chance(1, 4) { elems.push(rand_val(kt, g, &GARBAGE)); }
                    placed.push(i);
                }
                let child = build_sliced(kt, &elems, g);
                if ty.variant == 2 {
                    Arc::new(ListViewArray::try_new(field, offs.iter().map(|o| *o as i32).collect(), sizes.iter().map(|o| *o as i32).collect(), child, nulls).unwrap())
                } else {
                    Arc::new(LargeListViewArray::try_new(field, offs.iter().map(|o| *o as i64).collect(), sizes.iter().map(|o| *o as i64).collect(), child, nulls).unwrap())
                }
            }
        }
        T_IV => {
            let comp = |v: &Val, k: usize, g: &mut Rng| -> BigInt { match v { Val::Struct(vs) => match &vs[k] { Val::Int(z) => z.clone(), _ => panic!("interval component") },
                                                                        _ => BigInt::from_signed_bytes_le(&g.bytes(iv_widths(ty.param)[k])) } };
            let nulls = nulls_of(vals, g);
            if ty.param == 0 {
                let v: Vec<arrow_buffer::IntervalDayTime> = vals.iter().map(|x| arrow_buffer::IntervalDayTime::new(i32::from_big(&comp(x, 0, g)), i32::from_big(&comp(x, 1, g)))).collect();
                Arc::new(IntervalDayTimeArray::new(ScalarBuffer::from(v), nulls))
            } else {
                let v: Vec<arrow_buffer::IntervalMonthDayNano> = vals.iter().map(|x| arrow_buffer::IntervalMonthDayNano::new(i32::from_big(&comp(x, 0, g)), i32::from_big(&comp(x, 1, g)), i64::from_big(&comp(x, 2, g)))).collect();
                Arc::new(IntervalMonthDayNanoArray::new(ScalarBuffer::from(v), nulls))
            }
        }
        T_MAP => {
            let phys: Vec<Vec<Val>> = vals.iter().map(|v| match v {
                Val::List(vs) => vs.clone(),
                _ => (0..g.below(3)).map(|_| rand_entry(ty, g, &GARBAGE)).collect(),
            }).collect();
            let nulls = nulls_of(vals, g);
            let mut elems: Vec<Val> = (0..if g.chance(1, 3) { g.below(3) } else { 0 }).map(|_| rand_entry(ty, g, &GARBAGE)).collect();
            let mut offs = vec![elems.len()];
            for p in &phys { elems.extend(p.iter().cloned()); offs.push(elems.len()); }
            if g.chance(1, 3) { let e = rand_entry(ty, g, &GARBAGE); elems.push(e); }
            let col = |k: usize| -> Vec<Val> { elems.iter().map(|e| match e { Val::Struct(kv) => kv[k].clone(), _ => unreachable!() }).collect() };
            let keys = build(&ty.kids[0], &col(0), g);
            let values = build_sliced(&ty.kids[1], &col(1), g);
            let DataType::Map(field, _) = ty.dtype(false) else { unreachable!() };
            let DataType::Struct(efields) = field.data_type().clone() else { unreachable!() };
            let entries = StructArray::try_new(efields, vec![keys, values], None).unwrap();
            Arc::new(MapArray::try_new(field, OffsetBuffer::new(offs.iter().map(|o| *o as i32).collect()), entries, nulls, false).unwrap())
        }
        T_FSL => {
            let kt = &ty.kids[0];
            let mut elems: Vec<Val> = Vec::new();
            for v in vals { match v {
                Val::List(vs) => { assert_eq!(vs.len(), ty.param); elems.extend(vs.iter().cloned()) }
                _ => for _ in 0..ty.param { elems.push(rand_val(kt, g, &GARBAGE)) }
            } }
            let nulls = nulls_of(vals, g);
            let DataType::FixedSizeList(field, _) = ty.dtype(false) else { unreachable!() };
            let child = build(kt, &elems, g);
            Arc::new(FixedSizeListArray::try_new_with_length(field, ty.param as i32, child, nulls, n).unwrap())
        }
        T_REE => {
            let kt = &ty.kids[0];
            let mut run_vals: Vec<Val> = Vec::new(); let mut ends: Vec<usize> = Vec::new();
            for (i, v) in vals.iter().enumerate() {
                if i > 0 && run_vals.last() == Some(v) && g.chance(3, 4) { *ends.last_mut().unwrap() = i + 1; }
                else { run_vals.push(v.clone()); ends.push(i + 1); }
            }
            let values = build(kt, &run_vals, g);
            match ty.variant {
                0 => Arc::new(RunArray::<Int16Type>::try_new(&Int16Array::from(ends.iter().map(|e| *e as i16).collect::<Vec<_>>()), &values).unwrap()),
                1 => Arc::new(RunArray::<Int32Type>::try_new(&Int32Array::from(ends.iter().map(|e| *e as i32).collect::<Vec<_>>()), &values).unwrap()),
                _ => Arc::new(RunArray::<Int64Type>::try_new(&Int64Array::from(ends.iter().map(|e| *e as i64).collect::<Vec<_>>()), &values).unwrap()),
            }
        }
        _ => panic!("bad type"),
    }
}

/// child arrays: sometimes built longer and sliced (non-zero child offsets)
fn build_sliced(ty: &Ty, vals: &[Val], g: &mut Rng) -> ArrayRef {
    if g.chance(1, 3) {
        let pre = 1 + g.below(3); let post = g.below(2);
        let mut full: Vec<Val> = (0..pre).map(|_| rand_val(ty, g, &GARBAGE)).collect();
        full.extend(vals.iter().cloned());
        for _ in 0..post { full.push(rand_val(ty, g, &GARBAGE)); }
        build(ty, &full, g).slice(pre, vals.len())
    } else { build(ty, vals, g) }
}

fn build_dict(ty: &Ty, vals: &[Val], g: &mut Rng) -> ArrayRef {
    let mut plain = ty.clone(); plain.dict = 0;
    // dictionary entries: the distinct values (sometimes duplicated), unused garbage entries, maybe a null entry
    let mut entries: Vec<Val> = Vec::new();
    for v in vals { if *v != Val::Null && (!entries.contains(v) || g.chance(1, 8)) { entries.push(v.clone()); } }
    for _ in 0..g.below(3) { entries.push(rand_val(&plain, g, &GenCfg { null_pct: 0, big: false })); }
    let null_entry = g.bool();
    if null_entry { entries.push(Val::Null); }
    if entries.is_empty() { entries.push(rand_val(&plain, g, &GenCfg { null_pct: 0, big: false })); }
    for i in (1..entries.len()).rev() { let j = g.below(i + 1); entries.swap(i, j); }
    let cap = match ty.dict { 1 => 127, _ => usize::MAX };
    if entries.len() > cap { // Int8 keys: fall back to exactly the distinct values
        entries.clear();
        for v in vals { if *v != Val::Null && !entries.contains(v) { entries.push(v.clone()); } }
        entries.push(Val::Null);
        assert!(entries.len() <= cap);
    }
    let null_pos = entries.iter().position(|e| *e == Val::Null);
    let mut key_valid: Vec<bool> = Vec::new(); let mut keys: Vec<usize> = Vec::new();
    for v in vals {
        if *v == Val::Null {
            match null_pos { Some(p) if g.bool() => { key_valid.push(true); keys.push(p) } _ => { key_valid.push(false); keys.push(g.below(entries.len())) } }
        } else {
            let cands: Vec<usize> = entries.iter().enumerate().filter(|(_, e)| *e == v).map(|(i, _)| i).collect();
            key_valid.push(true); keys.push(cands[g.below(cands.len())]);
        }
    }
    let nulls = if key_valid.iter().all(|b| *b) && g.bool() { None } else { Some(NullBuffer::from(key_valid)) };
    let values = build_sliced(&plain, &entries, g);
    match ty.dict {
        1 => Arc::new(DictionaryArray::<Int8Type>::try_new(Int8Array::new(keys.iter().map(|k| *k as i8).collect(), nulls), values).unwrap()),
        2 => Arc::new(DictionaryArray::<Int32Type>::try_new(Int32Array::new(keys.iter().map(|k| *k as i32).collect(), nulls), values).unwrap()),
        3 => Arc::new(DictionaryArray::<UInt16Type>::try_new(UInt16Array::new(keys.iter().map(|k| *k as u16).collect(), nulls), values).unwrap()),
        _ => Arc::new(DictionaryArray::<Int64Type>::try_new(Int64Array::new(keys.iter().map(|k| *k as i64).collect(), nulls), values).unwrap()),
    }
}

// ------------------------------------------------------------------------------------------ arrays -> logical values
fn flatten(ty: &Ty, arr: &dyn Array) -> Vec<Val> {
    let n = arr.len();
    if let DataType::Dictionary(_, _) = arr.data_type() {
        let d = arr.as_any_dictionary();
        let mut plain = ty.clone(); plain.dict = 0;
        let vals = flatten(&plain, d.values().as_ref());
        let keys = d.normalized_keys();
        return (0..n).map(|i| if d.keys().is_null(i) { Val::Null } else { vals[keys[i]].clone() }).collect();
    }
    match ty.code {
        T_INT | T_UINT | T_FLOAT => { assert_eq!(arr.data_type(), &ty.plain_dtype(true)); prim_dispatch!(ty, flat_prim(arr)) }
        T_BOOL => { let a = arr.as_boolean(); (0..n).map(|i| if a.is_null(i) { Val::Null } else { Val::Int((a.value(i) as u8).into()) }).collect() }
        T_FSB => { let a = arr.as_fixed_size_binary(); assert_eq!(a.value_length() as usize, ty.param);
                   (0..n).map(|i| if a.is_null(i) { Val::Null } else { Val::Bytes(a.value(i).to_vec()) }).collect() }
        T_VAR => {
            assert_eq!(arr.data_type(), &ty.plain_dtype(true));
            let get = |i: usize| -> Vec<u8> { match ty.variant {
                0 => arr.as_binary::<i32>().value(i).to_vec(), 1 => arr.as_binary::<i64>().value(i).to_vec(),
                2 => arr.as_string::<i32>().value(i).as_bytes().to_vec(), 3 => arr.as_string::<i64>().value(i).as_bytes().to_vec(),
                4 => arr.as_binary_view().value(i).to_vec(), _ => arr.as_string_view().value(i).as_bytes().to_vec() } };
            (0..n).map(|i| if arr.is_null(i) { Val::Null } else { Val::Bytes(get(i)) }).collect()
        }
        T_STRUCT => {
            let a = arr.as_struct();
            assert_eq!(a.num_columns(), ty.kids.len());
            let cols: Vec<Vec<Val>> = ty.kids.iter().enumerate().map(|(k, kt)| flatten(kt, a.column(k).as_ref())).collect();
            (0..n).map(|i| if a.is_null(i) { Val::Null } else { Val::Struct(cols.iter().map(|c| c[i].clone()).collect()) }).collect()
        }
        T_LIST => {
            let kt = &ty.kids[0];
            let (child, ranges): (Vec<Val>, Vec<(usize, usize)>) = match ty.variant {
                0 => { let a = arr.as_list::<i32>(); (flatten(kt, a.values().as_ref()), (0..n).map(|i| (a.value_offsets()[i] as usize, a.value_offsets()[i + 1] as usize)).collect()) }
                1 => { let a = arr.as_list::<i64>(); (flatten(kt, a.values().as_ref()), (0..n).map(|i| (a.value_offsets()[i] as usize, a.value_offsets()[i + 1] as usize)).collect()) }
                2 => { let a = arr.as_list_view::<i32>(); (flatten(kt, a.values().as_ref()), (0..n).map(|i| (a.value_offsets()[i] as usize, (a.value_offsets()[i] + a.value_sizes()[i]) as usize)).collect()) }
                _ => { let a = arr.as_list_view::<i64>(); (flatten(kt, a.values().as_ref()), (0..n).map(|i| (a.value_offsets()[i] as usize, (a.value_offsets()[i] + a.value_sizes()[i]) as usize)).collect()) }
            };
            (0..n).map(|i| if arr.is_null(i) { Val::Null } else { Val::List(child[ranges[i].0..ranges[i].1].to_vec()) }).collect()
        }
        T_IV => {
            assert_eq!(arr.data_type(), &ty.plain_dtype(true));
            if ty.param == 0 {
                let a = arr.as_primitive::<IntervalDayTimeType>();
                (0..n).map(|i| if a.is_null(i) { Val::Null } else { let v = a.value(i); Val::Struct(vec![Val::Int(v.days.into()), Val::Int(v.milliseconds.into())]) }).collect()
            } else {
                let a = arr.as_primitive::<IntervalMonthDayNanoType>();
                (0..n).map(|i| if a.is_null(i) { Val::Null } else { let v = a.value(i); Val::Struct(vec![Val::Int(v.months.into()), Val::Int(v.days.into()), Val::Int(v.nanoseconds.into())]) }).collect()
            }
        }
        T_MAP => {
            let a = arr.as_map();
            let keys = flatten(&ty.kids[0], a.keys().as_ref());
            let values = flatten(&ty.kids[1], a.values().as_ref());
            let o = a.value_offsets();
            (0..n).map(|i| if a.is_null(i) { Val::Null } else {
                Val::List((o[i] as usize..o[i + 1] as usize).map(|j| Val::Struct(vec![keys[j].clone(), values[j].clone()])).collect()) }).collect()
        }
        T_FSL => {
            let a = arr.as_fixed_size_list(); assert_eq!(a.value_length() as usize, ty.param);
            let child = flatten(&ty.kids[0], a.values().as_ref());
            (0..n).map(|i| if a.is_null(i) { Val::Null } else { let o = a.value_offset(i) as usize; Val::List(child[o..o + ty.param].to_vec()) }).collect()
        }
        T_REE => {
            fn go<R: RunEndIndexType>(ty: &Ty, arr: &dyn Array) -> Vec<Val> {
                let a = arr.as_any().downcast_ref::<RunArray<R>>().expect("run array");
                let vals = flatten(&ty.kids[0], a.values().as_ref());
                (0..a.len()).map(|i| vals[a.get_physical_index(i)].clone()).collect()
            }
            match ty.variant { 0 => go::<Int16Type>(ty, arr), 1 => go::<Int32Type>(ty, arr), _ => go::<Int64Type>(ty, arr) }
        }
        _ => panic!("bad type"),
    }
}

// ------------------------------------------------------------------------------------------ batches
pub struct Batch { tys: Vec<Ty>, opts: Vec<SortOptions>, rows: Vec<Vec<Val>>, prefix: usize, suffix: usize, seed: u64, split: usize, mode: u64, sel: Vec<usize>,
                   /// mode bit 4: rows bk..bk+bm are taken from `from_binary(try_into_binary().slice(bk, bm))` (non-zero first offset)
                   bk: usize, bm: usize }

impl Batch {
    fn to_args(&self) -> Args {
        let mut t = Vec::new(); for ty in &self.tys { ty.write(&mut t); }
        let o: Group = self.opts.iter().flat_map(|o| [BigInt::from(o.descending as u8), BigInt::from(o.nulls_first as u8)]).collect();
        let mut v = Vec::new();
        for r in &self.rows { for (ty, x) in self.tys.iter().zip(r) { write_val(ty, x, &mut v); } }
        vec![t, o, g(self.rows.len()), v,
             vec![self.prefix.into(), self.suffix.into(), self.seed.into(), self.split.into(), self.mode.into(), self.bk.into(), self.bm.into()],
             self.sel.iter().map(|i| BigInt::from(*i)).collect()]
    }
    fn from_args(a: &Args) -> Batch {
        let t = to_i64s(&a[0]);
        let mut pos = 0; let mut tys = Vec::new();
        while pos < t.len() { tys.push(Ty::parse(&t, &mut pos)); }
        let o = to_i64s(&a[1]);
        let opts = o.chunks(2).map(|c| SortOptions { descending: c[0] != 0, nulls_first: c[1] != 0 }).collect();
        let n = to_usize(&a[2]);
        let mut p = 0;
        let rows = (0..n).map(|_| tys.iter().map(|ty| parse_val(ty, &a[3], &mut p)).collect()).collect();
        assert_eq!(p, a[3].len());
        let l = &a[4];
        Batch { tys, opts, rows, prefix: l[0].to_usize().unwrap(), suffix: l[1].to_usize().unwrap(), seed: l[2].to_u64().unwrap(),
                split: l[3].to_usize().unwrap(), mode: l[4].to_u64().unwrap(), sel: a[5].iter().map(|x| x.to_usize().unwrap()).collect(),
                bk: l.get(5).map(|x| x.to_usize().unwrap()).unwrap_or(0), bm: l.get(6).map(|x| x.to_usize().unwrap()).unwrap_or(0) }
    }
    fn fields(&self) -> Vec<SortField> {
        self.tys.iter().zip(&self.opts).map(|(t, o)| SortField::new_with_options(t.dtype(false), *o)).collect()
    }
    /// the physical columns (sliced out of longer arrays), and a self-check that they hold the logical values
    fn columns(&self) -> Option<Vec<ArrayRef>> {
        let mut g = Rng::new(self.seed);
        let n = self.rows.len();
        let mut cols = Vec::new();
        for (k, ty) in self.tys.iter().enumerate() {
            let mut full: Vec<Val> = (0..self.prefix).map(|_| rand_val(ty, &mut g, &GARBAGE)).collect();
            full.extend(self.rows.iter().map(|r| r[k].clone()));
            for _ in 0..self.suffix { full.push(rand_val(ty, &mut g, &GARBAGE)); }
            let arr = build(ty, &full, &mut g).slice(self.prefix, n);
            let back = flatten(ty, arr.as_ref());
            if back.len() != n || back.iter().zip(&self.rows).any(|(b, r)| *b != r[k]) { return None; }
            cols.push(arr);
        }
        Some(cols)
    }
}

fn slice_cols(cols: &[ArrayRef], off: usize, len: usize) -> Vec<ArrayRef> { cols.iter().map(|c| c.slice(off, len)).collect() }
fn sign(o: std::cmp::Ordering) -> BigInt { BigInt::from(o as i8) }
const E_HARNESS: i64 = 99; // the harness failed to build arrays holding the requested logical values

pub fn run(op: &str, a: &Args) -> Option<Args> {
    if !matches!(op, "c11.rows" | "c11.cmp" | "c11.roundtrip" | "c11.binext") { return None; }
    if std::env::var_os("C11_DEBUG").is_some() {
        // debugging aid: show the panic message (the harness installs a silent panic hook)
        return match std::panic::catch_unwind(std::panic::AssertUnwindSafe(|| run_inner(op, a))) {
            Ok(r) => r,
            Err(e) => {
                let msg = e.downcast_ref::<String>().cloned().or_else(|| e.downcast_ref::<&str>().map(|s| s.to_string())).unwrap_or_default();
                eprintln!("C11_DEBUG panic in {op}: {msg}");
                std::panic::resume_unwind(e)
            }
        };
    }
    run_inner(op, a)
}

/// `from_binary` of a BinaryArray with a non-zero first offset: rows bk..bk+bm of the batch through
/// `convert_columns(..).try_into_binary().slice(bk, bm)`; checked against the directly converted bytes
fn binslice_rows(conv: &RowConverter, cols: &[ArrayRef], raw: &[Vec<u8>], bk: usize, bm: usize) -> Option<Rows> {
    let bin = conv.convert_columns(cols).ok()?.try_into_binary().ok()?;
    let sl = bin.slice(bk, bm);
    let rows = conv.from_binary(sl);
    if rows.num_rows() != bm { return None; }
    for i in 0..bm {
        if rows.row(i).as_ref() != &raw[bk + i][..] || rows.row_len(i) != raw[bk + i].len() { return None; }
    }
    if rows.iter().zip(&raw[bk..bk + bm]).any(|(r, w)| r.as_ref() != &w[..]) { return None; }
    if rows.lengths().zip(&raw[bk..bk + bm]).any(|(l, w)| l != w.len()) { return None; }
    // and back to a binary array again
    let again = rows.clone().try_into_binary().ok()?;
    if again.len() != bm || (0..bm).any(|i| again.value(i) != &raw[bk + i][..]) { return None; }
    Some(rows)
}

fn run_inner(op: &str, a: &Args) -> Option<Args> {
    let b = Batch::from_args(a);
    let n = b.rows.len();
    let Some(cols) = b.columns() else { return Some(err(E_HARNESS)) };
    let conv = match RowConverter::new(b.fields()) { Ok(c) => c, Err(_) => return Some(err(E_UNSUPPORTED)) };
    let split = b.split.min(n);
    let sliced: Option<Rows> = if b.mode & 16 != 0 {
        let plain = conv.convert_columns(&cols).ok()?;
        let raw: Vec<Vec<u8>> = plain.iter().map(|r| r.as_ref().to_vec()).collect();
        match binslice_rows(&conv, &cols, &raw, b.bk, b.bm) { Some(r) => Some(r), None => return Some(err(E_INVALID)) }
    } else { None };
    let in_slice = |i: usize| sliced.is_some() && i >= b.bk && i < b.bk + b.bm;
    Some(match op {
        "c11.rows" => {
            // mode bit 0: convert_columns(first part) then append(second part); bit 1: start from empty_rows
            let rows: Rows = if b.mode & 1 == 0 { conv.convert_columns(&cols).ok()? } else {
                let mut rows = if b.mode & 2 == 0 { conv.convert_columns(&slice_cols(&cols, 0, split)).ok()? }
                               else { let mut r = conv.empty_rows(0, 0); conv.append(&mut r, &slice_cols(&cols, 0, split)).ok()?; r };
                conv.append(&mut rows, &slice_cols(&cols, split, n - split)).ok()?;
                rows
            };
            if rows.num_rows() != n { return Some(err(E_INVALID)); }
            (0..n).map(|i| { let row = if in_slice(i) { sliced.as_ref().unwrap().row(i - b.bk) } else { rows.row(i) }; gbytes(row.data()) }).collect()
        }
        "c11.cmp" => {
            // two independent conversions by the same converter; every pair of rows across both
            // (and, with mode bit 4, rows re-created by from_binary from a sliced BinaryArray)
            let ra = conv.convert_columns(&slice_cols(&cols, 0, split)).ok()?;
            let rb = conv.convert_columns(&slice_cols(&cols, split, n - split)).ok()?;
            let mut all: Vec<arrow_row::Row<'_>> = ra.iter().chain(rb.iter()).collect();
            if all.len() != n { return Some(err(E_INVALID)); }
            for i in 0..n { if in_slice(i) { all[i] = sliced.as_ref().unwrap().row(i - b.bk); } }
            let mut cm = Vec::with_capacity(n * n); let mut em = Vec::with_capacity(n * n);
            let owned: Vec<arrow_row::OwnedRow> = all.iter().map(|r| r.owned()).collect();
            for (i, x) in all.iter().enumerate() { for (j, y) in all.iter().enumerate() {
                // OwnedRow / Row orderings must agree with each other
                if owned[i].cmp(&owned[j]) != x.cmp(y) || (owned[i] == owned[j]) != (x == y) || owned[i].row().cmp(y) != x.cmp(y) { return Some(err(E_INVALID)); }
                cm.push(sign(x.cmp(y))); em.push(BigInt::from((x == y) as u8));
            } }
            vec![cm, em]
        }
        "c11.binext" => {
            // NOT generated (see the KNOWN-FINDING candidate note in `generate`): extending Rows that came from
            // from_binary(sliced array): [push appended the right row, append appended the right rows]
            let plain = conv.convert_columns(&cols).ok()?;
            let raw: Vec<Vec<u8>> = plain.iter().map(|r| r.as_ref().to_vec()).collect();
            let mut r1 = binslice_rows(&conv, &cols, &raw, b.bk, b.bm)?;
            let push_ok = if n > 0 { r1.push(plain.row(0)); r1.num_rows() == b.bm + 1 && r1.row(b.bm).as_ref() == &raw[0][..] && (0..b.bm).all(|i| r1.row(i).as_ref() == &raw[b.bk + i][..]) } else { true };
            let mut r2 = binslice_rows(&conv, &cols, &raw, b.bk, b.bm)?;
            let app = std::panic::catch_unwind(std::panic::AssertUnwindSafe(|| { conv.append(&mut r2, &cols).is_ok() }));
            let append_ok = matches!(app, Ok(true)) && r2.num_rows() == b.bm + n && (0..n).all(|i| r2.row(b.bm + i).as_ref() == &raw[i][..])
                && (0..b.bm).all(|i| r2.row(i).as_ref() == &raw[b.bk + i][..]);
            vec![vec![BigInt::from(push_ok as u8), BigInt::from(append_ok as u8)]]
        }
        _ => {
            // mode bit 2: through try_into_binary / from_binary; bit 3: rows re-parsed by RowParser from raw bytes
            let rows = conv.convert_columns(&cols).ok()?;
            let raw: Vec<Vec<u8>> = rows.iter().map(|r| r.as_ref().to_vec()).collect();
            let rows = if b.mode & 4 != 0 {
                let bin = rows.try_into_binary().ok()?;
                if bin.len() != n || (0..n).any(|i| bin.value(i) != &raw[i][..]) { return Some(err(E_INVALID)); }
                let back = conv.from_binary(bin);
                if back.num_rows() != n || (0..n).any(|i| back.row(i).as_ref() != &raw[i][..]) { return Some(err(E_INVALID)); }
                back
            } else { rows };
            let pick = |i: usize| if in_slice(i) { sliced.as_ref().unwrap().row(i - b.bk) } else { rows.row(i) };
            let parser = conv.parser();
            let arrays = if b.mode & 8 != 0 {
                conv.convert_rows(b.sel.iter().map(|&i| parser.parse(&raw[i]))).ok()?
            } else if b.mode & 1 != 0 {
                // the selection buffered in a fresh Rows through Rows::push
                let mut picked = conv.empty_rows(b.sel.len(), 0);
                for &i in &b.sel { picked.push(pick(i)); }
                if picked.num_rows() != b.sel.len() { return Some(err(E_INVALID)); }
                conv.convert_rows(&picked).ok()?
            } else if sliced.is_some() && b.mode & 2 != 0 && b.sel.iter().all(|&i| in_slice(i)) && is_run(&b.sel) {
                // a contiguous run of the sliced rows, decoded through `&Rows` iteration
                let sl = sliced.as_ref().unwrap();
                conv.convert_rows(sl.iter().skip(b.sel[0] - b.bk).take(b.sel.len())).ok()?
            } else {
                conv.convert_rows(b.sel.iter().map(|&i| pick(i))).ok()?
            };
            if arrays.len() != b.tys.len() { return Some(err(E_INVALID)); }
            let mut colvals = Vec::new();
            for (ty, arr) in b.tys.iter().zip(&arrays) {
                if arr.len() != b.sel.len() || arr.to_data().validate_full().is_err() { return Some(err(E_INVALID)); }
                if arr.data_type() != &ty.dtype(true) { return Some(err(E_INVALID)); }
                colvals.push(flatten(ty, arr.as_ref()));
            }
            let mut out = Vec::new();
            for i in 0..b.sel.len() { for (k, ty) in b.tys.iter().enumerate() { write_val(ty, &colvals[k][i], &mut out); } }
            vec![out]
        }
    })
}
fn is_run(sel: &[usize]) -> bool { !sel.is_empty() && sel.windows(2).all(|w| w[1] == w[0] + 1) }

// ------------------------------------------------------------------------------------------ generators
fn rand_leaf(g: &mut Rng, allow_dict: bool) -> Ty {
    let mut t = match g.below(16) {
        0 => Ty::leaf(T_INT, 1, 0, 0), 1 => Ty::leaf(T_INT, 2, 0, 0),
        2 => Ty::leaf(T_INT, 4, g.below(5) as u8, 0), 3 => Ty::leaf(T_INT, 8, g.below(7) as u8, 0),
        4 => Ty::leaf(T_INT, 16, 0, 0), 5 => Ty::leaf(T_INT, 32, 0, 0),
        6 => Ty::leaf(T_UINT, [1, 2, 4, 8][g.below(4)], 0, 0),
        7 => Ty::leaf(T_BOOL, 0, 0, 0),
        8 | 9 => Ty::leaf(T_FLOAT, [2, 4, 8, 8][g.below(4)], 0, 0),
        10 => if g.bool() { Ty::leaf(T_FSB, [0, 1, 2, 3, 8, 17][g.below(6)], 0, 0) } else { Ty::leaf(T_IV, g.below(2), 0, 0) },
        _ => Ty::leaf(T_VAR, 0, g.below(6) as u8, 0),
    };
    if allow_dict && t.code != T_BOOL && g.chance(1, 6) { t.dict = 1 + g.below(4) as u8; }
    t
}
fn rand_ty(g: &mut Rng, depth: usize) -> Ty {
    if depth == 0 || g.chance(3, 5) { return rand_leaf(g, true); }
    match g.below(8) {
        7 => Ty { code: T_MAP, param: 0, variant: 0, dict: 0, kids: vec![rand_leaf(g, false), rand_ty(g, depth - 1)] },
        0 | 1 => { let k = [0, 1, 2, 2, 3][g.below(5)]; Ty { code: T_STRUCT, param: k, variant: 0, dict: 0, kids: (0..k).map(|_| rand_ty(g, depth - 1)).collect() } }
        2 | 3 => Ty { code: T_LIST, param: 0, variant: g.below(4) as u8, dict: 0, kids: vec![rand_ty(g, depth - 1)] },
        4 => Ty { code: T_FSL, param: [0, 1, 2, 3][g.below(4)], variant: 0, dict: 0, kids: vec![rand_ty(g, depth - 1)] },
        _ => Ty { code: T_REE, param: 0, variant: g.below(3) as u8, dict: 0, kids: vec![rand_ty(g, depth - 1)] },
    }
}

fn all_opts() -> [SortOptions; 4] {
    [SortOptions { descending: false, nulls_first: true }, SortOptions { descending: false, nulls_first: false },
     SortOptions { descending: true, nulls_first: true }, SortOptions { descending: true, nulls_first: false }]
}

/// rows whose fields share prefixes: a later field only decides when the earlier ones are equal
fn gen_rows(tys: &[Ty], n: usize, g: &mut Rng, c: &GenCfg) -> Vec<Vec<Val>> {
    let mut rows: Vec<Vec<Val>> = Vec::new();
    for i in 0..n {
        let mut row = Vec::new();
        let base = if i > 0 { Some(rows[g.below(i)].clone()) } else { None };
        let mut keep = base.is_some() && g.chance(2, 3);
        for (k, ty) in tys.iter().enumerate() {
            let v = match (&base, keep) {
                (Some(b), true) => match g.below(4) { 0 => { keep = g.bool(); mutate_val(ty, &b[k], g, c) } _ => b[k].clone() },
                _ => rand_val(ty, g, c),
            };
            row.push(v);
        }
        rows.push(row);
    }
    rows
}

fn emit_batch(b: &Batch, g: &mut Rng, emit: &mut dyn FnMut(Case), what: u32) {
    let tag_t: String = b.tys.iter().map(|t| t.short()).collect::<Vec<_>>().join("|");
    let tag_o: String = b.opts.iter().map(|o| format!("{}{}", o.descending as u8, o.nulls_first as u8)).collect::<Vec<_>>().join("");
    let args = b.to_args();
    if b.tys.iter().any(|t| t.has_map()) {
        // Map is not modelled byte for byte: only the specification oracles apply
        if what & 2 != 0 { emit(Case::new("c11.cmp", args.clone(), &["c11.cmp.spec"], format!("cmp {tag_t} {tag_o}"))); }
        if what & 4 != 0 { emit(Case::new("c11.roundtrip", args, &["c11.roundtrip.spec"], format!("rt {tag_t} {tag_o} m{}", b.mode >> 2))); }
        return;
    }
    if what & 1 != 0 { emit(Case::new("c11.rows", args.clone(), &["c11.rows"], format!("rows {tag_t} {tag_o} m{}", b.mode & 3))); }
    if what & 2 != 0 { emit(Case::new("c11.cmp", args.clone(), &["c11.cmp.spec", "c11.cmp"], format!("cmp {tag_t} {tag_o}"))); }
    if what & 4 != 0 { emit(Case::new("c11.roundtrip", args, &["c11.roundtrip.spec", "c11.roundtrip"], format!("rt {tag_t} {tag_o} m{}", b.mode >> 2))); }
    let _ = g;
}

fn layout(b: &mut Batch, g: &mut Rng) {
    let n = b.rows.len();
    b.prefix = if g.bool() { 0 } else { 1 + g.below(9) };
    b.suffix = if g.bool() { 0 } else { 1 + g.below(3) };
    b.seed = g.next() >> 1;
    b.split = g.below(n + 1);
    b.mode = g.below(32) as u64;
    if n == 0 { b.mode &= 15; }
    if b.mode & 16 != 0 {
        // k > 0 most of the time; slices ending at the end and slices in the middle
        b.bk = if g.chance(1, 8) { 0 } else { 1 + g.below(n) };
        b.bm = match g.below(3) { 0 => n - b.bk, _ => g.below(n - b.bk + 1) };
    }
    let k = match g.below(6) { 0 => 0, 1 => n, _ => g.below(2 * n + 1) };
    b.sel = if n == 0 { vec![] } else { (0..k).map(|_| g.below(n)).collect() };
    if b.mode & 16 != 0 && b.bm > 0 {
        match g.below(3) {
            0 => b.sel = (0..k).map(|_| b.bk + g.below(b.bm)).collect(),                      // only rows of the slice
            1 => { let s = g.below(b.bm); let l = 1 + g.below(b.bm - s); b.sel = (b.bk + s..b.bk + s + l).collect(); }   // a contiguous run
            _ => {}
        }
    }
}

// KNOWN-FINDING candidate (not generated; reproduce with the impl op `c11.binext`): Rows returned by
// `from_binary(binary.slice(k, m))` keep the WHOLE values buffer of the sliced array. Reading them is fine, but
// extending them is not: `Rows::push` records `buffer.len()` as the end of the new row, so the new row starts at the
// old last offset and swallows the stale bytes after the slice (Int32 [1,7,9], slice(1,1), push(row 0) -> a 10-byte row);
// `RowConverter::append` resizes the buffer without zeroing the stale region, so null / padded values keep stale bytes
// (Int32 [null,7,9], slice(0,1), append([null,..]) -> 00 80 00 00 07 instead of 00 00 00 00 00).
pub fn generate(tier: &str, r: &mut Rng, emit: &mut dyn FnMut(Case)) {
    let thorough = tier == "thorough";
    let scale = if thorough { 10 } else { 1 };
    let cfg = GenCfg { null_pct: 12, big: thorough };

    // 1. every leaf type x all four SortOptions, single column, boundary-dense values
    let mut leaves: Vec<Ty> = vec![];
    for w in [1, 2, 4, 8, 16, 32] { leaves.push(Ty::leaf(T_INT, w, 0, 0)); }
    for v in 1..5 { leaves.push(Ty::leaf(T_INT, 4, v, 0)); }
    for v in 1..7 { leaves.push(Ty::leaf(T_INT, 8, v, 0)); }
    for w in [1, 2, 4, 8] { leaves.push(Ty::leaf(T_UINT, w, 0, 0)); }
    leaves.push(Ty::leaf(T_BOOL, 0, 0, 0));
    for w in [2, 4, 8] { leaves.push(Ty::leaf(T_FLOAT, w, 0, 0)); }
    for n in [0, 1, 5, 16] { leaves.push(Ty::leaf(T_FSB, n, 0, 0)); }
    for v in 0..6 { leaves.push(Ty::leaf(T_VAR, 0, v, 0)); }
    for k in 0..2 { leaves.push(Ty::leaf(T_IV, k, 0, 0)); leaves.push(Ty::leaf(T_IV, k, 0, 2 + k as u8)); }
    for d in 1..5 { leaves.push(Ty::leaf(T_INT, 4, 0, d)); leaves.push(Ty::leaf(T_VAR, 0, (d % 4) as u8, d)); leaves.push(Ty::leaf(T_FLOAT, 8, 0, d)); }
    for ty in &leaves {
        for o in all_opts() {
            for rep in 0..scale {
                let n = if rep == 0 { 24 } else { r.below(40) };
                let mut b = Batch { tys: vec![ty.clone()], opts: vec![o], rows: gen_rows(std::slice::from_ref(ty), n, r, &cfg), prefix: 0, suffix: 0, seed: 0, split: 0, mode: 0, sel: vec![], bk: 0, bm: 0 };
                layout(&mut b, r);
                emit_batch(&b, r, emit, 7);
            }
        }
    }

    // 2. variable-length values of EVERY length 0..=70 and around 32k, bytes from {00,01,02,FE,FF,random};
    //    each batch holds a value, its neighbours in length and content (prefixes, zero / 0xFF extensions)
    let maxk = if thorough { 12 } else { 5 };
    let mut lens: Vec<usize> = (0..=70).collect();
    for k in 3..=maxk { for d in [-1i64, 0, 1] { lens.push((32 * k as i64 + d) as usize); } }
    for &len in &lens {
        for variant in 0..6u8 {
            if !thorough && variant >= 2 && len > 40 && r.chance(1, 2) { continue; }
            let ty = Ty::leaf(T_VAR, 0, variant, 0);
            let utf8 = ty.is_utf8();
            for rep in 0..(if thorough { 3 } else { 1 }) {
                let o = all_opts()[(len + variant as usize + rep) % 4];
                let base = if utf8 { rand_utf8(r, len) } else { rand_bytes(r, len) };
                let mut vals: Vec<Val> = vec![Val::Bytes(base.clone()), Val::Null, Val::Bytes(vec![])];
                // neighbours: one byte shorter / longer with each boundary byte, same length with last byte +-1
                for e in if utf8 { vec![0u8, 1, 0x7f] } else { vec![0u8, 1, 0xFE, 0xFF] } { let mut v = base.clone(); v.push(e); vals.push(Val::Bytes(v)); }
                if len > 0 { let t = base[..len - 1].to_vec(); vals.push(Val::Bytes(if utf8 { sanitize_utf8(t) } else { t })); }
                for _ in 0..6 { vals.push(Val::Bytes(mutate_bytes(&base, r, utf8))); }
                if !utf8 { vals.push(Val::Bytes(vec![0; len])); vals.push(Val::Bytes(vec![0xFF; len])); vals.push(Val::Bytes(vec![0xFF; len + 1])); }
                let mut b = Batch { tys: vec![ty.clone()], opts: vec![o], rows: vals.into_iter().map(|v| vec![v]).collect(), prefix: 0, suffix: 0, seed: 0, split: 0, mode: 0, sel: vec![], bk: 0, bm: 0 };
                layout(&mut b, r);
                emit_batch(&b, r, emit, 7);
            }
        }
    }

    // 3. nested types, one column: struct / list (all four layouts) / fixed-size list / run-end / dictionaries inside
    let depth = if thorough { 3 } else { 2 };
    for i in 0..150 * (if thorough { 30 } else { 1 }) {
        let mut ty = rand_ty(r, depth);
        if ty.kids.is_empty() { ty = Ty { code: [T_STRUCT, T_LIST, T_FSL, T_REE][i % 4], param: if i % 4 == 0 { 1 } else { 2 }, variant: r.below(3) as u8, dict: 0, kids: vec![ty] }; }
        let o = all_opts()[i % 4];
        let n = r.below(20);
        let mut b = Batch { tys: vec![ty.clone()], opts: vec![o], rows: gen_rows(std::slice::from_ref(&ty), n, r, &cfg), prefix: 0, suffix: 0, seed: 0, split: 0, mode: 0, sel: vec![], bk: 0, bm: 0 };
        layout(&mut b, r);
        emit_batch(&b, r, emit, 7);
    }

    // 4. multi-column rows: 1-4 fields of mixed types, independent SortOptions per field
    for i in 0..400 * (if thorough { 30 } else { 1 }) {
        let nf = 1 + r.below(4);
        let tys: Vec<Ty> = (0..nf).map(|_| if r.chance(1, 4) { rand_ty(r, depth - 1) } else { rand_leaf(r, true) }).collect();
        let opts: Vec<SortOptions> = (0..nf).map(|_| all_opts()[r.below(4)]).collect();
        let n = match i % 10 { 0 => 0, 1 => 1, _ => 2 + r.below(if thorough { 40 } else { 22 }) };
        let mut b = Batch { rows: gen_rows(&tys, n, r, &cfg), tys, opts, prefix: 0, suffix: 0, seed: 0, split: 0, mode: 0, sel: vec![], bk: 0, bm: 0 };
        layout(&mut b, r);
        emit_batch(&b, r, emit, 7);
    }

    // 6. interval columns: equal leading components, trailing components of opposite sign / extremes
    //    (the order is the lexicographic order of the SIGNED components; negative milliseconds are legal)
    for kind in 0..2usize {
        let ws = iv_widths(kind);
        let ext = |w: usize| -> Vec<BigInt> { let b = 8 * w; vec![-pow2(b - 1), BigInt::from(-1), BigInt::zero(), BigInt::one(), pow2(b - 1) - 1] };
        for o in all_opts() {
            for rep in 0..(if thorough { 6 } else { 2 }) {
                let lead: Vec<BigInt> = ws.iter().map(|w| rand_comp(*w, r)).collect();
                let mut vals: Vec<Val> = vec![Val::Null];
                // all combinations of extremes on the last two components, leading ones fixed
                let k = ws.len();
                for x in ext(ws[k - 2]) { for y in ext(ws[k - 1]) {
                    if rep > 0 && r.chance(1, 3) { continue; }
                    let mut c = lead.clone(); c[k - 2] = x.clone(); c[k - 1] = y;
                    vals.push(Val::Struct(c.into_iter().map(Val::Int).collect()));
                } }
                // the first component differing by one / in sign with wild trailing components
                for d in [-1i64, 1] { let mut c: Vec<BigInt> = lead.clone(); let n = &c[0] + d; if n >= -pow2(31) && n < pow2(31) { c[0] = n; }
                    for j in 1..k { c[j] = rand_comp(ws[j], r); } vals.push(Val::Struct(c.into_iter().map(Val::Int).collect())); }
                let leaf = Ty::leaf(T_IV, kind, 0, if rep % 3 == 2 { 2 } else { 0 });
                let ty = match rep % 4 { 1 => Ty { code: T_STRUCT, param: 1, variant: 0, dict: 0, kids: vec![leaf.clone()] },
                                         3 => Ty { code: T_LIST, param: 0, variant: 0, dict: 0, kids: vec![leaf.clone()] }, _ => leaf.clone() };
                let wrap = |v: Val| -> Val { match ty.code { T_STRUCT => Val::Struct(vec![v]), T_LIST => Val::List(vec![v]), _ => v } };
                let rows: Vec<Vec<Val>> = vals.into_iter().map(|v| vec![wrap(v)]).collect();
                let mut b = Batch { tys: vec![ty.clone()], opts: vec![o], rows, prefix: 0, suffix: 0, seed: 0, split: 0, mode: 0, sel: vec![], bk: 0, bm: 0 };
                layout(&mut b, r);
                emit_batch(&b, r, emit, 7);
            }
        }
    }

    // 7. Map<Utf8 | Int32, Int32 nullable> (specification ops only): rows sharing a prefix of equal entries
    //    and then differing only by a NULL vs non-NULL value under an equal key; keys repeated across rows
    for keykind in 0..2usize {
        let kt = if keykind == 0 { Ty::leaf(T_VAR, 0, 2, 0) } else { Ty::leaf(T_INT, 4, 0, 0) };
        let mt = Ty { code: T_MAP, param: 0, variant: 0, dict: 0, kids: vec![kt.clone(), Ty::leaf(T_INT, 4, 0, 0)] };
        for o in all_opts() {
            for rep in 0..(if thorough { 8 } else { 3 }) {
                let key = |r: &mut Rng| -> Val { if keykind == 0 { Val::Bytes([&b"a"[..], b"b", b"", b"ab", b"k"][r.below(5)].to_vec()) } else { Val::Int(BigInt::from([-1i64, 0, 1, 7][r.below(4)])) } };
                let val = |r: &mut Rng| -> Val { Val::Int(BigInt::from([i32::MIN as i64, -1, 0, 1, 5, i32::MAX as i64][r.below(6)])) };
                let ent = |k: Val, v: Val| Val::Struct(vec![k, v]);
                let nb = r.below(4);
                let base: Vec<Val> = (0..nb).map(|_| { let k = key(r); let v = if r.chance(1, 4) { Val::Null } else { val(r) }; ent(k, v) }).collect();
                let mut maps: Vec<Val> = vec![Val::Null, Val::List(vec![]), Val::List(base.clone())];
                let with_last = |v: Val| -> Option<Val> { let mut m = base.clone(); let l = m.pop()?; let Val::Struct(kv) = l else { return None }; m.push(Val::Struct(vec![kv[0].clone(), v])); Some(Val::List(m)) };
                if let Some(m) = with_last(Val::Null) { maps.push(m); }
                for _ in 0..2 { let v = val(r); if let Some(m) = with_last(v) { maps.push(m); } }
                let k1 = key(r); let k2 = key(r);
                for v in [Val::Null, val(r), val(r)] { let mut m = base.clone(); m.push(ent(k1.clone(), v)); maps.push(Val::List(m)); }
                { let mut m = base.clone(); m.push(ent(k1.clone(), Val::Null)); m.push(ent(k2.clone(), val(r))); maps.push(Val::List(m)); }
                { let mut m = base.clone(); let v = val(r); m.push(ent(k1.clone(), v)); m.push(ent(k2.clone(), Val::Null)); maps.push(Val::List(m)); }
                if nb >= 1 { maps.push(Val::List(base[..nb - 1].to_vec())); }
                if nb >= 2 { let mut m = base.clone(); if let Val::Struct(kv) = &m[0] { m[0] = Val::Struct(vec![kv[0].clone(), if kv[1] == Val::Null { val(r) } else { Val::Null }]); } maps.push(Val::List(m)); }
                { let m: Vec<Val> = base.iter().map(|e| { let Val::Struct(kv) = e else { unreachable!() }; ent(kv[0].clone(), if r.bool() { Val::Null } else { val(r) }) }).collect(); maps.push(Val::List(m)); }
                for i in (1..maps.len()).rev() { let j = r.below(i + 1); maps.swap(i, j); }
                // alone, or followed by a second column that decides between equal maps
                let two = rep % 2 == 1;
                let tys = if two { vec![mt.clone(), Ty::leaf(T_INT, 4, 0, 0)] } else { vec![mt.clone()] };
                let opts = if two { vec![o, all_opts()[r.below(4)]] } else { vec![o] };
                let rows: Vec<Vec<Val>> = maps.into_iter().map(|m| if two { vec![m, if r.chance(1, 5) { Val::Null } else { Val::Int(BigInt::from(r.range(-2, 2))) }] } else { vec![m] }).collect();
                let mut b = Batch { tys, opts, rows, prefix: 0, suffix: 0, seed: 0, split: 0, mode: 0, sel: vec![], bk: 0, bm: 0 };
                layout(&mut b, r);
                emit_batch(&b, r, emit, 7);
            }
        }
    }

    // 8. FixedSizeList<FixedSizeList<fixed-width>> (2 and 3 levels, sizes 0..3, every level nullable): a null
    //    FixedSizeList is a single sentinel byte, so the rows of the inner lists are NOT of constant width;
    //    valid outer entries holding null inner lists must decode back (plain, as a struct field, and followed by
    //    another column so that a mis-sliced child row shows up in the next column)
    {
        fn fsl_val(ty: &Ty, g: &mut Rng, inner_null_pct: u32, top: bool) -> Val {
            if ty.code != T_FSL { return rand_val(ty, g, &GenCfg { null_pct: 15, big: false }); }
            if !top && g.chance(inner_null_pct, 100) { return Val::Null; }
            Val::List((0..ty.param).map(|_| fsl_val(&ty.kids[0], g, inner_null_pct, false)).collect())
        }
        let reps = if thorough { 24 } else { 5 };
        for rep in 0..reps {
            for (oi, o) in all_opts().into_iter().enumerate() {
                let leaf = match r.below(9) {
                    0 => Ty::leaf(T_INT, [1, 2, 4, 8, 16][r.below(5)], 0, 0), 1 => Ty::leaf(T_UINT, [1, 2, 4, 8][r.below(4)], 0, 0),
                    2 => Ty::leaf(T_BOOL, 0, 0, 0), 3 => Ty::leaf(T_FLOAT, [2, 4, 8][r.below(3)], 0, 0),
                    4 | 5 => Ty::leaf(T_FSB, [0, 1, 3, 8][r.below(4)], 0, 0), 6 => Ty::leaf(T_IV, r.below(2), 0, 0),
                    7 => Ty::leaf(T_INT, 4, 0, 2), _ => Ty::leaf(T_INT, 4, 0, 0),
                };
                let levels = 2 + (rep + oi) % 2;
                let mut ty = leaf;
                for l in 0..levels {
                    // the outermost list is never of size 0, so that inner lists exist
                    let size = if l + 1 == levels { [1, 2, 3, 2][r.below(4)] } else { [0, 1, 2, 3, 2, 1][r.below(6)] };
                    ty = Ty { code: T_FSL, param: size, variant: 0, dict: 0, kids: vec![ty] };
                }
                let n = 6 + r.below(9);
                let mut col: Vec<Val> = Vec::new();
                for i in 0..n {
                    col.push(match i % 6 {
                        0 => if r.chance(1, 3) { Val::Null } else { fsl_val(&ty, r, 100, true) },   // valid outer, every inner list null
                        1 | 2 => fsl_val(&ty, r, 50, true),                                           // null and valid inner lists mixed
                        3 => fsl_val(&ty, r, 25, true),
                        4 => fsl_val(&ty, r, 0, true),                                                // no null list at all
                        _ => if i > 0 && r.bool() { col[r.below(i)].clone() } else { fsl_val(&ty, r, 70, true) },
                    });
                }
                let (tys, opts, rows): (Vec<Ty>, Vec<SortOptions>, Vec<Vec<Val>>) = match rep % 3 {
                    0 => (vec![ty.clone()], vec![o], col.into_iter().map(|v| vec![v]).collect()),
                    1 => {
                        let st = Ty { code: T_STRUCT, param: 2, variant: 0, dict: 0, kids: vec![ty.clone(), Ty::leaf(T_INT, 2, 0, 0)] };
                        let rows = col.into_iter().map(|v| vec![if r.chance(1, 10) { Val::Null } else { Val::Struct(vec![v, Val::Int(BigInt::from(r.range(-3, 300)))]) }]).collect();
                        (vec![st], vec![o], rows)
                    }
                    _ => {
                        let t2 = if r.bool() { Ty::leaf(T_VAR, 0, 2, 0) } else { Ty::leaf(T_INT, 4, 0, 0) };
                        let cfg2 = GenCfg { null_pct: 10, big: false };
                        let rows = col.into_iter().map(|v| { let w = rand_val(&t2, r, &cfg2); vec![v, w] }).collect();
                        (vec![ty.clone(), t2], vec![o, all_opts()[r.below(4)]], rows)
                    }
                };
                let mut b = Batch { tys, opts, rows, prefix: 0, suffix: 0, seed: 0, split: 0, mode: 0, sel: vec![], bk: 0, bm: 0 };
                layout(&mut b, r);
                // decode every row at least once: the whole batch, in order, when the random selection is short
                if b.sel.len() < n { b.sel = (0..n).collect(); if b.mode & 16 != 0 { b.mode &= 15; } }
                emit_batch(&b, r, emit, 7);
            }
        }
    }

    // 5. longer batches (lengths around 64 / 1024: boolean / null-buffer decoding works in 64-row chunks)
    for &n in if thorough { &[63usize, 64, 65, 127, 128, 129, 1023, 1024, 1025][..] } else { &[63usize, 64, 65, 130, 1025][..] } {
        for ty in [Ty::leaf(T_BOOL, 0, 0, 0), Ty::leaf(T_INT, 2, 0, 0), Ty::leaf(T_VAR, 0, 2, 0), Ty::leaf(T_FLOAT, 4, 0, 2),
                   Ty { code: T_STRUCT, param: 2, variant: 0, dict: 0, kids: vec![Ty::leaf(T_BOOL, 0, 0, 0), Ty::leaf(T_UINT, 1, 0, 0)] }] {
            let o = all_opts()[r.below(4)];
            let small = GenCfg { null_pct: if r.bool() { 0 } else { 10 }, big: false };
            let rows: Vec<Vec<Val>> = (0..n).map(|_| vec![if ty.code == T_VAR { if r.chance(1, 10) { Val::Null } else { { let l = 1 + r.below(3); Val::Bytes(rand_utf8(r, l)) } } } else { rand_val(&ty, r, &small) }]).collect();
            let mut b = Batch { tys: vec![ty.clone()], opts: vec![o], rows, prefix: 0, suffix: 0, seed: 0, split: 0, mode: 0, sel: vec![], bk: 0, bm: 0 };
            layout(&mut b, r);
            b.sel = (0..n).rev().collect();
            // the n x n matrix is too large here: bytes and round trip only
            emit_batch(&b, r, emit, 5);
        }
    }
}
