// ---------------------------------------------------------------------------------------------
// Targeted structured corruptions (follow-up): not random flips but, for every length-prefixed field the
// decoders check, every length from 0 to width+1; and for every offset array, every permutation of two
// interior offsets (offsets that still land on value starts, first and last offset unchanged).
// ---------------------------------------------------------------------------------------------

/// Resize the thrift binary whose length varint is `s` (content follows it) to `newlen` bytes: the content is
/// truncated or padded by repeating its last byte; the varint and the parquet footer length are fixed up, so
/// the footer stays well formed and only the field's own length check decides.
pub fn m_binary_resize(b: &[u8], s: &TSlot, newlen: usize, footer: Option<(usize, usize)>) -> Option<Mutant> {
    let start = s.pos + s.len; let old = s.val as usize;
    if start + old > b.len() { return None }
    let mut content = b[start..start + old].to_vec();
    let pad = content.last().copied().unwrap_or(0x40);
    content.resize(newlen, pad);
    let mut o = b[..s.pos].to_vec(); o.extend(uleb(newlen as u64)); o.extend(content); o.extend_from_slice(&b[start + old..]);
    if let Some((_, flen)) = footer { let nl = (flen + o.len()).saturating_sub(b.len()); if o.len() >= 8 { set_pq_footer_len(&mut o, nl) } }
    Some((o, format!("bin{old}to{newlen}b")))
}

/// A Parquet file whose footer carries column-chunk statistics for fixed-width physical types of every width
/// (BOOLEAN 1, INT32 / FLOAT 4, INT64 / DOUBLE 8, FIXED_LEN_BYTE_ARRAY 3 and 16) and for byte arrays.
pub fn parquet_stats_artefact(r: &mut Rng, page_stats: bool) -> Option<Artefact> {
    use parquet::file::properties::{EnabledStatistics, WriterProperties};
    let n = 4 + r.below(4);
    let b = mk_batch(r, &[3, 15, 4, 2, 11, 1], n);      // Float64 (DOUBLE), Float32 (FLOAT), Int64, Boolean, FixedSizeBinary(3), Utf8
    quietly(move || {
        let p = WriterProperties::builder().set_dictionary_enabled(false)
            .set_statistics_enabled(if page_stats { EnabledStatistics::Page } else { EnabledStatistics::Chunk }).build();
        let mut w = parquet::arrow::ArrowWriter::try_new(Vec::new(), b.schema(), Some(p)).ok()?;
        w.write(&b).ok()?;
        let bytes = w.into_inner().ok()?;
        Some(Artefact { kind_family: "parquet", bytes, aux: vec![0], label: "pqstats".into() })
    })
}

/// every length 0..=w+1 for every short (w <= 16) thrift binary of the footer (statistics min / max / min_value /
/// max_value of every column, names, created_by prefix ...)
pub fn parquet_binary_length_mutants(b: &[u8], out: &mut Vec<Mutant>) {
    let Some((fs, fl)) = pq_footer(b) else { return };
    let mut slots = Vec::new(); let mut p = fs;
    let _ = t_struct(b, &mut p, 0, &mut slots);
    for s in slots.iter().filter(|s| s.what == 2 && s.val >= 1 && s.val <= 16) {
        for nl in 0..=(s.val as usize + 1) {
            if nl == s.val as usize { continue }
            if let Some(m) = m_binary_resize(b, s, nl, Some((fs, fl))) { out.push(m) }
        }
    }
}

// ---- Variant binary layout: offset arrays of the metadata dictionary and of every (nested) list / object
#[derive(Clone, Debug)]
pub struct OffArr { pub pos: usize, pub size: usize, pub count: usize, pub what: &'static str }
fn rd_le(b: &[u8], p: usize, size: usize) -> Option<usize> { let s = b.get(p..p + size)?; Some(s.iter().rev().fold(0usize, |a, x| (a << 8) | *x as usize)) }
fn wr_le(b: &mut [u8], p: usize, size: usize, v: usize) { for i in 0..size { b[p + i] = (v >> (8 * i)) as u8 } }

pub fn variant_metadata_offsets(m: &[u8]) -> Option<OffArr> {
    let h = *m.first()?; let size = ((h >> 6) & 3) as usize + 1;
    let n = rd_le(m, 1, size)?;
    if n > m.len() { return None }
    Some(OffArr { pos: 1 + size, size, count: n + 1, what: "meta" })
}
/// offset arrays of the value at `base` (absolute positions in `v`), recursively
pub fn variant_value_offsets(v: &[u8], base: usize, depth: usize, out: &mut Vec<OffArr>) {
    if depth > 8 { return }
    let Some(&h) = v.get(base) else { return };
    let vh = h >> 2;
    let (off_size, num_size, id_size, what) = match h & 3 {
        3 => ((vh & 3) as usize + 1, if (vh >> 2) & 1 == 1 { 4 } else { 1 }, 0usize, "list"),
        2 => ((vh & 3) as usize + 1, if (vh >> 4) & 1 == 1 { 4 } else { 1 }, ((vh >> 2) & 3) as usize + 1, "obj"),
        _ => return,
    };
    let Some(n) = rd_le(v, base + 1, num_size) else { return };
    if n > v.len() { return }
    let offs = base + 1 + num_size + n * id_size;
    let vals = offs + (n + 1) * off_size;
    if vals > v.len() { return }
    out.push(OffArr { pos: offs, size: off_size, count: n + 1, what });
    for i in 0..n { if let Some(o) = rd_le(v, offs + i * off_size, off_size) { if vals + o < v.len() { variant_value_offsets(v, vals + o, depth + 1, out) } } }
}

/// swap two interior offsets (indices 1..count-2) of one offset array; first and last stay
pub fn variant_offset_permutations(bytes: &[u8], split: usize, out: &mut Vec<Mutant>) {
    let (m, v) = bytes.split_at(split.min(bytes.len()));
    let mut arrs: Vec<(usize, OffArr)> = Vec::new();
    if let Some(a) = variant_metadata_offsets(m) { arrs.push((0, a)) }
    let mut va = Vec::new(); variant_value_offsets(v, 0, 0, &mut va);
    for a in va { arrs.push((split, a)) }
    for (base, a) in arrs {
        if a.count < 3 { continue }
        let mut k = 0;
        for i in 1..a.count - 1 { for j in i + 1..a.count - 1 {
            let (pi, pj) = (base + a.pos + i * a.size, base + a.pos + j * a.size);
            let (Some(x), Some(y)) = (rd_le(bytes, pi, a.size), rd_le(bytes, pj, a.size)) else { continue };
            if x == y || k >= 12 { continue }
            let mut o = bytes.to_vec(); wr_le(&mut o, pi, a.size, y); wr_le(&mut o, pj, a.size, x);
            out.push((o, format!("{}offswap", a.what))); k += 1;
        } }
        // a single interior offset moved onto another element's start (duplicate start, still in bounds)
        if a.count >= 4 {
            let (p1, p2) = (base + a.pos + a.size, base + a.pos + 2 * a.size);
            if let (Some(x), Some(y)) = (rd_le(bytes, p1, a.size), rd_le(bytes, p2, a.size)) { if x != y {
                let mut o = bytes.to_vec(); wr_le(&mut o, p2, a.size, x); out.push((o, format!("{}offdup", a.what)));
                let mut o = bytes.to_vec(); wr_le(&mut o, p1, a.size, y); out.push((o, format!("{}offdup", a.what)));
            } }
        }
    }
}

/// Variant artefacts with offset arrays worth permuting: lists of k equal-width values, of mixed values, nested
/// lists, lists of objects, an object holding lists
pub fn variant_list_artefact(r: &mut Rng, shape: usize) -> Option<Artefact> {
    let mut r2 = r.clone(); let _ = r.next();
    quietly(move || {
        let r = &mut r2;
        let mut b = parquet_variant::VariantBuilder::new();
        match shape % 6 {
            0 => { let mut l = b.new_list(); for _ in 0..3 + r.below(3) { l.append_value(r.range(-100, 100) as i8) } l.finish(); }
            1 => { let mut l = b.new_list(); for _ in 0..3 + r.below(2) { l.append_value(r.range(-30000, 30000) as i32) } l.finish(); }
            2 => { let mut l = b.new_list(); l.append_value(r.range(-9, 9) as i8); l.append_value("ab"); l.append_value(r.bool()); l.append_value(()); l.append_value(r.next() as i64); l.append_value("xyz"); l.finish(); }
            3 => { let mut l = b.new_list(); for _ in 0..3 { let mut s = l.new_list(); for _ in 0..2 + r.below(3) { s.append_value(r.range(-100, 100) as i8) } s.finish(); } l.finish(); }
            4 => { let mut l = b.new_list(); for i in 0..3 { let mut o = l.new_object(); o.insert("a", i as i8); o.insert("b", word(r).as_str()); o.finish(); } l.finish(); }
            _ => { let mut o = b.new_object(); o.insert("k", 1i8);
                   { let mut l = o.new_list("xs"); for _ in 0..4 { l.append_value(r.range(-100, 100) as i8) } l.finish(); }
                   { let mut l = o.new_list("ys"); for _ in 0..3 { l.append_value(word(r).as_str()) } l.finish(); }
                   o.insert("z", r.next() as i64); o.finish(); }
        }
        let (m, v) = b.finish();
        let split = m.len() as i64;
        let mut bytes = m; bytes.extend(v);
        Some(Artefact { kind_family: "variant", bytes, aux: vec![split], label: format!("variantlist{}", shape % 6) })
    })
}

/// the structured inputs appended to build_inputs
pub fn structured_inputs(tier: &str, r: &mut Rng, inputs: &mut Vec<Input>) {
    let scale = if tier == "thorough" { 3 } else { 1 };
    // Parquet footer statistics: every length of every short binary
    for k in 0..scale {
        let Some(a) = parquet_stats_artefact(r, k % 2 == 1) else { continue };
        let mut ms: Vec<Mutant> = vec![(a.bytes.clone(), "valid".into())];
        parquet_binary_length_mutants(&a.bytes, &mut ms);
        for (i, (bytes, t)) in ms.into_iter().enumerate() {
            // the metadata entry points: raw footer decode, metadata reader, arrow reader builder, record reader
            let (kind, bytes) = match i % 4 {
                0 => match pq_footer(&bytes) { Some((fs, fl)) => (K_PQ_FOOTER, bytes[fs..fs + fl].to_vec()), None => (K_PQ_META, bytes) },
                1 => (K_PQ_META, bytes), 2 => (K_PQ_ARROW, bytes), _ => (K_PQ_ROWS, bytes) };
            inputs.push(Input { kind, bytes, aux: vec![0], tag: format!("pqstats {t}") });
        }
    }
    // Variant: permutations of interior offsets
    for shape in 0..6 * scale {
        let Some(a) = variant_list_artefact(r, shape) else { continue };
        let mut ms: Vec<Mutant> = vec![(a.bytes.clone(), "valid".into())];
        variant_offset_permutations(&a.bytes, a.aux[0] as usize, &mut ms);
        for (bytes, t) in ms { inputs.push(Input { kind: K_VARIANT, bytes, aux: a.aux.clone(), tag: format!("{} {t}", a.label) }) }
    }
}

// ---------------------------------------------------------------------------------------------
// Dictionary-encoded data pages (follow-up 2): one bit-packed dictionary index of a full group rewritten to every
// out-of-range value dict_len ..= 2^bit_width - 1.  impl op  c08.dict_read [[file bytes],[written values],[type]]
// -> [[code],[rows],[panic class]] with code 0 Ok-and-equal-to-the-written-values, 1 Err, 2 Panic, 3 Timeout,
// 4 Abort, 5 Ok-but-a-value-differs (an out-of-range index has no valid value: garbage).  Model: c08.outcome.post.
// ---------------------------------------------------------------------------------------------
pub const GARBAGE: i64 = 5;
fn dict_value_id(ty: i64, col: &dyn Array, i: usize) -> i64 {
    match ty {
        0 => col.as_any().downcast_ref::<Int32Array>().map(|a| (a.value(i) as i64 - 1000) / 7).unwrap_or(-1),
        1 => col.as_any().downcast_ref::<Int64Array>().map(|a| (a.value(i) - 5_000_000_000) / 11).unwrap_or(-1),
        2 => col.as_any().downcast_ref::<BinaryArray>().and_then(|a| std::str::from_utf8(a.value(i)).ok().and_then(|s| s.strip_prefix("value-")).and_then(|s| s.parse().ok())).unwrap_or(-1),
        _ => col.as_any().downcast_ref::<FixedSizeBinaryArray>().map(|a| { let v = a.value(i); if v.len() == 3 && v[1] == v[0].wrapping_add(1) && v[2] == v[0].wrapping_add(2) { v[0] as i64 } else { -1 } }).unwrap_or(-1),
    }
}
fn dict_column(ty: i64, ids: &[i64]) -> (Field, ArrayRef) {
    let (dt, a): (DataType, ArrayRef) = match ty {
        0 => (DataType::Int32, Arc::new(Int32Array::from(ids.iter().map(|j| 1000 + 7 * *j as i32).collect::<Vec<_>>()))),
        1 => (DataType::Int64, Arc::new(Int64Array::from(ids.iter().map(|j| 5_000_000_000 + 11 * *j).collect::<Vec<_>>()))),
        2 => (DataType::Binary, Arc::new(BinaryArray::from_iter_values(ids.iter().map(|j| format!("value-{j}").into_bytes())))),
        _ => (DataType::FixedSizeBinary(3), Arc::new(FixedSizeBinaryArray::try_from_iter(ids.iter().map(|j| vec![*j as u8, *j as u8 + 1, *j as u8 + 2])).unwrap())),
    };
    (Field::new("d", dt, false), a)
}
/// the real reader on a (patched) file, compared with the values that were written
pub fn dict_read(bytes: &[u8], expected: &[i64], ty: i64) -> Result<i64, ()> {
    use parquet::arrow::arrow_reader::ParquetRecordBatchReaderBuilder;
    let rd = ParquetRecordBatchReaderBuilder::try_new(bytes::Bytes::from(bytes.to_vec())).map_err(|_| ())?.with_batch_size(1024).build().map_err(|_| ())?;
    let mut got: Vec<i64> = Vec::new();
    for b in rd { let b = b.map_err(|_| ())?; let c = b.column(0); for i in 0..c.len() { got.push(if c.is_null(i) { -2 } else { dict_value_id(ty, c.as_ref(), i) }) } }
    Ok(if got == expected { OK } else { GARBAGE })
}

/// a file with one required dictionary-encoded column of `n` values over `d` distinct values in a non-repeating order
pub fn dict_file(r: &mut Rng, ty: i64, d: usize, n: usize, v2: bool) -> Option<(Vec<u8>, Vec<i64>)> {
    use parquet::file::properties::{EnabledStatistics, WriterProperties, WriterVersion};
    let mut ids: Vec<i64> = Vec::with_capacity(n);
    for i in 0..n { let mut j = if i < d { i } else { r.below(d) } as i64; if i > 0 && ids[i - 1] == j { j = (j + 1) % d as i64 } ids.push(j) }
    let (f, a) = dict_column(ty, &ids);
    let b = RecordBatch::try_new(Arc::new(Schema::new(vec![f])), vec![a]).ok()?;
    quietly(move || {
        let p = WriterProperties::builder().set_dictionary_enabled(true).set_statistics_enabled(EnabledStatistics::None)
            .set_writer_version(if v2 { WriterVersion::PARQUET_2_0 } else { WriterVersion::PARQUET_1_0 }).build();
        let mut w = parquet::arrow::ArrowWriter::try_new(Vec::new(), b.schema(), Some(p)).ok()?;
        w.write(&b).ok()?;
        Some((w.into_inner().ok()?, ids))
    })
}
/// (position of the first packed byte, bit width, number of packed values) of the first data page's index stream
pub fn dict_index_stream(b: &[u8]) -> Option<(usize, usize, usize)> {
    for (_, slots) in pq_page_headers(b) {
        let ints: Vec<&TSlot> = slots.iter().filter(|s| s.what == 0).collect();
        let ptype = ints.first().map(|s| s.val >> 1)?;                   // zig-zag of a small non-negative enum
        if ptype != 0 && ptype != 3 { continue }                          // DATA_PAGE / DATA_PAGE_V2 (required column: no level bytes)
        let payload = slots.last()?.pos + 1;
        let bw = *b.get(payload)? as usize;
        let (h, hl) = read_uleb(b, payload + 1)?;
        if h & 1 != 1 || bw == 0 || bw > 8 { return None }
        let groups = (h >> 1) as usize;
        if payload + 1 + hl + groups * bw > b.len() { return None }
        return Some((payload + 1 + hl, bw, groups * 8));
    }
    None
}
pub fn set_packed(b: &mut [u8], start: usize, bw: usize, pos: usize, v: usize) {
    for k in 0..bw { let bit = pos * bw + k; let (by, bi) = (start + bit / 8, bit % 8); if (v >> k) & 1 == 1 { b[by] |= 1 << bi } else { b[by] &= !(1 << bi) } }
}
pub fn get_packed(b: &[u8], start: usize, bw: usize, pos: usize) -> usize {
    (0..bw).fold(0, |a, k| { let bit = pos * bw + k; a | ((((b[start + bit / 8] >> (bit % 8)) & 1) as usize) << k) })
}

pub fn dict_page_jobs(tier: &str, r: &mut Rng) -> Vec<(Args, String)> {
    let mut out = Vec::new();
    let combos: Vec<(i64, usize)> = if tier == "thorough" { (0..4).flat_map(|t| [3usize, 5, 6, 7].map(|d| (t as i64, d))).collect() }
                                    else { vec![(0, 5), (1, 3), (2, 6), (3, 7), (2, 5), (1, 7), (0, 6)] };
    for (k, (ty, d)) in combos.into_iter().enumerate() {
        let n = 48 + 8 * r.below(3);
        let Some((file, ids)) = dict_file(r, ty, d, n, k % 4 == 3) else { continue };
        out.push((vec![gbytes(&file), gs(&ids), g(ty)], format!("dict t{ty} d{d} valid")));
        let Some((start, bw, nvals)) = dict_index_stream(&file) else { eprintln!("c08: dictionary page layout not recognised (type {ty}, {d} values)"); continue };
        if (1usize << bw) <= d || nvals < 32 { continue }
        // KNOWN-FINDING candidate: for a FIXED_LEN_BYTE_ARRAY column the pinned reader PANICS ("range end index .. out of
        // range", parquet/src/arrow/array_reader/fixed_len_byte_array.rs) on any dictionary index >= dict_len instead of
        // returning Err (witness: replays/C08-witness-flba-dict-index.replay); the patched inputs of that type are
        // excluded until the finding is recorded, the valid file is still read and compared
        if ty == 3 && std::env::var("C08_INCLUDE_KNOWN").is_err() { continue }
        // sanity: the stream really holds the written indices (up to the dictionary's own order): first value is entry 0
        if get_packed(&file, start, bw, 0) != 0 { continue }
        for pos in 0..32 {
            for v in d..(1 << bw) {
                // the boundary value dict_len at every position of the first two groups of 16; the larger ones sampled
                if v > d && pos % 8 != (v % 8) { continue }
                let mut f = file.clone(); set_packed(&mut f, start, bw, pos, v);
                out.push((vec![gbytes(&f), gs(&ids), g(ty)], format!("dict t{ty} d{d} idx{}{}", if v == d { "eq" } else { "gt" }, if pos < 16 { "a" } else { "b" })));
            }
        }
    }
    out
}
