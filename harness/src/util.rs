//! Shared plumbing: PRNG, case representation, text protocol.
use num_bigint::BigInt;
use std::fmt::Write as _;

pub type Group = Vec<BigInt>;
pub type Args = Vec<Group>;

/// SplitMix64: every random choice of the harness derives from one state seeded by VERIF_SEED.
#[derive(Clone)]
pub struct Rng(pub u64);
impl Rng {
    pub fn new(seed: u64) -> Self {
        Rng(seed.wrapping_mul(0x9E3779B97F4A7C15) ^ 0xD1B54A32D192ED03)
    }
    pub fn next(&mut self) -> u64 {
        self.0 = self.0.wrapping_add(0x9E3779B97F4A7C15);
        let mut z = self.0;
        z = (z ^ (z >> 30)).wrapping_mul(0xBF58476D1CE4E5B9);
        z = (z ^ (z >> 27)).wrapping_mul(0x94D049BB133111EB);
        z ^ (z >> 31)
    }
    pub fn below(&mut self, n: usize) -> usize {
        if n == 0 { 0 } else { (self.next() % n as u64) as usize }
    }
    pub fn range(&mut self, lo: i64, hi: i64) -> i64 {
        lo + (self.next() % ((hi - lo + 1) as u64)) as i64
    }
    pub fn bool(&mut self) -> bool { self.next() & 1 == 1 }
    pub fn chance(&mut self, num: u32, den: u32) -> bool { (self.next() % den as u64) < num as u64 }
    pub fn pick<'a, T>(&mut self, xs: &'a [T]) -> &'a T { &xs[self.below(xs.len())] }
    pub fn bytes(&mut self, n: usize) -> Vec<u8> { (0..n).map(|_| self.next() as u8).collect() }
}

pub fn g<T: Into<BigInt>>(x: T) -> Group { vec![x.into()] }
pub fn gs<T: Into<BigInt> + Copy>(xs: &[T]) -> Group { xs.iter().map(|x| (*x).into()).collect() }
pub fn gbytes(xs: &[u8]) -> Group { xs.iter().map(|x| BigInt::from(*x)).collect() }
pub fn gbools<I: IntoIterator<Item = bool>>(xs: I) -> Group { xs.into_iter().map(|b| BigInt::from(b as u8)).collect() }
pub fn gopt<T: Into<BigInt>>(x: Option<T>) -> Group { x.map(|v| vec![v.into()]).unwrap_or_default() }

pub fn to_u8s(gr: &Group) -> Vec<u8> { gr.iter().map(|b| u8::try_from(b).expect("byte")).collect() }
pub fn to_usize(gr: &Group) -> usize { usize::try_from(&gr[0]).expect("usize") }
pub fn to_i64(gr: &Group) -> i64 { i64::try_from(&gr[0]).expect("i64") }
pub fn to_i128(gr: &Group) -> i128 { i128::try_from(&gr[0]).expect("i128") }
pub fn to_bools(gr: &Group) -> Vec<bool> { gr.iter().map(|b| b != &BigInt::from(0)).collect() }
pub fn to_i64s(gr: &Group) -> Vec<i64> { gr.iter().map(|b| i64::try_from(b).expect("i64")).collect() }

pub fn fmt_args(a: &Args) -> String {
    let mut s = String::new();
    for gr in a {
        let mut first = true;
        for x in gr {
            if !first { s.push(','); }
            first = false;
            write!(s, "{}", x).unwrap();
        }
        s.push(';');
    }
    s
}

pub fn parse_args(s: &str) -> Args {
    let mut out = Vec::new();
    let mut cur = Vec::new();
    let mut start = 0;
    let b = s.as_bytes();
    for i in 0..b.len() {
        match b[i] {
            b',' => { cur.push(s[start..i].parse::<BigInt>().expect("int")); start = i + 1; }
            b';' => {
                if i > start { cur.push(s[start..i].parse::<BigInt>().expect("int")); }
                out.push(std::mem::take(&mut cur));
                start = i + 1;
            }
            _ => {}
        }
    }
    out
}

/// Error result convention shared with Base/Codec.v: a single group [-1; kind].
pub const E_OVERFLOW: i64 = 1;
pub const E_DIVZERO: i64 = 2;
pub const E_INVALID: i64 = 3;
pub const E_OOB: i64 = 4;
pub const E_EOF: i64 = 5;
pub const E_UNSUPPORTED: i64 = 6;
pub const E_IO: i64 = 7;
pub const E_PANIC: i64 = 8;
/// Returned by an impl op when the property predicate does not apply to this case (e.g. the
/// constructor rejected the input): the driver does not compare such a line.
pub fn skip() -> Args { vec![vec![BigInt::from(-987654321)]] }
pub fn is_skip(a: &Args) -> bool { a.len() == 1 && a[0].len() == 1 && a[0][0] == BigInt::from(-987654321) }
pub fn err(kind: i64) -> Args { vec![vec![BigInt::from(-1), BigInt::from(kind)]] }

/// One generated case: the implementation op to run, its arguments, and the model ops
/// (extracted Coq functions) whose output must equal the implementation's.
pub struct Case {
    pub op: &'static str,
    pub args: Args,
    pub models: Vec<&'static str>,
    /// coverage tag (path / shape class) counted in the evidence
    pub tag: String,
}
impl Case {
    pub fn new(op: &'static str, args: Args, models: &[&'static str], tag: impl Into<String>) -> Self {
        Case { op, args, models: models.to_vec(), tag: tag.into() }
    }
}

/// An over-allocated, 8-byte aligned backing store from which a byte slice at a chosen
/// alignment (address mod 8) can be carved.
pub struct Aligned { store: Vec<u64>, align: usize, len: usize }
impl Aligned {
    pub fn new(bytes: &[u8], align: usize) -> Self {
        let words = (bytes.len() + align + 7) / 8 + 1;
        let mut store = vec![0u64; words];
        let p = store.as_mut_ptr() as *mut u8;
        // SAFETY: store has words*8 bytes >= align + len
        unsafe { std::ptr::copy_nonoverlapping(bytes.as_ptr(), p.add(align), bytes.len()); }
        Aligned { store, align, len: bytes.len() }
    }
    pub fn slice(&self) -> &[u8] {
        let p = self.store.as_ptr() as *const u8;
        assert_eq!(p as usize % 8, 0);
        // SAFETY: within the allocation
        unsafe { std::slice::from_raw_parts(p.add(self.align), self.len) }
    }
}
