//! C05 end-to-end part: schema/value codec of the case interface, array construction with unusual
//! physical layouts, writer configurations, serial and multi-threaded writing, reading back.
use crate::util::*;
use num_bigint::BigInt;
use std::sync::Arc;

use arrow_array::builder::{BinaryViewBuilder, StringViewBuilder};
use arrow_array::cast::AsArray;
use arrow_array::types::*;
use arrow_array::*;
use arrow_buffer::{i256, BooleanBuffer, Buffer, NullBuffer, OffsetBuffer, ScalarBuffer};
use arrow_schema::{DataType, Field, FieldRef, Fields, Schema, SchemaRef, TimeUnit};
use bytes::Bytes;

// ------------------------------------------------------------------------------------------ schema codec
// field  := name_len, name bytes.., nullable(0/1), type
// type   := code, params.., children..
fn unit_code(u: &TimeUnit) -> i64 { match u { TimeUnit::Second => 0, TimeUnit::Millisecond => 1, TimeUnit::Microsecond => 2, TimeUnit::Nanosecond => 3 } }
fn unit_of(c: i64) -> TimeUnit { match c { 0 => TimeUnit::Second, 1 => TimeUnit::Millisecond, 2 => TimeUnit::Microsecond, _ => TimeUnit::Nanosecond } }
const TZS: [&str; 3] = ["UTC", "+01:00", "-08:30"];

pub fn enc_field(f: &Field, out: &mut Vec<i64>) {
    out.push(f.name().len() as i64);
    out.extend(f.name().bytes().map(|b| b as i64));
    out.push(f.is_nullable() as i64);
    enc_dt(f.data_type(), out);
}

pub fn enc_dt(dt: &DataType, out: &mut Vec<i64>) {
    match dt {
        DataType::Boolean => out.push(1), DataType::Int8 => out.push(2), DataType::Int16 => out.push(3),
        DataType::Int32 => out.push(4), DataType::Int64 => out.push(5), DataType::UInt8 => out.push(6),
        DataType::UInt16 => out.push(7), DataType::UInt32 => out.push(8), DataType::UInt64 => out.push(9),
        DataType::Float32 => out.push(10), DataType::Float64 => out.push(11), DataType::Utf8 => out.push(12),
        DataType::LargeUtf8 => out.push(13), DataType::Utf8View => out.push(14), DataType::Binary => out.push(15),
        DataType::LargeBinary => out.push(16), DataType::BinaryView => out.push(17),
        DataType::FixedSizeBinary(n) => { out.push(18); out.push(*n as i64); }
        DataType::Decimal128(p, s) => { out.push(19); out.push(*p as i64); out.push(*s as i64); }
        DataType::Date32 => out.push(20),
        DataType::Timestamp(u, tz) => {
            out.push(21); out.push(unit_code(u));
            out.push(match tz { None => 0, Some(t) => TZS.iter().position(|x| *x == t.as_ref()).map(|p| p as i64 + 1).unwrap_or(99) });
        }
        DataType::Dictionary(k, v) => { out.push(22); enc_dt(k, out); enc_dt(v, out); }
        DataType::Struct(fs) => { out.push(23); out.push(fs.len() as i64); for f in fs { enc_field(f, out); } }
        DataType::List(f) => { out.push(24); enc_field(f, out); }
        DataType::LargeList(f) => { out.push(25); enc_field(f, out); }
        DataType::FixedSizeList(f, n) => { out.push(26); out.push(*n as i64); enc_field(f, out); }
        DataType::Map(f, sorted) => { out.push(27); out.push(*sorted as i64); enc_field(f, out); }
        DataType::Float16 => out.push(28),
        DataType::Decimal256(p, s) => { out.push(29); out.push(*p as i64); out.push(*s as i64); }
        DataType::Time32(u) => { out.push(31); out.push(unit_code(u)); }
        DataType::Time64(u) => { out.push(32); out.push(unit_code(u)); }
        DataType::Decimal32(p, s) => { out.push(33); out.push(*p as i64); out.push(*s as i64); }
        DataType::Decimal64(p, s) => { out.push(34); out.push(*p as i64); out.push(*s as i64); }
        DataType::Duration(u) => { out.push(35); out.push(unit_code(u)); }
        DataType::Date64 => out.push(30),
        DataType::ListView(f) => { out.push(36); enc_field(f, out); }
        DataType::LargeListView(f) => { out.push(37); enc_field(f, out); }
        DataType::RunEndEncoded(re, v) => { out.push(38); enc_dt(re.data_type(), out); enc_dt(v.data_type(), out); }
        _ => out.push(999),
    }
}

pub fn dec_field(t: &[i64], p: &mut usize) -> Field {
    let n = t[*p] as usize; *p += 1;
    let name = String::from_utf8(t[*p..*p + n].iter().map(|b| *b as u8).collect()).expect("utf8 name"); *p += n;
    let nullable = t[*p] != 0; *p += 1;
    let dt = dec_dt(t, p);
    Field::new(name, dt, nullable)
}

pub fn dec_dt(t: &[i64], p: &mut usize) -> DataType {
    let c = t[*p]; *p += 1;
    let mut next = || { let v = t[*p]; *p += 1; v };
    match c {
        1 => DataType::Boolean, 2 => DataType::Int8, 3 => DataType::Int16, 4 => DataType::Int32, 5 => DataType::Int64,
        6 => DataType::UInt8, 7 => DataType::UInt16, 8 => DataType::UInt32, 9 => DataType::UInt64,
        10 => DataType::Float32, 11 => DataType::Float64, 12 => DataType::Utf8, 13 => DataType::LargeUtf8,
        14 => DataType::Utf8View, 15 => DataType::Binary, 16 => DataType::LargeBinary, 17 => DataType::BinaryView,
        18 => DataType::FixedSizeBinary(next() as i32),
        19 => { let pr = next(); let s = next(); DataType::Decimal128(pr as u8, s as i8) }
        20 => DataType::Date32,
        21 => { let u = next(); let tz = next(); DataType::Timestamp(unit_of(u), if tz == 0 { None } else { Some(TZS[tz as usize - 1].into()) }) }
        22 => { let k = dec_dt(t, p); let v = dec_dt(t, p); DataType::Dictionary(Box::new(k), Box::new(v)) }
        23 => { let n = next(); let fs: Vec<Field> = (0..n).map(|_| dec_field(t, p)).collect(); DataType::Struct(Fields::from(fs)) }
        24 => DataType::List(Arc::new(dec_field(t, p))),
        25 => DataType::LargeList(Arc::new(dec_field(t, p))),
        26 => { let n = next(); DataType::FixedSizeList(Arc::new(dec_field(t, p)), n as i32) }
        27 => { let s = next(); DataType::Map(Arc::new(dec_field(t, p)), s != 0) }
        28 => DataType::Float16,
        29 => { let pr = next(); let s = next(); DataType::Decimal256(pr as u8, s as i8) }
        30 => DataType::Date64,
        31 => DataType::Time32(unit_of(next())),
        32 => DataType::Time64(unit_of(next())),
        33 => { let pr = next(); let s = next(); DataType::Decimal32(pr as u8, s as i8) }
        34 => { let pr = next(); let s = next(); DataType::Decimal64(pr as u8, s as i8) }
        35 => DataType::Duration(unit_of(next())),
        36 => DataType::ListView(Arc::new(dec_field(t, p))),
        37 => DataType::LargeListView(Arc::new(dec_field(t, p))),
        38 => { let k = dec_dt(t, p); let v = dec_dt(t, p); DataType::RunEndEncoded(Arc::new(Field::new("run_ends", k, false)), Arc::new(Field::new("values", v, true))) }
        _ => panic!("bad type code"),
    }
}

pub fn enc_schema(s: &Schema) -> Vec<i64> {
    let mut out = vec![s.fields().len() as i64];
    for f in s.fields() { enc_field(f, &mut out); }
    out
}
pub fn dec_schema(t: &[i64]) -> Schema {
    let mut p = 1;
    let fs: Vec<Field> = (0..t[0]).map(|_| dec_field(t, &mut p)).collect();
    Schema::new(fs)
}

/// the type a written column is documented to come back as: run-end encoded columns return their value type
pub fn read_back_field(f: &Field) -> Field {
    Field::new(f.name(), read_back_type(f.data_type()), f.is_nullable())
}
pub fn read_back_type(dt: &DataType) -> DataType {
    let fr = |f: &FieldRef| Arc::new(read_back_field(f));
    match dt {
        DataType::RunEndEncoded(_, v) => read_back_type(v.data_type()),
        DataType::Struct(fs) => DataType::Struct(Fields::from(fs.iter().map(|f| read_back_field(f)).collect::<Vec<_>>())),
        DataType::List(f) => DataType::List(fr(f)), DataType::LargeList(f) => DataType::LargeList(fr(f)),
        DataType::ListView(f) => DataType::ListView(fr(f)), DataType::LargeListView(f) => DataType::LargeListView(fr(f)),
        DataType::FixedSizeList(f, n) => DataType::FixedSizeList(fr(f), *n),
        DataType::Map(f, s) => DataType::Map(fr(f), *s),
        d => d.clone(),
    }
}

// ------------------------------------------------------------------------------------------ logical values
// value := 0 (null) | 1, payload ;  payload by type: integer | len, bytes.. | (fixed) bytes.. | len, elements.. | children..
#[derive(Clone, Debug)]
pub enum Val { Null, Int(BigInt), Bytes(Vec<u8>), List(Vec<Val>), Struct(Vec<Val>) }

fn is_var_bytes(dt: &DataType) -> bool {
    matches!(dt, DataType::Utf8 | DataType::LargeUtf8 | DataType::Utf8View | DataType::Binary | DataType::LargeBinary | DataType::BinaryView)
}
fn is_stringy(dt: &DataType) -> bool { matches!(dt, DataType::Utf8 | DataType::LargeUtf8 | DataType::Utf8View) }

pub fn enc_val(dt: &DataType, v: &Val, out: &mut Vec<BigInt>) {
    match v {
        Val::Null => out.push(0.into()),
        Val::Int(i) => { out.push(1.into()); out.push(i.clone()); }
        Val::Bytes(b) => {
            out.push(1.into());
            if !matches!(dt, DataType::FixedSizeBinary(_)) { out.push(b.len().into()); }
            out.extend(b.iter().map(|x| BigInt::from(*x)));
        }
        Val::List(l) => {
            out.push(1.into());
            let child = match dt {
                DataType::List(f) | DataType::LargeList(f) | DataType::Map(f, _) | DataType::ListView(f) | DataType::LargeListView(f) => { out.push(l.len().into()); f }
                DataType::FixedSizeList(f, _) => f,
                _ => panic!("list value for non-list type"),
            };
            for x in l { enc_val(child.data_type(), x, out); }
        }
        Val::Struct(cs) => {
            out.push(1.into());
            if let DataType::Struct(fs) = dt { for (f, c) in fs.iter().zip(cs) { enc_val(f.data_type(), c, out); } } else { panic!("struct value") }
        }
    }
}

pub fn parse_val(dt: &DataType, t: &[BigInt], p: &mut usize) -> Val {
    let flag = &t[*p]; *p += 1;
    if flag == &BigInt::from(0) { return Val::Null; }
    let us = |x: &BigInt| usize::try_from(x).expect("usize");
    match dt {
        DataType::Dictionary(_, v) => { *p -= 1; parse_val(v, t, p) }
        DataType::RunEndEncoded(_, v) => { *p -= 1; parse_val(v.data_type(), t, p) }
        d if is_var_bytes(d) => { let n = us(&t[*p]); *p += 1; let b = t[*p..*p + n].iter().map(|x| u8::try_from(x).unwrap()).collect(); *p += n; Val::Bytes(b) }
        DataType::FixedSizeBinary(n) => { let n = *n as usize; let b = t[*p..*p + n].iter().map(|x| u8::try_from(x).unwrap()).collect(); *p += n; Val::Bytes(b) }
        DataType::List(f) | DataType::LargeList(f) | DataType::Map(f, _) | DataType::ListView(f) | DataType::LargeListView(f) => {
            let n = us(&t[*p]); *p += 1;
            Val::List((0..n).map(|_| parse_val(f.data_type(), t, p)).collect())
        }
        DataType::FixedSizeList(f, n) => Val::List((0..*n).map(|_| parse_val(f.data_type(), t, p)).collect()),
        DataType::Struct(fs) => Val::Struct(fs.iter().map(|f| parse_val(f.data_type(), t, p)).collect()),
        _ => { let v = t[*p].clone(); *p += 1; Val::Int(v) }
    }
}

// ------------------------------------------------------------------------------------------ value generation
fn pow10(p: u32) -> BigInt { BigInt::from(10).pow(p) }

fn gen_string(r: &mut Rng) -> Vec<u8> {
    const POOL: [&str; 12] = ["", "a", "b", "ab", "é", "ß", "漢", "😀", "x", " ", "\u{0}", "zz"];
    let n = match r.below(8) { 0 => 0, 1 => 1, 2 => 12 + r.below(3), 3 => 30 + r.below(40), 4 => if r.chance(1, 8) { 150 + r.below(200) } else { 3 }, _ => r.below(8) };
    let mut s = String::new();
    let same = r.chance(1, 4);
    let c0 = *r.pick(&POOL);
    while s.len() < n { s.push_str(if same { if c0.is_empty() { "q" } else { c0 } } else { r.pick(&POOL) }); }
    s.into_bytes()
}

fn gen_float_bits(r: &mut Rng, bits: u32) -> BigInt {
    if bits == 32 {
        let v: u32 = match r.below(12) {
            0 => 0, 1 => 0x8000_0000, 2 => 0x7f80_0000, 3 => 0xff80_0000, 4 => 0x7fc0_0000, 5 => 0x7fc0_0001 | (r.next() as u32 & 0x3f_ffff),
            6 => 0x7f80_0001 | (r.next() as u32 & 0x3f_ffff), 7 => 0xffc0_0000 | (r.next() as u32 & 0x3f_ffff), 8 => 1, 9 => 0x3f80_0000,
            _ => r.next() as u32 };
        BigInt::from(v)
    } else {
        let v: u64 = match r.below(12) {
            0 => 0, 1 => 1 << 63, 2 => 0x7ff0 << 48, 3 => 0xfff0 << 48, 4 => 0x7ff8 << 48, 5 => (0x7ff8 << 48) | (r.next() & 0xffff_ffff_ffff) | 1,
            6 => (0x7ff0 << 48) | (r.next() & 0x7_ffff_ffff_ffff) | 1, 7 => (0xfff8 << 48) | (r.next() & 0xffff_ffff), 8 => 1, 9 => 0x3ff0 << 48,
            _ => r.next() };
        BigInt::from(v)
    }
}

fn gen_int(r: &mut Rng, lo: i128, hi: i128) -> BigInt {
    let v = match r.below(10) {
        0 => lo, 1 => hi, 2 => 0i128.clamp(lo, hi), 3 => (-1i128).clamp(lo, hi), 4 => 1i128.clamp(lo, hi), 5 => lo + 1, 6 => hi - 1,
        7 => (r.range(-200, 200) as i128).clamp(lo, hi),
        _ => { let span = (hi.wrapping_sub(lo) as u128).wrapping_add(1); lo.wrapping_add((((r.next() as u128) << 64 | r.next() as u128) % span.max(1)) as i128) }
    };
    BigInt::from(v)
}

/// a random logical value of type `dt`; `nullable` allows null at this level
pub fn gen_val(dt: &DataType, nullable: bool, r: &mut Rng, null_pct: u32) -> Val {
    if nullable && r.chance(null_pct, 100) { return Val::Null; }
    match dt {
        DataType::Boolean => Val::Int(BigInt::from(r.bool() as u8)),
        DataType::Int8 => Val::Int(gen_int(r, i8::MIN as i128, i8::MAX as i128)),
        DataType::Int16 => Val::Int(gen_int(r, i16::MIN as i128, i16::MAX as i128)),
        DataType::Int32 | DataType::Date32 | DataType::Time32(_) => Val::Int(gen_int(r, i32::MIN as i128, i32::MAX as i128)),
        DataType::Int64 | DataType::Timestamp(_, _) | DataType::Time64(_) | DataType::Date64 | DataType::Duration(_) => Val::Int(gen_int(r, i64::MIN as i128, i64::MAX as i128)),
        DataType::UInt8 => Val::Int(gen_int(r, 0, u8::MAX as i128)),
        DataType::UInt16 => Val::Int(gen_int(r, 0, u16::MAX as i128)),
        DataType::UInt32 => Val::Int(gen_int(r, 0, u32::MAX as i128)),
        DataType::UInt64 => Val::Int(gen_int(r, 0, u64::MAX as i128)),
        DataType::Float16 => Val::Int(BigInt::from(match r.below(6) { 0 => 0u16, 1 => 0x8000, 2 => 0x7c00, 3 => 0x7e01, 4 => 0xfe55, _ => r.next() as u16 })),
        DataType::Float32 => Val::Int(gen_float_bits(r, 32)),
        DataType::Float64 => Val::Int(gen_float_bits(r, 64)),
        DataType::Utf8 | DataType::LargeUtf8 | DataType::Utf8View => Val::Bytes(gen_string(r)),
        DataType::Binary | DataType::LargeBinary | DataType::BinaryView => { let n = match r.below(6) { 0 => 0, 1 => 13, 2 => 40 + r.below(30), _ => r.below(10) }; Val::Bytes(r.bytes(n)) }
        DataType::FixedSizeBinary(n) => Val::Bytes(if r.chance(1, 4) { vec![*r.pick(&[0u8, 0xff, 0x80, 0x7f]); *n as usize] } else { r.bytes(*n as usize) }),
        DataType::Decimal32(p, _) | DataType::Decimal64(p, _) | DataType::Decimal128(p, _) => {
            let m = pow10(*p as u32) - 1; let mi = i128::try_from(&m).unwrap();
            Val::Int(gen_int(r, -mi, mi))
        }
        DataType::Decimal256(p, _) => {
            let m: BigInt = pow10(*p as u32) - 1;
            let v = match r.below(5) { 0 => m.clone(), 1 => -m.clone(), 2 => BigInt::from(0), 3 => BigInt::from(r.range(-1000, 1000)),
                _ => { let mut x = BigInt::from(0u8); for _ in 0..4 { x = (x << 64) + BigInt::from(r.next()); } let x: BigInt = x % (&m + BigInt::from(1)); if r.bool() { -x } else { x } } };
            Val::Int(v)
        }
        DataType::Dictionary(_, v) => { // small pool so that keys repeat
            if is_stringy(v) { Val::Bytes(r.pick(&["", "a", "bb", "漢字", "a-rather-long-dictionary-value-over-12", "x"]).as_bytes().to_vec()) }
            else { match **v {
                DataType::Int32 => Val::Int(BigInt::from(*r.pick(&[i32::MIN, i32::MAX, 0, 1, -1, 7, 100000]))),
                DataType::Int64 => Val::Int(BigInt::from(*r.pick(&[i64::MIN, i64::MAX, 0, 1, -1, 7, 1 << 40]))),
                DataType::Float64 => Val::Int(BigInt::from(*r.pick(&[0u64, 1 << 63, 0x7ff8 << 48, (0x7ff8 << 48) | 5, (0xfff0 << 48) | 1, 0x3ff0 << 48]))),
                DataType::Binary => Val::Bytes(r.pick(&[&b""[..], &b"\x00"[..], &b"\xff\xfe"[..], &b"binary-value-longer-than-twelve"[..]]).to_vec()),
                _ => gen_val(v, false, r, 0),
            } }
        }
        DataType::Struct(fs) => Val::Struct(fs.iter().map(|f| gen_val(f.data_type(), f.is_nullable(), r, null_pct)).collect()),
        DataType::RunEndEncoded(_, v) => { // long runs of equal values are what the type is for
            gen_val(v.data_type(), false, r, 0)
        }
        DataType::List(f) | DataType::LargeList(f) | DataType::ListView(f) | DataType::LargeListView(f) => {
            let n = match r.below(6) { 0 | 1 => 0, 2 => 1, 3 => 2, 4 => 3 + r.below(4), _ => if r.chance(1, 10) { 20 + r.below(60) } else { r.below(4) } };
            Val::List((0..n).map(|_| gen_val(f.data_type(), f.is_nullable(), r, null_pct)).collect())
        }
        DataType::FixedSizeList(f, n) => Val::List((0..*n).map(|_| gen_val(f.data_type(), f.is_nullable(), r, null_pct)).collect()),
        DataType::Map(f, _) => {
            let n = match r.below(5) { 0 | 1 => 0, 2 => 1, _ => r.below(5) };
            Val::List((0..n).map(|_| gen_val(f.data_type(), false, r, null_pct)).collect())
        }
        _ => panic!("gen_val: unsupported type"),
    }
}

// ------------------------------------------------------------------------------------------ arrays from values
fn nulls_of(vals: &[&Val], r: &mut Rng) -> Option<NullBuffer> {
    let any = vals.iter().any(|v| matches!(v, Val::Null));
    if any || r.chance(1, 4) { Some(NullBuffer::from(vals.iter().map(|v| !matches!(v, Val::Null)).collect::<Vec<bool>>())) } else { None }
}

fn int_of(v: &Val, garbage: &mut Rng) -> i128 {
    match v { Val::Int(i) => i128::try_from(i).expect("i128"), _ => garbage.next() as i64 as i128 }
}

macro_rules! prim {
    ($t:ty, $vals:expr, $r:expr, $dt:expr) => {{
        let nulls = nulls_of($vals, $r);
        let v: Vec<<$t as ArrowPrimitiveType>::Native> = $vals.iter().map(|x| int_of(x, $r) as <$t as ArrowPrimitiveType>::Native).collect();
        Arc::new(PrimitiveArray::<$t>::new(ScalarBuffer::from(v), nulls).with_data_type($dt.clone())) as ArrayRef
    }};
}

fn offsets_and_data(vals: &[&Val], r: &mut Rng) -> (Vec<usize>, Vec<u8>) {
    let mut offs = vec![0usize]; let mut data = Vec::new();
    if r.chance(1, 3) { let k = r.below(5); data.extend(std::iter::repeat(b'#').take(k)); offs[0] = data.len(); }
    for v in vals {
        match v { Val::Bytes(b) => data.extend_from_slice(b), _ => if r.chance(1, 2) { data.extend_from_slice(b"gar") } }
        offs.push(data.len());
    }
    (offs, data)
}

thread_local! {
    /// KNOWN-FINDING candidate: with content-defined chunking, ArrayLevels::slice_for_chunk (levels.rs:1192-1202) assumes
    /// that a leaf's non_null_indices are ascending (start = first, end = last + 1, idx - start); a ListView /
    /// LargeListView whose views are not laid out in ascending order breaks that: "attempt to subtract with
    /// overflow" (levels.rs:1200) or an index out of bounds in write_gather (column/writer/encoder.rs:287).
    /// While CDC is on, list views are therefore built with ascending offsets (set per case from the config).
    pub static LISTVIEW_ASCENDING: std::cell::Cell<bool> = const { std::cell::Cell::new(false) };
}

/// Build an array of type `dt` holding `vals`, choosing the physical layout (validity buffer present or not,
/// garbage under nulls, child offsets not starting at 0, unused dictionary entries) from `r`.
pub fn build_array(dt: &DataType, vals: &[&Val], r: &mut Rng) -> ArrayRef {
    match dt {
        DataType::Boolean => {
            let nulls = nulls_of(vals, r);
            let b: Vec<bool> = vals.iter().map(|v| match v { Val::Int(i) => i != &BigInt::from(0), _ => r.bool() }).collect();
            Arc::new(BooleanArray::new(BooleanBuffer::from(b), nulls))
        }
        DataType::Int8 => prim!(Int8Type, vals, r, dt), DataType::Int16 => prim!(Int16Type, vals, r, dt),
        DataType::Int32 => prim!(Int32Type, vals, r, dt), DataType::Int64 => prim!(Int64Type, vals, r, dt),
        DataType::UInt8 => prim!(UInt8Type, vals, r, dt), DataType::UInt16 => prim!(UInt16Type, vals, r, dt),
        DataType::UInt32 => prim!(UInt32Type, vals, r, dt), DataType::UInt64 => prim!(UInt64Type, vals, r, dt),
        DataType::Date32 => prim!(Date32Type, vals, r, dt), DataType::Date64 => prim!(Date64Type, vals, r, dt),
        DataType::Time32(TimeUnit::Second) => prim!(Time32SecondType, vals, r, dt),
        DataType::Time32(_) => prim!(Time32MillisecondType, vals, r, dt),
        DataType::Time64(TimeUnit::Microsecond) => prim!(Time64MicrosecondType, vals, r, dt),
        DataType::Time64(_) => prim!(Time64NanosecondType, vals, r, dt),
        DataType::Timestamp(TimeUnit::Second, _) => prim!(TimestampSecondType, vals, r, dt),
        DataType::Timestamp(TimeUnit::Millisecond, _) => prim!(TimestampMillisecondType, vals, r, dt),
        DataType::Timestamp(TimeUnit::Microsecond, _) => prim!(TimestampMicrosecondType, vals, r, dt),
        DataType::Timestamp(TimeUnit::Nanosecond, _) => prim!(TimestampNanosecondType, vals, r, dt),
        DataType::Duration(TimeUnit::Second) => prim!(DurationSecondType, vals, r, dt),
        DataType::Duration(TimeUnit::Millisecond) => prim!(DurationMillisecondType, vals, r, dt),
        DataType::Duration(TimeUnit::Microsecond) => prim!(DurationMicrosecondType, vals, r, dt),
        DataType::Duration(TimeUnit::Nanosecond) => prim!(DurationNanosecondType, vals, r, dt),
        DataType::Decimal32(_, _) => prim!(Decimal32Type, vals, r, dt),
        DataType::Decimal64(_, _) => prim!(Decimal64Type, vals, r, dt),
        DataType::Decimal128(_, _) => {
            let nulls = nulls_of(vals, r);
            let v: Vec<i128> = vals.iter().map(|x| match x { Val::Int(i) => i128::try_from(i).unwrap(), _ => 0 }).collect();
            Arc::new(Decimal128Array::new(ScalarBuffer::from(v), nulls).with_data_type(dt.clone()))
        }
        DataType::Decimal256(_, _) => {
            let nulls = nulls_of(vals, r);
            let v: Vec<i256> = vals.iter().map(|x| match x { Val::Int(i) => { let mut b = i.to_signed_bytes_le(); let ext = if i.sign() == num_bigint::Sign::Minus { 0xff } else { 0 }; b.resize(32, ext); i256::from_le_bytes(b.try_into().unwrap()) } _ => i256::ZERO }).collect();
            Arc::new(Decimal256Array::new(ScalarBuffer::from(v), nulls).with_data_type(dt.clone()))
        }
        DataType::Float16 => {
            let nulls = nulls_of(vals, r);
            let v: Vec<half::f16> = vals.iter().map(|x| half::f16::from_bits(int_of(x, r) as u16)).collect();
            Arc::new(Float16Array::new(ScalarBuffer::from(v), nulls))
        }
        DataType::Float32 => {
            let nulls = nulls_of(vals, r);
            let v: Vec<f32> = vals.iter().map(|x| f32::from_bits(int_of(x, r) as u32)).collect();
            Arc::new(Float32Array::new(ScalarBuffer::from(v), nulls))
        }
        DataType::Float64 => {
            let nulls = nulls_of(vals, r);
            let v: Vec<f64> = vals.iter().map(|x| f64::from_bits(int_of(x, r) as u64)).collect();
            Arc::new(Float64Array::new(ScalarBuffer::from(v), nulls))
        }
        DataType::Utf8 | DataType::Binary => {
            let nulls = nulls_of(vals, r);
            let (offs, data) = offsets_and_data(vals, r);
            let ob = OffsetBuffer::new(ScalarBuffer::from(offs.iter().map(|o| *o as i32).collect::<Vec<_>>()));
            if dt == &DataType::Utf8 { Arc::new(StringArray::new(ob, Buffer::from_vec(data), nulls)) } else { Arc::new(BinaryArray::new(ob, Buffer::from_vec(data), nulls)) }
        }
        DataType::LargeUtf8 | DataType::LargeBinary => {
            let nulls = nulls_of(vals, r);
            let (offs, data) = offsets_and_data(vals, r);
            let ob = OffsetBuffer::new(ScalarBuffer::from(offs.iter().map(|o| *o as i64).collect::<Vec<_>>()));
            if dt == &DataType::LargeUtf8 { Arc::new(LargeStringArray::new(ob, Buffer::from_vec(data), nulls)) } else { Arc::new(LargeBinaryArray::new(ob, Buffer::from_vec(data), nulls)) }
        }
        DataType::Utf8View => {
            let mut b = StringViewBuilder::new().with_fixed_block_size(*r.pick(&[16u32, 64, 8192]));
            for v in vals { match v { Val::Bytes(x) => b.append_value(std::str::from_utf8(x).expect("utf8")), _ => b.append_null() } }
            Arc::new(b.finish())
        }
        DataType::BinaryView => {
            let mut b = BinaryViewBuilder::new().with_fixed_block_size(*r.pick(&[16u32, 64, 8192]));
            for v in vals { match v { Val::Bytes(x) => b.append_value(x), _ => b.append_null() } }
            Arc::new(b.finish())
        }
        DataType::FixedSizeBinary(n) => {
            let nulls = nulls_of(vals, r);
            let mut data = Vec::new();
            for v in vals { match v { Val::Bytes(b) => data.extend_from_slice(b), _ => data.extend(r.bytes(*n as usize)) } }
            Arc::new(FixedSizeBinaryArray::new(*n, Buffer::from_vec(data), nulls))
        }
        DataType::Dictionary(k, vt) => {
            assert!(matches!(**k, DataType::Int32 | DataType::Int8 | DataType::UInt16));
            // dictionary: distinct values (first occurrence order or shuffled), plus unused and duplicate entries
            let mut dict: Vec<Val> = Vec::new();
            if r.chance(1, 3) { dict.push(gen_val(vt, false, r, 0)); }
            let mut keys: Vec<Option<usize>> = Vec::new();
            for v in vals {
                match v {
                    Val::Null => keys.push(None),
                    _ => {
                        let mut e = Vec::new(); enc_val(vt, v, &mut e);
                        let found = if dict.len() < 100 && r.chance(1, 8) { None } else { dict.iter().position(|d| { let mut x = Vec::new(); enc_val(vt, d, &mut x); x == e }) };
                        let idx = match found { Some(i) => i, None => { dict.push((*v).clone()); dict.len() - 1 } };
                        keys.push(Some(idx));
                    }
                }
            }
            if dict.is_empty() || r.chance(1, 3) { dict.push(gen_val(vt, false, r, 0)); }
            let dvals: Vec<&Val> = dict.iter().collect();
            let values = build_array(vt, &dvals, r);
            let kn = NullBuffer::from(keys.iter().map(|k| k.is_some()).collect::<Vec<bool>>());
            let kn = if keys.iter().all(|k| k.is_some()) { None } else { Some(kn) };   // DictionaryArray::is_nullable() is true for any validity buffer
            let glen = dict.len();
            match **k {
                DataType::Int32 => { let kv: Vec<i32> = keys.iter().map(|k| k.map(|i| i as i32).unwrap_or_else(|| r.below(glen) as i32)).collect();
                    Arc::new(DictionaryArray::<Int32Type>::new(Int32Array::new(ScalarBuffer::from(kv), kn), values)) }
                DataType::Int8 => { let kv: Vec<i8> = keys.iter().map(|k| k.map(|i| i as i8).unwrap_or(0)).collect();
                    Arc::new(DictionaryArray::<Int8Type>::new(Int8Array::new(ScalarBuffer::from(kv), kn), values)) }
                _ => { let kv: Vec<u16> = keys.iter().map(|k| k.map(|i| i as u16).unwrap_or(0)).collect();
                    Arc::new(DictionaryArray::<UInt16Type>::new(UInt16Array::new(ScalarBuffer::from(kv), kn), values)) }
            }
        }
        DataType::Struct(fs) => {
            let nulls = nulls_of(vals, r);
            let mut cols: Vec<ArrayRef> = Vec::new();
            for (ci, f) in fs.iter().enumerate() {
                // under a null struct slot the children hold arbitrary (type-correct) values
                let garbage: Vec<Val> = vals.iter().map(|v| match v { Val::Struct(_) => Val::Null, _ => gen_val(f.data_type(), f.is_nullable(), r, 30) }).collect();
                let cv: Vec<&Val> = vals.iter().zip(garbage.iter()).map(|(v, g)| match v { Val::Struct(cs) => &cs[ci], _ => g }).collect();
                cols.push(build_array(f.data_type(), &cv, r));
            }
            Arc::new(StructArray::new(fs.clone(), cols, nulls))
        }
        DataType::List(f) | DataType::LargeList(f) | DataType::Map(f, _) => {
            let nulls = nulls_of(vals, r);
            let mut child: Vec<Val> = Vec::new();
            let elem_nullable = f.is_nullable() && !matches!(dt, DataType::Map(_, _));
            if r.chance(1, 3) { for _ in 0..r.below(4) { child.push(gen_val(f.data_type(), elem_nullable, r, 30)); } }
            let mut offs = vec![child.len()];
            for v in vals {
                match v {
                    Val::List(l) => child.extend(l.iter().cloned()),
                    _ => if r.chance(1, 2) { for _ in 0..(1 + r.below(3)) { child.push(gen_val(f.data_type(), elem_nullable, r, 30)); } }  // non-empty range under a null slot
                }
                offs.push(child.len());
            }
            if r.chance(1, 4) { child.push(gen_val(f.data_type(), elem_nullable, r, 30)); }   // trailing unused child values
            let cv: Vec<&Val> = child.iter().collect();
            let values = build_array(f.data_type(), &cv, r);
            match dt {
                DataType::List(_) => Arc::new(ListArray::new(f.clone(), OffsetBuffer::new(ScalarBuffer::from(offs.iter().map(|o| *o as i32).collect::<Vec<_>>())), values, nulls)),
                DataType::LargeList(_) => Arc::new(LargeListArray::new(f.clone(), OffsetBuffer::new(ScalarBuffer::from(offs.iter().map(|o| *o as i64).collect::<Vec<_>>())), values, nulls)),
                DataType::Map(_, sorted) => Arc::new(MapArray::new(f.clone(), OffsetBuffer::new(ScalarBuffer::from(offs.iter().map(|o| *o as i32).collect::<Vec<_>>())), values.as_struct().clone(), nulls, *sorted)),
                _ => unreachable!(),
            }
        }
        DataType::ListView(f) | DataType::LargeListView(f) => {
            // views: segments laid out in a random order, identical sub-lists may share a range, gaps between segments
            let nulls = nulls_of(vals, r);
            let mut order: Vec<usize> = (0..vals.len()).collect();
            if !LISTVIEW_ASCENDING.with(|c| c.get()) { for i in (1..order.len()).rev() { let j = r.below(i + 1); order.swap(i, j); } }
            let mut child: Vec<Val> = Vec::new();
            let mut offs = vec![0usize; vals.len()]; let mut sizes = vec![0usize; vals.len()];
            for &row in &order {
                if r.chance(1, 6) { child.push(gen_val(f.data_type(), f.is_nullable(), r, 30)); }   // gap
                match vals[row] {
                    Val::List(l) => { offs[row] = child.len(); sizes[row] = l.len(); child.extend(l.iter().cloned()); }
                    _ => { // null slot: a (possibly non-empty) range of whatever is there
                        let sz = if child.is_empty() { 0 } else { r.below(child.len().min(3) + 1) };
                        offs[row] = child.len() - sz; sizes[row] = sz;
                    }
                }
            }
            let cv: Vec<&Val> = child.iter().collect();
            let values = build_array(f.data_type(), &cv, r);
            match dt {
                DataType::ListView(_) => Arc::new(ListViewArray::new(f.clone(), ScalarBuffer::from(offs.iter().map(|o| *o as i32).collect::<Vec<_>>()), ScalarBuffer::from(sizes.iter().map(|o| *o as i32).collect::<Vec<_>>()), values, nulls)),
                _ => Arc::new(LargeListViewArray::new(f.clone(), ScalarBuffer::from(offs.iter().map(|o| *o as i64).collect::<Vec<_>>()), ScalarBuffer::from(sizes.iter().map(|o| *o as i64).collect::<Vec<_>>()), values, nulls)),
            }
        }
        DataType::RunEndEncoded(_, vf) => {
            // runs: maximal runs of equal logical values, sometimes split further
            let mut ends: Vec<i32> = Vec::new(); let mut rv: Vec<&Val> = Vec::new();
            let key = |v: &Val| { let mut e = Vec::new(); enc_val(vf.data_type(), v, &mut e); e };
            for (i, v) in vals.iter().enumerate() {
                let same = i > 0 && key(v) == key(vals[i - 1]) && !r.chance(1, 10);
                if same { *ends.last_mut().unwrap() = (i + 1) as i32; } else { ends.push((i + 1) as i32); rv.push(v); }
            }
            let values = build_array(vf.data_type(), &rv, r);
            Arc::new(RunArray::<Int32Type>::try_new(&Int32Array::from(ends), values.as_ref()).expect("run array"))
        }
        DataType::FixedSizeList(f, n) => {
            let nulls = nulls_of(vals, r);
            let mut child: Vec<Val> = Vec::new();
            for v in vals {
                match v { Val::List(l) => child.extend(l.iter().cloned()), _ => for _ in 0..*n { child.push(gen_val(f.data_type(), f.is_nullable(), r, 30)); } }
            }
            let cv: Vec<&Val> = child.iter().collect();
            let values = build_array(f.data_type(), &cv, r);
            if *n == 0 { Arc::new(FixedSizeListArray::try_new_with_length(f.clone(), 0, values, nulls, vals.len()).expect("fsl0")) }
            else { Arc::new(FixedSizeListArray::new(f.clone(), *n, values, nulls)) }
        }
        _ => panic!("build_array: unsupported type"),
    }
}

/// top-level column: optionally built longer and sliced, so that the written array has a non-zero offset
pub fn build_column(f: &Field, vals: &[Val], r: &mut Rng) -> ArrayRef {
    let (lead, trail) = if r.chance(1, 3) { (r.below(10), r.below(4)) } else { (0, 0) };
    let mut all: Vec<Val> = (0..lead).map(|_| gen_val(f.data_type(), f.is_nullable(), r, 30)).collect();
    all.extend(vals.iter().cloned());
    for _ in 0..trail { all.push(gen_val(f.data_type(), f.is_nullable(), r, 30)); }
    let refs: Vec<&Val> = all.iter().collect();
    build_array(f.data_type(), &refs, r).slice(lead, vals.len())
}

// ------------------------------------------------------------------------------------------ arrays -> canonical rows
pub fn enc_row(arr: &dyn Array, i: usize, out: &mut Vec<BigInt>) {
    if arr.is_null(i) { out.push(0.into()); return; }
    macro_rules! p { ($t:ty) => {{ out.push(1.into()); out.push(BigInt::from(arr.as_primitive::<$t>().value(i))); }}; }
    let bytes = |out: &mut Vec<BigInt>, b: &[u8], with_len: bool| { out.push(1.into()); if with_len { out.push(b.len().into()); } out.extend(b.iter().map(|x| BigInt::from(*x))); };
    match arr.data_type() {
        DataType::Boolean => { out.push(1.into()); out.push((arr.as_boolean().value(i) as u8).into()); }
        DataType::Int8 => p!(Int8Type), DataType::Int16 => p!(Int16Type), DataType::Int32 => p!(Int32Type), DataType::Int64 => p!(Int64Type),
        DataType::UInt8 => p!(UInt8Type), DataType::UInt16 => p!(UInt16Type), DataType::UInt32 => p!(UInt32Type), DataType::UInt64 => p!(UInt64Type),
        DataType::Date32 => p!(Date32Type), DataType::Date64 => p!(Date64Type),
        DataType::Time32(TimeUnit::Second) => p!(Time32SecondType), DataType::Time32(_) => p!(Time32MillisecondType),
        DataType::Time64(TimeUnit::Microsecond) => p!(Time64MicrosecondType), DataType::Time64(_) => p!(Time64NanosecondType),
        DataType::Timestamp(TimeUnit::Second, _) => p!(TimestampSecondType), DataType::Timestamp(TimeUnit::Millisecond, _) => p!(TimestampMillisecondType),
        DataType::Timestamp(TimeUnit::Microsecond, _) => p!(TimestampMicrosecondType), DataType::Timestamp(TimeUnit::Nanosecond, _) => p!(TimestampNanosecondType),
        DataType::Duration(TimeUnit::Second) => p!(DurationSecondType), DataType::Duration(TimeUnit::Millisecond) => p!(DurationMillisecondType),
        DataType::Duration(TimeUnit::Microsecond) => p!(DurationMicrosecondType), DataType::Duration(TimeUnit::Nanosecond) => p!(DurationNanosecondType),
        DataType::Decimal32(_, _) => p!(Decimal32Type), DataType::Decimal64(_, _) => p!(Decimal64Type), DataType::Decimal128(_, _) => p!(Decimal128Type),
        DataType::Decimal256(_, _) => { out.push(1.into()); out.push(BigInt::from_signed_bytes_le(&arr.as_primitive::<Decimal256Type>().value(i).to_le_bytes())); }
        DataType::Float16 => { out.push(1.into()); out.push(arr.as_primitive::<Float16Type>().value(i).to_bits().into()); }
        DataType::Float32 => { out.push(1.into()); out.push(arr.as_primitive::<Float32Type>().value(i).to_bits().into()); }
        DataType::Float64 => { out.push(1.into()); out.push(arr.as_primitive::<Float64Type>().value(i).to_bits().into()); }
        DataType::Utf8 => bytes(out, arr.as_string::<i32>().value(i).as_bytes(), true),
        DataType::LargeUtf8 => bytes(out, arr.as_string::<i64>().value(i).as_bytes(), true),
        DataType::Utf8View => bytes(out, arr.as_string_view().value(i).as_bytes(), true),
        DataType::Binary => bytes(out, arr.as_binary::<i32>().value(i), true),
        DataType::LargeBinary => bytes(out, arr.as_binary::<i64>().value(i), true),
        DataType::BinaryView => bytes(out, arr.as_binary_view().value(i), true),
        DataType::FixedSizeBinary(_) => bytes(out, arr.as_fixed_size_binary().value(i), false),
        DataType::Dictionary(_, _) => {
            let d = arr.as_any_dictionary();
            let k = d.normalized_keys()[i];
            enc_row(d.values().as_ref(), k, out);
        }
        DataType::Struct(_) => { out.push(1.into()); for c in arr.as_struct().columns() { enc_row(c.as_ref(), i, out); } }
        DataType::List(_) => { let l = arr.as_list::<i32>().value(i); out.push(1.into()); out.push(l.len().into()); for j in 0..l.len() { enc_row(l.as_ref(), j, out); } }
        DataType::LargeList(_) => { let l = arr.as_list::<i64>().value(i); out.push(1.into()); out.push(l.len().into()); for j in 0..l.len() { enc_row(l.as_ref(), j, out); } }
        DataType::Map(_, _) => { let l = arr.as_map().value(i); out.push(1.into()); out.push(l.len().into()); for j in 0..l.len() { enc_row(&l, j, out); } }
        DataType::ListView(_) => { let l = arr.as_list_view::<i32>().value(i); out.push(1.into()); out.push(l.len().into()); for j in 0..l.len() { enc_row(l.as_ref(), j, out); } }
        DataType::LargeListView(_) => { let l = arr.as_list_view::<i64>().value(i); out.push(1.into()); out.push(l.len().into()); for j in 0..l.len() { enc_row(l.as_ref(), j, out); } }
        DataType::RunEndEncoded(_, _) => { let ra = arr.as_run::<Int32Type>(); let k = ra.get_physical_index(i); enc_row(ra.values().as_ref(), k, out); }
        DataType::FixedSizeList(_, _) => { let l = arr.as_fixed_size_list().value(i); out.push(1.into()); for j in 0..l.len() { enc_row(l.as_ref(), j, out); } }
        _ => out.push(BigInt::from(-999)),
    }
}

include!("c05_e2e_io.rs");
