//! C18 — truncation and I/O faults are reported, never turned into wrong rows.
//!
//! Every case re-creates its artefact from (format, options, seed, schema, batches) so that `run` is a pure
//! function of its arguments.  The real writers are driven through an instrumented sink (`FaultSink`) that
//! counts write/flush calls and injects one fault at call k; the real readers are run on every truncation
//! length of the real artefacts and through an instrumented source (`FaultRead`, `FaultChunk`).
//! The deciding predicates are the extracted Coq models (`c18.*.post`).
use crate::util::*;
use arrow_array::builder::{Int32Builder, ListBuilder};
use arrow_array::*;
use arrow_cast::display::{ArrayFormatter, FormatOptions};
use arrow_schema::{DataType, Field, Schema, SchemaRef};
use bytes::Bytes;
use num_bigint::BigInt;
use std::io::{self, BufReader, Cursor, Read, Seek, SeekFrom, Write};
use std::sync::{Arc, Mutex};

// ------------------------------------------------------------------------------------------ data
/// schema variants; `sv` 3,4 (dictionary, list+float) are only used with IPC and Parquet
fn make_batches(sv: usize, nb: usize, seed: u64) -> (SchemaRef, Vec<RecordBatch>) {
    // sv / 100: 1 = every batch has zero rows (header-only outputs), 2 = only the first batch has zero rows
    let (empties, sv) = (sv / 100, sv % 100);
    let mut r = Rng::new(seed ^ 0xC18);
    let alphabet: Vec<&str> = vec!["a", "b", "Z", "0", " ", ",", "\"", "\\", "\n", "é", "{", "}", "PAR1", "ARROW1", ":"];
    let rstr = |r: &mut Rng| -> String {
        let n = r.below(7);
        (0..n).map(|_| *r.pick(&alphabet)).collect()
    };
    let schema: SchemaRef = Arc::new(match sv {
        0 => Schema::new(vec![Field::new("a", DataType::Int32, false)]),
        1 | 5 => Schema::new(vec![Field::new("a", DataType::Int64, true), Field::new("s", DataType::Utf8, true)]),
        2 => Schema::new(vec![
            Field::new("b", DataType::Boolean, true),
            Field::new("s", DataType::Utf8, false),
            Field::new("x", DataType::Int32, true),
        ]),
        3 => Schema::new(vec![
            Field::new("d", DataType::Dictionary(Box::new(DataType::Int32), Box::new(DataType::Utf8)), true),
            Field::new("a", DataType::Int32, false),
        ]),
        _ => Schema::new(vec![
            Field::new("l", DataType::List(Arc::new(Field::new_list_field(DataType::Int32, true))), true),
            Field::new("f", DataType::Float64, false),
        ]),
    });
    let mut out = Vec::new();
    for bi in 0..nb {
        let rows = match r.below(8) { 0 => 0, 1 => 1, 2 => 8 + r.below(3), 3 => 30 + r.below(12), _ => 1 + r.below(7) };
        let rows = if empties == 1 || (empties == 2 && bi == 0) { 0 } else { rows };
        // sv 5: arrays are slices of longer arrays (non-zero offset)
        let (pad, total) = if sv == 5 { let p = 1 + r.below(9); (p, rows + p + r.below(3)) } else { (0, rows) };
        let cols: Vec<ArrayRef> = match sv {
            0 => vec![Arc::new(Int32Array::from((0..total).map(|_| r.next() as i32).collect::<Vec<_>>()))],
            1 | 5 => vec![
                Arc::new(Int64Array::from((0..total).map(|_| if r.chance(1, 4) { None } else { Some(r.next() as i64 >> r.below(60)) }).collect::<Vec<_>>())),
                Arc::new(StringArray::from((0..total).map(|_| if r.chance(1, 5) { None } else { Some(rstr(&mut r)) }).collect::<Vec<_>>())),
            ],
            2 => vec![
                Arc::new(BooleanArray::from((0..total).map(|_| if r.chance(1, 4) { None } else { Some(r.bool()) }).collect::<Vec<_>>())),
                // never empty: CSV cannot represent an empty string in a non-nullable column (it reads back as null)
                Arc::new(StringArray::from((0..total).map(|_| { let mut t = rstr(&mut r); if t.is_empty() { t.push('q'); } t }).collect::<Vec<_>>())),
                Arc::new(Int32Array::from((0..total).map(|_| if r.chance(1, 3) { None } else { Some(r.range(-5, 5) as i32) }).collect::<Vec<_>>())),
            ],
            3 => {
                // one dictionary shared by all batches (the IPC file format forbids dictionary replacement)
                let words: ArrayRef = Arc::new(StringArray::from(vec!["x", "yy", "PAR1", "", "zzz"]));
                let keys = Int32Array::from((0..total).map(|_| if r.chance(1, 5) { None } else { Some(r.below(5) as i32) }).collect::<Vec<_>>());
                let d = DictionaryArray::<arrow_array::types::Int32Type>::try_new(keys, words).expect("dictionary");
                vec![Arc::new(d), Arc::new(Int32Array::from((0..total).map(|_| r.range(-100, 100) as i32).collect::<Vec<_>>()))]
            }
            _ => {
                let mut lb = ListBuilder::new(Int32Builder::new());
                for _ in 0..total {
                    if r.chance(1, 5) { lb.append(false); } else {
                        for _ in 0..r.below(4) { if r.chance(1, 6) { lb.values().append_null() } else { lb.values().append_value(r.range(-9, 9) as i32) } }
                        lb.append(true);
                    }
                }
                let fl = [0.0f64, -0.0, 1.5, f64::NAN, f64::INFINITY, 1e300, -2.25];
                vec![Arc::new(lb.finish()), Arc::new(Float64Array::from((0..total).map(|_| *r.pick(&fl)).collect::<Vec<_>>()))]
            }
        };
        let cols: Vec<ArrayRef> = if sv == 5 { cols.iter().map(|c| c.slice(pad, rows)).collect() } else { cols };
        out.push(RecordBatch::try_new(schema.clone(), cols).expect("batch"));
    }
    (schema, out)
}

fn mix(h: u64, x: u64) -> u64 {
    let mut z = (h ^ x).wrapping_mul(0x9E3779B97F4A7C15).rotate_left(27) ^ x.wrapping_mul(0xBF58476D1CE4E5B9);
    z = (z ^ (z >> 31)).wrapping_mul(0x94D049BB133111EB);
    z ^ (z >> 29)
}
/// one hash per row, from the canonical text of every column value plus its null flag
fn row_hashes(b: &RecordBatch) -> Vec<u64> {
    let opts = FormatOptions::default().with_null("\u{1}null");
    let fmts: Vec<ArrayFormatter> = b.columns().iter().map(|c| ArrayFormatter::try_new(c.as_ref(), &opts).expect("formatter")).collect();
    (0..b.num_rows()).map(|i| {
        let mut h = 0xcbf29ce484222325u64;
        for (ci, f) in fmts.iter().enumerate() {
            h = mix(h, ci as u64 + 1);
            h = mix(h, b.column(ci).is_null(i) as u64);
            for byte in f.value(i).to_string().bytes() { h = mix(h, byte as u64 + 7); }
        }
        h
    }).collect()
}
const H0: u64 = 0x243F6A8885A308D3;
/// H_i = hash of the first i rows, i = 0..=N
fn prefix_hashes(rows: &[u64]) -> Vec<u64> {
    let mut v = vec![H0];
    for r in rows { let l = *v.last().unwrap(); v.push(mix(l, *r)); }
    v
}
fn gu64s(xs: &[u64]) -> Group { xs.iter().map(|x| BigInt::from(*x)).collect() }

// ------------------------------------------------------------------------------------------ fault sink
#[derive(Default)]
struct SinkState {
    calls: usize,
    fault: Option<(usize, u8)>,
    trace: Vec<i64>,
    data: Vec<u8>,
    before: Option<usize>,
}
#[derive(Clone)]
struct FaultSink(Arc<Mutex<SinkState>>);
impl FaultSink {
    fn new(fault: Option<(usize, u8)>) -> Self { FaultSink(Arc::new(Mutex::new(SinkState { fault, ..Default::default() }))) }
}
fn other() -> io::Error { io::Error::new(io::ErrorKind::Other, "injected") }
impl Write for FaultSink {
    fn write(&mut self, buf: &[u8]) -> io::Result<usize> {
        if buf.is_empty() { return Ok(0); }
        let mut s = self.0.lock().unwrap();
        let i = s.calls;
        s.calls += 1;
        if let Some((k, kind)) = s.fault {
            if i == k || (kind == 0 && i > k) {
                if i == k { s.before = Some(s.data.len()); }
                match kind {
                    0 | 1 => return Err(other()),
                    2 => { s.data.push(buf[0]); return Ok(1); }
                    3 => return Err(io::Error::new(io::ErrorKind::Interrupted, "injected")),
                    _ => return Ok(0),
                }
            }
        }
        s.trace.push(buf.len() as i64);
        s.data.extend_from_slice(buf);
        Ok(buf.len())
    }
    fn flush(&mut self) -> io::Result<()> {
        let mut s = self.0.lock().unwrap();
        let i = s.calls;
        s.calls += 1;
        if let Some((k, kind)) = s.fault {
            if i == k || (kind == 0 && i > k) {
                if i == k { s.before = Some(s.data.len()); }
                match kind {
                    0 | 1 => return Err(other()),
                    3 => return Err(io::Error::new(io::ErrorKind::Interrupted, "injected")),
                    _ => {}
                }
            }
        }
        s.trace.push(-1);
        Ok(())
    }
}

// ------------------------------------------------------------------------------------------ writers
const F_IPC_FILE: usize = 0;
const F_IPC_FILE_BUF: usize = 1;
const F_IPC_STREAM: usize = 2;
const F_IPC_STREAM_BUF: usize = 3;
const F_PARQUET: usize = 4;
const F_PARQUET_LOW: usize = 5;
const F_CSV: usize = 6;
const F_JSON_LINES: usize = 7;
const F_JSON_ARRAY: usize = 8;
const F_AVRO_OCF: usize = 9;
const F_AVRO_SOE: usize = 10;

#[derive(Clone, Debug)]
struct Spec { fmt: usize, opts: Vec<i64>, seed: u64, sv: usize, nb: usize }
impl Spec {
    fn opt(&self, i: usize) -> i64 { self.opts.get(i).copied().unwrap_or(0) }
    fn groups(&self, second: i64) -> Vec<Group> {
        vec![vec![BigInt::from(self.fmt), BigInt::from(second)], gs(&self.opts), vec![BigInt::from(self.seed), BigInt::from(self.sv), BigInt::from(self.nb)]]
    }
    fn from_args(a: &Args) -> Spec {
        let s = &a[2];
        Spec { fmt: to_usize(&vec![a[0][0].clone()]), opts: to_i64s(&a[1]), seed: u64::try_from(&s[0]).expect("seed"),
               sv: usize::try_from(&s[1]).expect("sv"), nb: usize::try_from(&s[2]).expect("nb") }
    }
}

fn ipc_options(s: &Spec) -> arrow_ipc::writer::IpcWriteOptions {
    use arrow_ipc::writer::IpcWriteOptions;
    let align = match s.opt(0) { 16 => 16, 32 => 32, 64 => 64, _ => 8 };
    let legacy = s.opt(1) == 1;
    let ver = if legacy { arrow_ipc::MetadataVersion::V4 } else { arrow_ipc::MetadataVersion::V5 };
    let o = IpcWriteOptions::try_new(align, legacy, ver).expect("ipc options");
    match s.opt(2) {
        1 => o.try_with_compression(Some(arrow_ipc::CompressionType::LZ4_FRAME)).expect("lz4"),
        2 => o.try_with_compression(Some(arrow_ipc::CompressionType::ZSTD)).expect("zstd"),
        _ => o,
    }
}

fn parquet_props(s: &Spec) -> parquet::file::properties::WriterProperties {
    use parquet::basic::Compression;
    use parquet::file::properties::{EnabledStatistics, WriterProperties, WriterVersion};
    let mut b = WriterProperties::builder();
    if s.opt(0) > 0 { b = b.set_max_row_group_row_count(Some(s.opt(0) as usize)); }
    if s.opt(1) > 0 { b = b.set_data_page_row_count_limit(s.opt(1) as usize).set_write_batch_size(s.opt(1) as usize); }
    b = b.set_dictionary_enabled(s.opt(2) == 1);
    b = b.set_compression(if s.opt(3) == 1 { Compression::SNAPPY } else { Compression::UNCOMPRESSED });
    b = b.set_writer_version(if s.opt(4) == 2 { WriterVersion::PARQUET_2_0 } else { WriterVersion::PARQUET_1_0 });
    if s.opt(5) == 1 { b = b.set_bloom_filter_enabled(true); }
    b = b.set_statistics_enabled(match s.opt(7) { 1 => EnabledStatistics::None, 2 => EnabledStatistics::Chunk, _ => EnabledStatistics::Page });
    b.set_created_by("c18".to_string()).build()
}

/// Drives the real writer over `sink`; true = every API call returned Ok.  Stops at the first Err, like a caller
/// using `?`.  `marker` receives the Avro OCF sync marker.
fn drive(s: &Spec, schema: &SchemaRef, batches: &[RecordBatch], sink: FaultSink, marker: &mut Option<[u8; 16]>, n_api: &mut usize) -> bool {
    macro_rules! t { ($e:expr) => { match $e { Ok(v) => v, Err(_) => return false } }; }
    let probe = sink.clone();
    // evaluated while the writer is still alive: sink calls made so far = calls made by API calls
    let mut done = || { *n_api = probe.0.lock().unwrap().calls; true };
    match s.fmt {
        F_IPC_FILE => {
            let mut w = t!(arrow_ipc::writer::FileWriter::try_new_with_options(sink, schema, ipc_options(s)));
            if s.opt(3) == 1 { w.write_metadata("k", "v"); }
            for b in batches { t!(w.write(b)); if s.opt(4) == 1 { t!(w.flush()); } }
            t!(w.finish());
            done()
        }
        F_IPC_FILE_BUF => {
            let mut w = t!(arrow_ipc::writer::FileWriter::try_new_buffered(sink, schema));
            for b in batches { t!(w.write(b)); if s.opt(4) == 1 { t!(w.flush()); } }
            if s.opt(5) == 1 { t!(w.into_inner()); } else { t!(w.finish()); }
            done()
        }
        F_IPC_STREAM => {
            let mut w = t!(arrow_ipc::writer::StreamWriter::try_new_with_options(sink, schema, ipc_options(s)));
            for b in batches { t!(w.write(b)); if s.opt(4) == 1 { t!(w.flush()); } }
            t!(w.finish());
            done()
        }
        F_IPC_STREAM_BUF => {
            let mut w = t!(arrow_ipc::writer::StreamWriter::try_new_buffered(sink, schema));
            for b in batches { t!(w.write(b)); if s.opt(4) == 1 { t!(w.flush()); } }
            if s.opt(5) == 1 { t!(w.into_inner()); } else { t!(w.finish()); }
            done()
        }
        F_PARQUET => {
            let mut w = t!(parquet::arrow::ArrowWriter::try_new(sink, schema.clone(), Some(parquet_props(s))));
            for b in batches { t!(w.write(b)); if s.opt(6) == 1 { t!(w.flush()); } }
            if s.opt(6) == 2 { t!(w.finish()); } else { t!(w.close()); }
            done()
        }
        F_PARQUET_LOW => {
            use parquet::data_type::{ByteArray, ByteArrayType, Int32Type};
            use parquet::file::writer::SerializedFileWriter;
            let msg = "message m { required int32 a; optional binary s (UTF8); }";
            let ty = Arc::new(parquet::schema::parser::parse_message_type(msg).expect("schema"));
            let mut w = t!(SerializedFileWriter::new(sink, ty, Arc::new(parquet_props(s))));
            let mut r = Rng::new(s.seed ^ 0x10);
            for _ in 0..s.nb {
                let n = 1 + r.below(12);
                let mut rg = t!(w.next_row_group());
                {
                    let mut c = t!(rg.next_column()).expect("col a");
                    let vals: Vec<i32> = (0..n).map(|_| r.range(-50, 50) as i32).collect();
                    t!(c.typed::<Int32Type>().write_batch(&vals, None, None));
                    t!(c.close());
                }
                {
                    let mut c = t!(rg.next_column()).expect("col s");
                    let defs: Vec<i16> = (0..n).map(|_| if r.chance(1, 4) { 0 } else { 1 }).collect();
                    let vals: Vec<ByteArray> = defs.iter().filter(|d| **d == 1).map(|_| ByteArray::from(["x", "PAR1", "hello", ""][r.below(4)])).collect();
                    t!(c.typed::<ByteArrayType>().write_batch(&vals, Some(&defs), None));
                    t!(c.close());
                }
                t!(rg.close());
            }
            t!(w.close());
            done()
        }
        F_CSV => {
            let mut w = arrow_csv::WriterBuilder::new().with_header(s.opt(0) == 1).build(sink);
            for b in batches {
                if w.write(b).is_err() {
                    // opts[1] = 1: the caller takes the sink back after the failed write (see KNOWN-FINDING candidate in `specs`)
                    if s.opt(1) == 1 { let _ = w.into_inner(); }
                    return false;
                }
            }
            if s.opt(1) == 1 { let _ = w.into_inner(); }
            done()
        }
        F_JSON_LINES => {
            let mut w = arrow_json::WriterBuilder::new().with_explicit_nulls(s.opt(0) == 1).build::<_, arrow_json::writer::LineDelimited>(sink);
            for b in batches { t!(w.write(b)); }
            t!(w.finish());
            done()
        }
        F_JSON_ARRAY => {
            let mut w = arrow_json::WriterBuilder::new().with_explicit_nulls(s.opt(0) == 1).build::<_, arrow_json::writer::JsonArray>(sink);
            for b in batches { t!(w.write(b)); }
            t!(w.finish());
            done()
        }
        F_AVRO_OCF => {
            use arrow_avro::compression::CompressionCodec;
            use arrow_avro::writer::format::AvroOcfFormat;
            let codec = match s.opt(0) { 1 => Some(CompressionCodec::Deflate), 2 => Some(CompressionCodec::Snappy), 3 => Some(CompressionCodec::ZStandard), _ => None };
            let mut w = t!(arrow_avro::writer::WriterBuilder::new(schema.as_ref().clone()).with_compression(codec).build::<_, AvroOcfFormat>(sink));
            *marker = w.sync_marker().copied();
            for b in batches { t!(w.write(b)); }
            t!(w.finish());
            done()
        }
        F_AVRO_SOE => {
            let mut w = t!(arrow_avro::writer::AvroStreamWriter::new(sink, schema.as_ref().clone()));
            for b in batches { t!(w.write(b)); }
            t!(w.finish());
            done()
        }
        _ => panic!("unknown format"),
    }
}

struct WriteRun { ok: bool, trace: Vec<i64>, data: Vec<u8>, before: usize, marker: Option<[u8; 16]>, n_api: usize }
fn write_run(s: &Spec, schema: &SchemaRef, batches: &[RecordBatch], fault: Option<(usize, u8)>) -> WriteRun {
    let sink = FaultSink::new(fault);
    let mut marker = None;
    let mut n_api = 0;
    let ok = drive(s, schema, batches, sink.clone(), &mut marker, &mut n_api); // the writer is dropped inside (Drop may flush)
    let st = sink.0.lock().unwrap();
    WriteRun { ok, trace: st.trace.clone(), data: st.data.clone(), before: st.before.unwrap_or(st.data.len()), marker, n_api }
}

/// Avro OCF embeds a random 16-byte sync marker: blank it (at the positions it has in the fault-free output) in
/// both byte strings before they are compared.
fn mask_positions(ff: &[u8], marker: Option<[u8; 16]>) -> Vec<usize> {
    let mut v = Vec::new();
    if let Some(m) = marker {
        let mut i = 0;
        while i + 16 <= ff.len() { if ff[i..i + 16] == m { v.push(i); i += 16; } else { i += 1; } }
    }
    v
}
fn mask(data: &mut [u8], pos: &[usize]) {
    for &p in pos { for j in p..(p + 16).min(data.len()) { data[j] = 0; } }
}

fn op_wfault(a: &Args) -> Args {
    let s = Spec::from_args(a);
    let kind = to_usize(&a[3]) as u8;
    let k = to_usize(&a[4]);
    let (schema, batches) = make_batches(s.sv, s.nb, s.seed);
    let mut ff = write_run(&s, &schema, &batches, None);
    assert!(ff.ok, "fault-free write failed");
    let mut fr = write_run(&s, &schema, &batches, Some((k, kind)));
    let pos = mask_positions(&ff.data, ff.marker);
    mask(&mut ff.data, &pos);
    mask(&mut fr.data, &pos);
    vec![vec![BigInt::from(if fr.ok { 0 } else { 1 }), BigInt::from(ff.n_api)], gs(&ff.trace), gbytes(&ff.data), gbytes(&fr.data[..fr.before]), gbytes(&fr.data[fr.before..])]
}

// ------------------------------------------------------------------------------------------ fault source
struct RState { calls: usize, fault: Option<(usize, u8)> }
enum Act { Pass, Fail(io::ErrorKind), Short }
impl RState {
    fn next(&mut self, is_read: bool) -> Act {
        let i = self.calls;
        self.calls += 1;
        match self.fault {
            Some((k, kind)) if i == k || (kind == 0 && i > k) => match kind {
                0 | 1 => Act::Fail(io::ErrorKind::Other),
                2 => if is_read { Act::Short } else { Act::Pass },
                3 => if is_read { Act::Fail(io::ErrorKind::Interrupted) } else { Act::Pass },
                _ => Act::Pass,
            },
            _ => Act::Pass,
        }
    }
}
type Shared = Arc<Mutex<RState>>;
struct FaultRead { data: Bytes, pos: u64, st: Option<Shared> }
impl Read for FaultRead {
    fn read(&mut self, buf: &mut [u8]) -> io::Result<usize> {
        if buf.is_empty() { return Ok(0); }
        let avail = (self.data.len() as u64).saturating_sub(self.pos) as usize;
        let mut n = buf.len().min(avail);
        if let Some(st) = &self.st {
            match st.lock().unwrap().next(true) {
                Act::Pass => {}
                Act::Fail(kind) => return Err(io::Error::new(kind, "injected")),
                Act::Short => n = n.min(1),
            }
        }
        let p = self.pos as usize;
        buf[..n].copy_from_slice(&self.data[p..p + n]);
        self.pos += n as u64;
        Ok(n)
    }
}
impl Seek for FaultRead {
    fn seek(&mut self, to: SeekFrom) -> io::Result<u64> {
        if let Some(st) = &self.st {
            if let Act::Fail(kind) = st.lock().unwrap().next(false) { return Err(io::Error::new(kind, "injected")); }
        }
        let len = self.data.len() as i128;
        let np = match to { SeekFrom::Start(p) => p as i128, SeekFrom::End(d) => len + d as i128, SeekFrom::Current(d) => self.pos as i128 + d as i128 };
        if np < 0 { return Err(io::Error::new(io::ErrorKind::InvalidInput, "invalid seek to a negative position")); }
        self.pos = np as u64;
        Ok(self.pos)
    }
}
struct FaultChunk { data: Bytes, st: Option<Shared> }
impl parquet::file::reader::Length for FaultChunk { fn len(&self) -> u64 { self.data.len() as u64 } }
impl parquet::file::reader::ChunkReader for FaultChunk {
    type T = FaultRead;
    fn get_read(&self, start: u64) -> parquet::errors::Result<FaultRead> {
        if let Some(st) = &self.st {
            if let Act::Fail(kind) = st.lock().unwrap().next(false) { return Err(io::Error::new(kind, "injected").into()); }
        }
        Ok(FaultRead { data: self.data.clone(), pos: start, st: self.st.clone() })
    }
    fn get_bytes(&self, start: u64, length: usize) -> parquet::errors::Result<Bytes> {
        if let Some(st) = &self.st {
            if let Act::Fail(kind) = st.lock().unwrap().next(false) { return Err(io::Error::new(kind, "injected").into()); }
        }
        let end = (start as usize).checked_add(length).filter(|e| *e <= self.data.len());
        match end {
            Some(e) => Ok(self.data.slice(start as usize..e)),
            None => Err(parquet::errors::ParquetError::EOF("range beyond the end of the source".to_string())),
        }
    }
}

// ------------------------------------------------------------------------------------------ readers
const C_PARQUET: usize = 0;
const C_IPC_FILE: usize = 1;
const C_IPC_STREAM: usize = 2;
const C_AVRO: usize = 3;
const C_JSON: usize = 4;
const C_CSV: usize = 5;
const C_IPC_PUSH: usize = 6;
/// Parquet with the footer metadata taken from the INTACT file (metadata cache) and data that ends early
const C_PARQUET_META: usize = 7;

fn class_of(fmt: usize) -> Option<usize> {
    match fmt {
        F_PARQUET | F_PARQUET_LOW => Some(C_PARQUET),
        F_IPC_FILE | F_IPC_FILE_BUF => Some(C_IPC_FILE),
        F_IPC_STREAM | F_IPC_STREAM_BUF => Some(C_IPC_STREAM),
        F_AVRO_OCF => Some(C_AVRO),
        F_JSON_LINES => Some(C_JSON),
        F_CSV => Some(C_CSV),
        _ => None,
    }
}

struct ReadOut { outcome: i64, nb: usize, rows: Vec<u64> }
fn collect<I, E>(it: I, out: &mut ReadOut) where I: Iterator<Item = Result<RecordBatch, E>> {
    for b in it {
        match b {
            Ok(b) => { out.nb += 1; out.rows.extend(row_hashes(&b)); }
            Err(_) => { out.outcome = 1; return; }
        }
    }
}
/// Runs the real reader of class `cls` over `data` (optionally through the fault source); `cap` = BufReader capacity
/// (0 = the reader's unbuffered constructor where one exists).
fn read_all(cls: usize, s: &Spec, schema: &SchemaRef, data: Bytes, st: Option<Shared>, cap: usize) -> ReadOut {
    let mut out = ReadOut { outcome: 0, nb: 0, rows: vec![] };
    let src = FaultRead { data: data.clone(), pos: 0, st: st.clone() };
    match cls {
        C_PARQUET => {
            let ch = FaultChunk { data, st };
            match parquet::arrow::arrow_reader::ParquetRecordBatchReaderBuilder::try_new(ch) {
                Err(_) => out.outcome = 1,
                Ok(b) => match b.with_batch_size(if cap % 2 == 0 { 1024 } else { 3 }).build() {
                    Err(_) => out.outcome = 1,
                    Ok(r) => collect(r, &mut out),
                },
            }
        }
        C_IPC_FILE => {
            if cap == 0 {
                match arrow_ipc::reader::FileReader::try_new(src, None) { Err(_) => out.outcome = 1, Ok(r) => collect(r, &mut out) }
            } else {
                match arrow_ipc::reader::FileReader::try_new(BufReader::with_capacity(cap, src), None) { Err(_) => out.outcome = 1, Ok(r) => collect(r, &mut out) }
            }
        }
        C_IPC_STREAM => {
            if cap == 0 {
                match arrow_ipc::reader::StreamReader::try_new(src, None) { Err(_) => out.outcome = 1, Ok(r) => collect(r, &mut out) }
            } else {
                match arrow_ipc::reader::StreamReader::try_new(BufReader::with_capacity(cap, src), None) { Err(_) => out.outcome = 1, Ok(r) => collect(r, &mut out) }
            }
        }
        C_AVRO => {
            match arrow_avro::reader::ReaderBuilder::new().build(BufReader::with_capacity(cap.max(1), src)) { Err(_) => out.outcome = 1, Ok(r) => collect(r, &mut out) }
        }
        C_JSON => {
            match arrow_json::ReaderBuilder::new(schema.clone()).with_batch_size(if cap % 2 == 0 { 1024 } else { 3 }).build(BufReader::with_capacity(cap.max(1), src)) {
                Err(_) => out.outcome = 1, Ok(r) => collect(r, &mut out) }
        }
        C_CSV => {
            let b = arrow_csv::ReaderBuilder::new(schema.clone()).with_header(s.opt(0) == 1).with_batch_size(if cap % 2 == 0 { 1024 } else { 3 });
            if cap == 0 {
                match b.build(src) { Err(_) => out.outcome = 1, Ok(r) => collect(r, &mut out) }
            } else {
                match b.build_buffered(BufReader::with_capacity(cap, src)) { Err(_) => out.outcome = 1, Ok(r) => collect(r, &mut out) }
            }
        }
        C_IPC_PUSH => {
            // push-based decoder fed in chunks of `cap` bytes; the end of the input is signalled with finish()
            let mut dec = arrow_ipc::reader::StreamDecoder::new();
            'feed: for chunk in data.chunks(cap.max(1)) {
                let mut b = arrow_buffer::Buffer::from(chunk.to_vec());
                while !b.is_empty() {
                    match dec.decode(&mut b) {
                        Ok(Some(batch)) => { out.nb += 1; out.rows.extend(row_hashes(&batch)); }
                        Ok(None) => {}
                        Err(_) => { out.outcome = 1; break 'feed; }
                    }
                }
            }
            if out.outcome == 0 && dec.finish().is_err() { out.outcome = 1; }
        }
        _ => panic!("unknown reader class"),
    }
    out
}

/// ArrowReaderMetadata loaded once from the complete file, then ParquetRecordBatchReaderBuilder::new_with_metadata over
/// `data` (the first k bytes): the sequential page reader walks every column chunk the footer promises.
fn read_parquet_meta(meta: &parquet::arrow::arrow_reader::ArrowReaderMetadata, data: Bytes, small_batches: bool) -> ReadOut {
    let mut out = ReadOut { outcome: 0, nb: 0, rows: vec![] };
    let b = parquet::arrow::arrow_reader::ParquetRecordBatchReaderBuilder::new_with_metadata(data, meta.clone());
    match b.with_batch_size(if small_batches { 3 } else { 1024 }).build() {
        Err(_) => out.outcome = 1,
        Ok(r) => collect(r, &mut out),
    }
    out
}

fn hash_of(rows: &[u64]) -> u64 { *prefix_hashes(rows).last().unwrap() }

fn artefact(s: &Spec) -> (SchemaRef, Vec<RecordBatch>, WriteRun) {
    let (schema, batches) = make_batches(s.sv, s.nb, s.seed);
    let ff = write_run(s, &schema, &batches, None);
    assert!(ff.ok, "fault-free write failed");
    (schema, batches, ff)
}
/// rows written (low-level parquet writer: rows are whatever the complete file decodes to)
fn written_rows(s: &Spec, schema: &SchemaRef, batches: &[RecordBatch], file: &[u8]) -> (Vec<u64>, Vec<u64>) {
    if s.fmt == F_PARQUET_LOW || s.fmt == F_CSV {
        let full = read_all(class_of(s.fmt).unwrap(), s, schema, Bytes::copy_from_slice(file), None, 0);
        assert!(full.outcome == 0, "fault-free read failed");
        let n = full.rows.len() as u64;
        (full.rows, vec![0, n])
    } else {
        let mut rows = vec![];
        let mut cum = vec![0u64];
        for b in batches { rows.extend(row_hashes(b)); cum.push(rows.len() as u64); }
        (rows, cum)
    }
}

fn op_trunc(a: &Args) -> Args {
    let s = Spec::from_args(a);
    let cls = usize::try_from(&a[0][1]).expect("class");
    let cap = usize::try_from(&a[2][3]).expect("cap");
    let ks: Vec<usize> = a[3].iter().map(|k| usize::try_from(k).expect("k")).collect();
    let (schema, batches, ff) = artefact(&s);
    let (rows, cum) = written_rows(&s, &schema, &batches, &ff.data);
    let file = Bytes::from(ff.data.clone());
    let (mut os, mut nbs, mut nrs, mut hs) = (vec![], vec![], vec![], vec![]);
    let meta = if cls == C_PARQUET_META {
        Some(parquet::arrow::arrow_reader::ArrowReaderMetadata::load(&file, Default::default()).expect("metadata of the complete file"))
    } else { None };
    for &k in &ks {
        let k = k.min(file.len());
        let r = match &meta {
            Some(m) => read_parquet_meta(m, file.slice(0..k), cap % 2 == 1),
            None => read_all(cls, &s, &schema, file.slice(0..k), None, cap),
        };
        os.push(r.outcome); nbs.push(r.nb as i64); nrs.push(r.rows.len() as i64); hs.push(hash_of(&r.rows));
    }
    // Avro OCF: the header is what the writer emits before the first batch
    let aux: Vec<usize> = if cls == C_AVRO { vec![write_run(&s, &schema, &[], None).data.len()] } else { vec![] };
    vec![gbytes(&file), gu64s(&prefix_hashes(&rows)), gu64s(&cum), gs(&aux), gs(&os), gs(&nbs), gs(&nrs), gu64s(&hs)]
}

fn op_rfault(a: &Args) -> Args {
    let s = Spec::from_args(a);
    let cls = usize::try_from(&a[0][1]).expect("class");
    let cap = usize::try_from(&a[2][3]).expect("cap");
    let kind = to_usize(&a[3]) as u8;
    let k = to_usize(&a[4]);
    let (schema, batches, ff) = artefact(&s);
    let (rows, _) = written_rows(&s, &schema, &batches, &ff.data);
    let file = Bytes::from(ff.data);
    let st0: Shared = Arc::new(Mutex::new(RState { calls: 0, fault: None }));
    let full = read_all(cls, &s, &schema, file.clone(), Some(st0.clone()), cap);
    assert!(full.outcome == 0, "fault-free read failed");
    let ncalls = st0.lock().unwrap().calls;
    let st: Shared = Arc::new(Mutex::new(RState { calls: 0, fault: Some((k, kind)) }));
    let r = read_all(cls, &s, &schema, file, Some(st), cap);
    vec![g(r.outcome), g(r.rows.len()), g(hash_of(&r.rows)), gu64s(&prefix_hashes(&rows)), g(ncalls)]
}

fn op_open(a: &Args) -> Args {
    let which = to_usize(&a[0]);
    let data = Bytes::from(to_u8s(&a[1]));
    let ok = if which == 0 {
        parquet::arrow::arrow_reader::ParquetRecordBatchReaderBuilder::try_new(data).is_ok()
    } else {
        arrow_ipc::reader::FileReader::try_new(Cursor::new(data.to_vec()), None).is_ok()
    };
    vec![g(if ok { 0 } else { 1 })]
}

/// A sink that answers every write/flush call from a script (the same script the Coq model consumes).
struct ScriptSink { script: std::collections::VecDeque<i64>, sticky: bool, out: Vec<u8> }
impl Write for ScriptSink {
    fn write(&mut self, buf: &[u8]) -> io::Result<usize> {
        match self.script.pop_front() {
            None => if self.sticky { Err(other()) } else { self.out.extend_from_slice(buf); Ok(buf.len()) },
            Some(-1) => Err(io::Error::new(io::ErrorKind::Interrupted, "script")),
            Some(-2) => Ok(0),
            Some(-3) => Err(other()),
            Some(n) if n >= 0 => { let k = (n.max(1) as usize).min(buf.len()); self.out.extend_from_slice(&buf[..k]); Ok(k) }
            Some(_) => { self.out.extend_from_slice(buf); Ok(buf.len()) }
        }
    }
    fn flush(&mut self) -> io::Result<()> {
        match self.script.pop_front() {
            None => if self.sticky { Err(other()) } else { Ok(()) },
            Some(-1) => Err(io::Error::new(io::ErrorKind::Interrupted, "script")),
            Some(-3) => Err(other()),
            Some(_) => Ok(()),
        }
    }
}
fn op_write_all(a: &Args) -> Args {
    let mut sink = ScriptSink { script: to_i64s(&a[0]).into(), sticky: to_usize(&a[2]) != 0, out: vec![] };
    let buf = to_u8s(&a[1]);
    let r = sink.write_all(&buf);
    vec![g(r.is_err() as u8), gbytes(&sink.out), g(sink.script.len())]
}
fn op_run(a: &Args) -> Args {
    let mut sink = ScriptSink { script: to_i64s(&a[0]).into(), sticky: to_usize(&a[1]) != 0, out: vec![] };
    let data = to_u8s(&a[3]);
    let mut off = 0usize;
    let mut failed = false;
    for t in to_i64s(&a[2]) {
        let r = if t < 0 { sink.flush() } else {
            let n = (t as usize).min(data.len() - off);
            let r = sink.write_all(&data[off..off + n]); off += n; r };
        if r.is_err() { failed = true; break; }
    }
    vec![g(failed as u8), gbytes(&sink.out)]
}

fn run_inner(op: &str, a: &Args) -> Option<Args> {
    Some(match op {
        "c18.write_all" => op_write_all(a),
        "c18.run" => op_run(a),
        "c18.wfault" => op_wfault(a),
        "c18.trunc" => op_trunc(a),
        "c18.rfault" => op_rfault(a),
        "c18.open" => op_open(a),
        "c18.pq_tail" => {
            let b: [u8; 8] = to_u8s(&a[0]).try_into().expect("8 bytes");
            match parquet::file::metadata::FooterTail::try_new(&b) {
                Ok(t) => vec![vec![BigInt::from(t.metadata_length()), BigInt::from(t.is_encrypted_footer() as u8)]],
                Err(_) => err(E_INVALID),
            }
        }
        "c18.ipc_footer_len" => {
            let b: [u8; 10] = to_u8s(&a[0]).try_into().expect("10 bytes");
            match arrow_ipc::reader::read_footer_length(b) { Ok(n) => vec![g(n)], Err(_) => err(E_INVALID) }
        }
        _ => return None,
    })
}

/// Every case runs on its own thread under a watchdog: a hang is reported as [-1; 9] (the leaked thread is abandoned),
/// a panic as [-1; 8] — both are property violations ("no panic, no hang").
pub fn run(op: &str, a: &Args) -> Option<Args> {
    if op == "c18.pq_tail" || op == "c18.ipc_footer_len" || op == "c18.write_all" || op == "c18.run" { return run_inner(op, a); }
    let (tx, rx) = std::sync::mpsc::channel();
    let op2 = op.to_string();
    let a2 = a.clone();
    std::thread::Builder::new().stack_size(4 << 20).spawn(move || {
        let r = std::panic::catch_unwind(std::panic::AssertUnwindSafe(|| run_inner(&op2, &a2)));
        let _ = tx.send(r);
    }).expect("spawn");
    match rx.recv_timeout(std::time::Duration::from_secs(300)) {
        Ok(Ok(r)) => r,
        Ok(Err(_)) => Some(err(E_PANIC)),
        Err(_) => Some(vec![vec![BigInt::from(-1), BigInt::from(9)]]),
    }
}

// ------------------------------------------------------------------------------------------ generators
fn specs(tier: &str, r: &mut Rng) -> Vec<Spec> {
    let reps = if tier == "thorough" { 4 } else { 1 };
    let mut v = Vec::new();
    let mut add = |r: &mut Rng, fmt: usize, opts: Vec<i64>, svs: &[usize], nbs: &[usize]| {
        v.push(Spec { fmt, opts, seed: r.next() >> 16, sv: *r.pick(svs), nb: *r.pick(nbs) });
    };
    let all = [0usize, 1, 2, 3, 4, 5];
    let flat = [0usize, 1, 2, 5];
    for _ in 0..reps {
        // IPC file / stream, unbuffered: every write_all of the writer is a sink call
        for &fmt in &[F_IPC_FILE, F_IPC_STREAM] {
            for (align, legacy, comp, md, fl) in [(8, 0, 0, 0, 0), (64, 0, 0, 1, 0), (8, 1, 0, 0, 1), (16, 0, 1, 0, 0), (32, 0, 2, 0, 0), (64, 1, 0, 0, 0), (8, 0, 0, 0, 1)] {
                add(r, fmt, vec![align, legacy, comp, md, fl], &all, &[1, 2, 2, 3]);
            }
            add(r, fmt, vec![8, 0, 0, 0, 0], &all, &[0]);
        }
        for &fmt in &[F_IPC_FILE_BUF, F_IPC_STREAM_BUF] {
            for (fl, inner) in [(0, 0), (1, 0), (0, 1), (1, 1)] { add(r, fmt, vec![0, 0, 0, 0, fl, inner], &all, &[0, 1, 2, 3]); }
            // large enough to overflow the BufWriter (8 KiB)
            add(r, fmt, vec![0, 0, 0, 0, 0, 0], &[1, 2], &[40]);
        }
        // parquet: [max rows per group, page row limit, dictionary, snappy, version, bloom, flush mode, statistics]
        for o in [vec![0, 0, 1, 0, 1, 0, 0, 0], vec![4, 2, 0, 0, 2, 0, 0, 0], vec![0, 0, 1, 1, 1, 1, 1, 0], vec![3, 0, 1, 0, 2, 1, 0, 1],
                  vec![0, 3, 0, 1, 1, 0, 2, 2], vec![5, 0, 0, 0, 1, 0, 1, 0], vec![0, 0, 1, 0, 2, 0, 0, 0], vec![2, 1, 1, 1, 2, 1, 2, 0]] {
            add(r, F_PARQUET, o, &all, &[1, 2, 3]);
        }
        add(r, F_PARQUET, vec![0, 0, 1, 0, 1, 0, 0, 0], &all, &[0]);
        // single-column files with several pages per chunk: a cut exactly at a page header leaves a shorter but
        // self-consistent column (read under the intact file's metadata, class C_PARQUET_META)
        add(r, F_PARQUET, vec![0, 2, 0, 0, 1, 0, 0, 0], &[0], &[2, 3]);
        add(r, F_PARQUET, vec![4, 2, 1, 0, 2, 0, 0, 2], &[0], &[2, 3]);
        add(r, F_PARQUET, vec![0, 0, 0, 0, 1, 0, 0, 0], &[1, 2], &[40]);
        // column chunks larger than TrackedWrite's BufWriter (8 KiB): page data goes to the sink directly
        add(r, F_PARQUET, vec![0, 0, 0, 0, 1, 0, 0, 0], &[1], &[300]);
        for o in [vec![0, 0, 1, 0, 1, 0], vec![0, 2, 0, 1, 2, 1], vec![0, 0, 1, 0, 2, 0]] { add(r, F_PARQUET_LOW, o, &[0], &[0, 1, 2, 3]); }
        for h in [0, 1, 1] { add(r, F_CSV, vec![h], &flat, &[1, 2, 3]); }
        add(r, F_CSV, vec![1], &[1, 2], &[60]);
        // header-only CSV (every batch empty) and an empty first batch: the header must reach the sink before write() returns
        add(r, F_CSV, vec![1], &[100, 101, 102], &[1]);
        add(r, F_CSV, vec![1], &[101, 102, 105], &[2, 3]);
        add(r, F_CSV, vec![1], &[200, 201, 202], &[2, 3]);
        add(r, F_CSV, vec![0], &[101, 201], &[1, 2]);
        // KNOWN-FINDING candidate: arrow_csv::Writer::into_inner() after a write() that returned Err panics
        // (`self.writer.into_inner().unwrap()` re-flushes into the failing sink) instead of reporting the error.
        // Excluded from the default generator; VERIF_C18_CSV_INTO_INNER=1 includes it.
        if std::env::var("VERIF_C18_CSV_INTO_INNER").is_ok() { add(r, F_CSV, vec![1, 1], &flat, &[1, 2]); }
        for e in [0, 1, 0] { add(r, F_JSON_LINES, vec![e], &flat, &[1, 2, 3]); add(r, F_JSON_ARRAY, vec![e], &flat, &[0, 1, 2, 3]); }
        add(r, F_JSON_LINES, vec![0], &[1, 2], &[0]);
        add(r, F_JSON_LINES, vec![0], &[1, 2], &[60]);
        add(r, F_JSON_ARRAY, vec![0], &[101, 201], &[1, 2]);
        for c in [0, 0, 1, 2, 3] { add(r, F_AVRO_OCF, vec![c], &flat, &[1, 2, 3]); }
        add(r, F_AVRO_OCF, vec![0], &flat, &[0]);
        add(r, F_AVRO_OCF, vec![0], &[101, 201], &[1, 2]);
        for _ in 0..2 { add(r, F_AVRO_SOE, vec![], &flat, &[1, 2, 3]); }
    }
    v
}

fn calltype(trace: &[i64], k: usize) -> &'static str {
    match trace.get(k) { None => "past", Some(-1) => "flush", Some(1) => "w1", Some(n) if *n < 16 => "wsmall", Some(n) if *n < 4096 => "w", Some(_) => "wbig" }
}

pub fn generate(tier: &str, r: &mut Rng, emit: &mut dyn FnMut(Case)) {
    let thorough = tier == "thorough";
    // footer tails: the model must decode exactly what FooterTail::try_new / read_footer_length decode
    for i in 0..(if thorough { 4000 } else { 600 }) {
        let mut t = r.bytes(8);
        match i % 6 { 0 => t[4..].copy_from_slice(b"PAR1"), 1 => t[4..].copy_from_slice(b"PARE"), 2 => t[4..].copy_from_slice(b"PAR2"), 3 => { t[4..].copy_from_slice(b"PAR1"); t[3] = 0; t[2] = 0; } 4 => { t[4..].copy_from_slice(b"PAR1"); t[0..4].copy_from_slice(&[255; 4]); } _ => {} }
        emit(Case::new("c18.pq_tail", vec![gbytes(&t)], &["c18.pq_tail"], format!("pqtail-{}", i % 6)));
        let mut t = r.bytes(10);
        match i % 6 { 0 => t[4..].copy_from_slice(b"ARROW1"), 1 => { t[4..].copy_from_slice(b"ARROW1"); t[3] |= 0x80; } 2 => { t[4..].copy_from_slice(b"ARROW1"); t[3] = 0; t[2] = 0; } 3 => t[4..].copy_from_slice(b"ARROW2"), 4 => { t[4..].copy_from_slice(b"ARROW1"); t[0..4].copy_from_slice(&[255, 255, 255, 127]); } _ => {} }
        emit(Case::new("c18.ipc_footer_len", vec![gbytes(&t)], &["c18.ipc_footer_len"], format!("ipctail-{}", i % 6)));
    }
    // the sink model against std::io::Write::write_all / flush on a scripted sink
    for i in 0..(if thorough { 20000 } else { 2500 }) {
        let resp = |r: &mut Rng| -> i64 { match r.below(10) { 0 => -1, 1 => -2, 2 => -3, 3 | 4 => -4, 5 => 0, 6 => 1, _ => r.below(12) as i64 } };
        let soft = |r: &mut Rng| -> i64 { match r.below(6) { 0 | 1 => -1, 2 => -4, 3 => 1, _ => r.below(9) as i64 } };
        let n = r.below(9);
        let script: Vec<i64> = (0..n).map(|_| if i % 3 == 0 { soft(r) } else { resp(r) }).collect();
        let sticky = r.chance(1, 3) as u8;
        if i % 2 == 0 {
            let bl = r.below(14); let buf = r.bytes(bl);
            emit(Case::new("c18.write_all", vec![gs(&script), gbytes(&buf), g(sticky)], &["c18.write_all"], format!("wa-{}-{}", n.min(3), buf.len().min(3))));
        } else {
            let trace: Vec<i64> = (0..r.below(6)).map(|_| if r.chance(1, 4) { -1 } else { r.below(7) as i64 }).collect();
            let total: i64 = trace.iter().filter(|t| **t > 0).sum();
            let data = r.bytes(total as usize);
            emit(Case::new("c18.run", vec![gs(&script), g(sticky), gs(&trace), gbytes(&data)], &["c18.run"], format!("run-{}-{}", n.min(3), trace.len().min(3))));
        }
    }
    for s in specs(tier, r) {
        // NB: no assertion about the implementation here - if the fault-free write or read fails (or panics), the
        // case emitted below fails inside `run` and is reported as a violation with a replay, not as a harness error.
        let made = std::panic::catch_unwind(std::panic::AssertUnwindSafe(|| {
            let (schema, batches) = make_batches(s.sv, s.nb, s.seed);
            let ff = write_run(&s, &schema, &batches, None);
            (schema, batches, ff)
        }));
        let (schema, batches, ff) = match made {
            Ok(m) if m.2.ok => m,
            _ => {
                let mut args = s.groups(1);
                args.push(g(0)); args.push(g(0));
                emit(Case::new("c18.wfault", args, &["c18.wfault.post"], format!("w-f{}-faultfree-write-fails", s.fmt)));
                continue;
            }
        };
        let n = ff.trace.len();
        let det = 1;
        // ---- writer faults at every sink call
        for kind in 0..5u8 {
            // calls made by API calls (calls made later, by Drop, cannot report an error), plus "no fault"
            let na = ff.n_api.min(n);
            let mut ks: Vec<usize> = (0..na).collect();
            let budget = if thorough { 150 } else { 40 };
            if ks.len() > budget {
                // keep the first and last calls, sample the middle
                let mut keep: Vec<usize> = (0..8.min(na)).chain(na.saturating_sub(8)..na).collect();
                while keep.len() < budget { keep.push(r.below(na)); }
                keep.sort(); keep.dedup(); ks = keep;
            }
            if kind == 0 { ks.push(n); }
            for k in ks {
                let is_flush = ff.trace.get(k) == Some(&-1);
                if (kind == 2 || kind == 4) && is_flush { continue; }
                if kind == 2 && ff.trace.get(k) == Some(&1) { continue; }
                let mut args = s.groups(det);
                args.push(g(kind)); args.push(g(k));
                emit(Case::new("c18.wfault", args, &["c18.wfault.post"], format!("w-f{}-k{}-{}", s.fmt, kind, calltype(&ff.trace, k))));
            }
        }
        // ---- readers
        let Some(cls) = class_of(s.fmt) else { continue };
        let len = ff.data.len();
        let caps: Vec<usize> = match cls { C_PARQUET => vec![0, 1], C_IPC_FILE | C_IPC_STREAM => vec![0, 64], C_CSV => vec![0, 33], _ => vec![16, 8192] };
        if cls != C_CSV {
            // every truncation length of a small artefact; call boundaries +-2 of a large one
            let ks: Vec<usize> = if len <= 4096 { (0..=len).collect() } else {
                let mut v: Vec<usize> = (0..16).chain(len - 16..=len).collect();
                let mut off = 0usize;
                for t in &ff.trace { if *t > 0 { off += *t as usize; for d in 0..5 { let p = off + d; if p >= 2 && p - 2 <= len { v.push(p - 2); } } } }
                v.sort(); v.dedup(); v
            };
            let cap = caps[(s.seed % 2) as usize];
            let mut classes = vec![(cls, cap)];
            if cls == C_IPC_STREAM { classes.push((C_IPC_PUSH, [1usize, 5, 64, 100000][(s.seed % 4) as usize])); }
            // data cut at every byte (page-header boundaries included) under footer metadata of the intact file
            if cls == C_PARQUET && len <= 4096 { classes.push((C_PARQUET_META, ((s.seed >> 1) % 2) as usize)); }
            for (tcls, cap) in classes {
                for chunk in ks.chunks(256) {
                    let mut args = s.groups(tcls as i64);
                    args[2].push(BigInt::from(cap));
                    args.push(gs(chunk));
                    emit(Case::new("c18.trunc", args, &["c18.trunc.post"], format!("t-c{}-f{}-{}", tcls, s.fmt, if len <= 4096 { "all" } else { "bounds" })));
                }
            }
        }
        // ---- reader faults at every source call
        let _ = (&schema, &batches);
        for &cap in &caps {
            let st0: Shared = Arc::new(Mutex::new(RState { calls: 0, fault: None }));
            let full = std::panic::catch_unwind(std::panic::AssertUnwindSafe(|| read_all(cls, &s, &schema, Bytes::from(ff.data.clone()), Some(st0.clone()), cap)));
            if !matches!(&full, Ok(f) if f.outcome == 0) {
                // the complete artefact does not read back: this rfault case (no fault: k beyond every call) fails in `run`
                let mut args = s.groups(cls as i64);
                args[2].push(BigInt::from(cap));
                args.push(g(0)); args.push(g(1_000_000_000));
                emit(Case::new("c18.rfault", args, &["c18.rfault.post"], format!("r-c{}-faultfree-read-fails", cls)));
                continue;
            }
            let ncalls = st0.lock().unwrap().calls;
            for kind in 0..4u8 {
                let mut ks: Vec<usize> = (0..ncalls).collect();
                if kind == 0 { ks.push(ncalls); }
                let budget = if thorough { 100 } else { 24 };
                if ks.len() > budget {
                    let mut keep: Vec<usize> = (0..6.min(ncalls)).chain(ncalls.saturating_sub(6)..ncalls).collect();
                    while keep.len() < budget { keep.push(r.below(ncalls)); }
                    keep.sort(); keep.dedup(); ks = keep;
                }
                for k in ks {
                    let mut args = s.groups(cls as i64);
                    args[2].push(BigInt::from(cap));
                    args.push(g(kind)); args.push(g(k));
                    emit(Case::new("c18.rfault", args, &["c18.rfault.post"], format!("r-c{}-k{}-cap{}", cls, kind, cap)));
                }
            }
        }
        // ---- open() on non-writer inputs: an accepted input satisfies the model's footer condition
        if cls == C_PARQUET || cls == C_IPC_FILE {
            let which = if cls == C_PARQUET { 0 } else { 1 };
            let tail = if which == 0 { 8 } else { 10 };
            for variant in 0..6 {
                let mut d = ff.data.clone();
                match variant {
                    0 => { let t = d[len - tail..].to_vec(); let n = 1 + r.below(20); d.extend(r.bytes(n)); d.extend(t); }       // garbage + copied tail
                    1 => { d[len - tail] = d[len - tail].wrapping_add(1); }                                          // length + 1
                    2 => { d[len - tail + 3] = 0x80; }                                                               // huge / negative length
                    3 => { let t = d[len - tail..].to_vec(); d = t; }                                                // tail only
                    4 => { for b in d[len - tail..len - tail + 4].iter_mut() { *b = 0; } }                           // zero length
                    _ => { let cut = r.below(len); d.truncate(cut); d.extend_from_slice(&ff.data[len - tail..]); }    // cut + tail
                }
                if d.len() > 6000 { continue; }
                emit(Case::new("c18.open", vec![g(which), gbytes(&d)], &["c18.open.post"], format!("open-{}-{}", which, variant)));
            }
        }
    }
}
