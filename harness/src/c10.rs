//! C10 — one total order: comparator, sort, rank, partition and comparison kernels.
//!
//! A COLUMN travels as three groups `[type] [layout] [n; tokens...]` (see coq/Model/D_C10.v):
//! the logical slot values are the tokens; `type` is the prefix-serialised arrow type and `layout`
//! seeds every physical choice (front/back padding + slice, garbage under nulls, offsets, view
//! buffers, dictionary order, ...) — the model never looks at the layout.
use crate::util::*;
use arrow_array::types::*;
use arrow_array::*;
use arrow_buffer::{BooleanBuffer, Buffer, NullBuffer, OffsetBuffer, ScalarBuffer};
use arrow_data::ByteView;
use arrow_ord::cmp as k;
use arrow_ord::ord::make_comparator;
use arrow_ord::partition::partition;
use arrow_ord::rank::rank;
use arrow_ord::sort::{lexsort_to_indices, partial_sort, sort, sort_limit, sort_to_indices, SortColumn};
use arrow_schema::{ArrowError, DataType, Field, Fields, SortOptions};
use num_bigint::BigInt;
use std::cmp::Ordering;
use std::panic::{catch_unwind, AssertUnwindSafe};
use std::sync::Arc;

// ------------------------------------------------------------------------------------------ types

#[derive(Clone, Debug, PartialEq)]
pub enum Ty {
    I8, I16, I32, I64, U8, U16, U32, U64, F16, F32, F64, Bool,
    Utf8, LargeUtf8, Utf8View, Binary, LargeBinary, BinaryView,
    Fsb(usize), Dec128, Dict(Box<Ty>), List(Box<Ty>), Struct(Vec<Ty>), LargeList(Box<Ty>),
    FixedList(usize, Box<Ty>), Ree(Box<Ty>), ListView(Box<Ty>),
}
use Ty::*;

fn ty_ser(t: &Ty, out: &mut Vec<i64>) {
    match t {
        I8 => out.push(1), I16 => out.push(2), I32 => out.push(3), I64 => out.push(4),
        U8 => out.push(5), U16 => out.push(6), U32 => out.push(7), U64 => out.push(8),
        F16 => out.push(9), F32 => out.push(10), F64 => out.push(11), Bool => out.push(12),
        Utf8 => out.push(13), LargeUtf8 => out.push(14), Utf8View => out.push(15),
        Binary => out.push(16), LargeBinary => out.push(17), BinaryView => out.push(18),
        Fsb(w) => { out.push(19); out.push(*w as i64) }
        Dec128 => out.push(20),
        Dict(v) => { out.push(21); ty_ser(v, out) }
        List(c) => { out.push(22); ty_ser(c, out) }
        Struct(fs) => { out.push(23); out.push(fs.len() as i64); for f in fs { ty_ser(f, out) } }
        LargeList(c) => { out.push(24); ty_ser(c, out) }
        FixedList(n, c) => { out.push(25); out.push(*n as i64); ty_ser(c, out) }
        Ree(v) => { out.push(26); ty_ser(v, out) }
        ListView(c) => { out.push(27); ty_ser(c, out) }
    }
}
fn ty_parse(g: &[i64], p: &mut usize) -> Ty {
    let c = g[*p]; *p += 1;
    match c {
        1 => I8, 2 => I16, 3 => I32, 4 => I64, 5 => U8, 6 => U16, 7 => U32, 8 => U64,
        9 => F16, 10 => F32, 11 => F64, 12 => Bool, 13 => Utf8, 14 => LargeUtf8, 15 => Utf8View,
        16 => Binary, 17 => LargeBinary, 18 => BinaryView,
        19 => { let w = g[*p] as usize; *p += 1; Fsb(w) }
        20 => Dec128,
        21 => Dict(Box::new(ty_parse(g, p))),
        22 => List(Box::new(ty_parse(g, p))),
        23 => { let n = g[*p] as usize; *p += 1; Struct((0..n).map(|_| ty_parse(g, p)).collect()) }
        24 => LargeList(Box::new(ty_parse(g, p))),
        25 => { let n = g[*p] as usize; *p += 1; FixedList(n, Box::new(ty_parse(g, p))) }
        26 => Ree(Box::new(ty_parse(g, p))),
        27 => ListView(Box::new(ty_parse(g, p))),
        _ => panic!("bad type code"),
    }
}
fn gty(t: &Ty) -> Group { let mut v = Vec::new(); ty_ser(t, &mut v); gs(&v) }
fn ty_of(g: &Group) -> Ty { ty_parse(&to_i64s(g), &mut 0) }

fn data_type(t: &Ty) -> DataType {
    match t {
        I8 => DataType::Int8, I16 => DataType::Int16, I32 => DataType::Int32, I64 => DataType::Int64,
        U8 => DataType::UInt8, U16 => DataType::UInt16, U32 => DataType::UInt32, U64 => DataType::UInt64,
        F16 => DataType::Float16, F32 => DataType::Float32, F64 => DataType::Float64, Bool => DataType::Boolean,
        Utf8 => DataType::Utf8, LargeUtf8 => DataType::LargeUtf8, Utf8View => DataType::Utf8View,
        Binary => DataType::Binary, LargeBinary => DataType::LargeBinary, BinaryView => DataType::BinaryView,
        Fsb(w) => DataType::FixedSizeBinary(*w as i32),
        Dec128 => DataType::Decimal128(38, 3),
        Dict(v) => DataType::Dictionary(Box::new(DataType::Int32), Box::new(data_type(v))),
        List(c) => DataType::List(Arc::new(Field::new("item", data_type(c), true))),
        LargeList(c) => DataType::LargeList(Arc::new(Field::new("item", data_type(c), true))),
        ListView(c) => DataType::ListView(Arc::new(Field::new("item", data_type(c), true))),
        FixedList(n, c) => DataType::FixedSizeList(Arc::new(Field::new("item", data_type(c), true)), *n as i32),
        Struct(fs) => DataType::Struct(struct_fields(fs)),
        Ree(v) => DataType::RunEndEncoded(
            Arc::new(Field::new("run_ends", DataType::Int32, false)),
            Arc::new(Field::new("values", data_type(v), true))),
    }
}
fn struct_fields(fs: &[Ty]) -> Fields {
    Fields::from(fs.iter().enumerate().map(|(i, f)| Field::new(format!("f{i}"), data_type(f), true)).collect::<Vec<_>>())
}

// ------------------------------------------------------------------------------------------ logical values

#[derive(Clone, Debug, PartialEq)]
pub enum V { Int(i128), Float(u8, u64), Bytes(Vec<u8>), List(Vec<Option<V>>) }
pub type OV = Option<V>;

fn ser_ov(v: &OV, out: &mut Group) {
    match v {
        None => out.push(0.into()),
        Some(V::Int(z)) => { out.push(1.into()); out.push((*z).into()) }
        Some(V::Float(w, b)) => { out.push(2.into()); out.push((*w).into()); out.push((*b).into()) }
        Some(V::Bytes(b)) => { out.push(3.into()); out.push(b.len().into()); out.extend(b.iter().map(|x| BigInt::from(*x))) }
        Some(V::List(l)) => { out.push(4.into()); out.push(l.len().into()); for x in l { ser_ov(x, out) } }
    }
}
fn gcol(vals: &[OV]) -> Group { let mut g: Group = vec![vals.len().into()]; for v in vals { ser_ov(v, &mut g) } g }
fn parse_ov(g: &Group, p: &mut usize) -> OV {
    let t = i64::try_from(&g[*p]).unwrap(); *p += 1;
    match t {
        0 => None,
        1 => { let z = i128::try_from(&g[*p]).unwrap(); *p += 1; Some(V::Int(z)) }
        2 => { let w = u8::try_from(&g[*p]).unwrap(); let b = u64::try_from(&g[*p + 1]).unwrap(); *p += 2; Some(V::Float(w, b)) }
        3 => { let n = usize::try_from(&g[*p]).unwrap(); *p += 1;
               let b = g[*p..*p + n].iter().map(|x| u8::try_from(x).unwrap()).collect(); *p += n; Some(V::Bytes(b)) }
        4 => { let n = usize::try_from(&g[*p]).unwrap(); *p += 1; Some(V::List((0..n).map(|_| parse_ov(g, p)).collect())) }
        _ => panic!("bad token"),
    }
}
fn parse_col(g: &Group) -> Vec<OV> {
    let n = usize::try_from(&g[0]).unwrap(); let mut p = 1;
    (0..n).map(|_| parse_ov(g, &mut p)).collect()
}

// ------------------------------------------------------------------------------------------ value generators

const F64_SPECIAL: [u64; 22] = [
    0x0000000000000000, 0x8000000000000000, 0x7FF0000000000000, 0xFFF0000000000000,
    0x0000000000000001, 0x8000000000000001, 0x000FFFFFFFFFFFFF, 0x800FFFFFFFFFFFFF,
    0x0010000000000000, 0x8010000000000000, 0x3FF0000000000000, 0xBFF0000000000000,
    0x7FEFFFFFFFFFFFFF, 0xFFEFFFFFFFFFFFFF,
    0x7FF8000000000000, 0xFFF8000000000000, 0x7FF0000000000001, 0xFFF0000000000001,
    0x7FFFFFFFFFFFFFFF, 0xFFFFFFFFFFFFFFFF, 0x7FF8000000000123, 0xFFF4000000000000,
];
const F32_SPECIAL: [u64; 22] = [
    0x00000000, 0x80000000, 0x7F800000, 0xFF800000, 0x00000001, 0x80000001, 0x007FFFFF, 0x807FFFFF,
    0x00800000, 0x80800000, 0x3F800000, 0xBF800000, 0x7F7FFFFF, 0xFF7FFFFF,
    0x7FC00000, 0xFFC00000, 0x7F800001, 0xFF800001, 0x7FFFFFFF, 0xFFFFFFFF, 0x7FC00123, 0xFFA00000,
];
const F16_SPECIAL: [u64; 22] = [
    0x0000, 0x8000, 0x7C00, 0xFC00, 0x0001, 0x8001, 0x03FF, 0x83FF, 0x0400, 0x8400, 0x3C00, 0xBC00,
    0x7BFF, 0xFBFF, 0x7E00, 0xFE00, 0x7C01, 0xFC01, 0x7FFF, 0xFFFF, 0x7E12, 0xFD00,
];

fn int_range(t: &Ty) -> (i128, i128) {
    match t {
        I8 => (i8::MIN as i128, i8::MAX as i128), I16 => (i16::MIN as i128, i16::MAX as i128),
        I32 => (i32::MIN as i128, i32::MAX as i128), I64 => (i64::MIN as i128, i64::MAX as i128),
        U8 => (0, u8::MAX as i128), U16 => (0, u16::MAX as i128), U32 => (0, u32::MAX as i128),
        U64 => (0, u64::MAX as i128), Dec128 => (i128::MIN, i128::MAX), _ => unreachable!(),
    }
}
fn gen_bytes(r: &mut Rng, utf8: bool, fixed: Option<usize>) -> Vec<u8> {
    const LENS: [usize; 14] = [0, 1, 2, 3, 4, 5, 8, 11, 12, 13, 14, 16, 20, 3];
    let n = fixed.unwrap_or_else(|| *r.pick(&LENS));
    let mut v = Vec::with_capacity(n + 2);
    while v.len() < n {
        match r.below(if utf8 { 7 } else { 9 }) {
            0 => v.push(0u8), 1 | 2 => v.push(b'a'), 3 => v.push(b'b'), 4 => v.push(0x7f),
            5 => v.push(b'a' + r.below(3) as u8),
            6 => if utf8 { if v.len() + 2 <= n { v.extend_from_slice("é".as_bytes()) } else { v.push(b'z') } } else { v.push(0xC3) },
            7 => v.push(0xff), _ => v.push(r.next() as u8),
        }
    }
    v
}
/// a random valid value of the type (also used as garbage under nulls)
fn gen_val(t: &Ty, r: &mut Rng) -> V {
    match t {
        I8 | I16 | I32 | I64 | U8 | U16 | U32 | U64 | Dec128 => {
            let (lo, hi) = int_range(t);
            let x = match r.below(10) {
                0 => lo, 1 => hi, 2 => lo + 1, 3 => hi - 1,
                4 | 5 | 6 => (r.below(5) as i128 - 2).clamp(lo, hi),
                7 => ((r.next() as i64) as i128).clamp(lo, hi),
                8 if *t == Dec128 => ((r.next() as i128) << 64 | r.next() as i128),
                _ => ((r.next() % 7) as i128 * 1000 - 3000).clamp(lo, hi),
            };
            V::Int(x)
        }
        Bool => V::Int(r.below(2) as i128),
        F64 => V::Float(64, if r.chance(3, 4) { *r.pick(&F64_SPECIAL) } else { r.next() }),
        F32 => V::Float(32, if r.chance(3, 4) { *r.pick(&F32_SPECIAL) } else { r.next() & 0xFFFF_FFFF }),
        F16 => V::Float(16, if r.chance(3, 4) { *r.pick(&F16_SPECIAL) } else { r.next() & 0xFFFF }),
        Utf8 | LargeUtf8 | Utf8View => V::Bytes(gen_bytes(r, true, None)),
        Binary | LargeBinary | BinaryView => V::Bytes(gen_bytes(r, false, None)),
        Fsb(w) => V::Bytes(gen_bytes(r, false, Some(*w))),
        Dict(v) | Ree(v) => gen_val(v, r),
        List(c) | LargeList(c) | ListView(c) => { let n = *r.pick(&[0usize, 0, 1, 1, 2, 3, 4]); V::List((0..n).map(|_| gen_ov(c, r, 5)).collect()) }
        FixedList(n, c) => V::List((0..*n).map(|_| gen_ov(c, r, 5)).collect()),
        Struct(fs) => V::List(fs.iter().map(|f| gen_ov(f, r, 5)).collect()),
    }
}
fn gen_ov(t: &Ty, r: &mut Rng, null_in: u32) -> OV {
    if null_in > 0 && r.chance(1, null_in) { None } else { Some(gen_val(t, r)) }
}
/// a variation of an existing value: near-duplicates stress prefix / length tie-breaks
fn mutate(t: &Ty, v: &V, r: &mut Rng) -> V {
    if let Dict(x) | Ree(x) = t { return mutate(x, v, r) }
    match (t, v) {
        (Fsb(_), V::Bytes(b)) => { let mut b = b.clone(); if let Some(x) = b.last_mut() { *x = x.wrapping_add(1) & 0x7f } V::Bytes(b) }
        (_, V::Bytes(b)) => {
            let utf8 = matches!(t, Utf8 | LargeUtf8 | Utf8View);
            let mut b = b.clone();
            match r.below(5) {
                0 => { b.push(0) }
                1 => { b.push(b'a') }
                2 => { if utf8 { while let Some(x) = b.pop() { if x < 0x80 || x >= 0xC0 { break } } } else { b.pop(); } }
                3 => { if let Some(x) = b.last_mut() { if *x < 0x7f { *x += 1 } } }
                _ => { b.extend_from_slice(b"aaaaaaaaaaaaa") }
            }
            V::Bytes(b)
        }
        (List(c) | LargeList(c) | ListView(c), V::List(l)) => {
            let mut l = l.clone();
            match r.below(3) { 0 => l.push(gen_ov(c, r, 4)), 1 => { l.pop(); } _ => { if let Some(x) = l.last_mut() { *x = gen_ov(c, r, 4) } } }
            V::List(l)
        }
        (FixedList(_, c), V::List(l)) => { let mut l = l.clone(); if let Some(x) = l.last_mut() { *x = gen_ov(c, r, 4) } V::List(l) }
        (Struct(fs), V::List(l)) => { let mut l = l.clone(); if !l.is_empty() { let i = r.below(l.len()); l[i] = gen_ov(&fs[i], r, 4) } V::List(l) }
        (_, V::Float(w, b)) => V::Float(*w, match r.below(3) { 0 => b ^ 1, 1 => b ^ (1u64 << (*w - 1)), _ => b.wrapping_add(1) & (u64::MAX >> (64 - *w)) }),
        _ => gen_val(t, r),
    }
}
/// a column of n slots with nulls (density class `nd`: 0 none, 1 few, 2 half, 3 most, 4 all) and duplicates
fn gen_col(t: &Ty, n: usize, nd: usize, r: &mut Rng) -> Vec<OV> {
    let mut out: Vec<OV> = Vec::with_capacity(n);
    let distinct = 1 + r.below(n.max(1));
    for i in 0..n {
        let null = match nd { 0 => false, 1 => r.chance(1, 8), 2 => r.bool(), 3 => r.chance(7, 8), _ => true };
        if null { out.push(None); continue }
        let valid: Vec<usize> = (0..i).filter(|j| out[*j].is_some()).collect();
        let v = if !valid.is_empty() && valid.len() >= distinct.min(6) && r.chance(1, 2) {
            out[*r.pick(&valid)].clone().unwrap()                       // duplicate
        } else if !valid.is_empty() && r.chance(1, 3) {
            mutate(t, out[*r.pick(&valid)].as_ref().unwrap(), r)        // near-duplicate
        } else { gen_val(t, r) };
        out.push(Some(v));
    }
    out
}

// ------------------------------------------------------------------------------------------ physical arrays

/// `viewbuf` (optional 2nd element of the layout group): 0 = seeded choice, 1 = a view array without long values owns
/// NO data buffer, 2 = it keeps (unused) data buffers
pub struct Lay { r: Rng, garbage: bool, pad: bool, keep_nullbuf: bool, viewbuf: i64 }
impl Lay {
    fn from_group(g: &Group) -> Lay {
        let s = to_i64s(g);
        let seed = s.first().copied().unwrap_or(0) as u64;
        Lay { r: Rng::new(seed), garbage: seed % 2 == 1, pad: (seed / 2) % 2 == 1, keep_nullbuf: (seed / 4) % 2 == 1,
              viewbuf: s.get(1).copied().unwrap_or(0) }
    }
}
fn default_val(t: &Ty) -> V {
    match t {
        I8 | I16 | I32 | I64 | U8 | U16 | U32 | U64 | Dec128 | Bool => V::Int(0),
        F64 => V::Float(64, 0), F32 => V::Float(32, 0), F16 => V::Float(16, 0),
        Utf8 | LargeUtf8 | Utf8View | Binary | LargeBinary | BinaryView => V::Bytes(vec![]),
        Fsb(w) => V::Bytes(vec![0; *w]),
        Dict(v) | Ree(v) => default_val(v),
        List(_) | LargeList(_) | ListView(_) => V::List(vec![]),
        FixedList(n, _) => V::List(vec![None; *n]),
        Struct(fs) => V::List(vec![None; fs.len()]),
    }
}
fn nulls_of(valid: &[bool], lay: &mut Lay) -> Option<NullBuffer> {
    if valid.iter().all(|b| *b) && !lay.keep_nullbuf { None }
    else { Some(NullBuffer::new(BooleanBuffer::from(valid.to_vec()))) }
}
fn as_int(v: &V) -> i128 { match v { V::Int(z) => *z, _ => panic!("int expected") } }
fn as_bits(v: &V) -> u64 { match v { V::Float(_, b) => *b, _ => panic!("float expected") } }
fn as_bytes(v: &V) -> &[u8] { match v { V::Bytes(b) => b, _ => panic!("bytes expected") } }
fn as_list(v: &V) -> &[OV] { match v { V::List(l) => l, _ => panic!("list expected") } }

/// top-level (and child) construction: optional garbage padding in front / behind, then slice
pub fn build(t: &Ty, vals: &[OV], lay: &mut Lay) -> ArrayRef {
    if !lay.pad { return build_exact(t, vals, lay) }
    let front = lay.r.below(10);
    let back = lay.r.below(4);
    let mut all: Vec<OV> = Vec::with_capacity(front + vals.len() + back);
    for _ in 0..front { all.push(gen_ov(t, &mut lay.r, 3)) }
    all.extend_from_slice(vals);
    for _ in 0..back { all.push(gen_ov(t, &mut lay.r, 3)) }
    build_exact(t, &all, lay).slice(front, vals.len())
}

macro_rules! prim {
    ($at:ty, $nt:ty, $phys:expr, $valid:expr, $lay:expr, $conv:expr) => {{
        let v: Vec<$nt> = $phys.iter().map($conv).collect();
        Arc::new(PrimitiveArray::<$at>::new(ScalarBuffer::from(v), nulls_of($valid, $lay))) as ArrayRef
    }};
}

fn build_exact(t: &Ty, vals: &[OV], lay: &mut Lay) -> ArrayRef {
    let valid: Vec<bool> = vals.iter().map(|v| v.is_some()).collect();
    // physical content of every slot: the value, or garbage / a default under a null
    let phys: Vec<V> = vals.iter().map(|v| match v {
        Some(x) => x.clone(),
        None => if lay.garbage { gen_val(t, &mut lay.r) } else { default_val(t) },
    }).collect();
    match t {
        I8 => prim!(Int8Type, i8, phys, &valid, lay, |v| as_int(v) as i8),
        I16 => prim!(Int16Type, i16, phys, &valid, lay, |v| as_int(v) as i16),
        I32 => prim!(Int32Type, i32, phys, &valid, lay, |v| as_int(v) as i32),
        I64 => prim!(Int64Type, i64, phys, &valid, lay, |v| as_int(v) as i64),
        U8 => prim!(UInt8Type, u8, phys, &valid, lay, |v| as_int(v) as u8),
        U16 => prim!(UInt16Type, u16, phys, &valid, lay, |v| as_int(v) as u16),
        U32 => prim!(UInt32Type, u32, phys, &valid, lay, |v| as_int(v) as u32),
        U64 => prim!(UInt64Type, u64, phys, &valid, lay, |v| as_int(v) as u64),
        F16 => prim!(Float16Type, half::f16, phys, &valid, lay, |v| half::f16::from_bits(as_bits(v) as u16)),
        F32 => prim!(Float32Type, f32, phys, &valid, lay, |v| f32::from_bits(as_bits(v) as u32)),
        F64 => prim!(Float64Type, f64, phys, &valid, lay, |v| f64::from_bits(as_bits(v))),
        Dec128 => {
            let v: Vec<i128> = phys.iter().map(as_int).collect();
            Arc::new(PrimitiveArray::<Decimal128Type>::new(ScalarBuffer::from(v), nulls_of(&valid, lay))
                .with_precision_and_scale(38, 3).unwrap())
        }
        Bool => {
            let v: Vec<bool> = phys.iter().map(|v| as_int(v) != 0).collect();
            // a (common) bit offset inside the values and validity buffers as well
            let off = lay.r.below(9);
            let mut bits = vec![lay.garbage; off]; bits.extend_from_slice(&v);
            let buf = BooleanBuffer::from(bits).slice(off, v.len());
            let nulls = if valid.iter().all(|b| *b) && !lay.keep_nullbuf { None } else {
                let mut vb = vec![lay.garbage; off]; vb.extend_from_slice(&valid);
                Some(NullBuffer::new(BooleanBuffer::from(vb).slice(off, valid.len())))
            };
            Arc::new(BooleanArray::new(buf, nulls))
        }
        Utf8 => build_bytes::<Utf8Type>(&phys, &valid, lay),
        LargeUtf8 => build_bytes::<LargeUtf8Type>(&phys, &valid, lay),
        Binary => build_bytes::<BinaryType>(&phys, &valid, lay),
        LargeBinary => build_bytes::<LargeBinaryType>(&phys, &valid, lay),
        Utf8View => build_view::<StringViewType>(&phys, &valid, lay),
        BinaryView => build_view::<BinaryViewType>(&phys, &valid, lay),
        Fsb(w) => {
            let mut data = Vec::with_capacity(w * phys.len());
            for v in &phys { let b = as_bytes(v); assert_eq!(b.len(), *w); data.extend_from_slice(b) }
            Arc::new(FixedSizeBinaryArray::try_new_with_len(*w as i32, Buffer::from_vec(data), nulls_of(&valid, lay), phys.len()).unwrap())
        }
        Dict(vt) => build_dict(vt, vals, lay),
        List(c) => build_list::<i32>(c, &phys, &valid, lay),
        LargeList(c) => build_list::<i64>(c, &phys, &valid, lay),
        ListView(c) => {
            // views may share, overlap and come in any order inside the child
            let mut child: Vec<OV> = Vec::new();
            let mut offs: Vec<i32> = Vec::new(); let mut sizes: Vec<i32> = Vec::new();
            let mut order: Vec<usize> = (0..phys.len()).collect();
            for i in (1..order.len()).rev() { let j = lay.r.below(i + 1); order.swap(i, j) }
            let mut place: Vec<(i32, i32)> = vec![(0, 0); phys.len()];
            for &i in &order {
                let l = as_list(&phys[i]);
                // reuse an earlier identical range when possible
                let found = (0..child.len().saturating_sub(l.len()) + 1).find(|&s| s + l.len() <= child.len() && child[s..s + l.len()] == *l);
                match found {
                    Some(st) if lay.r.bool() => place[i] = (st as i32, l.len() as i32),
                    _ => { if lay.garbage && lay.r.chance(1, 3) { child.push(gen_ov(c, &mut lay.r, 3)) }
                           place[i] = (child.len() as i32, l.len() as i32); child.extend_from_slice(l) }
                }
            }
            for (o, sz) in &place { offs.push(*o); sizes.push(*sz) }
            let ca = build(c, &child, lay);
            let f = Arc::new(Field::new("item", data_type(c), true));
            Arc::new(GenericListViewArray::<i32>::try_new(f, ScalarBuffer::from(offs), ScalarBuffer::from(sizes), ca, nulls_of(&valid, lay)).unwrap())
        }
        FixedList(n, c) => {
            let mut child: Vec<OV> = Vec::new();
            for v in &phys { let l = as_list(v); assert_eq!(l.len(), *n); child.extend_from_slice(l) }
            let ca = build(c, &child, lay);
            let f = Arc::new(Field::new("item", data_type(c), true));
            Arc::new(FixedSizeListArray::try_new_with_length(f, *n as i32, ca, nulls_of(&valid, lay), phys.len()).unwrap())
        }
        Struct(fs) => {
            let cols: Vec<ArrayRef> = fs.iter().enumerate().map(|(i, f)| {
                let child: Vec<OV> = phys.iter().map(|v| as_list(v)[i].clone()).collect();
                build(f, &child, lay)
            }).collect();
            if fs.is_empty() { Arc::new(StructArray::new_empty_fields(phys.len(), nulls_of(&valid, lay))) }
            else { Arc::new(StructArray::new(struct_fields(fs), cols, nulls_of(&valid, lay))) }
        }
        Ree(vt) => build_ree(vt, vals, lay),
    }
}

fn build_bytes<T: ByteArrayType>(phys: &[V], valid: &[bool], lay: &mut Lay) -> ArrayRef
where T::Offset: TryFrom<usize>, <T::Offset as TryFrom<usize>>::Error: std::fmt::Debug {
    // offsets need not start at 0
    let lead = if lay.garbage { lay.r.below(6) } else { 0 };
    let mut data: Vec<u8> = vec![b'x'; lead];
    let mut offs: Vec<T::Offset> = vec![T::Offset::try_from(lead).unwrap()];
    for v in phys { data.extend_from_slice(as_bytes(v)); offs.push(T::Offset::try_from(data.len()).unwrap()) }
    data.extend_from_slice(b"tail");
    let a = GenericByteArray::<T>::try_new(OffsetBuffer::new(ScalarBuffer::from(offs)), Buffer::from_vec(data), nulls_of(valid, lay)).unwrap();
    Arc::new(a)
}

fn build_view<T: ByteViewType>(phys: &[V], valid: &[bool], lay: &mut Lay) -> ArrayRef {
    let nbuf = 1 + lay.r.below(3);
    let mut bufs: Vec<Vec<u8>> = (0..nbuf).map(|i| vec![b'#'; i * 3]).collect();
    let mut views: Vec<u128> = Vec::with_capacity(phys.len());
    let mut any_long = false;
    for v in phys {
        let b = as_bytes(v);
        if b.len() <= 12 {
            let mut raw = [0u8; 16];
            raw[..4].copy_from_slice(&(b.len() as u32).to_le_bytes());
            raw[4..4 + b.len()].copy_from_slice(b);
            views.push(u128::from_le_bytes(raw));
        } else {
            any_long = true;
            let bi = lay.r.below(nbuf);
            let off = bufs[bi].len();
            bufs[bi].extend_from_slice(b);
            if lay.r.bool() { bufs[bi].push(b'|') }
            let bv = ByteView { length: b.len() as u32, prefix: u32::from_le_bytes(b[..4].try_into().unwrap()), buffer_index: bi as u32, offset: off as u32 };
            views.push(bv.as_u128());
        }
    }
    // without long values the array may have no data buffer at all (the inline fast paths) or unused ones
    let drop_bufs = !any_long && match lay.viewbuf { 1 => true, 2 => false, _ => lay.r.chance(2, 3) };
    let buffers: Vec<Buffer> = if drop_bufs { vec![] } else { bufs.into_iter().map(Buffer::from_vec).collect() };
    Arc::new(GenericByteViewArray::<T>::try_new(ScalarBuffer::from(views), buffers, nulls_of(valid, lay)).unwrap())
}

fn build_list<O: OffsetSizeTrait>(c: &Ty, phys: &[V], valid: &[bool], lay: &mut Lay) -> ArrayRef {
    let lead = if lay.garbage { lay.r.below(3) } else { 0 };
    let mut child: Vec<OV> = (0..lead).map(|_| gen_ov(c, &mut lay.r, 3)).collect();
    let mut offs: Vec<O> = vec![O::usize_as(lead)];
    for v in phys { child.extend_from_slice(as_list(v)); offs.push(O::usize_as(child.len())) }
    if lay.garbage { child.push(gen_ov(c, &mut lay.r, 3)) }
    let ca = build(c, &child, lay);
    let f = Arc::new(Field::new("item", data_type(c), true));
    Arc::new(GenericListArray::<O>::try_new(f, OffsetBuffer::new(ScalarBuffer::from(offs)), ca, nulls_of(valid, lay)).unwrap())
}

/// Dictionary<Int32, vt>: shuffled dictionary with unused and duplicate entries; with `garbage`,
/// some logical nulls are valid keys that point at a null dictionary value
fn build_dict(vt: &Ty, vals: &[OV], lay: &mut Lay) -> ArrayRef {
    let mut entries: Vec<OV> = Vec::new();
    for v in vals.iter().flatten() {
        if !entries.iter().any(|e| e.as_ref() == Some(v)) || lay.r.chance(1, 6) { entries.push(Some(v.clone())) }
    }
    for _ in 0..lay.r.below(3) { entries.push(Some(gen_val(vt, &mut lay.r))) }
    let null_entry = lay.garbage && lay.r.bool();
    if null_entry { entries.push(None) }
    if entries.is_empty() { entries.push(Some(default_val(vt))) }
    // shuffle
    for i in (1..entries.len()).rev() { let j = lay.r.below(i + 1); entries.swap(i, j) }
    let mut keys: Vec<i32> = Vec::with_capacity(vals.len());
    let mut kvalid: Vec<bool> = Vec::with_capacity(vals.len());
    for v in vals {
        match v {
            Some(x) => {
                let cands: Vec<usize> = (0..entries.len()).filter(|i| entries[*i].as_ref() == Some(x)).collect();
                keys.push(*lay.r.pick(&cands) as i32); kvalid.push(true);
            }
            None => {
                if null_entry && lay.r.bool() {
                    keys.push(entries.iter().position(|e| e.is_none()).unwrap() as i32); kvalid.push(true);
                } else {
                    keys.push(if lay.garbage { lay.r.below(entries.len()) as i32 } else { 0 }); kvalid.push(false);
                }
            }
        }
    }
    let values = build(vt, &entries, lay);
    let keys = Int32Array::new(ScalarBuffer::from(keys), nulls_of(&kvalid, lay));
    Arc::new(DictionaryArray::<Int32Type>::try_new(keys, values).unwrap())
}

/// RunEndEncoded<Int32, vt>: maximal runs, sometimes split into several physical runs
fn build_ree(vt: &Ty, vals: &[OV], lay: &mut Lay) -> ArrayRef {
    let mut ends: Vec<i32> = Vec::new();
    let mut rv: Vec<OV> = Vec::new();
    for (i, v) in vals.iter().enumerate() {
        let same = i > 0 && vals[i - 1] == *v;
        if same && !lay.r.chance(1, 5) { *ends.last_mut().unwrap() = i as i32 + 1 }
        else { ends.push(i as i32 + 1); rv.push(v.clone()) }
    }
    let values = build(vt, &rv, lay);
    let ends = Int32Array::new(ScalarBuffer::from(ends), None);
    Arc::new(RunArray::<Int32Type>::try_new(&ends, values.as_ref()).unwrap())
}

/// logical read-back of an array (used for the value-returning kernels `sort` / `sort_limit`)
pub fn read(t: &Ty, a: &dyn Array) -> Vec<OV> {
    use arrow_array::cast::AsArray;
    let n = a.len();
    macro_rules! rp { ($at:ty, $f:expr) => {{ let p = a.as_primitive::<$at>(); (0..n).map(|i| if p.is_null(i) { None } else { Some($f(p.value(i))) }).collect() }}; }
    match t {
        I8 => rp!(Int8Type, |x| V::Int(x as i128)), I16 => rp!(Int16Type, |x| V::Int(x as i128)),
        I32 => rp!(Int32Type, |x| V::Int(x as i128)), I64 => rp!(Int64Type, |x| V::Int(x as i128)),
        U8 => rp!(UInt8Type, |x| V::Int(x as i128)), U16 => rp!(UInt16Type, |x| V::Int(x as i128)),
        U32 => rp!(UInt32Type, |x| V::Int(x as i128)), U64 => rp!(UInt64Type, |x| V::Int(x as i128)),
        Dec128 => rp!(Decimal128Type, |x| V::Int(x)),
        F16 => rp!(Float16Type, |x: half::f16| V::Float(16, x.to_bits() as u64)),
        F32 => rp!(Float32Type, |x: f32| V::Float(32, x.to_bits() as u64)),
        F64 => rp!(Float64Type, |x: f64| V::Float(64, x.to_bits())),
        Bool => { let p = a.as_boolean(); (0..n).map(|i| if p.is_null(i) { None } else { Some(V::Int(p.value(i) as i128)) }).collect() }
        Utf8 => { let p = a.as_string::<i32>(); (0..n).map(|i| if p.is_null(i) { None } else { Some(V::Bytes(p.value(i).as_bytes().to_vec())) }).collect() }
        LargeUtf8 => { let p = a.as_string::<i64>(); (0..n).map(|i| if p.is_null(i) { None } else { Some(V::Bytes(p.value(i).as_bytes().to_vec())) }).collect() }
        Binary => { let p = a.as_binary::<i32>(); (0..n).map(|i| if p.is_null(i) { None } else { Some(V::Bytes(p.value(i).to_vec())) }).collect() }
        LargeBinary => { let p = a.as_binary::<i64>(); (0..n).map(|i| if p.is_null(i) { None } else { Some(V::Bytes(p.value(i).to_vec())) }).collect() }
        Utf8View => { let p = a.as_string_view(); (0..n).map(|i| if p.is_null(i) { None } else { Some(V::Bytes(p.value(i).as_bytes().to_vec())) }).collect() }
        BinaryView => { let p = a.as_binary_view(); (0..n).map(|i| if p.is_null(i) { None } else { Some(V::Bytes(p.value(i).to_vec())) }).collect() }
        Fsb(_) => { let p = a.as_fixed_size_binary(); (0..n).map(|i| if p.is_null(i) { None } else { Some(V::Bytes(p.value(i).to_vec())) }).collect() }
        Dict(vt) => {
            let d = a.as_dictionary::<Int32Type>();
            let vals = read(vt, d.values().as_ref());
            (0..n).map(|i| if d.keys().is_null(i) { None } else { vals[d.keys().value(i) as usize].clone() }).collect()
        }
        List(c) => { let p = a.as_list::<i32>(); (0..n).map(|i| if p.is_null(i) { None } else { Some(V::List(read(c, p.value(i).as_ref()))) }).collect() }
        LargeList(c) => { let p = a.as_list::<i64>(); (0..n).map(|i| if p.is_null(i) { None } else { Some(V::List(read(c, p.value(i).as_ref()))) }).collect() }
        ListView(c) => { let p = a.as_list_view::<i32>(); (0..n).map(|i| if p.is_null(i) { None } else { Some(V::List(read(c, p.value(i).as_ref()))) }).collect() }
        FixedList(_, c) => { let p = a.as_fixed_size_list(); (0..n).map(|i| if p.is_null(i) { None } else { Some(V::List(read(c, p.value(i).as_ref()))) }).collect() }
        Struct(fs) => {
            let p = a.as_struct();
            let cols: Vec<Vec<OV>> = fs.iter().enumerate().map(|(i, f)| read(f, p.column(i).as_ref())).collect();
            (0..n).map(|i| if p.is_null(i) { None } else { Some(V::List(cols.iter().map(|c| c[i].clone()).collect())) }).collect()
        }
        Ree(vt) => {
            let r = a.as_any().downcast_ref::<RunArray<Int32Type>>().unwrap();
            let vals = read(vt, r.values().as_ref());
            (0..n).map(|i| vals[r.get_physical_index(i)].clone()).collect()
        }
    }
}

// ------------------------------------------------------------------------------------------ running the real code

fn ekind(e: &ArrowError) -> i64 {
    match e {
        ArrowError::InvalidArgumentError(_) => E_INVALID,
        ArrowError::NotYetImplemented(_) => E_UNSUPPORTED,
        ArrowError::ComputeError(_) => E_UNSUPPORTED,
        _ => E_INVALID,
    }
}
fn opts_of(g: &Group) -> Option<SortOptions> {
    let s = to_i64s(g);
    let o = SortOptions { nulls_first: s[0] != 0, descending: s[1] != 0 };
    // `None` means the default options (ascending, nulls first)
    if s.len() > 2 && s[2] != 0 && o == SortOptions::default() { None } else { Some(o) }
}
fn limit_of(g: &Group) -> Option<usize> { g.first().map(|x| usize::try_from(x).unwrap()) }
fn sign(o: Ordering) -> i64 { match o { Ordering::Less => -1, Ordering::Equal => 0, Ordering::Greater => 1 } }
fn col_at(a: &Args, i: usize) -> (Ty, Vec<OV>, ArrayRef) {
    let t = ty_of(&a[i]);
    let vals = parse_col(&a[i + 2]);
    let arr = build(&t, &vals, &mut Lay::from_group(&a[i + 1]));
    assert_eq!(arr.len(), vals.len());
    (t, vals, arr)
}
fn indices_out(r: Result<UInt32Array, ArrowError>) -> Result<Vec<u32>, i64> {
    match r {
        Ok(ix) => if ix.null_count() > 0 { Err(E_INVALID) } else { Ok(ix.values().to_vec()) },
        Err(e) => Err(ekind(&e)),
    }
}
fn real_sort_to_indices(a: &Args) -> Result<Vec<u32>, i64> {
    let (_, _, arr) = col_at(a, 0);
    indices_out(sort_to_indices(arr.as_ref(), opts_of(&a[3]), limit_of(&a[4])))
}
fn lex_columns(a: &Args) -> (Vec<SortColumn>, usize) {
    let k = to_usize(&a[0]);
    let cols = (0..k).map(|c| {
        let (_, _, arr) = col_at(a, 1 + 4 * c);
        SortColumn { values: arr, options: opts_of(&a[1 + 4 * c + 3]) }
    }).collect();
    (cols, 1 + 4 * k)
}
fn real_lexsort(a: &Args) -> Result<Vec<u32>, i64> {
    let (cols, p) = lex_columns(a);
    indices_out(lexsort_to_indices(&cols, limit_of(&a[p])))
}
fn real_partial_sort(a: &Args) -> Vec<usize> {
    let vals = to_i64s(&a[0]);
    let mut v: Vec<usize> = (0..vals.len()).collect();
    partial_sort(&mut v, to_usize(&a[1]), |x, y| vals[*x].cmp(&vals[*y]));
    v
}
fn same_or(real: Vec<BigInt>, embedded: &Group) -> Args {
    if &real == embedded { vec![g(1)] } else { let mut o = vec![BigInt::from(2)]; o.extend(real); vec![o] }
}

pub fn run(op: &str, a: &Args) -> Option<Args> {
    // debugging aid only: show panic messages (outputs are unaffected)
    if std::env::var_os("C10_DEBUG").is_some() { std::panic::set_hook(Box::new(|i| eprintln!("{i}"))) }
    Some(match op {
        // [type] [layout a] [values a] [layout b | -1 = the same array] [values b] -> 4 sign matrices
        "c10.cmp" => {
            let (t, _, la) = col_at(a, 0);
            let same = to_i64s(&a[3]).first() == Some(&-1);
            let ra = if same { la.clone() } else { build(&t, &parse_col(&a[4]), &mut Lay::from_group(&a[3])) };
            let mut out = Args::new();
            for (nf, desc) in [(false, false), (false, true), (true, false), (true, true)] {
                let c = match make_comparator(la.as_ref(), ra.as_ref(), SortOptions { descending: desc, nulls_first: nf }) {
                    Ok(c) => c, Err(e) => return Some(err(ekind(&e))),
                };
                let mut m = Vec::with_capacity(la.len() * ra.len());
                for i in 0..la.len() { for j in 0..ra.len() { m.push(BigInt::from(sign(c(i, j)))) } }
                out.push(m);
            }
            out
        }
        // [type] [layout] [values] [nf; desc; none?] [limit?] [out] -> [1] when the real call returns `out`
        "c10.sort_check" => match real_sort_to_indices(a) {
            Ok(ix) => same_or(ix.iter().map(|x| BigInt::from(*x)).collect(), &a[5]),
            Err(kd) => err(kd),
        },
        // same arguments without [out] -> the returned indices, each replaced by the first index holding an identical logical value
        "c10.sort_to_indices" => match real_sort_to_indices(a) {
            Ok(ix) => {
                let vals = parse_col(&a[2]);
                if ix.iter().any(|i| *i as usize >= vals.len()) { return Some(err(E_OOB)) }
                vec![ix.iter().map(|i| BigInt::from(vals.iter().position(|v| *v == vals[*i as usize]).unwrap())).collect()]
            }
            Err(kd) => err(kd),
        },
        // [value type] [layout] [keys, -1 = null] [dictionary values] [nf; desc; none?] [limit?] -> canonical sort_to_indices of the dictionary array
        "c10.sort_dictionary" => {
            let vt = ty_of(&a[0]);
            let mut lay = Lay::from_group(&a[1]);
            let keys = to_i64s(&a[2]);
            let dvals = parse_col(&a[3]);
            let values = build(&vt, &dvals, &mut lay);
            let kv: Vec<i32> = keys.iter().map(|k| if *k < 0 { if lay.garbage && !dvals.is_empty() { lay.r.below(dvals.len()) as i32 } else { 0 } } else { *k as i32 }).collect();
            let kvalid: Vec<bool> = keys.iter().map(|k| *k >= 0).collect();
            let karr = Int32Array::new(ScalarBuffer::from(kv), nulls_of(&kvalid, &mut lay));
            let dict = DictionaryArray::<Int32Type>::try_new(karr, values).unwrap();
            let logical: Vec<OV> = keys.iter().map(|k| if *k < 0 { None } else { dvals[*k as usize].clone() }).collect();
            match indices_out(sort_to_indices(&dict, opts_of(&a[4]), limit_of(&a[5]))) {
                Ok(ix) => {
                    if ix.iter().any(|i| *i as usize >= logical.len()) { return Some(err(E_OOB)) }
                    vec![ix.iter().map(|i| BigInt::from(logical.iter().position(|v| *v == logical[*i as usize]).unwrap())).collect()]
                }
                Err(kd) => err(kd),
            }
        }
        // -> the sorted column itself (sort / sort_limit)
        "c10.sort" => {
            let (t, _, arr) = col_at(a, 0);
            let r = match limit_of(&a[4]) {
                None => sort(arr.as_ref(), opts_of(&a[3])),
                Some(l) => sort_limit(arr.as_ref(), opts_of(&a[3]), Some(l)),
            };
            match r { Ok(s) => vec![gcol(&read(&t, s.as_ref()))], Err(e) => err(ekind(&e)) }
        }
        "c10.lexsort_check" => match real_lexsort(a) {
            Ok(ix) => { let p = 1 + 4 * to_usize(&a[0]); same_or(ix.iter().map(|x| BigInt::from(*x)).collect(), &a[p + 1]) }
            Err(kd) => err(kd),
        },
        // [ncols] columns... [limit] -> the heap path's indices, each replaced by the first row with identical values in every column
        "c10.lexsort_topk" => match real_lexsort(a) {
            Ok(ix) => {
                let kk = to_usize(&a[0]);
                let cols: Vec<Vec<OV>> = (0..kk).map(|c| parse_col(&a[1 + 4 * c + 2])).collect();
                let n = cols[0].len();
                if ix.iter().any(|i| *i as usize >= n) { return Some(err(E_OOB)) }
                let same = |i: usize, j: usize| cols.iter().all(|c| c[i] == c[j]);
                vec![ix.iter().map(|i| BigInt::from((0..n).find(|j| same(*j, *i as usize)).unwrap())).collect()]
            }
            Err(kd) => err(kd),
        },
        "c10.partial_sort_check" => same_or(real_partial_sort(a).iter().map(|x| BigInt::from(*x)).collect(), &a[2]),
        "c10.rank" => {
            let (_, _, arr) = col_at(a, 0);
            match rank(arr.as_ref(), opts_of(&a[3])) { Ok(r) => vec![r.iter().map(|x| BigInt::from(*x)).collect()], Err(e) => err(ekind(&e)) }
        }
        // [ncols] ([type] [layout] [values])^ncols -> flattened ranges
        "c10.partition" => {
            let kk = to_usize(&a[0]);
            let cols: Vec<ArrayRef> = (0..kk).map(|c| col_at(a, 1 + 3 * c).2).collect();
            match partition(&cols) {
                Ok(p) => {
                    let rs = p.ranges();
                    if rs.len() != p.len() { return Some(err(E_INVALID)) }
                    vec![rs.iter().flat_map(|r| [BigInt::from(r.start), BigInt::from(r.end)]).collect()]
                }
                Err(e) => err(ekind(&e)),
            }
        }
        // [type] [layout l] [values l] [layout r | -1] [values r] [l_scalar; r_scalar] -> 8 x ([validity] [values])
        "c10.kernel" => {
            let (t, _, la) = col_at(a, 0);
            let same = to_i64s(&a[3]).first() == Some(&-1);
            // an optional 7th group gives the right-hand side its own physical encoding (plain / dictionary / run-end)
            let tr = if a.len() > 6 && !a[6].is_empty() { ty_of(&a[6]) } else { t.clone() };
            let ra = if same { la.clone() } else { build(&tr, &parse_col(&a[4]), &mut Lay::from_group(&a[3])) };
            let f = to_i64s(&a[5]);
            let (ls, rs) = (f[0] != 0, f[1] != 0);
            let lsc; let rsc;
            let ld: &dyn Datum = if ls { lsc = Scalar::new(la.clone()); &lsc } else { &la };
            let rd: &dyn Datum = if rs { rsc = Scalar::new(ra.clone()); &rsc } else { &ra };
            let mut out = Args::new();
            type K = fn(&dyn Datum, &dyn Datum) -> Result<BooleanArray, ArrowError>;
            let ops: [K; 8] = [k::eq, k::neq, k::lt, k::lt_eq, k::gt, k::gt_eq, k::distinct, k::not_distinct];
            for f in ops {
                match f(ld, rd) {
                    Ok(b) => {
                        out.push(gbools((0..b.len()).map(|i| b.is_valid(i))));
                        out.push(gbools((0..b.len()).map(|i| b.is_valid(i) && b.value(i))));
                    }
                    Err(e) => return Some(err(ekind(&e))),
                }
            }
            out
        }
        // [w] [bit patterns] -> sign matrix of ArrowNativeTypeOp::compare (f16/f32/f64), cross-checked with is_eq / is_lt
        "c10.float_key" => {
            let w = to_usize(&a[0]);
            let xs: Vec<u64> = a[1].iter().map(|x| u64::try_from(x).unwrap()).collect();
            let mut m = Vec::new();
            for x in &xs { for y in &xs {
                let (c, e, l) = match w {
                    16 => { let (p, q) = (half::f16::from_bits(*x as u16), half::f16::from_bits(*y as u16)); (p.compare(q), p.is_eq(q), p.is_lt(q)) }
                    32 => { let (p, q) = (f32::from_bits(*x as u32), f32::from_bits(*y as u32)); (p.compare(q), p.is_eq(q), p.is_lt(q)) }
                    _ => { let (p, q) = (f64::from_bits(*x), f64::from_bits(*y)); (p.compare(q), p.is_eq(q), p.is_lt(q)) }
                };
                // is_eq / is_lt must agree with compare; an inconsistency is reported as an impossible sign
                let s = if e != (c == Ordering::Equal) || l != (c == Ordering::Less) { 7 } else { sign(c) };
                m.push(BigInt::from(s));
            } }
            vec![m]
        }
        _ => return None,
    })
}

// ------------------------------------------------------------------------------------------ generators

fn leaf_types() -> Vec<Ty> {
    vec![I8, I16, I32, I64, U8, U16, U32, U64, F16, F32, F64, Bool, Utf8, LargeUtf8, Utf8View, Binary,
         LargeBinary, BinaryView, Fsb(3), Fsb(0), Dec128]
}
fn cmp_types() -> Vec<Ty> {
    let mut v = leaf_types();
    v.extend([Dict(Box::new(Utf8)), Dict(Box::new(I32)), Dict(Box::new(F64)), List(Box::new(I32)), List(Box::new(Utf8)),
              LargeList(Box::new(F32)), FixedList(2, Box::new(I16)), Struct(vec![I32, Utf8]), Struct(vec![F64, Bool, Binary]),
              Struct(vec![List(Box::new(I8)), Utf8View]), List(Box::new(Struct(vec![I32, Utf8]))), List(Box::new(List(Box::new(I32)))),
              Ree(Box::new(I32)), Ree(Box::new(Utf8)), Dict(Box::new(Utf8View)), ListView(Box::new(I32)), ListView(Box::new(Utf8)),
              Ree(Box::new(Dict(Box::new(Utf8))))]);
    v
}
/// types sort_to_indices supports (can_sort_to_indices)
fn sort_types() -> Vec<Ty> {
    let mut v = leaf_types();
    v.extend([Dict(Box::new(Utf8)), Dict(Box::new(I32)), Dict(Box::new(F64)), List(Box::new(I32)), List(Box::new(Utf8)),
              LargeList(Box::new(F32)), FixedList(2, Box::new(I16)), Ree(Box::new(I32)), Ree(Box::new(Utf8)), ListView(Box::new(I32)), ListView(Box::new(Binary))]);
    v
}
fn is_tuple_sorted(t: &Ty) -> bool { !matches!(t, Dict(_) | List(_) | LargeList(_) | ListView(_) | FixedList(_, _) | Ree(_) | Struct(_)) }
fn rank_types() -> Vec<Ty> {
    vec![I8, I16, I32, I64, U8, U16, U32, U64, F16, F32, F64, Bool, Utf8, LargeUtf8, Utf8View, Binary, LargeBinary, BinaryView, Dec128]
}
fn kernel_types() -> Vec<Ty> {
    let mut v = leaf_types();
    v.extend([Dict(Box::new(Utf8)), Dict(Box::new(I32)), Dict(Box::new(F64)), Dict(Box::new(Utf8View)), Ree(Box::new(I32)), Ree(Box::new(Utf8)), Ree(Box::new(F32)),
              Ree(Box::new(Dict(Box::new(Utf8)))), Ree(Box::new(Bool)), Dict(Box::new(Fsb(3)))]);
    v
}
/// the physical encodings a right-hand side may take for a left-hand type (same logical leaf type)
fn encodings(t: &Ty) -> Vec<Ty> {
    let leaf = match t { Dict(v) => match &**v { x => x.clone() }, Ree(v) => match &**v { Dict(x) => (**x).clone(), x => x.clone() }, x => x.clone() };
    vec![leaf.clone(), Dict(Box::new(leaf.clone())), Ree(Box::new(leaf.clone())), Ree(Box::new(Dict(Box::new(leaf))))]
}
fn indirect(t: &Ty) -> bool { matches!(t, Dict(_) | Ree(_)) }
fn tyname(t: &Ty) -> String {
    let s = format!("{:?}", t);
    s.chars().filter(|c| !c.is_whitespace()).collect()
}
fn glay(r: &mut Rng) -> Group { g((r.next() % 1_000_000) as i64) }
fn gopts(nf: bool, desc: bool, r: &mut Rng) -> Group { vec![BigInt::from(nf as u8), BigInt::from(desc as u8), BigInt::from(r.below(2))] }
fn nclass(n: usize) -> &'static str { match n { 0 => "n0", 1 => "n1", 2..=8 => "n2-8", 9..=32 => "n9-32", 33..=64 => "n33-64", _ => "big" } }

fn guarded<T>(f: impl FnOnce() -> T) -> Option<T> { catch_unwind(AssertUnwindSafe(f)).ok() }

fn emit_sort_cases(t: &Ty, vals: &[OV], limits: &[Option<usize>], r: &mut Rng, emit: &mut dyn FnMut(Case)) {
    let n = vals.len();
    for (nf, desc) in [(false, false), (false, true), (true, false), (true, true)] {
        let lay = glay(r);
        for lim in limits {
            let base: Args = vec![gty(t), lay.clone(), gcol(vals), gopts(nf, desc, r), gopt(*lim)];
            let tag = format!("{} {} nf{} d{} lim{}", tyname(t), nclass(n), nf as u8, desc as u8,
                match lim { None => "none".to_string(), Some(l) if *l == 0 => "0".into(), Some(l) if *l < n => "lt".into(), Some(l) if *l == n => "eq".into(), _ => "gt".into() });
            // the real output is embedded so that the specification can judge it (ties make it non-unique)
            let out = guarded(|| real_sort_to_indices(&base)).and_then(|x| x.ok()).unwrap_or_default();
            let mut with_out = base.clone();
            with_out.push(out.iter().map(|x| BigInt::from(*x)).collect());
            emit(Case::new("c10.sort_check", with_out, &["c10.sort_check.spec"], format!("sortchk {tag}")));
            if is_tuple_sorted(t) && r.chance(1, 3) {
                emit(Case::new("c10.sort_to_indices", base.clone(), &["c10.sort_to_indices"], format!("sortidx {tag}")));
            }
            // KNOWN-FINDING candidate: `take` on FixedSizeBinary(0) returns an array of length 0 (arrow-select,
            // FixedSizeBinaryArray::try_new derives the length from the byte length), so sort()/sort_limit() lose all rows
            if r.chance(1, 3) && *t != Fsb(0) {
                emit(Case::new("c10.sort", base, &["c10.sort.spec"], format!("sortval {tag}")));
            }
        }
    }
}

fn limits_for(n: usize, all: bool, r: &mut Rng) -> Vec<Option<usize>> {
    let mut v: Vec<Option<usize>> = vec![None];
    if all { v.extend((0..=n + 1).map(Some)) }
    else {
        let mut c = vec![0, 1, 2, n / 10, n / 2, n.saturating_sub(1), n, n + 1, r.below(n + 2), r.below(n + 2)];
        c.sort(); c.dedup();
        v.extend(c.into_iter().map(Some))
    }
    v
}

pub fn generate(tier: &str, r: &mut Rng, emit: &mut dyn FnMut(Case)) {
    let thorough = tier == "thorough";
    let scale = if thorough { 8 } else { 1 };

    // ---- float total order on the special bit patterns (all pairs), every width
    for (w, sp) in [(16usize, &F16_SPECIAL), (32, &F32_SPECIAL), (64, &F64_SPECIAL)] {
        for round in 0..(2 * scale) {
            let mut xs: Vec<u64> = sp.to_vec();
            for _ in 0..10 { xs.push(if w == 64 { r.next() } else { r.next() & ((1u64 << w) - 1) }) }
            let x = xs[r.below(xs.len())]; xs.push(x ^ 1); xs.push(x ^ (1u64 << (w - 1)));
            emit(Case::new("c10.float_key", vec![g(w), xs.iter().map(|x| BigInt::from(*x)).collect()],
                &["c10.float_key", "c10.float_key.spec"], format!("fkey w{w} r{}", round % 2)));
        }
    }

    // ---- comparator: all pairs, all four options, every type
    let sizes: Vec<usize> = if thorough { vec![0, 1, 2, 3, 7, 8, 9, 17, 31, 33, 48] } else { vec![0, 1, 3, 8, 17, 33, 48] };
    for t in cmp_types() {
        for rep in 0..(3 * scale) {
            for nd in 0..5 {
                let n = *r.pick(&sizes);
                let n = if nd == 4 { n.min(9) } else { n };
                let a = gen_col(&t, n, nd, r);
                // same array on both sides (what sort / lexsort / partition build), or two different arrays
                let same = rep % 3 != 2;
                let (lb, b) = if same { (g(-1), a.clone()) } else {
                    let m = *r.pick(&sizes);
                    let mut b = gen_col(&t, m.min(24), r.below(4), r);
                    // share some values with the left side so that Equal occurs across arrays
                    for x in b.iter_mut() { if !a.is_empty() && r.chance(1, 3) { *x = a[r.below(a.len())].clone() } }
                    (glay(r), b)
                };
                emit(Case::new("c10.cmp", vec![gty(&t), glay(r), gcol(&a), lb, gcol(&b)], &["c10.cmp", "c10.cmp.spec"],
                    format!("cmp {} {} nd{} same{}", tyname(&t), nclass(n), nd, same as u8)));
            }
        }
    }

    // ---- comparator across two DIFFERENT view arrays with different buffer ownership: one side all-inline with no data
    //      buffer at all, the other with out-of-line (> 12 byte) values, pairs sharing the 4-byte prefix (and whole inline
    //      values being prefixes of long ones) — compare_byte_view_values may take the inline-key path only when BOTH
    //      sides have no buffers; a long view's buffer-index / offset words are not string bytes
    for vt in [Utf8View, BinaryView] {
        for rep in 0..(6 * scale) {
            let prefix: Vec<u8> = (0..4).map(|_| b'a' + r.below(3) as u8).collect();
            let tail = |r: &mut Rng, len: usize| -> Vec<u8> { (0..len).map(|_| *r.pick(&[0u8, 1, b'a', b'b', b'm', b'z', 0x7f])).collect() };
            let ns = 3 + r.below(8); let nl = 3 + r.below(8);
            let mut short: Vec<OV> = Vec::new();
            for _ in 0..ns {
                if r.chance(1, 8) { short.push(None); continue }
                let mut b = if r.chance(5, 6) { prefix.clone() } else { gen_bytes(r, true, Some(4)) };
                let extra = *r.pick(&[0usize, 1, 1, 2, 4, 7, 8]); b.extend(tail(r, extra));
                if r.chance(1, 6) && b.is_ascii() { b.truncate(r.below(4)) }
                short.push(Some(V::Bytes(b)));
            }
            let mut long: Vec<OV> = Vec::new();
            for i in 0..nl {
                if r.chance(1, 8) { long.push(None); continue }
                // some long values extend a short one, the rest share only the prefix
                let base: Vec<u8> = match short.get(i % ns.max(1)) { Some(Some(V::Bytes(b))) if r.bool() && b.len() >= 4 => b.clone(), _ => prefix.clone() };
                let mut b = base; let want = 13 + r.below(10);
                while b.len() < want { let t = tail(r, 1); b.extend(t) }
                long.push(if r.chance(1, 6) { short[r.below(ns)].clone() } else { Some(V::Bytes(b)) });
            }
            if !long.iter().any(|v| matches!(v, Some(V::Bytes(b)) if b.len() > 12)) { let mut b = prefix.clone(); b.extend(vec![b'z'; 12]); long.push(Some(V::Bytes(b))) }
            // layouts without garbage / padding (seed multiple of 4 apart from the kept-null-buffer bit) so the short side stays all-inline
            let ls = vec![BigInt::from(4 * r.below(200_000) as i64), BigInt::from(1 + (rep % 3 == 2) as i64)];
            let ll = vec![BigInt::from(4 * r.below(200_000) as i64), BigInt::from(0)];
            let (a, la, b, lb) = if rep % 2 == 0 { (&short, &ls, &long, &ll) } else { (&long, &ll, &short, &ls) };
            emit(Case::new("c10.cmp", vec![gty(&vt), la.clone(), gcol(a), lb.clone(), gcol(b)], &["c10.cmp", "c10.cmp.spec"],
                format!("cmp-viewbuf {} short{} nobuf{}", tyname(&vt), if rep % 2 == 0 { "L" } else { "R" }, (rep % 3 != 2) as u8)));
        }
    }

    // ---- sort_to_indices / sort / sort_limit: every limit 0..=n+1 on small arrays, sampled limits on larger ones
    for t in sort_types() {
        for rep in 0..(2 * scale) {
            for nd in [0usize, 1, 2, 3, 4] {
                let small = rep % 2 == 0;
                let n = if small { r.below(10) } else { *r.pick(&[15usize, 16, 17, 31, 32, 33, 47, 48]) };
                let n = if nd == 4 { n.min(6) } else { n };
                let vals = gen_col(&t, n, nd, r);
                let lims = limits_for(n, small || (thorough && rep % 4 == 1), r);
                emit_sort_cases(&t, &vals, &lims, r, emit);
            }
        }
    }
    // larger arrays (std switches algorithms with the length): a few limits each
    for t in [I32, F64, Utf8, Utf8View, Bool, Dict(Box::new(Utf8)), List(Box::new(I32))] {
        for n in if thorough { vec![63usize, 64, 65, 200, 1023, 1024, 1025, 3000] } else { vec![64usize, 65, 257, 1025] } {
            let vals = gen_col(&t, n, r.below(3), r);
            let lims = vec![None, Some(1), Some(n / 20), Some(n / 2), Some(n - 1), Some(n + 1)];
            emit_sort_cases(&t, &vals, &lims, r, emit);
        }
    }

    // ---- sort_dictionary with an explicit physical dictionary: null keys AND valid keys that point at null dictionary values
    for vt in [I32, Utf8, F64, Bool, Utf8View, U8] {
        for rep in 0..(3 * scale) {
            let nvals = 1 + r.below(6);
            let dvals = gen_col(&vt, nvals, r.below(3), r);
            let n = if rep % 3 == 0 { r.below(6) } else { 6 + r.below(24) };
            let keys: Vec<i64> = (0..n).map(|_| if r.chance(1, 5) { -1 } else { r.below(nvals) as i64 }).collect();
            let lay = glay(r);
            for (nf, desc) in [(false, false), (false, true), (true, false), (true, true)] {
                for lim in limits_for(n, n <= 8 || thorough, r) {
                    emit(Case::new("c10.sort_dictionary", vec![gty(&vt), lay.clone(), gs(&keys), gcol(&dvals), gopts(nf, desc, r), gopt(lim)],
                        &["c10.sort_dictionary"], format!("sortdict {} {} nf{} d{}", tyname(&vt), nclass(n), nf as u8, desc as u8)));
                }
            }
        }
    }

    // ---- lexsort_to_indices over 1..=4 columns (5 in thorough), heap path (limit <= n/10) and sort path
    let lex_types: Vec<Ty> = { let mut v = cmp_types(); v.retain(|t| !matches!(t, Ree(_))); v };
    for rep in 0..(40 * scale) {
        // 2..=5 columns use the fixed-size comparator, 1 (unsortable type) and >= 6 the dynamic one
        let kcols = 1 + r.below(6);
        let n = if rep % 4 == 0 { r.below(9) } else { *r.pick(&[10usize, 11, 20, 30, 40, 48]) };
        let mut cols: Vec<(Ty, Vec<OV>)> = Vec::new();
        for c in 0..kcols {
            // leading columns with few distinct values so that later columns decide
            let t = if c + 1 < kcols && r.chance(2, 3) { r.pick(&[Bool, I8, U8, Fsb(0), Utf8]).clone() } else { r.pick(&lex_types).clone() };
            let mut vals = gen_col(&t, n, r.below(4), r);
            if c + 1 < kcols && !vals.is_empty() { let d = 1 + r.below(3); for i in 0..n { let j = r.below(d.min(n)); vals[i] = vals[j].clone() } }
            cols.push((t, vals));
        }
        let lims = limits_for(n, n <= 8 || (thorough && rep % 5 == 0), r);
        let lays: Vec<Group> = (0..kcols).map(|_| glay(r)).collect();
        let opts: Vec<Group> = (0..kcols).map(|_| gopts(r.bool(), r.bool(), r)).collect();
        for lim in lims {
            let mut base: Args = vec![g(kcols)];
            for c in 0..kcols { base.push(gty(&cols[c].0)); base.push(lays[c].clone()); base.push(gcol(&cols[c].1)); base.push(opts[c].clone()) }
            base.push(gopt(lim));
            let out = guarded(|| real_lexsort(&base)).and_then(|x| x.ok()).unwrap_or_default();
            base.push(out.iter().map(|x| BigInt::from(*x)).collect());
            let path = match lim { Some(l) if l <= n / 10 => "heap", _ => "sort" };
            if path == "heap" && kcols >= 2 && lim != Some(0) {
                let mut b2 = base.clone(); b2.pop();
                emit(Case::new("c10.lexsort_topk", b2, &["c10.lexsort_topk"], format!("topk k{kcols} {}", nclass(n))));
            }
            emit(Case::new("c10.lexsort_check", base, &["c10.lexsort_check.spec"], format!("lex k{kcols} {} {path}", nclass(n))));
        }
    }
    // heap path with more rows
    for _ in 0..(6 * scale) {
        let n = *r.pick(&[100usize, 257, 500]);
        let kcols = 2 + r.below(3);
        let cols: Vec<(Ty, Vec<OV>)> = (0..kcols).map(|_| { let t = r.pick(&[I8, Bool, F32, Utf8, U8]).clone(); let v = gen_col(&t, n, r.below(3), r); (t, v) }).collect();
        for lim in [1usize, 2, 7, n / 10, n / 10 + 1] {
            let mut base: Args = vec![g(kcols)];
            for c in 0..kcols { base.push(gty(&cols[c].0)); base.push(glay(r)); base.push(gcol(&cols[c].1)); base.push(gopts(r.bool(), r.bool(), r)) }
            base.push(gopt(Some(lim)));
            let out = guarded(|| real_lexsort(&base)).and_then(|x| x.ok()).unwrap_or_default();
            base.push(out.iter().map(|x| BigInt::from(*x)).collect());
            if lim <= n / 10 {
                let mut b2 = base.clone(); b2.pop();
                emit(Case::new("c10.lexsort_topk", b2, &["c10.lexsort_topk"], format!("topk k{kcols} big")));
            }
            emit(Case::new("c10.lexsort_check", base, &["c10.lexsort_check.spec"], format!("lex k{kcols} big {}", if lim <= n / 10 { "heap" } else { "sort" })));
        }
    }

    // ---- partial_sort (public helper): every limit 0..=n
    for _ in 0..(30 * scale) {
        let n = r.below(if thorough { 80 } else { 40 });
        let d = 1 + r.below(n.max(1));
        let vals: Vec<i64> = (0..n).map(|_| r.below(d) as i64 - 3).collect();
        for lim in 0..=n {
            if n > 12 && !thorough && !r.chance(1, 4) { continue }
            let mut a: Args = vec![gs(&vals), g(lim)];
            let out = guarded(|| real_partial_sort(&a)).unwrap_or_default();
            a.push(out.iter().map(|x| BigInt::from(*x)).collect());
            emit(Case::new("c10.partial_sort_check", a, &["c10.partial_sort_check.spec"], format!("psort {} {}", nclass(n), if lim == 0 { "0" } else if lim == n { "eq" } else { "lt" })));
        }
    }

    // ---- rank
    for t in rank_types() {
        for rep in 0..(4 * scale) {
            for nd in 0..5 {
                let n = if rep % 2 == 0 { r.below(10) } else { *r.pick(&[16usize, 31, 48, 64, 65, 130]) };
                let vals = gen_col(&t, n, nd, r);
                for (nf, desc) in [(false, false), (false, true), (true, false), (true, true)] {
                    emit(Case::new("c10.rank", vec![gty(&t), glay(r), gcol(&vals), gopts(nf, desc, r)], &["c10.rank", "c10.rank.spec"],
                        format!("rank {} {} nd{} nf{} d{}", tyname(&t), nclass(n), nd, nf as u8, desc as u8)));
                }
            }
        }
    }

    // ---- partition: 1..=3 columns of runs
    let part_types: Vec<Ty> = cmp_types();
    for rep in 0..(120 * scale) {
        let kcols = 1 + r.below(3);
        let n = match rep % 6 { 0 => r.below(4), 1 => *r.pick(&[63usize, 64, 65, 66, 128, 129]), _ => r.below(40) };
        let mut a: Args = vec![g(kcols)];
        let mut tn = String::new();
        for _ in 0..kcols {
            let t = r.pick(&part_types).clone();
            // runs of equal values (partition expects sorted input, but is defined on any input)
            let pool = gen_col(&t, 1 + r.below(4), r.below(3), r);
            let mut vals: Vec<OV> = Vec::with_capacity(n);
            let mut cur = pool[0].clone();
            for _ in 0..n { if r.chance(1, 4) { cur = pool[r.below(pool.len())].clone() } vals.push(cur.clone()) }
            tn = tyname(&t);
            a.push(gty(&t)); a.push(glay(r)); a.push(gcol(&vals));
        }
        emit(Case::new("c10.partition", a, &["c10.partition", "c10.partition.spec"], format!("part k{kcols} {} {}", nclass(n), tn)));
    }

    // ---- byte-view equality against a short constant (cmp.rs eq_inline_scalar: masked compare of the view's low half):
    //      every needle length 0..=6 (and 12/13), rows that differ from the needle in exactly one position or in length
    for vt in [Utf8View, BinaryView, Utf8, Dict(Box::new(Utf8View))] {
        for len in [0usize, 1, 2, 3, 4, 5, 6, 12, 13] {
            for rep in 0..(2 * scale) {
                let needle: Vec<u8> = (0..len).map(|_| b'a' + r.below(3) as u8).collect();
                let n = 5 + r.below(if rep % 2 == 0 { 12 } else { 70 });
                let rows: Vec<OV> = (0..n).map(|_| {
                    let mut b = needle.clone();
                    match r.below(7) {
                        0 => {}
                        1 | 2 => { if !b.is_empty() { let p = r.below(b.len()); b[p] = if b[p] == b'z' { b'y' } else { b[p] + 1 + r.below(2) as u8 } } }
                        3 => { b.push(b'a' + r.below(2) as u8) }
                        4 => { b.pop(); }
                        5 => { b = gen_bytes(r, true, None) }
                        _ => return None,
                    }
                    Some(V::Bytes(b))
                }).collect();
                let sc = vec![Some(V::Bytes(needle.clone()))];
                for (ls, l, rv) in [(false, &rows, &sc), (true, &sc, &rows)] {
                    emit(Case::new("c10.kernel", vec![gty(&vt), glay(r), gcol(l), glay(r), gcol(rv), vec![BigInt::from(ls as u8), BigInt::from(!ls as u8)], gty(&vt)],
                        &["c10.kernel", "c10.kernel.spec"], format!("kern-needle {} len{} ls{}", tyname(&vt), len, ls as u8)));
                }
            }
        }
    }

    // ---- comparison kernels: array-array, array-scalar, scalar-array, scalar-scalar
    for t in kernel_types() {
        for rep in 0..(6 * scale) {
            for mode in 0..4 {
                let (ls, rs) = (mode & 1 != 0, mode & 2 != 0);
                let n = match rep % 3 { 0 => r.below(9), 1 => *r.pick(&[63usize, 64, 65, 100, 128, 130]), _ => 9 + r.below(40) };
                let ndl = r.below(5); let ndr = r.below(5);
                let l = gen_col(&t, if ls { 1 } else { n }, ndl, r);
                let mut rv = gen_col(&t, if rs { 1 } else { n }, ndr, r);
                // make Equal rows frequent
                if !l.is_empty() { for (i, x) in rv.iter_mut().enumerate() { if r.chance(2, 5) { *x = l[if ls { 0 } else { i % l.len() }].clone() } } }
                let same = !ls && !rs && r.chance(1, 6);
                let (lr, rv) = if same { (g(-1), l.clone()) } else { (glay(r), rv) };
                // the right-hand side in another physical encoding of the same logical type, half of the time
                let tr = if !same && r.bool() { r.pick(&encodings(&t)).clone() } else { t.clone() };
                // KNOWN-FINDING candidate: scalar-vs-scalar comparison with a dictionary or run-end encoded right-hand
                // scalar: cmp.rs `apply` expands the one-row result through the scalar's keys / run ends
                // (panic in take for a dictionary key != 0, out-of-bounds bit read for a sliced run array).
                if ls && rs && (indirect(&tr) || indirect(&t)) { continue }
                // KNOWN-FINDING candidate: an EMPTY run-end encoded array operand (a zero-length slice at a non-zero
                // offset) compared with anything but a plain run-end encoded array: cmp.rs `ree_physical_indices` /
                // `expand_from_runs` compute `run_end - pos` with run_end < offset ("attempt to subtract with overflow").
                let pure_ree = |x: &Ty| matches!(x, Ree(v) if !indirect(v));
                let empty_ree_array = n == 0 && ((!ls && matches!(t, Ree(_))) || (!rs && matches!(tr, Ree(_))));
                if empty_ree_array && !(!ls && !rs && pure_ree(&t) && pure_ree(&tr)) { continue }
                emit(Case::new("c10.kernel", vec![gty(&t), glay(r), gcol(&l), lr, gcol(&rv), vec![BigInt::from(ls as u8), BigInt::from(rs as u8)], gty(&tr)],
                    &["c10.kernel", "c10.kernel.spec"], format!("kern {}/{} {} ls{} rs{} ndl{} ndr{}", tyname(&t), tyname(&tr), nclass(n), ls as u8, rs as u8, ndl.min(1) + (ndl == 4) as usize, ndr.min(1) + (ndr == 4) as usize)));
            }
        }
        // length mismatch is an error
        let l = gen_col(&t, 3, 0, r); let rv = gen_col(&t, 4, 0, r);
        emit(Case::new("c10.kernel", vec![gty(&t), glay(r), gcol(&l), glay(r), gcol(&rv), vec![0.into(), 0.into()]],
            &["c10.kernel", "c10.kernel.spec"], format!("kern {} lenmismatch", tyname(&t))));
    }
}
