//! C15 — Parquet sync, async and push readers agree under any I/O schedule.
//!
//! Implementation ops (all run the REAL readers of /repo on parquet files built in memory):
//!   c15.pushbuf   a history of operations on `parquet::util::push_buffers::PushBuffers` (public API:
//!                 new, push_range(s), ChunkReader::get_bytes/get_read, Read::read, Length::len)
//!   c15.metabuf   PushBuffers::has_range / clear_all_ranges observed through ParquetMetaDataPushDecoder
//!   c15.push      sync reader vs ParquetPushDecoder driven by a scripted supplier
//!   c15.async     sync reader vs ParquetRecordBatchStream over an AsyncFileReader with scripted Pending
//!   c15.plan      the push decoder run again, reporting the planner tables read from the metadata so
//!                 the model machine can be replayed against the observed trace
//!
//! Argument layout of c15.push / c15.async / c15.plan:
//!   0 file recipe  [nrows, rg_rows, page_rows, schema_kind, dict, compression, nullmod, strmod, write_chunk, v2]
//!   1 options      [batch_size, page_index, policy(0 auto,1 selectors,2 mask), cache(0 default,1 zero,2 tiny)]
//!   2 projection   leaf indices, or [-1] = all
//!   3 row groups   indices, or [-1] = all
//!   4 selection    alternating run lengths skip,select,skip,.. over the selected row groups, or [-1] = none
//!   5 predicates   triples kind,p1,p2
//!   6 offset?      7 limit?
//!   8 mode         push: [api(0 try_decode,1 try_next_reader), metadata(0 loaded,1 metadata push decoder), prebuffer(0,1 whole file,2 footer half)]
//!                  async: [api(0 stream,1 next_row_group), metadata(0 up front,1 fetched), vectored, seed, density]
//!   9 schedule     push: one supplier decision per NeedsData (cyclic);    10 rebuild flags per row-group boundary
//!   11 early       push (optional): one decision per Data/reader result (cyclic): ranges pushed although nothing was
//!                  asked for — between two batches of the same row group, between row groups —
//!                  0 none, 1 column chunks of another (future) row group, 2 duplicate of the last supply,
//!                  3 arbitrary ranges, 4 whole file, 5 clear_all_ranges, 6 the chunks of the NEXT row group one by one
use crate::util::*;
use arrow_array::builder::{Int32Builder, ListBuilder, StringBuilder};
use arrow_array::{Array, ArrayRef, BooleanArray, Int32Array, Int64Array, RecordBatch, StringArray, StructArray};
use arrow_cast::display::{ArrayFormatter, FormatOptions};
use arrow_schema::{DataType, Field, Fields, Schema};
use bytes::Bytes;
use futures::future::BoxFuture;
use futures::{FutureExt, Stream};
use num_bigint::BigInt;
use parquet::arrow::arrow_reader::{
    ArrowPredicate, ArrowPredicateFn, ArrowReaderBuilder, ArrowReaderMetadata, ArrowReaderOptions,
    ParquetRecordBatchReaderBuilder, RowFilter, RowSelection, RowSelectionPolicy, RowSelector,
};
use parquet::arrow::async_reader::{AsyncFileReader, ParquetRecordBatchStreamBuilder};
use parquet::arrow::push_decoder::{ParquetPushDecoder, ParquetPushDecoderBuilder};
use parquet::arrow::{ArrowWriter, ProjectionMask};
use parquet::basic::Compression;
use parquet::errors::{ParquetError, Result as PResult};
use parquet::file::metadata::{PageIndexPolicy, ParquetMetaData, ParquetMetaDataPushDecoder, ParquetMetaDataReader};
use parquet::file::properties::{WriterProperties, WriterVersion};
use parquet::file::reader::{ChunkReader, Length};
use parquet::util::push_buffers::PushBuffers;
use parquet::DecodeResult;
use std::cell::RefCell;
use std::collections::HashMap;
use std::future::Future;
use std::io::Read;
use std::ops::Range;
use std::pin::Pin;
use std::sync::{Arc, Mutex};
use std::task::{Context, Poll};

// ------------------------------------------------------------------------------------------------
// PushBuffers histories

fn run_pushbuf(a: &Args) -> Args {
    let mut pb = PushBuffers::new(to_u64(&a[0]));
    let mut out = Vec::new();
    for g in &a[2..] {
        let v = to_i64s(g);
        out.push(match v[0] {
            0 => {
                let data: Vec<u8> = v[3..].iter().map(|x| *x as u8).collect();
                vec![BigInt::from(pb.push_range(v[1] as u64..v[2] as u64, Bytes::from(data)).is_ok() as u8)]
            }
            1 => {
                let (k, m) = (v[1] as usize, v[2] as usize);
                let rs: Vec<Range<u64>> = (0..k).map(|i| v[3 + 2 * i] as u64..v[4 + 2 * i] as u64).collect();
                let lens = &v[3 + 2 * k..3 + 2 * k + m];
                let mut p = 3 + 2 * k + m;
                let mut bs = Vec::new();
                for &n in lens {
                    bs.push(Bytes::from(v[p..p + n as usize].iter().map(|x| *x as u8).collect::<Vec<u8>>()));
                    p += n as usize;
                }
                vec![BigInt::from(pb.push_ranges(rs, bs).is_ok() as u8)]
            }
            2 => match pb.get_bytes(v[1] as u64, v[2] as usize) {
                Ok(b) => std::iter::once(BigInt::from(1)).chain(b.iter().map(|x| BigInt::from(*x))).collect(),
                Err(ParquetError::NeedMoreDataRange(r)) => vec![0.into(), r.start.into(), r.end.into()],
                Err(_) => vec![BigInt::from(-1)],
            },
            3 => {
                let mut rd = pb.get_read(v[1] as u64).expect("get_read");
                let mut o = Vec::new();
                for &n in &v[2..] {
                    let mut buf = vec![0u8; n as usize];
                    match rd.read(&mut buf) {
                        Ok(k) if k == n as usize => { o.push(1.into()); o.push(n.into()); o.extend(buf.iter().map(|x| BigInt::from(*x))); }
                        Ok(_) => o.push(BigInt::from(-2)),
                        Err(_) => o.push(0.into()),
                    }
                }
                o
            }
            4 => {
                let mut buf = vec![0u8; v[1] as usize];
                match pb.read(&mut buf) {
                    Ok(k) if k == buf.len() => std::iter::once(BigInt::from(1)).chain(buf.iter().map(|x| BigInt::from(*x))).collect(),
                    Ok(_) => vec![BigInt::from(-2)],
                    Err(_) => vec![0.into()],
                }
            }
            5 => vec![BigInt::from(pb.len())],
            _ => vec![],
        });
    }
    out
}

fn to_u64(g: &Group) -> u64 { u64::try_from(&g[0]).expect("u64") }

/// The virtual file of c15.metabuf: zeros, then the 8-byte footer (metadata length LE, "PAR1").
fn vfile(l: u64, m: u64) -> Vec<u8> {
    let mut f = vec![0u8; l as usize];
    let n = f.len();
    f[n - 8..n - 4].copy_from_slice(&(m as u32).to_le_bytes());
    f[n - 4..].copy_from_slice(b"PAR1");
    f
}

fn run_metabuf(a: &Args) -> Args {
    let (l, m) = (to_u64(&a[0]), to_u64(&a[1]));
    let file = vfile(l, m);
    let mut d = ParquetMetaDataPushDecoder::try_new(l).expect("metadata decoder");
    let mut out = Vec::new();
    for g in &a[2..] {
        let v = to_i64s(g);
        match v[0] {
            0 => {
                let (st, en, len) = (v[1] as usize, v[2] as usize, v[3] as usize);
                // bytes of the virtual file starting at st (zero padded / truncated to the requested length)
                let mut data: Vec<u8> = file.get(st.min(file.len())..).unwrap_or(&[]).iter().copied().take(len).collect();
                data.resize(len, 0);
                out.push(vec![BigInt::from(d.push_range(st as u64..en as u64, Bytes::from(data)).is_ok() as u8)]);
            }
            1 => { d.clear_all_ranges(); out.push(vec![]); }
            2 => match d.try_decode() {
                Ok(DecodeResult::NeedsData(rs)) if rs.len() == 1 => out.push(vec![1.into(), rs[0].start.into(), rs[0].end.into()]),
                _ => { out.push(vec![2.into()]); return out; }
            },
            _ => out.push(vec![]),
        }
    }
    out
}

// ------------------------------------------------------------------------------------------------
// Files

#[derive(Clone)]
struct FileInfo {
    data: Bytes,
    nrows: usize,
}

thread_local! {
    static FILES: RefCell<HashMap<Vec<i64>, Arc<FileInfo>>> = RefCell::new(HashMap::new());
    static SYNC: RefCell<HashMap<String, Arc<Option<Vec<i64>>>>> = RefCell::new(HashMap::new());
}

fn a_of(id: i64, nullmod: i64) -> Option<i32> { if nullmod > 0 && id % nullmod == 1 { None } else { Some(((id * 7 + 3) % 1000) as i32) } }

fn schema_of(kind: i64) -> Arc<Schema> {
    let id = Field::new("id", DataType::Int64, false);
    let a = Field::new("a", DataType::Int32, true);
    let s = Field::new("s", DataType::Utf8, true);
    let l = Field::new("l", DataType::List(Arc::new(Field::new("item", DataType::Int32, true))), true);
    let st = Field::new("st", DataType::Struct(Fields::from(vec![
        Field::new("x", DataType::Int64, false), Field::new("y", DataType::Utf8, true)])), false);
    Arc::new(Schema::new(match kind {
        0 => vec![id, a, s],
        1 => vec![id, a, s, l, st],
        2 => vec![id],
        _ => vec![l, id, a],
    }))
}

fn column(name: &str, ids: &[i64], nullmod: i64, strmod: i64) -> ArrayRef {
    match name {
        "id" => Arc::new(Int64Array::from(ids.to_vec())),
        "a" => Arc::new(Int32Array::from(ids.iter().map(|&i| a_of(i, nullmod)).collect::<Vec<_>>())),
        "s" => Arc::new(StringArray::from(ids.iter().map(|&i| {
            if nullmod > 0 && i % nullmod == 2 { None } else { Some(format!("v{}{}", i, "x".repeat((i % strmod.max(1)) as usize))) }
        }).collect::<Vec<_>>())),
        "l" => {
            let mut b = ListBuilder::new(Int32Builder::new());
            for &i in ids {
                if nullmod > 0 && i % nullmod == 3 { b.append(false); continue; }
                for j in 0..(i % 4) {
                    if (i + j) % 5 == 0 { b.values().append_null() } else { b.values().append_value((i + j) as i32) }
                }
                b.append(true);
            }
            Arc::new(b.finish())
        }
        _ => {
            let x: ArrayRef = Arc::new(Int64Array::from(ids.iter().map(|i| i * 2).collect::<Vec<_>>()));
            let mut yb = StringBuilder::new();
            for &i in ids { if i % 3 == 0 { yb.append_null() } else { yb.append_value(format!("y{}", i % 13)) } }
            let y: ArrayRef = Arc::new(yb.finish());
            Arc::new(StructArray::new(Fields::from(vec![
                Field::new("x", DataType::Int64, false), Field::new("y", DataType::Utf8, true)]), vec![x, y], None))
        }
    }
}

fn build_file(rc: &[i64]) -> Arc<FileInfo> {
    if let Some(f) = FILES.with(|c| c.borrow().get(rc).cloned()) { return f; }
    let (nrows, rg_rows, page_rows, kind, dict, comp, nullmod, strmod, chunk, v2) =
        (rc[0] as usize, rc[1] as usize, rc[2] as usize, rc[3], rc[4], rc[5], rc[6], rc[7], rc[8] as usize, rc[9]);
    let schema = schema_of(kind);
    let props = WriterProperties::builder()
        .set_max_row_group_row_count(Some(rg_rows.max(1)))
        .set_data_page_row_count_limit(page_rows.max(1))
        .set_write_batch_size(page_rows.max(1).min(64))
        .set_data_page_size_limit(if page_rows < 30 { 256 } else { 4096 })
        .set_dictionary_enabled(dict != 0)
        .set_compression(if comp != 0 { Compression::SNAPPY } else { Compression::UNCOMPRESSED })
        .set_writer_version(if v2 != 0 { WriterVersion::PARQUET_2_0 } else { WriterVersion::PARQUET_1_0 })
        .build();
    let mut buf = Vec::new();
    let mut w = ArrowWriter::try_new(&mut buf, schema.clone(), Some(props)).expect("writer");
    let mut start = 0usize;
    while start < nrows {
        let n = chunk.max(1).min(nrows - start);
        let ids: Vec<i64> = (start as i64..(start + n) as i64).collect();
        let cols: Vec<ArrayRef> = schema.fields().iter().map(|f| column(f.name(), &ids, nullmod, strmod)).collect();
        w.write(&RecordBatch::try_new(schema.clone(), cols).expect("batch")).expect("write");
        start += n;
    }
    w.close().expect("close");
    let f = Arc::new(FileInfo { data: Bytes::from(buf), nrows });
    FILES.with(|c| { let mut c = c.borrow_mut(); if c.len() > 48 { c.clear(); } c.insert(rc.to_vec(), f.clone()); });
    f
}

// ------------------------------------------------------------------------------------------------
// Options

struct Opts {
    batch_size: usize,
    page_index: bool,
    policy: i64,
    cache: i64,
    projection: Option<Vec<usize>>,
    row_groups: Option<Vec<usize>>,
    selection: Option<Vec<usize>>,
    preds: Vec<(i64, i64, i64)>,
    offset: Option<usize>,
    limit: Option<usize>,
}

fn parse_opts(a: &Args) -> Opts {
    let o = to_i64s(&a[1]);
    let lst = |g: &Group| -> Option<Vec<usize>> {
        let v = to_i64s(g);
        if v.first() == Some(&-1) { None } else { Some(v.iter().map(|x| *x as usize).collect()) }
    };
    let p = to_i64s(&a[5]);
    Opts {
        batch_size: o[0] as usize, page_index: o[1] != 0, policy: o[2], cache: o[3],
        projection: lst(&a[2]), row_groups: lst(&a[3]), selection: lst(&a[4]),
        preds: p.chunks(3).map(|c| (c[0], c[1], c[2])).collect(),
        offset: a[6].first().map(|x| usize::try_from(x).unwrap()),
        limit: a[7].first().map(|x| usize::try_from(x).unwrap()),
    }
}

fn pi_policy(o: &Opts) -> PageIndexPolicy { if o.page_index { PageIndexPolicy::Optional } else { PageIndexPolicy::Skip } }
fn reader_options(o: &Opts) -> ArrowReaderOptions {
    ArrowReaderOptions::new().with_page_index_policy(pi_policy(o))
}

/// Does row `id` satisfy predicate (kind,p1,p2)?  (independent oracle used for the c15.plan tables)
fn pred_holds(k: (i64, i64, i64), id: i64, nullmod: i64) -> bool {
    let a = a_of(id, nullmod);
    match k.0 {
        0 => id % k.1.max(1) == k.2,
        1 => id < k.1,
        2 => id >= k.1,
        3 => a.map(|v| (v as i64) % k.1.max(1) == k.2).unwrap_or(false),
        4 => id % k.1.max(1) == 0 || a.is_none(),
        5 => true,
        _ => false,
    }
}
/// leaves read by predicate kind k in the schema with these leaf names
fn pred_leaves(k: i64, names: &[String]) -> Vec<usize> {
    let pos = |n: &str| names.iter().position(|x| x == n);
    match k {
        3 => pos("a").into_iter().collect(),
        4 => pos("id").into_iter().chain(pos("a")).collect(),
        _ => pos("id").into_iter().collect(),
    }
}

fn make_pred(k: (i64, i64, i64), md: &ParquetMetaData, names: &[String]) -> Box<dyn ArrowPredicate> {
    let leaves = pred_leaves(k.0, names);
    let mask = ProjectionMask::leaves(md.file_metadata().schema_descr(), leaves.clone());
    let two = leaves.len() == 2;
    Box::new(ArrowPredicateFn::new(mask, move |b: RecordBatch| {
        let n = b.num_rows();
        let res: Vec<Option<bool>> = match k.0 {
            3 => {
                let a = b.column(0).as_any().downcast_ref::<Int32Array>().expect("a");
                // NULL predicate results for null inputs (the reader must treat them as not selected)
                (0..n).map(|i| if a.is_null(i) { None } else { Some((a.value(i) as i64) % k.1.max(1) == k.2) }).collect()
            }
            4 if two => {
                let id = b.column(0).as_any().downcast_ref::<Int64Array>().expect("id");
                let a = b.column(1).as_any().downcast_ref::<Int32Array>().expect("a");
                (0..n).map(|i| Some(id.value(i) % k.1.max(1) == 0 || a.is_null(i))).collect()
            }
            _ => {
                let id = b.column(0).as_any().downcast_ref::<Int64Array>().expect("id");
                (0..n).map(|i| Some(match k.0 { 0 => id.value(i) % k.1.max(1) == k.2, 1 => id.value(i) < k.1,
                                                  2 => id.value(i) >= k.1, 5 => true, _ => false })).collect()
            }
        };
        Ok(BooleanArray::from(res))
    }))
}

fn leaf_names(md: &ParquetMetaData) -> Vec<String> {
    md.file_metadata().schema_descr().columns().iter().map(|c| c.path().string()).collect()
}

fn apply_opts<T>(mut b: ArrowReaderBuilder<T>, o: &Opts) -> ArrowReaderBuilder<T> {
    let md = b.metadata().clone();
    let names = leaf_names(&md);
    b = b.with_batch_size(o.batch_size);
    b = b.with_row_selection_policy(match o.policy { 1 => RowSelectionPolicy::Selectors, 2 => RowSelectionPolicy::Mask, _ => RowSelectionPolicy::default() });
    match o.cache { 1 => b = b.with_max_predicate_cache_size(0), 2 => b = b.with_max_predicate_cache_size(64), _ => {} }
    if let Some(p) = &o.projection { b = b.with_projection(ProjectionMask::leaves(md.file_metadata().schema_descr(), p.iter().copied())); }
    if let Some(r) = &o.row_groups { b = b.with_row_groups(r.clone()); }
    if let Some(s) = &o.selection {
        let sel: Vec<RowSelector> = s.iter().enumerate().filter(|(_, n)| **n > 0)
            .map(|(i, n)| if i % 2 == 0 { RowSelector::skip(*n) } else { RowSelector::select(*n) }).collect();
        b = b.with_row_selection(RowSelection::from(sel));
    }
    if !o.preds.is_empty() {
        b = b.with_row_filter(RowFilter::new(o.preds.iter().map(|k| make_pred(*k, &md, &names)).collect()));
    }
    if let Some(x) = o.offset { b = b.with_offset(x); }
    if let Some(x) = o.limit { b = b.with_limit(x); }
    b
}

/// One digest per row over all projected columns (values rendered by arrow-cast's formatter).
fn digests(b: &RecordBatch, out: &mut Vec<i64>) {
    let fo = FormatOptions::default().with_null("<null>");
    let fs: Vec<ArrayFormatter> = b.columns().iter().map(|c| ArrayFormatter::try_new(c.as_ref(), &fo).expect("fmt")).collect();
    let mut s = String::new();
    for i in 0..b.num_rows() {
        let mut h: u64 = 0xcbf29ce484222325;
        for (ci, f) in fs.iter().enumerate() {
            s.clear();
            use std::fmt::Write;
            write!(s, "{}|{}|", ci, f.value(i)).unwrap();
            for by in s.bytes() { h ^= by as u64; h = h.wrapping_mul(0x100000001b3); }
        }
        out.push((h >> 2) as i64);
    }
}

fn sync_rows(f: &FileInfo, a: &Args, o: &Opts) -> Arc<Option<Vec<i64>>> {
    let key = fmt_args(&a[..8].to_vec());
    if let Some(r) = SYNC.with(|c| c.borrow().get(&key).cloned()) { return r; }
    let res = (|| -> PResult<Vec<i64>> {
        let b = ParquetRecordBatchReaderBuilder::try_new_with_options(f.data.clone(), reader_options(o))?;
        let rd = apply_opts(b, o).build()?;
        let mut out = Vec::new();
        for batch in rd { digests(&batch.map_err(|e| ParquetError::General(e.to_string()))?, &mut out); }
        Ok(out)
    })();
    let r = Arc::new(res.ok());
    SYNC.with(|c| { let mut c = c.borrow_mut(); if c.len() > 256 { c.clear(); } c.insert(key, r.clone()); });
    r
}

// ------------------------------------------------------------------------------------------------
// Push decoder under a scripted supplier

struct Trace(Vec<i64>);
impl Trace {
    fn ranges(&mut self, code: i64, bb: i64, rs: &[Range<u64>]) {
        self.0.push(code); self.0.push(bb); self.0.push(rs.len() as i64);
        for r in rs { self.0.push(r.start as i64); self.0.push(r.end as i64); }
    }
    fn need(&mut self, bb: i64, rs: &[Range<u64>]) { self.ranges(1, bb, rs) }
    fn push(&mut self, bb: i64, rs: &[Range<u64>]) { self.ranges(2, bb, rs) }
    fn data(&mut self, bb: i64, n: usize) { self.0.extend([3, bb, n as i64]) }
    fn finished(&mut self) { self.0.push(4) }
    fn clear(&mut self, bb: i64) { self.0.extend([5, bb]) }
    fn rebuild(&mut self, bb: i64) { self.0.extend([6, bb]) }
    fn reader(&mut self, bb: i64, n: usize) { self.0.extend([7, bb, n as i64]) }
    fn stall(&mut self) { self.0.push(9) }
}

/// What the supplier hands over for one NeedsData: a list of push calls, each a list of ranges.
/// `clear` asks for clear_all_ranges before supplying.
struct Supply { clear: bool, calls: Vec<Vec<Range<u64>>> }

fn supply(dec: i64, idx: usize, need: &[Range<u64>], flen: u64, md: Option<&ParquetMetaData>) -> Supply {
    let code = dec % 100;
    let par = (dec / 100) as u64;
    let mut r = Rng::new(0xC15 ^ ((idx as u64) << 20) ^ par);
    let exact = need.to_vec();
    let clip = |st: u64, en: u64| st.min(flen)..en.min(flen);
    let mut calls = Vec::new();
    let mut clear = false;
    match code {
        1 => { let mut v = exact.clone(); for i in (1..v.len()).rev() { let j = r.below(i + 1); v.swap(i, j); } calls.push(v); }
        2 => { calls.push(vec![exact[(par as usize) % exact.len()].clone()]); }
        3 => calls.push(exact.iter().map(|x| clip(x.start / 4096 * 4096, (x.end + 4095) / 4096 * 4096)).collect()),
        4 => {
            // whole column chunk containing the range, else the whole row group span, else the range itself
            calls.push(exact.iter().map(|x| {
                if let Some(md) = md {
                    for rg in md.row_groups() { for c in rg.columns() {
                        let (s, l) = c.byte_range();
                        if s <= x.start && x.end <= s + l { return s..s + l; }
                    } }
                }
                x.clone()
            }).collect());
        }
        5 => calls.push(vec![0..flen]),
        6 => { let mut v = exact.clone(); v.extend(exact.iter().cloned()); calls.push(v.clone()); if par % 2 == 1 { calls.push(exact.clone()); } }
        7 => {
            // additional ranges first: the column chunks of the next row group(s), or arbitrary ranges
            let mut extra = Vec::new();
            if let Some(md) = md {
                let maxend = exact.iter().map(|x| x.end).max().unwrap_or(0);
                for rg in md.row_groups() { for c in rg.columns() {
                    let (s, l) = c.byte_range();
                    if s >= maxend && extra.len() < 1 + (par as usize % 5) { extra.push(s..s + l); }
                } }
            }
            for _ in 0..(1 + par % 3) { let s = r.below(flen as usize + 1) as u64; let e = s + r.below(200) as u64; extra.push(clip(s, e)); }
            calls.push(extra);
            calls.push(exact.clone());
        }
        8 => { for x in exact.iter().rev() { calls.push(vec![x.clone()]); } }
        9 => { clear = true; calls.push(exact.clone()); }
        10 => calls.push(exact.iter().map(|x| clip(x.start.saturating_sub(1 + par % 7), x.end + 1 + (par / 7) % 9)).collect()),
        12 => { let k = (exact.len() + 1) / 2; calls.push(exact[..k].to_vec()); }
        13 => {
            // overlapping neighbours that do NOT contain the request, then the exact ranges
            let mut v = Vec::new();
            for x in &exact { let mid = (x.start + x.end) / 2; v.push(clip(x.start.saturating_sub(3), mid)); v.push(clip(mid, x.end + 3)); }
            calls.push(v); calls.push(exact.clone());
        }
        _ => calls.push(exact.clone()),
    }
    Supply { clear, calls }
}

struct PushRun { rows: Vec<i64>, trace: Vec<i64>, md: Arc<ParquetMetaData> }

const CALL_CAP: usize = 20000;
const MAX_CLEARS: usize = 2;

fn run_push_decoder(f: &FileInfo, a: &Args, o: &Opts) -> PResult<PushRun> {
    let mode = to_i64s(&a[8]);
    let (api, meta_mode, prebuffer) = (mode[0], mode[1], mode[2]);
    let decs = to_i64s(&a[9]);
    let rebuilds = to_i64s(&a[10]);
    let flen = f.data.len() as u64;
    let slice = |r: &Range<u64>| f.data.slice(r.start as usize..r.end as usize);
    let mut t = Trace(Vec::new());
    let mut nneed = 0usize;
    // clear_all_ranges throws away what was supplied before: together with partial supplies it could
    // livelock the SUPPLIER (not the decoder), so a run clears at most MAX_CLEARS times
    let mut nclear = 0usize;
    let dec_at = |i: usize| if decs.is_empty() { 0 } else { decs[i % decs.len()] };

    // metadata: loaded directly, or decoded by the metadata push decoder under the same supplier
    let md: Arc<ParquetMetaData> = if meta_mode == 1 {
        let mut d = ParquetMetaDataPushDecoder::try_new(flen)?.with_page_index_policy(pi_policy(o));
        let mut calls = 0;
        let m = loop {
            calls += 1;
            if calls > CALL_CAP { t.stall(); return Ok(PushRun { rows: vec![], trace: t.0, md: Arc::new(ParquetMetaDataReader::new().parse_and_finish(&f.data)?) }); }
            match d.try_decode()? {
                DecodeResult::NeedsData(rs) => {
                    t.need(-1, &rs);
                    let s = supply(dec_at(nneed), nneed, &rs, flen, None);
                    nneed += 1;
                    if s.clear && nclear < MAX_CLEARS { nclear += 1; d.clear_all_ranges(); t.clear(-1); }
                    for c in s.calls { if c.is_empty() { continue; } d.push_ranges(c.clone(), c.iter().map(slice).collect())?; t.push(-1, &c); }
                }
                DecodeResult::Data(m) => break m,
                DecodeResult::Finished => return Err(ParquetError::General("metadata decoder finished without data".into())),
            }
        };
        t.clear(-1); // the metadata decoder and its buffers are dropped
        Arc::new(m)
    } else {
        ArrowReaderMetadata::load(&f.data, reader_options(o))?.metadata().clone()
    };

    let mut builder = ParquetPushDecoderBuilder::try_new_decoder_with_options(md.clone(), reader_options(o))?;
    builder = apply_opts(builder, o);
    if prebuffer != 0 {
        let mut pb = PushBuffers::new(flen);
        let r = if prebuffer == 1 { 0..flen } else { flen / 2..flen };
        pb.push_range(r.clone(), slice(&r))?;
        builder = builder.with_buffers(pb);
    }
    let mut d = builder.build()?;
    if prebuffer != 0 { let r = if prebuffer == 1 { 0..flen } else { flen / 2..flen }; t.push(d.buffered_bytes() as i64, &[r]); }
    let mut boundary = 0usize;
    let mut maybe_rebuild = |d: ParquetPushDecoder, t: &mut Trace| -> PResult<ParquetPushDecoder> {
        if d.is_at_row_group_boundary() {
            let flag = if rebuilds.is_empty() { 0 } else { rebuilds[boundary % rebuilds.len()] };
            boundary += 1;
            if flag != 0 {
                let d2 = d.into_builder()?.build()?;
                t.rebuild(d2.buffered_bytes() as i64);
                return Ok(d2);
            }
        }
        Ok(d)
    };
    d = maybe_rebuild(d, &mut t)?;
    let mut rows = Vec::new();
    let mut calls = 0usize;
    // ranges supplied EARLY: after a batch / reader was handed out, although the decoder asked for nothing
    let early = a.get(11).map(to_i64s).unwrap_or_default();
    let mut nearly = 0usize;
    let mut last_supply: Vec<Range<u64>> = Vec::new();
    let rg_chunks = |g: usize| -> Vec<Range<u64>> {
        if md.num_row_groups() == 0 { return vec![]; }
        md.row_group(g % md.num_row_groups()).columns().iter().map(|c| { let (s, l) = c.byte_range(); s..s + l }).collect()
    };
    loop {
        calls += 1;
        if calls > CALL_CAP { t.stall(); break; }
        let mut early_now = false;
        let need = if api == 0 {
            match d.try_decode()? {
                DecodeResult::NeedsData(rs) => Some(rs),
                DecodeResult::Data(b) => { t.data(d.buffered_bytes() as i64, b.num_rows()); digests(&b, &mut rows); early_now = true; None }
                DecodeResult::Finished => { t.finished(); break; }
            }
        } else {
            match d.try_next_reader()? {
                DecodeResult::NeedsData(rs) => Some(rs),
                DecodeResult::Data(rd) => {
                    let bb = d.buffered_bytes() as i64;
                    let mut n = 0;
                    for b in rd { let b = b.map_err(|e| ParquetError::General(e.to_string()))?; n += b.num_rows(); digests(&b, &mut rows); }
                    t.reader(bb, n);
                    d = maybe_rebuild(d, &mut t)?;
                    early_now = true;
                    None
                }
                DecodeResult::Finished => { t.finished(); break; }
            }
        };
        if early_now && !early.is_empty() {
            let e = early[nearly % early.len()];
            nearly += 1;
            let (code, par) = (e % 100, (e / 100) as usize);
            let mut r = Rng::new(0xEA71 ^ ((nearly as u64) << 16) ^ par as u64);
            let calls_: Vec<Vec<Range<u64>>> = match code {
                1 => vec![rg_chunks(par)],
                2 => vec![last_supply.clone()],
                3 => vec![(0..1 + par % 3).map(|_| { let s = r.below(flen as usize + 1) as u64; s..(s + r.below(300) as u64).min(flen) }).collect()],
                4 => vec![vec![0..flen]],
                5 => { if nclear < MAX_CLEARS { nclear += 1; d.clear_all_ranges(); t.clear(d.buffered_bytes() as i64); } vec![] }
                6 => rg_chunks(par).into_iter().map(|x| vec![x]).collect(),
                _ => vec![],
            };
            for c in calls_ {
                if c.is_empty() { continue; }
                if c.len() == 1 && par % 2 == 0 { d.push_range(c[0].clone(), slice(&c[0]))?; } else { d.push_ranges(c.clone(), c.iter().map(slice).collect())?; }
                t.push(d.buffered_bytes() as i64, &c);
            }
        }
        if let Some(rs) = need {
            t.need(d.buffered_bytes() as i64, &rs);
            if rs.is_empty() { t.stall(); break; }
            let s = supply(dec_at(nneed), nneed, &rs, flen, Some(&md));
            nneed += 1;
            if s.clear && nclear < MAX_CLEARS { nclear += 1; d.clear_all_ranges(); t.clear(d.buffered_bytes() as i64); }
            for c in s.calls {
                if c.is_empty() { continue; }
                if c.len() == 1 && nneed % 2 == 0 { d.push_range(c[0].clone(), slice(&c[0]))?; } else { d.push_ranges(c.clone(), c.iter().map(slice).collect())?; }
                t.push(d.buffered_bytes() as i64, &c);
                last_supply = c;
            }
        }
    }
    Ok(PushRun { rows, trace: t.0, md })
}

fn kind_of(e: &ParquetError) -> i64 {
    match e { ParquetError::EOF(_) => E_EOF, ParquetError::NYI(_) => E_UNSUPPORTED, ParquetError::IndexOutOfBound(_, _) => E_OOB, _ => E_INVALID }
}

fn run_push(a: &Args, plan: bool) -> Args {
    let f = build_file(&to_i64s(&a[0]));
    let o = parse_opts(a);
    let sync = sync_rows(&f, a, &o);
    let Some(sync) = sync.as_ref() else { return err(E_IO) };  // the sync reader must open every file the writer produced
    let r = match run_push_decoder(&f, a, &o) { Ok(r) => r, Err(e) => return err(kind_of(&e)) };
    if !plan {
        return vec![g(f.data.len()), gs(sync), gs(&r.rows), gs(&r.trace)];
    }
    // planner tables from the metadata (and the ids the harness itself wrote)
    let md = &r.md;
    let names = leaf_names(md);
    let nleaves = names.len();
    let rgs: Vec<usize> = o.row_groups.clone().unwrap_or_else(|| (0..md.num_row_groups()).collect());
    let nullmod = to_i64s(&a[0])[6];
    let mut first = vec![0i64; md.num_row_groups() + 1];
    for i in 0..md.num_row_groups() { first[i + 1] = first[i] + md.row_group(i).num_rows(); }
    let mut rows = Vec::new(); let mut chunks = Vec::new(); let mut mtab = Vec::new();
    for &g_ in &rgs {
        let rg = md.row_group(g_);
        rows.push(rg.num_rows());
        for c in rg.columns() { let (s, l) = c.byte_range(); chunks.push(s as i64); chunks.push((s + l) as i64); }
        for i in 0..o.preds.len() {
            mtab.push((first[g_]..first[g_ + 1]).filter(|id| o.preds[..=i].iter().all(|k| pred_holds(*k, *id, nullmod))).count() as i64);
        }
    }
    let proj: Vec<i64> = (0..nleaves).map(|i| o.projection.as_ref().map(|p| p.contains(&i)).unwrap_or(true) as i64).collect();
    let mut preds = Vec::new();
    for k in &o.preds { let ls = pred_leaves(k.0, &names); for i in 0..nleaves { preds.push(ls.contains(&i) as i64); } }
    vec![gs(&[rgs.len() as i64, nleaves as i64, o.preds.len() as i64]), gs(&rows), gs(&chunks), gs(&proj), gs(&preds), gs(&mtab),
         gopt(o.offset), gopt(o.limit), gs(&r.trace)]
}

// ------------------------------------------------------------------------------------------------
// Async stream over an AsyncFileReader whose futures return Pending per a seeded pattern

struct PendingN(u32);
impl Future for PendingN {
    type Output = ();
    fn poll(mut self: Pin<&mut Self>, cx: &mut Context<'_>) -> Poll<()> {
        if self.0 == 0 { Poll::Ready(()) } else { self.0 -= 1; cx.waker().wake_by_ref(); Poll::Pending }
    }
}

struct Inner {
    data: Bytes,
    log: Arc<Mutex<Trace>>,
    rng: Rng,
    density: u64,
}
impl Inner {
    fn delay(&mut self) -> u32 {
        match self.density { 0 => 0, 1 => (self.rng.below(3) == 0) as u32, 2 => self.rng.below(3) as u32, 3 => self.rng.below(9) as u32, _ => 1 + self.rng.below(40) as u32 }
    }
    fn fetch(&mut self, ranges: Vec<Range<u64>>) -> BoxFuture<'static, PResult<Vec<Bytes>>> {
        let k = self.delay();
        let (data, log) = (self.data.clone(), self.log.clone());
        log.lock().unwrap().need(-1, &ranges);
        async move {
            PendingN(k).await;
            let mut out = Vec::new();
            for r in &ranges {
                if r.start > r.end || r.end as usize > data.len() { return Err(ParquetError::EOF("range outside the file".into())); }
                out.push(data.slice(r.start as usize..r.end as usize));
            }
            log.lock().unwrap().push(-1, &ranges);
            Ok(out)
        }.boxed()
    }
}

/// get_byte_ranges NOT overridden: the default implementation (sequential get_bytes) of the trait runs
struct PerRange(Inner);
/// get_byte_ranges overridden: one vectored fetch
struct Vectored(Inner);

macro_rules! impl_reader {
    ($t:ident, $vectored:tt) => {
        impl AsyncFileReader for $t {
            fn get_bytes(&mut self, range: Range<u64>) -> BoxFuture<'_, PResult<Bytes>> {
                let f = self.0.fetch(vec![range]);
                async move { Ok(f.await?.pop().unwrap()) }.boxed()
            }
            fn get_metadata<'a>(&'a mut self, options: Option<&'a ArrowReaderOptions>) -> BoxFuture<'a, PResult<Arc<ParquetMetaData>>> {
                async move {
                    let flen = self.0.data.len() as u64;
                    let rd = ParquetMetaDataReader::new().with_arrow_reader_options(options);
                    Ok(Arc::new(rd.load_and_finish(self, flen).await?))
                }.boxed()
            }
            impl_reader!(@vec $vectored);
        }
    };
    (@vec true) => {
        fn get_byte_ranges(&mut self, ranges: Vec<Range<u64>>) -> BoxFuture<'_, PResult<Vec<Bytes>>> { self.0.fetch(ranges) }
    };
    (@vec false) => {};
}
impl_reader!(PerRange, false);
impl_reader!(Vectored, true);

const POLL_CAP: usize = 2_000_000;

fn block_on<F: Future>(fut: F, polls: &mut usize) -> Option<F::Output> {
    let waker = futures::task::noop_waker();
    let mut cx = Context::from_waker(&waker);
    let mut fut = Box::pin(fut);
    loop {
        *polls += 1;
        if *polls > POLL_CAP { return None; }
        if let Poll::Ready(v) = fut.as_mut().poll(&mut cx) { return Some(v); }
    }
}

fn drive_async<T: AsyncFileReader + Unpin + Send + 'static>(rd: T, f: &FileInfo, o: &Opts, api: i64, meta_mode: i64, log: Arc<Mutex<Trace>>) -> PResult<Vec<i64>> {
    let mut polls = 0usize;
    let stall = |log: &Arc<Mutex<Trace>>| { log.lock().unwrap().stall(); };
    let builder = if meta_mode == 0 {
        let m = ArrowReaderMetadata::load(&f.data, reader_options(o))?;
        ParquetRecordBatchStreamBuilder::new_with_metadata(rd, m)
    } else {
        match block_on(ParquetRecordBatchStreamBuilder::new_with_options(rd, reader_options(o)), &mut polls) {
            Some(b) => { let b = b?; log.lock().unwrap().clear(-1); b }
            None => { stall(&log); return Ok(vec![]); }
        }
    };
    let mut stream = apply_opts(builder, o).build()?;
    let mut rows = Vec::new();
    if api == 0 {
        let waker = futures::task::noop_waker();
        let mut cx = Context::from_waker(&waker);
        loop {
            polls += 1;
            if polls > POLL_CAP { stall(&log); break; }
            match Pin::new(&mut stream).poll_next(&mut cx) {
                Poll::Pending => {}
                Poll::Ready(Some(Ok(b))) => { log.lock().unwrap().data(-1, b.num_rows()); digests(&b, &mut rows); }
                Poll::Ready(Some(Err(e))) => return Err(e),
                Poll::Ready(None) => { log.lock().unwrap().finished(); break; }
            }
        }
    } else {
        loop {
            match block_on(stream.next_row_group(), &mut polls) {
                None => { stall(&log); break; }
                Some(r) => match r? {
                    Some(reader) => {
                        let mut n = 0;
                        for b in reader { let b = b.map_err(|e| ParquetError::General(e.to_string()))?; n += b.num_rows(); digests(&b, &mut rows); }
                        log.lock().unwrap().reader(-1, n);
                    }
                    None => { log.lock().unwrap().finished(); break; }
                },
            }
        }
    }
    Ok(rows)
}

fn run_async(a: &Args) -> Args {
    let f = build_file(&to_i64s(&a[0]));
    let o = parse_opts(a);
    let sync = sync_rows(&f, a, &o);
    let Some(sync) = sync.as_ref() else { return err(E_IO) };  // the sync reader must open every file the writer produced
    let mode = to_i64s(&a[8]);
    let (api, meta_mode, vectored, seed, density) = (mode[0], mode[1], mode[2], mode[3], mode[4]);
    let log = Arc::new(Mutex::new(Trace(Vec::new())));
    let inner = Inner { data: f.data.clone(), log: log.clone(), rng: Rng::new(seed as u64), density: density as u64 };
    let res = if vectored != 0 { drive_async(Vectored(inner), &f, &o, api, meta_mode, log.clone()) }
              else { drive_async(PerRange(inner), &f, &o, api, meta_mode, log.clone()) };
    match res {
        Ok(rows) => { let t = log.lock().unwrap().0.clone(); vec![g(f.data.len()), gs(sync), gs(&rows), gs(&t)] }
        Err(e) => err(kind_of(&e)),
    }
}

pub fn run(op: &str, a: &Args) -> Option<Args> {
    Some(match op {
        "c15.pushbuf" => run_pushbuf(a),
        "c15.metabuf" => run_metabuf(a),
        "c15.push" => run_push(a, false),
        "c15.plan" => run_push(a, true),
        "c15.async" => run_async(a),
        _ => return None,
    })
}

// ------------------------------------------------------------------------------------------------
// Generators

fn gen_pushbuf(r: &mut Rng, emit: &mut dyn FnMut(Case), n: usize) {
    for it in 0..n {
        let flen = *r.pick(&[0usize, 1, 7, 8, 9, 16, 40, 100, 200]);
        let file = r.bytes(flen);
        let consistent = it % 2 == 0;
        let mut args: Args = vec![g(flen + if r.chance(1, 5) { r.below(50) } else { 0 }), gbytes(&file)];
        let mut pushed: Vec<(usize, usize)> = Vec::new();
        let nops = 3 + r.below(22);
        let mut tag = String::from(if consistent { "file" } else { "any" });
        let pick_range = |r: &mut Rng, pushed: &Vec<(usize, usize)>, lim: usize| -> (usize, usize) {
            if !pushed.is_empty() && r.chance(2, 3) {
                // around a pushed range: inside, exact, one past either end, across two neighbours
                let (s, e) = pushed[r.below(pushed.len())];
                let s2 = (s as i64 + r.range(-1, 2)).clamp(0, lim as i64) as usize;
                let e2 = (e as i64 + r.range(-2, 1)).clamp(0, lim as i64 + 3) as usize;
                (s2, e2.max(s2))
            } else { let s = r.below(lim + 1); let e = s + r.below(lim + 2 - s.min(lim)); (s, e) }
        };
        for _ in 0..nops {
            match r.below(10) {
                0..=3 => {
                    // push_range
                    let (mut st, mut en) = { let s = r.below(flen + 1); (s, s + r.below(flen + 1 - s)) };
                    if r.chance(1, 6) && !pushed.is_empty() { let p = pushed[r.below(pushed.len())]; st = p.0; en = p.1; }   // duplicate
                    let mut data: Vec<u8> = file.get(st..en).map(|x| x.to_vec()).unwrap_or_else(|| vec![0u8; en.saturating_sub(st)]);
                    if r.chance(1, 8) { if r.bool() { data.push(1) } else if !data.is_empty() { data.pop(); } else { data.push(2) } }   // wrong length: rejected
                    else if !consistent {
                        match r.below(6) {
                            0 => { data = r.bytes(data.len()); }                               // arbitrary bytes
                            1 => { let sh = r.below(60); st += sh; en += sh; }                 // beyond the file length
                            2 if en > st => { std::mem::swap(&mut st, &mut en); data.clear(); } // inverted range, empty buffer
                            _ => {}
                        }
                    }
                    if data.len() == en.saturating_sub(st) { pushed.push((st, en)); }
                    let mut gr = vec![BigInt::from(0), st.into(), en.into()]; gr.extend(data.iter().map(|x| BigInt::from(*x)));
                    args.push(gr); tag.push('p');
                }
                4 => {
                    // push_ranges: k ranges, m buffers (sometimes m != k, sometimes a bad length in the middle)
                    let k = r.below(4); let m = if r.chance(1, 5) { r.below(4) } else { k };
                    let mut rs = Vec::new(); let mut lens = Vec::new(); let mut bytes = Vec::new();
                    for _ in 0..k { let s = r.below(flen + 1); let e = s + r.below(flen + 1 - s); rs.push((s, e)); }
                    let mut okprefix = m == k;
                    for i in 0..m {
                        let (s, e) = if i < k { rs[i] } else { (0, 0) };
                        let mut d = file[s..e].to_vec();
                        if r.chance(1, 7) { d.push(9); }
                        if okprefix && i < k && d.len() == e - s { pushed.push((s, e)); } else { okprefix = false; }
                        lens.push(d.len()); bytes.extend(d);
                    }
                    let mut gr = vec![BigInt::from(1), k.into(), m.into()];
                    for (s, e) in &rs { gr.push((*s).into()); gr.push((*e).into()); }
                    gr.extend(lens.iter().map(|x| BigInt::from(*x))); gr.extend(bytes.iter().map(|x| BigInt::from(*x)));
                    args.push(gr); tag.push('P');
                }
                5..=7 => { let (s, e) = pick_range(r, &pushed, flen); args.push(gs(&[2, s as i64, (e - s) as i64])); tag.push('g'); }
                8 => {
                    let (s, e) = pick_range(r, &pushed, flen);
                    let mut gr = vec![3i64, s as i64]; let mut left = e - s;
                    for _ in 0..1 + r.below(4) { let n = if left > 0 { 1 + r.below(left) } else { r.below(3) }; gr.push(n as i64); left = left.saturating_sub(n); }
                    args.push(gs(&gr)); tag.push('r');
                }
                _ => { if r.bool() { args.push(gs(&[4i64, r.below(6) as i64])); tag.push('R'); } else { args.push(gs(&[5i64])); tag.push('l'); } }
            }
        }
        let tag: String = { let mut c: Vec<char> = tag.chars().collect(); c.dedup(); c.into_iter().take(9).collect() };
        if consistent { emit(Case::new("c15.pushbuf", args, &["c15.pushbuf", "c15.pushbuf.spec"], tag)); }
        else { emit(Case::new("c15.pushbuf", args, &["c15.pushbuf"], tag)); }
    }
}

fn gen_metabuf(r: &mut Rng, emit: &mut dyn FnMut(Case), n: usize) {
    for _ in 0..n {
        let l = 8 + *r.pick(&[0usize, 1, 8, 9, 30, 100, 300]);
        let m = r.below(l - 8 + 1);
        let (fs, fe) = (l - 8, l);
        let (ms, me) = (l - 8 - m, l - 8);
        let mut args: Args = vec![g(l), g(m)];
        let mut tag = String::new();
        for _ in 0..4 + r.below(14) {
            match r.below(12) {
                0 => { args.push(gs(&[1i64])); tag.push('c'); }
                1..=4 => { args.push(gs(&[2i64])); tag.push('d'); }
                _ => {
                    let (s, e) = match r.below(12) {
                        0 => (fs, fe), 1 => (fs.saturating_sub(r.below(5)), fe), 2 => (fs + 1, fe), 3 => (fs, fe - 1),
                        4 => (fs, fs + 4), 5 => (fs + 4, fe),                       // the two halves: no coalescing
                        6 => (ms, me), 7 => (ms.saturating_sub(r.below(3)), me + r.below(9).min(8)), 8 => (ms + (m > 0) as usize, me), 9 => (ms, me.saturating_sub((m > 0) as usize)),
                        10 => (0, l),
                        _ => { let s = r.below(l + 1); (s, s + r.below(l + 1 - s)) }
                    };
                    let e = e.min(l).max(s.min(l)); let s = s.min(l);
                    let len = if r.chance(1, 10) { e - s + 1 } else { e - s };
                    args.push(gs(&[0i64, s as i64, e as i64, len as i64])); tag.push('p');
                }
            }
        }
        args.push(gs(&[2i64])); args.push(gs(&[2i64]));
        let tag: String = { let mut c: Vec<char> = tag.chars().collect(); c.dedup(); c.into_iter().take(8).collect() };
        emit(Case::new("c15.metabuf", args, &["c15.metabuf"], format!("m{}:{}", (m > 0) as u8, tag)));
    }
}

struct Recipe { rc: Vec<i64>, nleaves: usize, rg_counts: Vec<usize> }

fn gen_recipe(r: &mut Rng, i: usize) -> Recipe {
    let kind = [0i64, 1, 1, 3, 0, 1, 2, 1][i % 8];
    let nrows = match i % 16 { 0 => 0, 1 => 1 + r.below(8), _ => 40 + r.below(if kind == 1 { 500 } else { 900 }) };
    let rg_rows = match r.below(6) { 0 => 1 + r.below(30), 1 => nrows.max(1), 2 => 64, _ => 50 + r.below(300) };
    let rg_rows = rg_rows.max(nrows / 12 + 1);           // at most ~12 row groups
    let page_rows = *r.pick(&[1usize, 3, 8, 20, 33, 64, 100, 1000]);
    let page_rows = page_rows.max(rg_rows / 40 + 1);     // at most ~40 pages per chunk
    let nullmod = *r.pick(&[0i64, 4, 5, 7, 11]);
    let rc = vec![nrows as i64, rg_rows as i64, page_rows as i64, kind, r.bool() as i64, r.chance(1, 4) as i64, nullmod,
                  *r.pick(&[1i64, 5, 40]), *r.pick(&[1usize, 17, 100, 1000, 5000]).max(&(nrows / 50 + 1)) as i64, r.chance(1, 4) as i64];
    let nleaves = match kind { 0 => 3, 1 => 6, 2 => 1, _ => 3 };
    let mut rg_counts = Vec::new();
    let mut left = nrows; while left > 0 { let n = left.min(rg_rows); rg_counts.push(n); left -= n; }
    Recipe { rc, nleaves, rg_counts }
}

/// Options: `plain` = configuration in which the planner is observable (no page index, no selection).
fn gen_opts(r: &mut Rng, rc: &Recipe, plain: bool) -> Vec<Group> {
    let nrows = rc.rc[0] as usize;
    let kind = rc.rc[3];
    let nrg = rc.rg_counts.len();
    let batch = *r.pick(&[1usize, 2, 7, 32, 64, 100, 1024, 8192]);
    let batch = batch.max(nrows / 60 + 1);
    let page_index = !plain && r.chance(2, 3);
    let opts = vec![batch as i64, page_index as i64, r.below(3) as i64, r.below(3) as i64];
    let projection: Vec<i64> = if r.chance(1, 3) { vec![-1] } else {
        let mut p: Vec<i64> = (0..rc.nleaves as i64).filter(|_| r.bool()).collect();
        if p.is_empty() && r.chance(3, 4) { p.push(r.below(rc.nleaves) as i64); }
        p
    };
    let row_groups: Vec<i64> = if nrg == 0 || r.chance(1, 2) { vec![-1] } else {
        match r.below(4) {
            0 => { let v: Vec<i64> = (0..nrg as i64).filter(|_| r.chance(2, 3)).collect(); if v.is_empty() && r.chance(9, 10) { vec![r.below(nrg) as i64] } else { v } }
            1 => (0..nrg as i64).rev().collect(),                                  // reversed order
            2 => vec![r.below(nrg) as i64],
            _ => { let mut v: Vec<i64> = (0..nrg as i64).filter(|_| r.chance(2, 3)).collect(); if v.len() > 1 { let n = v.len(); v.swap(0, n - 1); } v }
        }
    };
    let sel_rgs: Vec<usize> = if row_groups == vec![-1] { (0..nrg).collect() } else { row_groups.iter().map(|x| *x as usize).collect() };
    let total: usize = sel_rgs.iter().map(|g| rc.rg_counts[*g]).sum();
    let selection: Vec<i64> = if plain || r.chance(1, 2) { vec![-1] } else {
        // alternating skip/select runs covering exactly `total` rows; run lengths: tiny, page sized, row-group sized
        let page = rc.rc[2] as usize;
        let mut v = Vec::new(); let mut left = total;
        let style = r.below(5);
        while left > 0 {
            let n = match style { 0 => 1 + r.below(3), 1 => 1 + r.below(page.max(1) * 2), 2 => 1 + r.below(rc.rc[1] as usize * 2), 3 => if v.len() % 2 == 0 { 1 + r.below(200) } else { 1 + r.below(4) }, _ => 1 + r.below(total.max(1)) };
            let n = n.min(left); v.push(n as i64); left -= n;
        }
        let selected: i64 = v.iter().skip(1).step_by(2).sum();
        if !v.is_empty() && (r.chance(1, 4) || (selected == 0 && r.chance(9, 10))) { v.insert(0, 0); }    // start with a select run
        v
    };
    let has_a = kind != 2;
    let preds: Vec<i64> = {
        let np = match r.below(6) { 0 | 1 => 0, 2 | 3 => 1, 4 => 2, _ => 3 };
        let mut v = Vec::new();
        for pi in 0..np {
            // chains that rule out whole row groups early: a range predicate on id first
            if pi == 0 && np >= 2 && r.bool() { v.extend([1 + r.below(2) as i64, (nrows / 4 + r.below(nrows / 2 + 1)) as i64, 0]); continue; }
            let k = match r.below(30) { 0..=7 => 0, 8..=11 => 1, 12..=15 => 2, 16..=21 if has_a => 3, 22..=25 if has_a => 4, 26 | 27 => 5, 28 => 6, _ => 0 };
            let (p1, p2) = match k {
                0 => { let m = *r.pick(&[2i64, 2, 3, 7, 13]); (m, r.below(m as usize) as i64) }
                1 | 2 => (r.below(nrows + 2) as i64, 0),
                3 => { let m = *r.pick(&[2i64, 3, 10]); (m, r.below(m as usize) as i64) }
                4 => (*r.pick(&[2i64, 5, 9]), 0),
                _ => (0, 0),
            };
            v.extend([k, p1, p2]);
        }
        v
    };
    let rgr = rc.rc[1] as usize;
    let offset: Vec<i64> = if r.chance(1, 4) { vec![*r.pick(&[0usize, 1, 5, 5, nrows / 3, nrows / 3, rgr.saturating_sub(1), rgr, rgr + 1, 2 * rgr, nrows / 2 + 1, nrows, nrows + 5]) as i64] } else { vec![] };
    let limit: Vec<i64> = if r.chance(1, 4) { vec![*r.pick(&[0usize, 1, 2, 10, 10, rgr.saturating_sub(1), rgr, rgr + 1, 2 * rgr + 3, nrows / 4, nrows / 2, nrows / 2, nrows, nrows + 5]) as i64] } else { vec![] };
    vec![gs(&opts), gs(&projection), gs(&row_groups), gs(&selection), gs(&preds), gs(&offset), gs(&limit)]
}

fn gen_push_mode(r: &mut Rng) -> Vec<Group> {
    let api = r.chance(2, 5) as i64;
    let meta = r.chance(1, 5) as i64;
    let pre = if r.chance(1, 10) { 1 + r.below(2) as i64 } else { 0 };
    let nd = 1 + r.below(6);
    let style = r.below(4);
    let decs: Vec<i64> = (0..nd).map(|_| {
        let code = match style { 0 => *r.pick(&[0i64, 1, 8]), 1 => *r.pick(&[2i64, 12, 2, 0]), _ => *r.pick(&[0i64, 1, 2, 3, 4, 5, 6, 7, 8, 9, 10, 12, 13, 3, 4, 7, 10]) };
        code + 100 * r.below(1000) as i64
    }).collect();
    let rebuilds: Vec<i64> = match r.below(4) { 0 => vec![0], 1 => vec![1], _ => (0..1 + r.below(4)).map(|_| r.bool() as i64).collect() };
    // early supplies: in half of the schedules ranges are also pushed after Data / reader results
    let early: Vec<i64> = if r.bool() { vec![] } else {
        (0..1 + r.below(4)).map(|_| *r.pick(&[0i64, 1, 1, 2, 3, 4, 6, 6, 5]) + 100 * r.below(1000) as i64).collect()
    };
    vec![gs(&[api, meta, pre]), gs(&decs), gs(&rebuilds), gs(&early)]
}

fn tag_of(rc: &Recipe, opts: &[Group], mode: &[Group], what: &str) -> String {
    let o = to_i64s(&opts[0]);
    let d = to_i64s(&mode[1]);
    format!("{}:k{}r{}:pi{}p{}:{}{}{}{}{}:m{}:d{}", what, rc.rc[3], rc.rg_counts.len().min(3), o[1], o[2],
        if opts[1] == gs(&[-1i64]) { "" } else { "P" }, if opts[2] == gs(&[-1i64]) { "" } else { "G" },
        if opts[3] == gs(&[-1i64]) { "" } else { "S" }, ["", "F", "FF", "FFF"][(opts[4].len() / 3).min(3)],
        if opts[5].is_empty() && opts[6].is_empty() { "" } else { "L" },
        to_i64s(&mode[0]).iter().map(|x| x.to_string()).collect::<Vec<_>>().join("") + if mode.get(3).map(|g| !g.is_empty()).unwrap_or(false) { "E" } else { "" },
        d.first().map(|x| x % 100).unwrap_or(0))
}

pub fn generate(tier: &str, r: &mut Rng, emit: &mut dyn FnMut(Case)) {
    let thorough = tier == "thorough";
    gen_pushbuf(r, emit, if thorough { 60000 } else { 6000 });
    gen_metabuf(r, emit, if thorough { 30000 } else { 3000 });
    let nfiles = if thorough { 3000 } else { 300 };
    for i in 0..nfiles {
        let rc = gen_recipe(r, i);
        let nopt = 5;
        for oi in 0..nopt {
            let plain = oi < 2;
            let opts = gen_opts(r, &rc, plain);
            let mut base: Args = vec![gs(&rc.rc)];
            base.extend(opts.iter().cloned());
            // push decoder schedules
            for _ in 0..if plain { 2 } else { 4 } {
                let mode = gen_push_mode(r);
                let mut a = base.clone(); a.extend(mode.iter().cloned());
                emit(Case::new("c15.push", a.clone(), &["c15.push.post1"], tag_of(&rc, &opts, &mode, "push")));
                if plain {
                    // the metadata push decoder's requests are not part of the planner model
                    let mut m2 = mode.clone(); m2[0] = gs(&[to_i64s(&mode[0])[0], 0, to_i64s(&mode[0])[2]]);
                    let mut a2 = base.clone(); a2.extend(m2.iter().cloned());
                    emit(Case::new("c15.plan", a2, &["c15.plan.post1"], tag_of(&rc, &opts, &m2, "plan")));
                }
            }
            // async schedules
            for _ in 0..if plain { 1 } else { 3 } {
                let mode = vec![gs(&[r.chance(1, 3) as i64, r.chance(1, 3) as i64, r.bool() as i64, r.below(1 << 30) as i64, r.below(5) as i64]), gs::<i64>(&[]), gs::<i64>(&[])];
                let mut a = base.clone(); a.extend(mode.iter().cloned());
                emit(Case::new("c15.async", a, &["c15.async.post1"], tag_of(&rc, &opts, &mode, "async")));
            }
        }
    }
}
