// ---------------------------------------------------------------------------------------------
// Probe generators (model ties): thrift footers, schema probes, Avro long blocks, IPC batches
// ---------------------------------------------------------------------------------------------
fn zz64(v: i64) -> u64 { ((v << 1) ^ (v >> 63)) as u64 }
fn rand_varint(r: &mut Rng) -> Vec<u8> {
    match r.below(12) {
        0 => uleb(r.below(128) as u64),
        1 => uleb(r.next() >> r.below(64)),
        2 => uleb(*r.pick(&[0u64, 1, 127, 128, 255, 16383, 16384, 0x7FFF_FFFF, 0x8000_0000, 0xFFFF_FFFF, 0x1_0000_0000, u64::MAX, u64::MAX - 1, 1 << 63, (1 << 63) - 1, 0xFFFF_FFFE, 0xFFFF_FFFF_FFFF_FFFE])),
        3 => r.pick(&overlong_varints()).clone(),
        4 => { let k = 1 + r.below(12); let mut v: Vec<u8> = (0..k).map(|_| r.next() as u8 | 0x80).collect(); *v.last_mut().unwrap() &= 0x7F; v }
        5 => { let k = 1 + r.below(4); (0..k).map(|_| 0x80 | r.next() as u8).collect() }     // unterminated
        6 | 7 => { // exactly ten bytes: nine continuation bytes and a boundary-valued last byte (the u64 overflow guard)
            let mut v: Vec<u8> = (0..9).map(|_| if r.bool() { 0x80 } else { 0x80 | r.next() as u8 }).collect();
            v.push(*r.pick(&[0u8, 1, 2, 3, 0x7F, 0x80, 0x81, 0x82])); if *v.last().unwrap() >= 0x80 { v.push(r.below(3) as u8) } v }
        _ => uleb(zz64(r.range(-70000, 70000))),
    }
}
fn field_hdr(last: &mut i64, id: i64, ty: u8, r: &mut Rng, out: &mut Vec<u8>) {
    let d = id - *last;
    if d >= 1 && d <= 15 && !r.chance(1, 10) { out.push(((d as u8) << 4) | ty) } else { out.push(ty); out.extend(uleb(zz64(id))) }
    *last = id;
}
/// well-formed random thrift value of wire type `ty`
fn thrift_value(r: &mut Rng, ty: u8, depth: usize, out: &mut Vec<u8>) {
    match ty {
        1 | 2 => {}
        3 => out.push(r.next() as u8),
        4 | 5 | 6 => out.extend(rand_varint(r)),
        7 => out.extend(r.bytes(8)),
        8 => { let n = r.below(6); out.extend(uleb(n as u64)); out.extend(r.bytes(n)) }
        9 | 10 => {
            let et = if depth > 3 { *r.pick(&[2u8, 3, 5, 6, 8]) } else { *r.pick(&[1u8, 2, 3, 4, 5, 6, 7, 8, 9, 12, 11, 13]) };
            let n = if r.chance(1, 8) { 15 + r.below(4) } else { r.below(4) };
            if n < 15 { out.push(((n as u8) << 4) | et) } else { out.push(0xF0 | et); out.extend(uleb(n as u64)) }
            for _ in 0..n { thrift_value(r, if et == 1 { 2 } else { et }, depth + 1, out) }
        }
        11 => { let n = r.below(3); out.extend(uleb(n as u64)); if n > 0 { let kt = *r.pick(&[3u8, 5, 8]); let vt = *r.pick(&[2u8, 5, 6, 8, 12]); out.push((kt << 4) | vt); for _ in 0..n { thrift_value(r, kt, depth + 1, out); thrift_value(r, vt, depth + 1, out) } } }
        12 => { let mut last = 0i64; for _ in 0..r.below(4) { let id = last + 1 + r.below(20) as i64; let t = if depth > 3 { *r.pick(&[1u8, 3, 5, 8]) } else { 1 + r.below(13) as u8 }; field_hdr(&mut last, id, t, r, out); thrift_value(r, t, depth + 1, out) } out.push(0) }
        13 => out.extend(r.bytes(16)),
        _ => {}
    }
}
fn deep_struct(depth: usize, out: &mut Vec<u8>) { for _ in 0..depth { out.push(0x1C) } for _ in 0..depth { out.push(0) } }

fn thrift_meta_input(r: &mut Rng) -> (Vec<u8>, String) {
    let mut o = Vec::new(); let mut last = 0i64; let mut tag = String::new();
    if r.chance(1, 12) {
        // a field id near i16::MAX followed by a short-form header whose delta overflows i16 (checked_add in read_field_begin),
        // then the ordinary fields with explicit ids: only the overflow check makes this footer an error
        let id = 32767 - r.below(14) as i64; o.push(0x01); o.extend(uleb(zz64(id))); last = id;
        let d = (32768 - id + r.below(2) as i64).min(15) as u8; o.push((d << 4) | 0x01); tag += "deltaovf ";
        if (id + d as i64) <= 32767 { last = id + d as i64 }
    }
    let order: Vec<i64> = if r.chance(1, 6) { vec![3, 1, 4] } else { vec![1, 3, 4] };
    let mut ids: Vec<i64> = Vec::new();
    for id in order { if !r.chance(1, 12) { ids.push(id) } }
    if r.chance(1, 2) { ids.insert(r.below(ids.len() + 1), 6) }
    for _ in 0..r.below(3) { ids.insert(r.below(ids.len() + 1), *r.pick(&[2i64, 8, 9, 10, 12, 16, 30, 200, 32767, -1, 0])) }
    for id in ids {
        match id {
            1 => { field_hdr(&mut last, 1, *r.pick(&[5u8, 5, 5, 6, 4]), r, &mut o); o.extend(rand_varint(r)) }
            3 => { field_hdr(&mut last, 3, 6, r, &mut o); o.extend(rand_varint(r)) }
            4 => { field_hdr(&mut last, 4, 9, r, &mut o);
                   match r.below(10) { 0 => o.push(0x00), 1 => o.push(0x05), 2 => { o.push(0xFC); o.extend(uleb(0)) } 3 => { o.push(0xFC); o.extend(rand_varint(r)); tag += "big4 " } 4 => { o.push(0x1C); deep_struct(1, &mut o); tag += "rg1 " } _ => o.push(0x0C) } }
            6 => { field_hdr(&mut last, 6, 8, r, &mut o);
                   match r.below(6) { 0 => { o.extend(uleb(3)); o.extend([0xE2, 0x82, 0xAC]) } 1 => { o.extend(uleb(2)); o.extend([0xC3, 0x28]); tag += "badutf8 " } 2 => { o.extend(rand_varint(r)); tag += "strlen " }
                                      _ => { let s = word(r); o.extend(uleb(s.len() as u64)); o.extend(s.as_bytes()) } } }
            _ => { let ty = if r.chance(1, 10) { *r.pick(&[0u8, 14, 15]) } else { 1 + r.below(13) as u8 };
                   if id <= 0 || id > 32767 { o.push(ty); o.extend(uleb(zz64(id))); } else { field_hdr(&mut last, id, ty, r, &mut o) }
                   if r.chance(1, 12) && ty == 12 { deep_struct(60 + r.below(10), &mut o); tag += "deep " } else { thrift_value(r, ty, 0, &mut o) }
                   tag += &format!("skip{ty} "); }
        }
    }
    if last > 32700 && r.bool() { o.push(0xF5); o.extend(rand_varint(r)); tag += "deltaovf " }   // field delta that overflows i16
    if !r.chance(1, 10) { o.push(0) }
    if r.chance(1, 4) && !o.is_empty() { let p = r.below(o.len()); let (m, t) = m_flip(&o, p, r); o = m; tag += &t; }
    if r.chance(1, 10) && !o.is_empty() { o.truncate(r.below(o.len())); tag += "trunc"; }
    (o, tag)
}

pub const SCHEMA_SUFFIX: [u8; 15] = [0x2C, 0x48, 0x01, b'r', 0x15, 0x02, 0x00, 0x15, 0x02, 0x25, 0x00, 0x18, 0x01, b'a', 0x00];
fn schema_probe_input(r: &mut Rng) -> (Vec<u8>, String) {
    let mut o = Vec::new(); let mut last = 0i64; let mut tag = String::new();
    for _ in 0..r.below(4) {
        let id = *r.pick(&[1i64, 3, 4, 5, 6, 7, 9, 20, 300]);
        let ty = if r.chance(1, 12) { *r.pick(&[0u8, 14, 15]) } else { 1 + r.below(13) as u8 };
        if id > last && id - last <= 15 { field_hdr(&mut last, id, ty, r, &mut o) } else { o.push(ty); o.extend(uleb(zz64(id))); last = id }
        if r.chance(1, 10) && ty == 12 { deep_struct(60 + r.below(10), &mut o); tag += "deep " } else { thrift_value(r, ty, 0, &mut o) }
        tag += &format!("skip{ty} ");
    }
    if !r.chance(1, 8) {
        if 2 > last && !r.chance(1, 6) { o.push((((2 - last) as u8) << 4) | 9) } else { o.push(9); o.extend(uleb(zz64(2))) }
        o.extend(SCHEMA_SUFFIX);
    } else { o.push(0); tag += "noschema " }
    if r.chance(1, 5) && o.len() > SCHEMA_SUFFIX.len() { let p = r.below(o.len() - SCHEMA_SUFFIX.len()); let (m, t) = m_flip(&o, p, r); o = m; tag += &t; }
    (o, tag)
}

fn avro_longs_input(r: &mut Rng) -> (Vec<u8>, String) {
    let mut o = Vec::new(); let mut tag = String::new();
    for _ in 0..r.below(4) {
        let n = r.below(5);
        let mut data = Vec::new();
        for _ in 0..n { if r.chance(1, 4) { data.extend(rand_varint(r)); } else { data.extend(uleb(zz64(r.next() as i64 >> r.below(64)))) } }
        let mut count = n as i64; let mut size = data.len() as i64;
        // the mutations that park the reader in its no-progress loop (model: RHang) cost a watchdog period each: keep them rare
        match r.below(70) { 0..=4 => { count += 1; tag += "cnt+ " } 5 => { count -= 1; tag += "cnt- " } 6 => { count = 0; tag += "cnt0 " } 7 => { size += 1; tag += "sz+ " } 8..=12 => { size -= 1; tag += "sz- " } 13..=17 => { count = -count - 1; tag += "cntneg " } 18..=22 => { size = -1; tag += "szneg " } _ => {} }
        if r.chance(1, 14) { o.extend(rand_varint(r)); tag += "cntraw " } else { o.extend(uleb(zz64(count))) }
        if r.chance(1, 14) { o.extend(rand_varint(r)); tag += "szraw " } else { o.extend(uleb(zz64(size))) }
        o.extend(&data);
        let mut s = AVRO_SYNC; if r.chance(1, 12) { s[r.below(16)] ^= 1; tag += "sync " }
        o.extend(s);
    }
    if r.chance(1, 6) && !o.is_empty() { o.truncate(r.below(o.len())); tag += "trunc " }
    if r.chance(1, 6) && !o.is_empty() { let p = r.below(o.len()); let (m, t) = m_flip(&o, p, r); o = m; tag += &t; }
    (o, tag)
}

fn ipc_layout(code: i64, n: i64, nodes: &mut Vec<i64>, bufs: &mut Vec<i64>) {
    match code {
        0 => { nodes.extend([n, 0]); bufs.extend([0, 0, 0, 4 * n]) }
        1 => { nodes.extend([n, 0]); bufs.extend([0, 0, 0, 4 * (n + 1), 0, 0]) }
        2 => { nodes.extend([n, 0]); bufs.extend([0, 0, 0, 4 * (n + 1)]); nodes.extend([0, 0]); bufs.extend([0, 0, 0, 0]) }
        3 => { nodes.extend([n, 0]); bufs.extend([0, 0]); nodes.extend([n, 0]); bufs.extend([0, 0, 0, 4 * n]) }
        4 => nodes.extend([n, n]),
        5 => { nodes.extend([n, 0]); bufs.extend([0, 0, 0, (n + 7) / 8]) }
        6 => { nodes.extend([n, 0]); bufs.extend([0, 0]); nodes.extend([2 * n, 0]); bufs.extend([0, 0, 0, 8 * n]) }
        _ => { nodes.extend([n, 0]); bufs.extend([0, 0, 0, 8 * (n + 1), 0, 0]) }
    }
}
fn ipc_batch_input(r: &mut Rng) -> (Args, String) {
    let n = r.below(6) as i64;
    let codes: Vec<i64> = (0..1 + r.below(3)).map(|_| r.below(8) as i64).collect();
    let (mut nodes, mut bufs) = (Vec::new(), Vec::new());
    for c in &codes { ipc_layout(*c, n, &mut nodes, &mut bufs) }
    let mut body = 64i64; let mut length = n; let mut tag = String::from("ok");
    let big = [i64::MAX, i64::MIN, -1, 1 << 40, 65, 64, 63, 1 << 31];
    match r.below(12) {
        0 if nodes.len() >= 2 => { let k = 2 * r.below(nodes.len() / 2); nodes.drain(k..k + 2); tag = "dropnode".into() }
        1 if bufs.len() >= 2 => { let k = 2 * r.below(bufs.len() / 2); bufs.drain(k..k + 2); tag = "dropbuf".into() }
        2 if !bufs.is_empty() => { let k = r.below(bufs.len()); bufs[k] = *r.pick(&big); tag = format!("buf{}", k % 2) }
        3 if !bufs.is_empty() => { let k = 2 * r.below(bufs.len() / 2); bufs[k] = r.range(0, 70); bufs[k + 1] = r.range(0, 70); tag = "bufrange".into() }
        4 if !nodes.is_empty() => { let k = r.below(nodes.len()); nodes[k] = *r.pick(&[-1i64, i64::MAX, 1, 7, 1 << 33, n + 1]); tag = format!("node{}", k % 2) }
        5 => { body = r.range(0, 40); tag = "body".into() }
        6 => { length = *r.pick(&[-1i64, 0, n + 1, i64::MAX]); tag = "length".into() }
        7 => { nodes.extend([n, 0]); bufs.extend([0, 0]); tag = "extra".into() }
        8 => { bufs.clear(); tag = "nobufs".into() }
        _ => {}
    }
    (vec![gs(&codes), gs(&nodes), gs(&bufs), g(body), g(length)], tag)
}

fn gen_probes(tier: &str, r: &mut Rng, emit: &mut dyn FnMut(Case)) {
    let scale = if tier == "thorough" { 5 } else { 1 };
    let mut jobs: Vec<(String, Args)> = Vec::new(); let mut meta: Vec<(&'static str, &'static str, String)> = Vec::new();
    for _ in 0..700 * scale { let (b, t) = thrift_meta_input(r); jobs.push(("c08.thrift_meta".into(), vec![gbytes(&b)])); meta.push(("c08.thrift_meta", "c08.thrift_meta.post", t)); }
    for _ in 0..400 * scale { let (b, t) = schema_probe_input(r); jobs.push(("c08.schema_probe".into(), vec![gbytes(&b)])); meta.push(("c08.schema_probe", "c08.schema_probe.post", t)); }
    for _ in 0..600 * scale { let (b, t) = avro_longs_input(r); jobs.push(("c08.avro_longs".into(), vec![gbytes(&b)])); meta.push(("c08.avro_longs", "c08.avro_longs.post", t)); }
    for _ in 0..600 * scale { let (a, t) = ipc_batch_input(r); jobs.push(("c08.ipc_batch".into(), a)); meta.push(("c08.ipc_batch", "c08.ipc_batch.post", t)); }
    for (a, t) in dict_page_jobs(tier, r) { jobs.push(("c08.dict_read".into(), a)); meta.push(("c08.dict_read", "c08.outcome.post", t)); }
    let t0 = std::time::Instant::now();
    let outs = run_batch_wd(jobs.clone(), 1500, 15000);   // probes are tiny: milliseconds when they terminate
    eprintln!("c08: {} probes executed in {:.1}s", outs.len(), t0.elapsed().as_secs_f64());
    for (k, (_, a)) in jobs.into_iter().enumerate() {
        let (op, model, t) = &meta[k];
        let code = out_code(&outs[k]);
        let oc = if code == -1 { "err" } else { code_name(code) };
        let t: String = t.split(' ').filter(|s| !s.is_empty()).map(|s| s.trim_end_matches(|c: char| c.is_ascii_digit())).collect::<Vec<_>>().join("+");
        emit(Case::new(op, a, &[model], format!("{t} {oc}")));
    }
}

// ---------------------------------------------------------------------------------------------
// Witness search (C08_WITNESS=1 harness gen c08 quick <seed> <out>): tiny artefacts, single mutations;
// prints the smallest failing input of every failure class as hex.  Diagnostic only, emits no cases.
// ---------------------------------------------------------------------------------------------
fn hex(b: &[u8]) -> String { b.iter().map(|x| format!("{x:02x}")).collect::<Vec<_>>().join(" ") }
fn witness_search(r: &mut Rng) {
    use arrow_ipc::writer::{FileWriter, IpcWriteOptions, StreamWriter};
    let mut inputs: Vec<Input> = Vec::new();
    let mut add = |kind: i64, aux: Vec<i64>, base: &[u8], label: &str, r: &mut Rng, inputs: &mut Vec<Input>| {
        for p in 0..base.len() {
            for v in [0u8, 1, 0x7F, 0x80, 0xFF, base[p] ^ 1, base[p].wrapping_add(1), base[p] ^ 0x80] {
                if v == base[p] { continue }
                let mut o = base.to_vec(); o[p] = v;
                inputs.push(Input { kind, bytes: o, aux: aux.clone(), tag: format!("{label} byte[{p}]: {:02x}->{v:02x}", base[p]) });
            }
        }
        for p in (0..base.len().saturating_sub(3)).step_by(4) { for _ in 0..2 { let (o, t) = m_word(base, p, 4, r); inputs.push(Input { kind, bytes: o, aux: aux.clone(), tag: format!("{label} word[{p}] {t}") }) } }
        for n in 0..base.len() { inputs.push(Input { kind, bytes: base[..n].to_vec(), aux: aux.clone(), tag: format!("{label} truncated to {n}") }) }
    };
    let small = |ids: &[usize], r: &mut Rng| mk_batch(r, ids, 3);
    for (ids, comp, label) in [(vec![0usize], 0, "int32"), (vec![0], 2, "int32+zstd"), (vec![7], 0, "struct"), (vec![13], 0, "utf8view"), (vec![0, 1], 0, "int32,utf8")] {
        let b = small(&ids, r);
        let mut opts = IpcWriteOptions::default();
        if comp == 2 { opts = opts.try_with_compression(Some(arrow_ipc::CompressionType::ZSTD)).unwrap() }
        let mut w = StreamWriter::try_new_with_options(Vec::new(), &b.schema(), opts.clone()).unwrap(); w.write(&b).unwrap(); w.finish().unwrap();
        let s = w.into_inner().unwrap();
        add(K_IPC_STREAM, vec![0], &s, &format!("ipc stream {label}"), r, &mut inputs);
        let mut w = FileWriter::try_new_with_options(Vec::new(), &b.schema(), opts).unwrap(); w.write(&b).unwrap(); w.finish().unwrap();
        let f = w.into_inner().unwrap();
        add(K_IPC_FILE, vec![(ids.len() > 1) as i64], &f, &format!("ipc file {label}"), r, &mut inputs);
    }
    for ids in [vec![0usize], vec![1]] {
        let b = small(&ids, r);
        let mut w = parquet::arrow::ArrowWriter::try_new(Vec::new(), b.schema(), None).unwrap(); w.write(&b).unwrap();
        let f = w.into_inner().unwrap();
        if let Some((fs, fl)) = pq_footer(&f) {
            let mut slots = Vec::new(); let mut p = fs; let _ = t_struct(&f, &mut p, 0, &mut slots);
            let mut ms = Vec::new(); slot_mutants(r, &f, &slots, 400, Some((fs, fl)), &mut ms);
            for (o, t) in ms { inputs.push(Input { kind: K_PQ_ARROW, bytes: o, aux: vec![0], tag: format!("parquet {ids:?} {t}") }) }
            let pages = pq_page_headers(&f); let hs: Vec<TSlot> = pages.iter().flat_map(|(_, s)| s.clone()).collect();
            let mut ms = Vec::new(); slot_mutants(r, &f, &hs, 200, None, &mut ms);
            for (o, t) in ms { inputs.push(Input { kind: K_PQ_ARROW, bytes: o, aux: vec![0], tag: format!("parquet {ids:?} page {t}") }) }
        }
    }
    { let mut h = avro_probe_header(); let zz = |v: i64| uleb(((v << 1) ^ (v >> 63)) as u64);
      let mut blk = Vec::new(); blk.extend(zz(2)); blk.extend(zz(2)); blk.extend([2u8, 4]); blk.extend(AVRO_SYNC); h.extend(&blk);
      let hl = h.len() - blk.len();
      for p in hl..h.len() { for v in [0u8, 1, 2, 4, 6, 0x7F, 0x80, 0xFF] { if v != h[p] { let mut o = h.clone(); o[p] = v; inputs.push(Input { kind: K_AVRO, bytes: o, aux: vec![0], tag: format!("avro long-file block byte[{}]: {:02x}->{v:02x}", p - hl, h[p]) }) } } } }
    let jobs: Vec<(String, Args)> = inputs.iter().map(|i| ("c08.outcome".to_string(), in_args(i))).collect();
    let outs = run_batch(jobs);
    let mut best: std::collections::BTreeMap<String, usize> = Default::default();
    for (k, o) in outs.iter().enumerate() {
        let code = out_code(o); if code < PANIC { continue }
        let cls = format!("{} {} {}", code_name(code), KIND_NAMES[inputs[k].kind as usize], out_loc(o));
        let e = best.entry(cls).or_insert(k);
        if inputs[k].bytes.len() < inputs[*e].bytes.len() { *e = k }
    }
    for (cls, k) in best { eprintln!("WITNESS {cls}\n  mutation: {}\n  len {}: {}", inputs[k].tag, inputs[k].bytes.len(), hex(&inputs[k].bytes)); }
}
