//! C09 / C01 — physical array layouts: near-valid layout generator, the real validators
//! (ArrayData::try_new, ArrayDataBuilder::build, validate_full) and the tree encoding shared
//! with coq/Model/D_C09.v.
use crate::util::*;
use arrow_buffer::{BooleanBuffer, Buffer, MutableBuffer, NullBuffer};
use arrow_data::ArrayData;
use arrow_schema::{DataType, Field, Fields, UnionFields, UnionMode};
use num_bigint::BigInt;
use std::sync::Arc;

#[derive(Clone, Debug, PartialEq)]
pub enum Ty {
    Null,
    Bool,
    Fixed(usize),
    FixedBin(i32),
    Bin { large: bool, utf8: bool },
    View { utf8: bool },
    List { large: bool, nullable: bool, c: Box<Ty> },
    ListView { large: bool, nullable: bool, c: Box<Ty> },
    FixedList { n: i32, nullable: bool, c: Box<Ty> },
    Struct(Vec<(bool, Ty)>),
    Dict { kw: usize, signed: bool, v: Box<Ty> },
    Ree { rw: usize, v: Box<Ty> },
    Union { dense: bool, fs: Vec<(i8, Ty)> },
}

#[derive(Clone, Debug)]
pub struct Nulls { pub bytes: Vec<u8>, pub off: usize, pub len: usize, pub count: usize }

#[derive(Clone, Debug)]
pub struct Node { pub ty: Ty, pub len: usize, pub off: usize, pub nulls: Option<Nulls>, pub bufs: Vec<Vec<u8>>, pub kids: Vec<Node> }

// ------------------------------------------------------------------ encoding
fn enc_ty(t: &Ty, out: &mut Vec<i64>) {
    match t {
        Ty::Null => out.push(0),
        Ty::Bool => out.push(1),
        Ty::Fixed(w) => out.extend([2, *w as i64]),
        Ty::FixedBin(n) => out.extend([3, *n as i64]),
        Ty::Bin { large, utf8 } => out.extend([4, *large as i64, *utf8 as i64]),
        Ty::View { utf8 } => out.extend([5, *utf8 as i64]),
        Ty::List { large, nullable, c } => { out.extend([6, *large as i64, *nullable as i64]); enc_ty(c, out) }
        Ty::ListView { large, nullable, c } => { out.extend([7, *large as i64, *nullable as i64]); enc_ty(c, out) }
        Ty::FixedList { n, nullable, c } => { out.extend([8, *n as i64, *nullable as i64]); enc_ty(c, out) }
        Ty::Struct(fs) => { out.extend([9, fs.len() as i64]); for (nb, t) in fs { out.push(*nb as i64); enc_ty(t, out) } }
        Ty::Dict { kw, signed, v } => { out.extend([10, *kw as i64, *signed as i64]); enc_ty(v, out) }
        Ty::Ree { rw, v } => { out.extend([11, *rw as i64]); enc_ty(v, out) }
        Ty::Union { dense, fs } => { out.extend([12, *dense as i64, fs.len() as i64]); for (id, t) in fs { out.push(*id as i64); enc_ty(t, out) } }
    }
}
fn dec_ty(l: &[i64], p: &mut usize) -> Ty {
    let tag = l[*p]; *p += 1;
    let mut nx = |p: &mut usize| { let v = l[*p]; *p += 1; v };
    match tag {
        0 => Ty::Null, 1 => Ty::Bool,
        2 => Ty::Fixed(nx(p) as usize), 3 => Ty::FixedBin(nx(p) as i32),
        4 => { let a = nx(p) != 0; let b = nx(p) != 0; Ty::Bin { large: a, utf8: b } }
        5 => Ty::View { utf8: nx(p) != 0 },
        6 => { let a = nx(p) != 0; let b = nx(p) != 0; Ty::List { large: a, nullable: b, c: Box::new(dec_ty(l, p)) } }
        7 => { let a = nx(p) != 0; let b = nx(p) != 0; Ty::ListView { large: a, nullable: b, c: Box::new(dec_ty(l, p)) } }
        8 => { let a = nx(p) as i32; let b = nx(p) != 0; Ty::FixedList { n: a, nullable: b, c: Box::new(dec_ty(l, p)) } }
        9 => { let k = nx(p); let mut fs = Vec::new(); for _ in 0..k { let nb = l[*p] != 0; *p += 1; fs.push((nb, dec_ty(l, p))) } Ty::Struct(fs) }
        10 => { let a = nx(p) as usize; let b = nx(p) != 0; Ty::Dict { kw: a, signed: b, v: Box::new(dec_ty(l, p)) } }
        11 => { let a = nx(p) as usize; Ty::Ree { rw: a, v: Box::new(dec_ty(l, p)) } }
        _ => { let d = nx(p) != 0; let k = nx(p); let mut fs = Vec::new(); for _ in 0..k { let id = l[*p] as i8; *p += 1; fs.push((id, dec_ty(l, p))) } Ty::Union { dense: d, fs } }
    }
}
pub fn encode(n: &Node, out: &mut Args) {
    let mut t = Vec::new(); enc_ty(&n.ty, &mut t);
    out.push(gs(&t));
    out.push(vec![n.len.into(), n.off.into()]);
    match &n.nulls {
        Some(nb) => { out.push(vec![nb.off.into(), nb.len.into(), nb.count.into()]); out.push(gbytes(&nb.bytes)) }
        None => { out.push(vec![]); out.push(vec![]) }
    }
    out.push(vec![n.bufs.len().into(), n.kids.len().into()]);
    for b in &n.bufs { out.push(gbytes(b)) }
    for k in &n.kids { encode(k, out) }
}
pub fn decode(a: &Args, p: &mut usize) -> Node {
    let t = to_i64s(&a[*p]); let mut tp = 0; let ty = dec_ty(&t, &mut tp);
    let lo = to_i64s(&a[*p + 1]);
    let nulls = if a[*p + 2].is_empty() { None } else { let v = to_i64s(&a[*p + 2]); Some(Nulls { bytes: to_u8s(&a[*p + 3]), off: v[0] as usize, len: v[1] as usize, count: v[2] as usize }) };
    let cnt = to_i64s(&a[*p + 4]);
    *p += 5;
    let mut bufs = Vec::new();
    for _ in 0..cnt[0] { bufs.push(to_u8s(&a[*p])); *p += 1 }
    let mut kids = Vec::new();
    for _ in 0..cnt[1] { kids.push(decode(a, p)) }
    Node { ty, len: lo[0] as usize, off: lo[1] as usize, nulls, bufs, kids }
}

// ------------------------------------------------------------------ to arrow
fn prim_dt(w: usize) -> DataType {
    match w { 1 => DataType::Int8, 2 => DataType::Int16, 4 => DataType::Int32, 8 => DataType::Int64, 16 => DataType::Decimal128(38, 10), _ => DataType::Decimal256(76, 10) }
}
pub fn to_dt(t: &Ty) -> DataType {
    match t {
        Ty::Null => DataType::Null,
        Ty::Bool => DataType::Boolean,
        Ty::Fixed(w) => prim_dt(*w),
        Ty::FixedBin(n) => DataType::FixedSizeBinary(*n),
        Ty::Bin { large, utf8 } => match (large, utf8) { (false, false) => DataType::Binary, (true, false) => DataType::LargeBinary, (false, true) => DataType::Utf8, (true, true) => DataType::LargeUtf8 },
        Ty::View { utf8 } => if *utf8 { DataType::Utf8View } else { DataType::BinaryView },
        Ty::List { large, nullable, c } => { let f = Arc::new(Field::new("item", to_dt(c), *nullable)); if *large { DataType::LargeList(f) } else { DataType::List(f) } }
        Ty::ListView { large, nullable, c } => { let f = Arc::new(Field::new("item", to_dt(c), *nullable)); if *large { DataType::LargeListView(f) } else { DataType::ListView(f) } }
        Ty::FixedList { n, nullable, c } => DataType::FixedSizeList(Arc::new(Field::new("item", to_dt(c), *nullable)), *n),
        Ty::Struct(fs) => DataType::Struct(Fields::from(fs.iter().enumerate().map(|(i, (nb, t))| Field::new(format!("f{i}"), to_dt(t), *nb)).collect::<Vec<_>>())),
        Ty::Dict { kw, signed, v } => {
            let k = match (kw, signed) { (1, true) => DataType::Int8, (2, true) => DataType::Int16, (4, true) => DataType::Int32, (8, true) => DataType::Int64,
                (1, false) => DataType::UInt8, (2, false) => DataType::UInt16, (4, false) => DataType::UInt32, _ => DataType::UInt64 };
            DataType::Dictionary(Box::new(k), Box::new(to_dt(v)))
        }
        Ty::Ree { rw, v } => DataType::RunEndEncoded(Arc::new(Field::new("run_ends", prim_dt(*rw), false)), Arc::new(Field::new("values", to_dt(v), true))),
        Ty::Union { dense, fs } => DataType::Union(
            UnionFields::try_new(fs.iter().map(|(id, _)| *id), fs.iter().enumerate().map(|(i, (_, t))| Field::new(format!("u{i}"), to_dt(t), true))).expect("union fields"),
            if *dense { UnionMode::Dense } else { UnionMode::Sparse }),
    }
}
/// 64-byte aligned buffer (MutableBuffer allocation), so alignment is never the reason for a verdict.
fn abuf(b: &[u8]) -> Buffer { let mut m = MutableBuffer::new(b.len()); m.extend_from_slice(b); m.into() }

/// Path A: ArrayData::try_new at every level (children first). None = rejected somewhere.
pub fn build_try_new(n: &Node) -> Option<ArrayData> {
    let mut kids = Vec::new();
    for k in &n.kids { kids.push(build_try_new(k)?) }
    let nb = n.nulls.as_ref().map(|x| abuf(&x.bytes));
    ArrayData::try_new(to_dt(&n.ty), n.len, nb, n.off, n.bufs.iter().map(|b| abuf(b)).collect(), kids).ok()
}
fn nullbuffer(x: &Nulls) -> NullBuffer {
    // BooleanBuffer::new asserts off+len <= 8*bytes (safe-type invariant; panics otherwise -> rejection)
    let bb = BooleanBuffer::new(abuf(&x.bytes), x.off, x.len);
    // SAFETY: only used to let the validator see a wrong cached count; validate_nulls recounts
    unsafe { NullBuffer::new_unchecked(bb, x.count) }
}
/// Path B: unchecked construction of the whole tree, then validate_full.
pub fn build_unchecked(n: &Node) -> ArrayData {
    let kids: Vec<ArrayData> = n.kids.iter().map(build_unchecked).collect();
    let b = ArrayData::builder(to_dt(&n.ty)).len(n.len).offset(n.off)
        .buffers(n.bufs.iter().map(|b| abuf(b)).collect()).child_data(kids)
        .nulls(n.nulls.as_ref().map(nullbuffer));
    unsafe { b.build_unchecked() }
}
/// Path C: checked builder at every level with explicit NullBuffer.
pub fn build_checked(n: &Node) -> Option<ArrayData> {
    let mut kids = Vec::new();
    for k in &n.kids { kids.push(build_checked(k)?) }
    ArrayData::builder(to_dt(&n.ty)).len(n.len).offset(n.off)
        .buffers(n.bufs.iter().map(|b| abuf(b)).collect()).child_data(kids)
        .nulls(n.nulls.as_ref().map(nullbuffer)).build().ok()
}

pub fn run(op: &str, a: &Args) -> Option<Args> {
    let mut p = 0;
    match op {
        // verdict of the real validators; [path][tree...]
        "c09.validate" | "c09.accepts" => {
            let path = to_usize(&a[0]);
            let rest: Args = a[1..].to_vec();
            let node = decode(&rest, &mut p);
            // a panic inside a validating constructor (e.g. an `expect` on overflow) is a rejection
            let ok = std::panic::catch_unwind(std::panic::AssertUnwindSafe(|| match path {
                0 => build_try_new(&node).is_some(),
                1 => build_unchecked(&node).validate_full().is_ok(),
                _ => build_checked(&node).is_some(),
            })).unwrap_or(false);
            if op == "c09.validate" { Some(vec![g(ok as u8)]) } else if ok { Some(vec![g(1)]) } else { Some(skip()) }
        }
        // accessor / kernel panel on an ACCEPTED layout: every safe call must stay within the buffers.
        // [path][tree] -> [1] (no panic) ; skip when rejected or when the tree contains a known validation gap
        "c09.panel" => {
            let path = to_usize(&a[0]);
            let rest: Args = a[1..].to_vec();
            let node = decode(&rest, &mut p);
            if has_known_gap(&node) { return Some(skip()) }
            let built = std::panic::catch_unwind(std::panic::AssertUnwindSafe(|| match path { 0 => build_try_new(&node), _ => build_checked(&node) })).unwrap_or(None);
            let Some(data) = built else { return Some(skip()) };
            // A safe panic (unsupported type, assertion) keeps every access inside its buffers and is not a
            // violation of C09; an out-of-bounds access aborts the debug build (std precondition checks), which
            // the check reports through the crash file with this case as the failing input.
            let _ = std::panic::catch_unwind(std::panic::AssertUnwindSafe(|| panel(data)));
            Some(vec![g(1)])
        }
        _ => None,
    }
}

/// F4 (struct / non-nullable fixed-size-list at a non-zero offset) and F5 (union ids unvalidated):
/// typed constructors are known to panic (safely) on such accepted layouts.
fn has_known_gap(n: &Node) -> bool {
    (match &n.ty { Ty::Struct(_) => n.off != 0, Ty::FixedList { nullable: false, .. } => n.off != 0, Ty::Union { .. } => true, _ => false })
        || n.kids.iter().any(has_known_gap)
}

fn panel(data: ArrayData) {
    use arrow_array::{make_array, Array, BooleanArray, UInt32Array};
    let arr = make_array(data);
    let n = arr.len();
    // formatter touches every value through the typed accessors
    if let Ok(f) = arrow_cast::display::ArrayFormatter::try_new(arr.as_ref(), &arrow_cast::display::FormatOptions::default()) {
        for i in 0..n { let _ = f.value(i).try_to_string(); }
    }
    for i in 0..n { let _ = arr.is_null(i); }
    let _ = arr.logical_null_count();
    if n > 0 { let s = arr.slice(n / 2, n - n / 2); let _ = s.to_data().validate_full(); }
    let idx = UInt32Array::from((0..n as u32).rev().collect::<Vec<_>>());
    if let Ok(t) = arrow_select::take::take(arr.as_ref(), &idx, None) { let _ = t.to_data().validate_full(); }
    let mask = BooleanArray::from((0..n).map(|i| i % 2 == 0).collect::<Vec<_>>());
    let _ = arrow_select::filter::filter(arr.as_ref(), &mask);
    let _ = arrow_select::concat::concat(&[arr.as_ref(), arr.as_ref()]);
    let _ = arrow_ord::sort::sort_to_indices(arr.as_ref(), None, None);
    if let Ok(conv) = arrow_row::RowConverter::new(vec![arrow_row::SortField::new(arr.data_type().clone())]) { let _ = conv.convert_columns(&[arr.clone()]); }
    let _ = arrow_cast::cast(arr.as_ref(), &arrow_schema::DataType::Utf8);
    assert!(arr.to_data() == arr.to_data());
}

// ------------------------------------------------------------------ generator of valid layouts
fn put_le(buf: &mut [u8], w: usize, i: usize, v: i128) { for k in 0..w { buf[i * w + k] = if 8 * k >= 128 { if v < 0 { 0xFF } else { 0 } } else { (v >> (8 * k)) as u8 } } }
fn rand_strings(r: &mut Rng, n: usize, utf8: bool) -> Vec<Vec<u8>> {
    let alpha = ["a", "b", "é", "ß", "€", "😀", "", "xyz", "0123456789abc", "\u{7ff}", "\u{800}", "\u{ffff}", "\u{10000}"];
    (0..n).map(|_| {
        let k = r.below(4);
        let mut s = Vec::new();
        for _ in 0..k { if utf8 { s.extend_from_slice(r.pick(&alpha).as_bytes()) } else { let q = r.below(6); s.extend(r.bytes(q)) } }
        s
    }).collect()
}
fn gen_nulls(r: &mut Rng, off: usize, len: usize, force_none: bool) -> Option<Nulls> {
    if force_none || r.chance(1, 3) { return None }
    let extra = r.below(2);
    let mut bytes = r.bytes((off + len + 7) / 8 + extra);
    if r.chance(1, 4) { for b in bytes.iter_mut() { *b = 0xFF } }
    let count = (0..len).filter(|i| (bytes[(off + i) / 8] >> ((off + i) % 8)) & 1 == 0).count();
    Some(Nulls { bytes, off, len, count })
}
fn is_valid(n: &Option<Nulls>, i: usize) -> bool { match n { None => true, Some(x) => (x.bytes[(x.off + i) / 8] >> ((x.off + i) % 8)) & 1 == 1 } }

pub fn gen_ty(r: &mut Rng, depth: usize) -> Ty {
    let leaf = depth == 0 || r.chance(1, 2);
    if leaf {
        match r.below(8) {
            0 => Ty::Bool,
            1 | 2 => Ty::Fixed(*r.pick(&[1, 2, 4, 8, 16, 32])),
            3 => Ty::FixedBin(r.below(5) as i32),
            4 | 5 => Ty::Bin { large: r.bool(), utf8: r.bool() },
            6 => Ty::View { utf8: r.bool() },
            _ => if r.chance(1, 3) { Ty::Null } else { Ty::Fixed(4) },
        }
    } else {
        let c = Box::new(gen_ty(r, depth - 1));
        match r.below(8) {
            0 | 1 => Ty::List { large: r.bool(), nullable: r.chance(3, 4), c },
            2 => Ty::ListView { large: r.bool(), nullable: true, c },
            3 => Ty::FixedList { n: r.below(4) as i32, nullable: r.chance(3, 4), c },
            4 => { let k = 1 + r.below(3); Ty::Struct((0..k).map(|_| (r.chance(3, 4), gen_ty(r, depth - 1))).collect()) }
            5 => Ty::Dict { kw: *r.pick(&[1, 2, 4, 8]), signed: r.bool(), v: c },
            6 => Ty::Ree { rw: *r.pick(&[2, 4, 8]), v: c },
            _ => { let k = 1 + r.below(3); let mut ids: Vec<i8> = vec![0, 3, 5, 7, 9, 120]; let mut fs = Vec::new();
                   for _ in 0..k { let i = r.below(ids.len()); fs.push((ids.remove(i), gen_ty(r, depth - 1))) } Ty::Union { dense: r.bool(), fs } }
        }
    }
}

/// A layout valid under the format specification, with offsets, padding and garbage under nulls.
pub fn gen_valid(r: &mut Rng, ty: &Ty, len: usize, no_nulls: bool) -> Node {
    let off = if r.chance(1, 2) { 0 } else { r.below(11) };
    let n = off + len;
    let slack = if r.chance(1, 3) { r.below(9) } else { 0 };
    let nulls = gen_nulls(r, off, len, no_nulls || matches!(ty, Ty::Null | Ty::Ree { .. } | Ty::Union { .. }));
    let mut node = Node { ty: ty.clone(), len, off, nulls, bufs: vec![], kids: vec![] };
    match ty {
        Ty::Null => {}
        Ty::Bool => node.bufs.push(r.bytes((n + 7) / 8 + slack)),
        Ty::Fixed(w) => node.bufs.push(r.bytes(n * w + slack)),
        Ty::FixedBin(s) => node.bufs.push(r.bytes(n * (*s as usize) + slack)),
        Ty::Bin { large, utf8 } => {
            let w = if *large { 8 } else { 4 };
            let strs = rand_strings(r, n, *utf8);
            let lead = if r.chance(1, 4) { rand_strings(r, 1, *utf8).concat() } else { vec![] };
            let mut data = lead.clone(); let mut offs = vec![0u8; (n + 1) * w];
            // slots before `off` hold arbitrary (even decreasing) offsets only in slack area; keep them monotone for simplicity
            let mut cur = lead.len();
            for i in 0..=n { put_le(&mut offs, w, i, cur as i128); if i < n { data.extend_from_slice(&strs[i]); cur += strs[i].len() } }
            if r.chance(1, 4) { data.extend(rand_strings(r, 1, *utf8).concat()) }
            if len == 0 && r.chance(1, 3) { offs.clear() }
            node.bufs.push(offs); node.bufs.push(data);
        }
        Ty::View { utf8 } => {
            let nb = r.below(3);
            let mut data: Vec<Vec<u8>> = (0..nb).map(|_| Vec::new()).collect();
            let mut views = vec![0u8; n * 16 + slack];
            for i in 0..n {
                let mut s = rand_strings(r, 1, *utf8).concat();
                if nb > 0 && r.chance(1, 2) { while s.len() <= 12 { s.extend_from_slice(b"pad!") } }
                if s.len() > 12 && nb == 0 { s.truncate(12); if *utf8 { while std::str::from_utf8(&s).is_err() { s.pop(); } } }
                let mut v: u128 = s.len() as u128;
                if s.len() <= 12 { for (k, b) in s.iter().enumerate() { v |= (*b as u128) << (32 + 8 * k) } }
                else { let bi = r.below(nb); let o = data[bi].len(); data[bi].extend_from_slice(&s);
                       v |= (u32::from_le_bytes(s[..4].try_into().unwrap()) as u128) << 32; v |= (bi as u128) << 64; v |= (o as u128) << 96 }
                put_le(&mut views, 16, i, v as i128);
            }
            node.bufs.push(views); node.bufs.extend(data);
        }
        Ty::List { large, nullable, c } => {
            let w = if *large { 8 } else { 4 };
            let mut offs = vec![0u8; (n + 1) * w]; let mut cur = r.below(3);
            for i in 0..=n { put_le(&mut offs, w, i, cur as i128); cur += r.below(4) }
            let child_len = cur + r.below(3);
            if len == 0 && r.chance(1, 3) { offs.clear() }
            node.bufs.push(offs);
            node.kids.push(gen_valid(r, c, child_len, !*nullable));
        }
        Ty::ListView { large, c, .. } => {
            let w = if *large { 8 } else { 4 };
            let child_len = r.below(12);
            let mut offs = vec![0u8; n * w + slack]; let mut sizes = vec![0u8; n * w + slack];
            for i in 0..n { let o = r.below(child_len + 1); let s = r.below(child_len - o + 1); put_le(&mut offs, w, i, o as i128); put_le(&mut sizes, w, i, s as i128) }
            node.bufs.push(offs); node.bufs.push(sizes);
            node.kids.push(gen_valid(r, c, child_len, false));
        }
        Ty::FixedList { n: s, nullable, c } => {
            let child_len = n * (*s as usize) + r.below(3);
            let mut k = gen_valid(r, c, child_len, false);
            if !*nullable { // child nulls only under parent nulls
                if let Some(kn) = &mut k.nulls {
                    for i in 0..child_len { let parent_slot = if *s > 0 { i / (*s as usize) } else { 0 };
                        let under_null = parent_slot >= off && parent_slot < n && !is_valid(&node.nulls, parent_slot - off);
                        if !under_null { kn.bytes[(kn.off + i) / 8] |= 1 << ((kn.off + i) % 8) } }
                    kn.count = (0..kn.len).filter(|i| (kn.bytes[(kn.off + i) / 8] >> ((kn.off + i) % 8)) & 1 == 0).count();
                    if kn.count == 0 && r.bool() { k.nulls = None }
                }
            }
            node.kids.push(k);
        }
        Ty::Struct(fs) => {
            for (nb, t) in fs {
                let ex = r.below(3);
                let mut k = gen_valid(r, t, n + ex, false);
                if !*nb { if let Some(kn) = &mut k.nulls {
                    for i in 0..kn.len { let under_null = i >= off && i < n && !is_valid(&node.nulls, i - off);
                        if !under_null { kn.bytes[(kn.off + i) / 8] |= 1 << ((kn.off + i) % 8) } }
                    kn.count = (0..kn.len).filter(|i| (kn.bytes[(kn.off + i) / 8] >> ((kn.off + i) % 8)) & 1 == 0).count();
                } }
                node.kids.push(k);
            }
        }
        Ty::Dict { kw, signed, v } => {
            let maxk: usize = if *kw == 1 { if *signed { 127 } else { 255 } } else { 1000 };
            let dlen = r.below(6.min(maxk));
            let mut keys = r.bytes(n * kw + slack);
            // slots before off: garbage is fine; valid slots in [off, n) need in-range keys
            for i in 0..len { if is_valid(&node.nulls, i) { if dlen == 0 { /* no valid slot possible */ } else { put_le(&mut keys, *kw, off + i, r.below(dlen) as i128) } } }
            if dlen == 0 && len > 0 { // every slot must be null
                let bytes = vec![0u8; (n + 7) / 8]; node.nulls = Some(Nulls { bytes, off, len, count: len });
            }
            node.bufs.push(keys);
            node.kids.push(gen_valid(r, v, dlen, false));
        }
        Ty::Ree { rw, v } => {
            let runs = if n == 0 { r.below(2) } else { 1 + r.below(4) };
            let mut ends = vec![0u8; runs * rw]; let mut cur = 0usize;
            for i in 0..runs { cur += 1 + r.below(4); if i + 1 == runs && cur < n { cur = n + r.below(3) } put_le(&mut ends, *rw, i, cur as i128) }
            node.kids.push(Node { ty: Ty::Fixed(*rw), len: runs, off: 0, nulls: None, bufs: vec![ends], kids: vec![] });
            let mut vals = gen_valid(r, v, runs, false);
            if vals.off != 0 && r.bool() { vals = gen_valid(r, v, runs, false) }
            node.kids.push(vals);
        }
        Ty::Union { dense, fs } => {
            let mut ids = vec![0u8; n + slack];
            for i in 0..ids.len() { ids[i] = fs[r.below(fs.len())].0 as u8 }
            node.bufs.push(ids.clone());
            if *dense {
                let lens: Vec<usize> = fs.iter().map(|_| 1 + r.below(4)).collect();
                let mut offs = vec![0u8; n * 4 + slack];
                for i in 0..n { let ci = fs.iter().position(|(id, _)| *id as u8 == ids[i]).unwrap(); put_le(&mut offs, 4, i, r.below(lens[ci]) as i128) }
                node.bufs.push(offs);
                for (i, (_, t)) in fs.iter().enumerate() { node.kids.push(gen_valid(r, t, lens[i], false)) }
            } else {
                for (_, t) in fs { let ex = r.below(2); node.kids.push(gen_valid(r, t, n + ex, false)) }
            }
        }
    }
    node
}

// ------------------------------------------------------------------ mutations (near-valid layouts)
fn count_nodes(n: &Node) -> usize { 1 + n.kids.iter().map(count_nodes).sum::<usize>() }
fn nth_node<'a>(n: &'a mut Node, i: &mut usize) -> Option<&'a mut Node> {
    if *i == 0 { return Some(n) }
    *i -= 1;
    for k in n.kids.iter_mut() { if let Some(x) = nth_node(k, i) { return Some(x) } }
    None
}
/// Applies one mutation from the catalogue; returns its name ("none" when not applicable).
pub fn mutate(r: &mut Rng, root: &mut Node) -> &'static str {
    let total = count_nodes(root);
    let mut idx = r.below(total);
    let n = nth_node(root, &mut idx).unwrap();
    let w_of = |t: &Ty| match t { Ty::Bin { large, .. } | Ty::List { large, .. } | Ty::ListView { large, .. } => if *large { 8 } else { 4 }, Ty::Dict { kw, .. } => *kw, Ty::Fixed(w) => *w, Ty::View { .. } => 16, _ => 1 };
    match r.below(22) {
        0 => { n.len += 1 + r.below(3); "len_plus" }
        1 => { n.off += 1 + r.below(3); "off_plus" }
        2 => { if let Some(b) = n.bufs.first_mut() { if !b.is_empty() { let k = 1 + r.below(b.len().min(5)); b.truncate(b.len() - k); return "buf0_short" } } "none" }
        3 => { if n.bufs.len() > 1 { let b = n.bufs.last_mut().unwrap(); if !b.is_empty() { let k = 1 + r.below(b.len().min(3)); b.truncate(b.len() - k); return "lastbuf_short" } } "none" }
        4 => { // one offset/key/type id/view word rewritten
            let w = w_of(&n.ty);
            if let Some(b) = n.bufs.first_mut() { let slots = b.len() / w; if slots > 0 { let i = r.below(slots);
                let v: i128 = match r.below(6) { 0 => -1, 1 => 0, 2 => 1, 3 => 127, 4 => i32::MAX as i128, _ => r.below(40) as i128 };
                put_le(b, w, i, v); return "slot_rewrite" } } "none" }
        5 => { if let Some(x) = &mut n.nulls { if x.count > 0 && r.bool() { x.count -= 1 } else { x.count += 1 } return "null_count" } "none" }
        6 => { if let Some(x) = &mut n.nulls { if !x.bytes.is_empty() { x.bytes.pop(); return "bitmap_short" } } "none" }
        7 => { if let Some(x) = &mut n.nulls { x.len += 1; return "nulls_len" } "none" }
        8 => { if !n.kids.is_empty() { let i = r.below(n.kids.len()); let k = &mut n.kids[i]; if k.len > 0 { k.len -= 1 + r.below(k.len.min(2)); return "child_shorter" } } "none" }
        9 => { if !n.kids.is_empty() { let i = r.below(n.kids.len()); n.kids.remove(i); return "child_dropped" } "none" }
        10 => { if !n.kids.is_empty() { let k = n.kids[0].clone(); n.kids.push(k); return "child_extra" } "none" }
        11 => { if !n.kids.is_empty() { let i = r.below(n.kids.len()); let k = &mut n.kids[i];
                 k.ty = match &k.ty { Ty::Fixed(4) => Ty::Fixed(8), Ty::Bin { large, utf8 } => Ty::Bin { large: *large, utf8: !*utf8 }, Ty::List { large, nullable, c } => Ty::List { large: *large, nullable: !*nullable, c: c.clone() }, _ => Ty::Fixed(4) };
                 return "child_type" } "none" }
        12 => { n.bufs.push(vec![1, 2, 3]); "buf_extra" }
        13 => { if !n.bufs.is_empty() { n.bufs.pop(); return "buf_dropped" } "none" }
        14 => { // make a non-nullable child contain a null / add nulls to a type that cannot have them
            if n.nulls.is_none() && n.len > 0 { let bytes = vec![0xFEu8; (n.off + n.len + 7) / 8];
                let count = (0..n.len).filter(|i| (bytes[(n.off + i) / 8] >> ((n.off + i) % 8)) & 1 == 0).count();
                n.nulls = Some(Nulls { bytes, off: n.off, len: n.len, count }); return "nulls_added" } "none" }
        15 => { // corrupt a values byte (UTF-8 boundary cases) in the last buffer
            if n.bufs.len() >= 2 { let b = n.bufs.last_mut().unwrap(); if !b.is_empty() { let i = r.below(b.len()); b[i] = *r.pick(&[0x80u8, 0xC0, 0xFF, 0xE0, 0xF8, 0xED]); return "data_byte" } } "none" }
        16 => { if let Ty::View { .. } = n.ty { if n.bufs[0].len() >= 16 { let slots = n.bufs[0].len() / 16; let i = r.below(slots);
                 match r.below(4) { 0 => { n.bufs[0][i * 16] = 13 } 1 => { n.bufs[0][i * 16 + 8] = n.bufs.len() as u8 } 2 => { n.bufs[0][i * 16 + 15] |= 0x40 } _ => { n.bufs[0][i * 16 + 4] ^= 0x55 } }
                 return "view_word" } } "none" }
        17 => { if let Ty::Ree { rw, .. } = n.ty { let k = &mut n.kids[0]; if k.len > 0 { let i = r.below(k.len);
                 let v: i128 = match r.below(4) { 0 => 0, 1 => -3, 2 => 1, _ => 1000 }; put_le(&mut k.bufs[0], rw, i, v); return "run_end" } } "none" }
        18 => { if let Ty::Ree { .. } = n.ty { n.len += 1 + r.below(6); return "ree_len_beyond_runs" } "none" }
        19 => { if let Ty::Union { .. } = n.ty { if !n.bufs[0].is_empty() { let i = r.below(n.bufs[0].len()); n.bufs[0][i] = *r.pick(&[1u8, 2, 200, 0x80]); return "type_id" } } "none" }
        20 => { if let Ty::Union { dense: true, .. } = n.ty { if n.bufs.len() > 1 && n.bufs[1].len() >= 4 { let i = r.below(n.bufs[1].len() / 4); put_le(&mut n.bufs[1], 4, i, *r.pick(&[-1i128, 4, 5, 100])); return "dense_offset" } } "none" }
        _ => { if let Some(x) = &mut n.nulls { x.off += 1 + r.below(8); return "nulls_off" } "none" }
    }
}

/// try_new takes the validity as raw bytes at the array's own offset and recounts nulls itself
fn normalise_for_try_new(n: &mut Node) {
    if let Some(x) = &mut n.nulls {
        x.off = n.off; x.len = n.len;
        if x.bytes.len() * 8 >= x.off + x.len {
            x.count = (0..x.len).filter(|i| (x.bytes[(x.off + i) / 8] >> ((x.off + i) % 8)) & 1 == 0).count();
            if x.count == 0 { n.nulls = None }   // build() drops an all-valid bitmap
        }
    }
    for k in n.kids.iter_mut() { normalise_for_try_new(k) }
}
/// ArrayDataBuilder (checked and unchecked) drops a validity bitmap whose cached null count is 0
fn normalise_for_builder(n: &mut Node) {
    if n.nulls.as_ref().map_or(false, |x| x.count == 0) { n.nulls = None }
    for k in n.kids.iter_mut() { normalise_for_builder(k) }
}
fn has_nulls_misfit(n: &Node) -> bool {
    // NullBuffer's constructor asserts off+len <= 8*bytes: such a state cannot be built through safe code
    n.nulls.as_ref().map_or(false, |x| x.off + x.len > 8 * x.bytes.len()) || n.kids.iter().any(has_nulls_misfit)
}

pub fn generate(tier: &str, r: &mut Rng, emit: &mut dyn FnMut(Case)) {
    let n = if tier == "thorough" { 40000 } else { 4000 };
    for _ in 0..n {
        let ty = gen_ty(r, 2);
        let len = if r.chance(1, 8) { 0 } else { r.below(9) };
        let mut node = gen_valid(r, &ty, len, false);
        let nm = match r.below(10) { 0 | 1 => 0, 2..=7 => 1, _ => 2 };
        let mut names = Vec::new();
        for _ in 0..nm { names.push(mutate(r, &mut node)) }
        let path = r.below(3);
        if path == 0 { normalise_for_try_new(&mut node) } else { normalise_for_builder(&mut node) }
        if path != 0 && has_nulls_misfit(&node) { continue }
        let mut args: Args = vec![g(path)];
        encode(&node, &mut args);
        let mut tenc = Vec::new(); enc_ty(&node.ty, &mut tenc);
        let tag = format!("p{path} t{}.{} m{}", tenc[0], tenc.get(1).copied().unwrap_or(0), names.join("+"));
        emit(Case::new("c09.validate", args.clone(), &["c09.validate"], tag.clone()));
        emit(Case::new("c09.accepts", args.clone(), &["c09.accepts.spec"], tag.clone()));
        if path != 1 { emit(Case::new("c09.panel", args, &["c09.panel.post1"], tag)); }
    }
}
