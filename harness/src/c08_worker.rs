// ---------------------------------------------------------------------------------------------
// Worker protocol.  Parent: run_batch(jobs) writes case files, spawns `harness replay <file>` children
// (env C08_CHILD=<progress file>) under `ulimit -v`, collects one progress line per finished case,
// classifies the case a child died on as Abort and restarts after it.  Child: run_local() executes
// the op in a watchdog thread under catch_unwind and appends `idx \t output` to the progress file.
// ---------------------------------------------------------------------------------------------
use std::collections::HashMap;
use std::io::Write as _;
use std::sync::{Mutex, OnceLock};
use std::time::Duration;

static CACHE: OnceLock<Mutex<HashMap<(u64, u64), Args>>> = OnceLock::new();
static PANIC_LOC: Mutex<String> = Mutex::new(String::new());
static CHILD_IDX: Mutex<usize> = Mutex::new(0);
static TIMED_OUT: std::sync::atomic::AtomicBool = std::sync::atomic::AtomicBool::new(false);
fn cache() -> &'static Mutex<HashMap<(u64, u64), Args>> { CACHE.get_or_init(|| Mutex::new(HashMap::new())) }
fn key(op: &str, a: &Args) -> (u64, u64) {
    use std::hash::{Hash, Hasher};
    let s = fmt_args(a);
    let mut h1 = std::collections::hash_map::DefaultHasher::new(); (1u8, op, &s).hash(&mut h1);
    let mut h2 = std::collections::hash_map::DefaultHasher::new(); (2u8, &s, op).hash(&mut h2);
    (h1.finish(), h2.finish())
}

// Address-space cap of a worker child.  The child's baseline is ~60 MB (text, data, stacks), which leaves ~40 MB for
// allocations: anything larger fails at once (graceful Err where the code uses try_* allocation, abort otherwise)
// instead of being slowly zero-filled, so that outcomes do not depend on the machine's memory speed.
const VLIMIT_KB: u64 = 100_000;
fn watchdog_ms() -> u64 { std::env::var("C08_WATCHDOG_MS").ok().and_then(|s| s.parse().ok()).unwrap_or(5000) }

/// Stable class of a panic: source file (path below the repository) + message up to the first digit.
fn panic_class(file: &str, msg: &str) -> String {
    let f = file.rsplit("/src/").next().map(|t| { let pre = &file[..file.len() - t.len() - 5]; format!("{}/src/{}", pre.rsplit('/').next().unwrap_or(""), t) }).unwrap_or_else(|| file.to_string());
    let m: String = msg.chars().take_while(|c| !c.is_ascii_digit()).take(48).collect();
    format!("{f}|{}", m.trim())
}

fn install_hook() {
    static ONCE: OnceLock<()> = OnceLock::new();
    ONCE.get_or_init(|| {
        std::panic::set_hook(Box::new(|info| {
            let msg = if let Some(s) = info.payload().downcast_ref::<&str>() { s.to_string() } else if let Some(s) = info.payload().downcast_ref::<String>() { s.clone() } else { String::new() };
            let loc = info.location().map(|l| (l.file().to_string(), l.line())).unwrap_or_default();
            if std::env::var("C08_TRACE").is_ok() { eprintln!("C08 panic at {}:{}: {}", loc.0, loc.1, msg.chars().take(160).collect::<String>()); }
            *PANIC_LOC.lock().unwrap() = panic_class(&loc.0, &msg);
        }));
    });
}

/// Execute `f` in the (persistent) worker thread with a watchdog.  Ok(x) | Err(code, location).
/// One thread for all cases of a child: a thread per case would let glibc's cache of freed thread stacks eat
/// the address-space cap.  After a timeout the worker is lost; the child process exits and is restarted.
type AnyBox = Box<dyn std::any::Any + Send>;
type Job = Box<dyn FnOnce() -> AnyBox + Send>;
struct Worker { tx: std::sync::mpsc::Sender<Job>, rx: std::sync::mpsc::Receiver<Result<AnyBox, String>> }
static WORKER: OnceLock<Mutex<Worker>> = OnceLock::new();
fn guarded<T: Send + 'static>(f: impl FnOnce() -> T + Send + 'static) -> Result<T, (i64, String)> {
    install_hook();
    let w = WORKER.get_or_init(|| {
        let (tx, jrx) = std::sync::mpsc::channel::<Job>();
        let (rtx, rx) = std::sync::mpsc::channel();
        std::thread::Builder::new().stack_size(8 << 20).spawn(move || {
            for job in jrx {
                let r = std::panic::catch_unwind(std::panic::AssertUnwindSafe(job));
                if rtx.send(r.map_err(|_| PANIC_LOC.lock().unwrap().clone())).is_err() { break }
            }
        }).expect("spawn");
        Mutex::new(Worker { tx, rx })
    });
    let g = w.lock().unwrap();
    g.tx.send(Box::new(move || Box::new(f()) as AnyBox)).expect("worker alive");
    match g.rx.recv_timeout(Duration::from_millis(watchdog_ms())) {
        Ok(Ok(b)) => Ok(*b.downcast::<T>().expect("result type")),
        Ok(Err(loc)) => Err((PANIC, loc)),
        Err(_) => { TIMED_OUT.store(true, std::sync::atomic::Ordering::SeqCst); Err((TIMEOUT, String::new())) }
    }
}

/// largest node length in an array tree: trees with absurd lengths (possible for valid Null / zero-width layouts) are
/// not dumped, the extracted validator works with unary lengths
fn max_len(d: &arrow_data::ArrayData) -> usize { d.child_data().iter().map(max_len).fold(d.len().saturating_add(d.offset()), usize::max) }

fn outcome_args(code: i64, ncols: usize, loc: &str) -> Args { vec![g(code), g(ncols as i64), gbytes(loc.as_bytes())] }

/// In-process execution of one op (child side, or parent when C08_INPROC is set for debugging).
fn run_local(op: &str, a: &Args) -> Option<Args> {
    let out: Args = match op {
        "c08.outcome" | "c08.column" => {
            let kind = to_i64(&a[0]); let bytes = to_u8s(&a[1]); let aux = to_i64s(&a[2]);
            let want = if op == "c08.column" { Some(to_usize(&a[3])) } else { None };
            let r = guarded(move || read_input(kind, &bytes, &aux).map(|cs| {
                // dumps are produced inside the guard: accessing a malformed array may itself panic
                match want { None => (cs.len(), None), Some(i) => (cs.len(), cs.get(i).filter(|c| max_len(&c.to_data()) <= 1_000_000).and_then(|c| {
                    // an array the implementation's own full validation rejects is reported without its (possibly absurd) tree:
                    // [[0]] is not a dump, c01.valid.post1 answers -3, i.e. a violation
                    if c.to_data().validate_full().is_err() { Some(vec![g(0)]) } else { c01::dump(c.as_ref()) } })) }
            }));
            match (r, want) {
                (Ok(Ok((n, _))), None) => outcome_args(OK, n, ""),
                (Ok(Ok((_, Some(d)))), Some(_)) => d,
                (Ok(Ok((_, None))), Some(_)) => skip(),
                (Ok(Err(())), None) => outcome_args(ERR, 0, ""),
                (Err((code, loc)), None) => outcome_args(code, 0, &loc),
                (Err(_), Some(_)) => vec![g(0)],     // dumping / validating the returned array panicked or hung
                (_, Some(_)) => skip(),
            }
        }
        _ => match probe_local(op, a) { Some(o) => o, None => return None },
    };
    Some(out)
}

fn is_timeout(o: &Args) -> bool { o.len() >= 1 && o[0].len() == 1 && o[0][0] == BigInt::from(TIMEOUT) && o.len() == 3 }

/// Child entry: called from run() when C08_CHILD is set.
fn run_child(op: &str, a: &Args, progress: &str) -> Option<Args> {
    let out = run_local(op, a)?;
    let idx = { let mut i = CHILD_IDX.lock().unwrap(); let v = *i; *i += 1; v };
    let mut f = std::fs::OpenOptions::new().create(true).append(true).open(progress).expect("progress");
    writeln!(f, "{}\t{}", idx, fmt_args(&out)).unwrap();
    f.flush().unwrap();
    // after a timeout the worker thread is lost (still running): exit with code 3 and let the parent restart us
    if TIMED_OUT.load(std::sync::atomic::Ordering::SeqCst) { std::process::exit(3) }
    Some(out)
}

fn spawn_child(file: &str, progress: &str, wd_ms: u64) -> Option<std::process::ExitStatus> {
    let exe = std::env::current_exe().expect("exe");
    let cmd = format!("ulimit -v {VLIMIT_KB}; ulimit -c 0; exec '{}' replay '{}'", exe.display(), file);
    let mut ch = std::process::Command::new("sh").arg("-c").arg(cmd)
        .env("C08_CHILD", progress).env("C08_WATCHDOG_MS", wd_ms.to_string()).env("RUST_BACKTRACE", "0")
        // one malloc arena: under the address-space cap glibc cannot reserve per-thread arenas (64 MB each) and would
        // retry the failing mmap on every allocation of the worker thread
        .env("MALLOC_ARENA_MAX", "1")
        .stdin(std::process::Stdio::null()).stdout(std::process::Stdio::null())
        .stderr(if std::env::var("C08_TRACE").is_ok() { std::process::Stdio::inherit() } else { std::process::Stdio::null() })
        .spawn().expect("spawn child");
    // parent-side guard: the child must keep making progress
    let mut last = (0u64, std::time::Instant::now());
    loop {
        if let Ok(Some(st)) = ch.try_wait() { return Some(st) }
        std::thread::sleep(Duration::from_millis(5));
        let sz = std::fs::metadata(progress).map(|m| m.len()).unwrap_or(0);
        if sz != last.0 { last = (sz, std::time::Instant::now()) }
        if last.1.elapsed() > Duration::from_millis(wd_ms * 3 + 5000) { let _ = ch.kill(); let _ = ch.wait(); return None }
    }
}

fn read_progress(progress: &str) -> Vec<Args> {
    let s = std::fs::read_to_string(progress).unwrap_or_default();
    let mut v = Vec::new();
    for line in s.lines() {
        let mut it = line.splitn(2, '\t');
        let (Some(i), Some(o)) = (it.next(), it.next()) else { break };
        if i.parse::<usize>().ok() != Some(v.len()) || !o.ends_with(';') { break }
        v.push(parse_args(o));
    }
    v
}

/// Run jobs[lo..] sequentially in children; returns one output per job.
fn run_chunk(id: usize, jobs: &[(String, Args)], wd_ms: u64) -> Vec<Args> {
    let dir = std::env::temp_dir().join(format!("c08-{}-{}", std::process::id(), id));
    std::fs::create_dir_all(&dir).unwrap();
    let mut res: Vec<Args> = Vec::with_capacity(jobs.len());
    let mut round = 0;
    while res.len() < jobs.len() {
        let lo = res.len();
        let file = dir.join(format!("r{round}.cases")); let prog = dir.join(format!("r{round}.out")); round += 1;
        {
            let mut f = std::io::BufWriter::new(std::fs::File::create(&file).unwrap());
            for (i, (op, a)) in jobs[lo..].iter().enumerate() { writeln!(f, "{}:{}\t{}\t{}", i, op, op, fmt_args(a)).unwrap(); }
        }
        let st = spawn_child(file.to_str().unwrap(), prog.to_str().unwrap(), wd_ms);
        let done = read_progress(prog.to_str().unwrap());
        let ndone = done.len();
        res.extend(done);
        if res.len() < jobs.len() {
            let after_timeout = matches!(st, Some(s) if s.code() == Some(3)) && ndone > 0;
            if !after_timeout {
                // the child died (signal / non-zero exit / killed by the parent guard) on job res.len()
                use std::os::unix::process::ExitStatusExt;
                let sig = st.and_then(|s| s.signal()).unwrap_or(0) as i64;
                let code = st.and_then(|s| s.code()).unwrap_or(-1) as i64;
                let op = &jobs[res.len()].0;
                let o = if st.is_none() { outcome_args(TIMEOUT, 0, "") } else { vec![g(ABORT), g(0), gs(&[sig, code])] };
                // a dump that kills the child (validation / dump of a malformed returned array crashed) is a violation too
                res.push(if op == "c08.column" { vec![g(0)] } else { o });
            }
        }
        let _ = std::fs::remove_file(&file); let _ = std::fs::remove_file(&prog);
    }
    let _ = std::fs::remove_dir_all(&dir);
    res
}

/// Parent: run all jobs in parallel worker children and memoise the results.
pub fn run_batch(jobs: Vec<(String, Args)>) -> Vec<Args> { let wd = watchdog_ms(); run_batch_wd(jobs, wd, wd * 6) }
/// first pass with watchdog `first_ms`; a timeout is confirmed by a solo re-run with `confirm_ms` before it is reported
pub fn run_batch_wd(jobs: Vec<(String, Args)>, first_ms: u64, confirm_ms: u64) -> Vec<Args> {
    let nw = std::env::var("C08_WORKERS").ok().and_then(|s| s.parse().ok()).unwrap_or(8usize).max(1);
    let n = jobs.len();
    let per = (n + nw - 1) / nw.max(1);
    let mut out: Vec<Args> = Vec::with_capacity(n);
    if n > 0 {
        let chunks: Vec<&[(String, Args)]> = jobs.chunks(per.max(1)).collect();
        let results: Vec<Vec<Args>> = std::thread::scope(|s| {
            let hs: Vec<_> = chunks.iter().enumerate().map(|(i, c)| s.spawn(move || run_chunk(i, c, first_ms))).collect();
            hs.into_iter().map(|h| h.join().expect("worker")).collect()
        });
        for r in results { out.extend(r) }
    }
    // a timeout is confirmed by a re-run in its own child with the long watchdog before it is reported
    // (machine load must not turn a slow case into a violation)
    let tmo: Vec<usize> = (0..n).filter(|i| is_timeout(&out[*i])).collect();
    for group in tmo.chunks(nw) {
        let again: Vec<Args> = std::thread::scope(|s| {
            let hs: Vec<_> = group.iter().map(|&i| { let j = &jobs[i..i + 1]; s.spawn(move || run_chunk(1000 + i, j, confirm_ms).remove(0)) }).collect();
            hs.into_iter().map(|h| h.join().expect("worker")).collect()
        });
        for (k, &i) in group.iter().enumerate() { out[i] = again[k].clone(); }
    }
    let mut c = cache().lock().unwrap();
    for (i, (op, a)) in jobs.iter().enumerate() { c.insert(key(op, a), out[i].clone()); }
    out
}

pub fn run(op: &str, a: &Args) -> Option<Args> {
    if !matches!(op, "c08.outcome" | "c08.column" | "c08.thrift_meta" | "c08.schema_probe" | "c08.avro_longs" | "c08.ipc_batch" | "c08.dict_read") { return None }
    if let Ok(p) = std::env::var("C08_CHILD") { return run_child(op, a, &p) }
    if std::env::var("C08_INPROC").is_ok() { return run_local(op, a) }
    if let Some(o) = cache().lock().unwrap().get(&key(op, a)) { return Some(o.clone()) }
    Some(run_batch(vec![(op.to_string(), a.clone())]).remove(0))
}
