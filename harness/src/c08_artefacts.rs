// ---------------------------------------------------------------------------------------------
// Valid seed artefacts of every format (small: <= ~12 rows), produced by the real writers.
// ---------------------------------------------------------------------------------------------
use arrow_array::builder::{Int32Builder, MapBuilder, StringBuilder};
use arrow_array::types::{Int32Type, Int8Type};
use arrow_array::*;
use crate::c09;

fn opt<T>(r: &mut Rng, v: T) -> Option<T> { if r.chance(1, 5) { None } else { Some(v) } }
fn word(r: &mut Rng) -> String {
    let pool = ["", "a", "xyz", "héllo", "日本", "a,b", "q\"uote", "longer string value 0123456789", "\u{1F600}", "NULL", "nul"];
    if r.chance(1, 4) { let n = r.below(6); (0..n).map(|_| (b'a' + r.below(26) as u8) as char).collect() } else { r.pick(&pool).to_string() }
}

pub fn col(r: &mut Rng, id: usize, n: usize, name: &str) -> (Field, ArrayRef) {
    let (dt, arr): (DataType, ArrayRef) = match id {
        0 => (DataType::Int32, Arc::new(Int32Array::from((0..n).map(|_| { let v = r.range(-1000, 1000) as i32; opt(r, v) }).collect::<Vec<_>>()))),
        1 => (DataType::Utf8, Arc::new(StringArray::from((0..n).map(|_| { let v = word(r); opt(r, v) }).collect::<Vec<_>>()))),
        2 => (DataType::Boolean, Arc::new(BooleanArray::from((0..n).map(|_| { let v = r.bool(); opt(r, v) }).collect::<Vec<_>>()))),
        3 => (DataType::Float64, Arc::new(Float64Array::from((0..n).map(|_| { let v = r.range(-5000, 5000) as f64 / 8.0; opt(r, v) }).collect::<Vec<_>>()))),
        4 => (DataType::Int64, Arc::new(Int64Array::from((0..n).map(|_| r.next() as i64 >> r.below(60)).collect::<Vec<_>>()))),
        5 => (DataType::Binary, Arc::new(BinaryArray::from_iter((0..n).map(|_| { let k = r.below(7); let v = r.bytes(k); opt(r, v) })))),
        6 => (DataType::List(Arc::new(Field::new("item", DataType::Int32, true))),
              Arc::new(ListArray::from_iter_primitive::<Int32Type, _, _>((0..n).map(|_| { let k = r.below(4); let v: Vec<Option<i32>> = (0..k).map(|_| { let x = r.range(-9, 9) as i32; opt(r, x) }).collect(); opt(r, v) })))),
        7 => {
            let fs = Fields::from(vec![Field::new("x", DataType::Int16, true), Field::new("y", DataType::Utf8, true)]);
            let x: ArrayRef = Arc::new(Int16Array::from((0..n).map(|_| { let v = r.range(-99, 99) as i16; opt(r, v) }).collect::<Vec<_>>()));
            let y: ArrayRef = Arc::new(StringArray::from((0..n).map(|_| { let v = word(r); opt(r, v) }).collect::<Vec<_>>()));
            let nulls = arrow_buffer::NullBuffer::from((0..n).map(|_| !r.chance(1, 6)).collect::<Vec<bool>>());
            (DataType::Struct(fs.clone()), Arc::new(StructArray::new(fs, vec![x, y], Some(nulls))))
        }
        8 => {
            let pool = ["red", "green", "blue", "a much longer dictionary value"];
            let v: Vec<Option<&str>> = (0..n).map(|_| { let s = *r.pick(&pool); opt(r, s) }).collect();
            (DataType::Dictionary(Box::new(DataType::Int8), Box::new(DataType::Utf8)), Arc::new(v.into_iter().collect::<DictionaryArray<Int8Type>>()))
        }
        9 => (DataType::Timestamp(TimeUnit::Microsecond, Some("UTC".into())),
              Arc::new(TimestampMicrosecondArray::from((0..n).map(|_| { let v = r.range(0, 2_000_000_000_000_000); opt(r, v) }).collect::<Vec<_>>()).with_timezone("UTC"))),
        10 => (DataType::Decimal128(10, 2), Arc::new(Decimal128Array::from((0..n).map(|_| { let v = r.range(-99999999, 99999999) as i128; opt(r, v) }).collect::<Vec<_>>()).with_precision_and_scale(10, 2).unwrap())),
        11 => (DataType::FixedSizeBinary(3), Arc::new(FixedSizeBinaryArray::try_from_sparse_iter_with_size((0..n).map(|_| { let v = r.bytes(3); opt(r, v) }), 3).unwrap())),
        12 => (DataType::LargeUtf8, Arc::new(LargeStringArray::from((0..n).map(|_| { let v = word(r); opt(r, v) }).collect::<Vec<_>>()))),
        13 => (DataType::Utf8View, Arc::new(StringViewArray::from_iter((0..n).map(|_| { let v = word(r); opt(r, v) })))),
        14 => (DataType::Date32, Arc::new(Date32Array::from((0..n).map(|_| { let v = r.range(-20000, 40000) as i32; opt(r, v) }).collect::<Vec<_>>()))),
        15 => (DataType::Float32, Arc::new(Float32Array::from((0..n).map(|_| { let v = r.range(-500, 500) as f32 / 4.0; opt(r, v) }).collect::<Vec<_>>()))),
        16 => {
            let mut b = MapBuilder::new(None, StringBuilder::new(), Int32Builder::new());
            for _ in 0..n {
                let k = r.below(3);
                for j in 0..k { b.keys().append_value(format!("k{j}")); let v = r.range(-5, 5) as i32; b.values().append_option(opt(r, v)); }
                b.append(!r.chance(1, 6)).unwrap();
            }
            let a = b.finish();
            (a.data_type().clone(), Arc::new(a))
        }
        _ => (DataType::UInt16, Arc::new(UInt16Array::from((0..n).map(|_| { let v = r.below(65536) as u16; opt(r, v) }).collect::<Vec<_>>()))),
    };
    (Field::new(name, dt, true), arr)
}

pub fn mk_batch(r: &mut Rng, ids: &[usize], n: usize) -> RecordBatch {
    let mut fs = Vec::new(); let mut cs = Vec::new();
    for (i, id) in ids.iter().enumerate() { let (f, c) = col(r, *id, n, &format!("c{i}")); fs.push(f); cs.push(c); }
    RecordBatch::try_new(Arc::new(Schema::new(fs)), cs).expect("batch")
}

/// a batch of random (possibly exotic: union, run-end, views, dictionary, list-view) columns in
/// the physical layouts of the C09 valid-layout generator
pub fn mk_exotic_batch(r: &mut Rng, ncols: usize, n: usize) -> Option<RecordBatch> {
    let mut fs = Vec::new(); let mut cs = Vec::new();
    for i in 0..ncols {
        let ty = c09::gen_ty(r, 2);
        let node = c09::gen_valid(r, &ty, n, false);
        let d = c09::build_try_new(&node)?;
        let a = make_array(d);
        fs.push(Field::new(format!("e{i}"), a.data_type().clone(), true)); cs.push(a);
    }
    RecordBatch::try_new(Arc::new(Schema::new(fs)), cs).ok()
}

fn pick_ids(r: &mut Rng, pool: &[usize], k: usize) -> Vec<usize> { (0..k).map(|_| *r.pick(pool)).collect() }

pub struct Artefact { pub kind_family: &'static str, pub bytes: Vec<u8>, pub aux: Vec<i64>, pub label: String }

thread_local! { static QUIET_GEN: std::cell::Cell<bool> = std::cell::Cell::new(false); }
fn quietly<T>(f: impl FnOnce() -> Option<T>) -> Option<T> { std::panic::catch_unwind(std::panic::AssertUnwindSafe(f)).ok().flatten() }

pub fn ipc_artefact(r: &mut Rng, stream: bool) -> Option<Artefact> {
    use arrow_ipc::writer::{FileWriter, IpcWriteOptions, StreamWriter};
    let exotic = r.chance(1, 2);
    let n = 2 + r.below(8);
    let ncols = 2 + r.below(3);
    let all: Vec<usize> = (0..18).collect();
    let ids = pick_ids(r, &all, ncols);
    let mut r3 = r.clone(); let _ = r.next();
    // exotic layouts may be rejected (or panic) in RecordBatch::slice / the writer: such artefacts are skipped
    let (b1, b2) = quietly(move || Some(if exotic {
        let b = mk_exotic_batch(&mut r3, ncols, n)?; let b2 = b.slice(0, n / 2); (b, b2)
    } else { let b = mk_batch(&mut r3, &ids, n); let b2 = b.slice(1, n - 1); (b, b2) }))?;
    let comp = r.below(4);
    let mut seed2 = r.clone();
    quietly(move || {
        let mut opts = IpcWriteOptions::default();
        opts = match comp { 1 => opts.try_with_compression(Some(arrow_ipc::CompressionType::LZ4_FRAME)).ok()?, 2 => opts.try_with_compression(Some(arrow_ipc::CompressionType::ZSTD)).ok()?, _ => opts };
        let _ = seed2.next();
        let bytes = if stream {
            let mut w = StreamWriter::try_new_with_options(Vec::new(), &b1.schema(), opts).ok()?;
            w.write(&b1).ok()?; w.write(&b2).ok()?; w.finish().ok()?; w.into_inner().ok()?
        } else {
            let mut w = FileWriter::try_new_with_options(Vec::new(), &b1.schema(), opts).ok()?;
            w.write_metadata("k", "v");
            w.write(&b1).ok()?; w.write(&b2).ok()?; w.finish().ok()?; w.into_inner().ok()?
        };
        Some(Artefact { kind_family: if stream { "ipc_stream" } else { "ipc_file" }, bytes, aux: vec![0], label: format!("ipc{}c{comp}{}", stream as u8, if exotic { "x" } else { "" }) })
    })
}

pub fn flight_artefact(r: &mut Rng) -> Option<Artefact> {
    let n = 2 + r.below(6);
    let k = 2 + r.below(2); let ids = pick_ids(r, &(0..18).collect::<Vec<_>>(), k);
    let ex = r.bool(); let mut r3 = r.clone(); let _ = r.next();
    let b = quietly(move || if ex { mk_exotic_batch(&mut r3, 2, n) } else { Some(mk_batch(&mut r3, &ids, n)) })?;
    quietly(move || {
        let fds = arrow_flight::utils::batches_to_flight_data(&b.schema(), vec![b.clone()]).ok()?;
        let mut bytes = Vec::new();
        for fd in fds {
            bytes.extend((fd.data_header.len() as u32).to_le_bytes()); bytes.extend(fd.data_header.iter());
            bytes.extend((fd.data_body.len() as u32).to_le_bytes()); bytes.extend(fd.data_body.iter());
        }
        Some(Artefact { kind_family: "flight", bytes, aux: vec![0], label: "flight".into() })
    })
}

pub fn parquet_artefact(r: &mut Rng) -> Option<Artefact> {
    use parquet::basic::{BrotliLevel, Compression, Encoding, GzipLevel, ZstdLevel};
    use parquet::file::properties::{EnabledStatistics, WriterProperties, WriterVersion};
    let n = 3 + r.below(10);
    let pool: Vec<usize> = (0..18).collect();
    let k = 1 + r.below(4); let ids = pick_ids(r, &pool, k);
    let b = mk_batch(r, &ids, n);
    let comp = r.below(7); let enc = r.below(6); let v2 = r.bool(); let dict = r.bool(); let stats = r.below(3); let bloom = r.chance(1, 4); let small_pages = r.bool(); let rg = r.bool();
    quietly(move || {
        let mut p = WriterProperties::builder()
            .set_compression(match comp { 1 => Compression::SNAPPY, 2 => Compression::ZSTD(ZstdLevel::default()), 3 => Compression::LZ4_RAW, 4 => Compression::GZIP(GzipLevel::default()), 5 => Compression::BROTLI(BrotliLevel::default()), 6 => Compression::LZ4, _ => Compression::UNCOMPRESSED })
            .set_writer_version(if v2 { WriterVersion::PARQUET_2_0 } else { WriterVersion::PARQUET_1_0 })
            .set_dictionary_enabled(dict)
            .set_statistics_enabled(match stats { 0 => EnabledStatistics::None, 1 => EnabledStatistics::Chunk, _ => EnabledStatistics::Page })
            .set_bloom_filter_enabled(bloom);
        if !dict {
            // a non-default value encoding is only legal for some physical types: fall back per column on writer error
            p = match enc { 1 => p.set_encoding(Encoding::DELTA_BINARY_PACKED), 2 => p.set_encoding(Encoding::DELTA_LENGTH_BYTE_ARRAY), 3 => p.set_encoding(Encoding::DELTA_BYTE_ARRAY), 4 => p.set_encoding(Encoding::BYTE_STREAM_SPLIT), _ => p };
        }
        if small_pages { p = p.set_data_page_row_count_limit(3).set_write_batch_size(2).set_data_page_size_limit(16); }
        if rg { p = p.set_max_row_group_row_count(Some(4)); }
        let write = |props: WriterProperties| -> Option<Vec<u8>> {
            // a value encoding that is illegal for some column type makes the writer fail (Err or panic): fall back
            QUIET_GEN.with(|q| q.set(true));
            let r = std::panic::catch_unwind(std::panic::AssertUnwindSafe(|| {
                let mut w = parquet::arrow::ArrowWriter::try_new(Vec::new(), b.schema(), Some(props)).ok()?;
                w.write(&b).ok()?;
                w.into_inner().ok()
            })).ok().flatten();
            QUIET_GEN.with(|q| q.set(false));
            r
        };
        let bytes = write(p.build()).or_else(|| write(WriterProperties::builder().build()))?;
        Some(Artefact { kind_family: "parquet", bytes, aux: vec![0], label: format!("pq c{comp} e{enc} v{} d{} s{stats}", v2 as u8, dict as u8) })
    })
}

pub fn avro_artefact(r: &mut Rng) -> Option<Artefact> {
    use arrow_avro::compression::CompressionCodec;
    let n = 2 + r.below(8);
    let pool = [0usize, 1, 2, 3, 4, 5, 6, 7, 15];
    let k = 1 + r.below(4); let ids = pick_ids(r, &pool, k);
    let b = mk_batch(r, &ids, n);
    let comp = r.below(4);
    let mut r2 = r.clone();
    let simple = mk_batch(&mut r2, &[0, 1, 4], n);
    quietly(move || {
        let write = |b: &RecordBatch| -> Option<Vec<u8>> {
            let codec = match comp { 1 => Some(CompressionCodec::Deflate), 2 => Some(CompressionCodec::Snappy), 3 => Some(CompressionCodec::ZStandard), _ => None };
            let mut w = arrow_avro::writer::WriterBuilder::new(b.schema().as_ref().clone()).with_compression(codec)
                .build::<_, arrow_avro::writer::format::AvroOcfFormat>(Vec::new()).ok()?;
            w.write(b).ok()?; w.write(&b.slice(0, 1)).ok()?; w.finish().ok()?;
            Some(w.into_inner())
        };
        let bytes = write(&b).or_else(|| write(&simple))?;
        Some(Artefact { kind_family: "avro", bytes, aux: vec![0], label: format!("avro c{comp}") })
    })
}

fn csv_cell(r: &mut Rng, dt: &DataType) -> String {
    if r.chance(1, 6) { return String::new() }
    match dt {
        DataType::Int32 | DataType::Int64 => r.range(-100000, 100000).to_string(),
        DataType::UInt8 => r.below(256).to_string(),
        DataType::Float64 => format!("{}", r.range(-9999, 9999) as f64 / 16.0),
        DataType::Boolean => (if r.bool() { "true" } else { "false" }).to_string(),
        DataType::Timestamp(_, _) => format!("20{:02}-0{}-1{}T0{}:1{}:2{}", r.below(30), 1 + r.below(9), r.below(9), r.below(9), r.below(9), r.below(9)),
        DataType::Decimal128(_, _) => format!("{}.{:03}", r.range(-99999, 99999), r.below(1000)),
        DataType::Date32 => format!("19{:02}-1{}-0{}", 70 + r.below(30), r.below(3), 1 + r.below(9)),
        _ => { let w = word(r); if w.contains(',') || w.contains('"') { format!("\"{}\"", w.replace('"', "\"\"")) } else { w } }
    }
}

pub fn csv_artefact(r: &mut Rng) -> Artefact {
    let sid = r.below(2) as i64;
    let sch = text_schema(sid);
    let mut s = sch.fields().iter().map(|f| f.name().clone()).collect::<Vec<_>>().join(",") + "\n";
    for _ in 0..(1 + r.below(10)) {
        let row: Vec<String> = sch.fields().iter().map(|f| { let mut c = csv_cell(r, f.data_type()); if c.is_empty() && !f.is_nullable() { c = "7".into() } c }).collect();
        s += &(row.join(",") + if r.chance(1, 8) { "\r\n" } else { "\n" });
    }
    Artefact { kind_family: "csv", bytes: s.into_bytes(), aux: vec![sid], label: format!("csv{sid}") }
}

fn json_val(r: &mut Rng, dt: &DataType) -> String {
    if r.chance(1, 7) { return "null".into() }
    match dt {
        DataType::Int32 | DataType::Int64 | DataType::Int16 => r.range(-30000, 30000).to_string(),
        DataType::UInt8 => r.below(256).to_string(),
        DataType::Float64 => format!("{}", r.range(-9999, 9999) as f64 / 16.0),
        DataType::Boolean => (if r.bool() { "true" } else { "false" }).to_string(),
        DataType::Timestamp(_, _) => format!("\"20{:02}-0{}-1{}T0{}:1{}:2{}\"", r.below(30), 1 + r.below(9), r.below(9), r.below(9), r.below(9), r.below(9)),
        DataType::Decimal128(_, _) => format!("{}.{:03}", r.range(-99999, 99999), r.below(1000)),
        DataType::Date32 => format!("\"19{:02}-1{}-0{}\"", 70 + r.below(30), r.below(3), 1 + r.below(9)),
        DataType::List(f) => { let k = r.below(4); format!("[{}]", (0..k).map(|_| json_val(r, f.data_type())).collect::<Vec<_>>().join(",")) }
        DataType::Struct(fs) => format!("{{{}}}", fs.iter().map(|f| format!("\"{}\":{}", f.name(), json_val(r, f.data_type()))).collect::<Vec<_>>().join(",")),
        DataType::Map(_, _) => { let k = r.below(3); format!("{{{}}}", (0..k).map(|i| format!("\"k{i}\":{}", r.range(-5, 5))).collect::<Vec<_>>().join(",")) }
        _ => serde_json::to_string(&word(r)).unwrap(),
    }
}

pub fn json_artefact(r: &mut Rng) -> Artefact {
    let sid = r.below(3) as i64;
    let sch = text_schema(sid);
    let mut s = String::new();
    for _ in 0..(1 + r.below(8)) {
        let mut row: Vec<String> = Vec::new();
        for f in sch.fields().iter() {
            if !(f.name() == "c" && !f.is_nullable()) && r.chance(1, 8) { continue }
            let mut v = json_val(r, f.data_type()); if v == "null" && !f.is_nullable() { v = "7".into() }
            row.push(format!("\"{}\":{}", f.name(), v));
        }
        s += &format!("{{{}}}\n", row.join(if r.chance(1, 6) { " , " } else { "," }));
    }
    Artefact { kind_family: "json", bytes: s.into_bytes(), aux: vec![sid], label: format!("json{sid}") }
}

fn variant_fill_list(r: &mut Rng, l: &mut parquet_variant::ListBuilder<'_, impl parquet_variant::BuilderSpecificState>, depth: usize) {
    for _ in 0..r.below(5) {
        match r.below(if depth > 2 { 8 } else { 10 }) {
            0 => l.append_value(r.range(-100, 100) as i8), 1 => l.append_value(r.range(-100000, 100000) as i32), 2 => l.append_value(r.next() as i64),
            3 => l.append_value(word(r).as_str()), 4 => l.append_value(r.bool()), 5 => l.append_value(()), 6 => l.append_value(1.5f64 * r.below(100) as f64),
            7 => l.append_value("a string longer than sixty-three bytes so that it is not stored as a short string........"),
            8 => { let mut o = l.new_object(); variant_fill_obj(r, &mut o, depth + 1); o.finish(); }
            _ => { let mut s = l.new_list(); variant_fill_list(r, &mut s, depth + 1); s.finish(); }
        }
    }
}
fn variant_fill_obj(r: &mut Rng, o: &mut parquet_variant::ObjectBuilder<'_, impl parquet_variant::BuilderSpecificState>, depth: usize) {
    let names = ["a", "b", "name", "zeta", "key with spaces", "k5", "k6"];
    let k = r.below(5); let start = r.below(3);
    for i in 0..k {
        let nm = names[(start + i) % names.len()];
        match r.below(if depth > 2 { 5 } else { 7 }) {
            0 => o.insert(nm, r.range(-100, 100) as i16), 1 => o.insert(nm, word(r).as_str()), 2 => o.insert(nm, r.bool()), 3 => o.insert(nm, r.next() as i64), 4 => o.insert(nm, ()),
            5 => { let mut c = o.new_object(nm); variant_fill_obj(r, &mut c, depth + 1); c.finish(); }
            _ => { let mut c = o.new_list(nm); variant_fill_list(r, &mut c, depth + 1); c.finish(); }
        }
    }
}

pub fn variant_artefact(r: &mut Rng) -> Option<Artefact> {
    let mut r2 = r.clone(); let _ = r.next();
    quietly(move || {
        let r = &mut r2;
        let mut b = parquet_variant::VariantBuilder::new();
        match r.below(4) {
            0 => { let mut o = b.new_object(); variant_fill_obj(r, &mut o, 0); o.finish(); }
            1 => { let mut l = b.new_list(); variant_fill_list(r, &mut l, 0); l.finish(); }
            2 => b.append_value(word(r).as_str()),
            _ => b.append_value(r.next() as i64),
        }
        let (m, v) = b.finish();
        let split = m.len() as i64;
        let mut bytes = m; bytes.extend(v);
        Some(Artefact { kind_family: "variant", bytes, aux: vec![split], label: "variant".into() })
    })
}
