// ---------------------------------------------------------------------------------------------
// Probes that tie the Coq models of the guards to the real decoders through the public API.
// Non-normal outcomes use outcome_args(code, ..): [[2],..] panic, [[3],..] timeout, [[4],..] abort.
// ---------------------------------------------------------------------------------------------
fn pq_err(e: &parquet::errors::ParquetError) -> Args {
    match e { parquet::errors::ParquetError::EOF(_) => err(E_EOF), _ => err(E_INVALID) }
}
fn probe_schema_descr() -> parquet::schema::types::SchemaDescPtr {
    let t = parquet::schema::parser::parse_message_type("message r { required int32 a; }").expect("schema");
    Arc::new(parquet::schema::types::SchemaDescriptor::new(Arc::new(t)))
}

/// Avro OCF header of the probe files: schema record r { v: long }, codec null, fixed sync marker.
pub const AVRO_SYNC: [u8; 16] = [0xA0, 0xA1, 0xA2, 0xA3, 0xA4, 0xA5, 0xA6, 0xA7, 0xA8, 0xA9, 0xAA, 0xAB, 0xAC, 0xAD, 0xAE, 0xAF];
pub fn avro_probe_header() -> Vec<u8> {
    let schema = br#"{"type":"record","name":"r","fields":[{"name":"v","type":"long"}]}"#;
    let zz = |v: i64| uleb(((v << 1) ^ (v >> 63)) as u64);
    let mut h = b"Obj\x01".to_vec();
    h.extend(zz(2));
    for (k, v) in [(&b"avro.schema"[..], &schema[..]), (&b"avro.codec"[..], &b"null"[..])] { h.extend(zz(k.len() as i64)); h.extend(k); h.extend(zz(v.len() as i64)); h.extend(v); }
    h.extend(zz(0));
    h.extend(AVRO_SYNC);
    h
}

/// schema code -> field;  0 Int32, 1 Utf8, 2 List<Int32>, 3 Struct{Int32}, 4 Null, 5 Boolean, 6 FixedSizeList<Int32,2>, 7 LargeBinary
pub fn ipc_probe_field(code: i64, i: usize) -> Field {
    let int = || Arc::new(Field::new("item", DataType::Int32, true));
    let dt = match code {
        0 => DataType::Int32, 1 => DataType::Utf8, 2 => DataType::List(int()),
        3 => DataType::Struct(Fields::from(vec![Field::new("x", DataType::Int32, true)])),
        4 => DataType::Null, 5 => DataType::Boolean, 6 => DataType::FixedSizeList(int(), 2), _ => DataType::LargeBinary,
    };
    Field::new(format!("f{i}"), dt, true)
}

fn probe_local(op: &str, a: &Args) -> Option<Args> {
    match op {
        "c08.dict_read" => {
            let bytes = to_u8s(&a[0]); let expected = to_i64s(&a[1]); let ty = to_i64(&a[2]);
            let n = expected.len();
            let r = guarded(move || dict_read(&bytes, &expected, ty));
            Some(match r { Ok(Ok(code)) => outcome_args(code, n, ""), Ok(Err(())) => outcome_args(ERR, 0, ""), Err((code, loc)) => outcome_args(code, 0, &loc) })
        }
        "c08.thrift_meta" => {
            let bytes = to_u8s(&a[0]);
            let r = guarded(move || {
                let opts = parquet::file::metadata::ParquetMetaDataOptions::new().with_schema(probe_schema_descr());
                match parquet::file::metadata::ParquetMetaDataReader::decode_metadata_with_options(&bytes, Some(&opts)) {
                    Ok(md) => { let f = md.file_metadata();
                        vec![g(0), g(f.version()), g(f.num_rows()), g(f.created_by().is_some() as u8), gbytes(f.created_by().unwrap_or("").as_bytes()), g(md.num_row_groups() as i64)] }
                    Err(e) => pq_err(&e),
                }
            });
            Some(match r { Ok(o) => o, Err((code, loc)) => outcome_args(code, 0, &loc) })
        }
        "c08.schema_probe" => {
            let bytes = to_u8s(&a[0]);
            let r = guarded(move || match parquet::file::metadata::ParquetMetaDataReader::decode_schema(&bytes) {
                Ok(sd) => vec![g(0), g(sd.num_columns() as i64), gbytes(sd.root_schema().name().as_bytes()),
                               gbytes(if sd.num_columns() > 0 { sd.column(0).name().as_bytes().to_vec() } else { vec![] }.as_slice())],
                Err(e) => pq_err(&e),
            });
            Some(match r { Ok(o) => o, Err((code, loc)) => outcome_args(code, 0, &loc) })
        }
        "c08.avro_longs" => {
            let mut bytes = avro_probe_header(); bytes.extend(to_u8s(&a[0]));
            let r = guarded(move || {
                let rd = match arrow_avro::reader::ReaderBuilder::new().build(Cursor::new(bytes)) { Ok(r) => r, Err(_) => return err(E_INVALID) };
                let mut vals: Vec<i64> = Vec::new();
                for b in rd {
                    match b { Ok(b) => { let c = b.column(0).as_any().downcast_ref::<Int64Array>().expect("long column"); vals.extend(c.values().iter()) } Err(_) => return err(E_INVALID) }
                }
                vec![g(0), gs(&vals)]
            });
            Some(match r { Ok(o) => o, Err((code, loc)) => outcome_args(code, 0, &loc) })
        }
        "c08.ipc_batch" => {
            let codes = to_i64s(&a[0]); let nodes = to_i64s(&a[1]); let bufs = to_i64s(&a[2]); let body_len = to_usize(&a[3]); let length = to_i64(&a[4]);
            let r = guarded(move || {
                let mut fbb = flatbuffers::FlatBufferBuilder::new();
                let ns: Vec<arrow_ipc::FieldNode> = nodes.chunks(2).map(|c| arrow_ipc::FieldNode::new(c[0], c[1])).collect();
                let bs: Vec<arrow_ipc::Buffer> = bufs.chunks(2).map(|c| arrow_ipc::Buffer::new(c[0], c[1])).collect();
                let nv = fbb.create_vector(&ns); let bv = fbb.create_vector(&bs);
                let mut b = arrow_ipc::RecordBatchBuilder::new(&mut fbb);
                b.add_length(length); b.add_nodes(nv); b.add_buffers(bv);
                let root = b.finish();
                fbb.finish(root, None);
                let data = fbb.finished_data().to_vec();
                let batch = flatbuffers::root::<arrow_ipc::RecordBatch>(&data).expect("own flatbuffer");
                let schema = Arc::new(Schema::new(codes.iter().enumerate().map(|(i, c)| ipc_probe_field(*c, i)).collect::<Vec<_>>()));
                let body = Buffer::from(vec![0u8; body_len]);
                match arrow_ipc::reader::read_record_batch(&body, batch, schema, &HashMap::new(), None, &arrow_ipc::MetadataVersion::V5) {
                    Ok(rb) => vec![g(OK), g(rb.num_rows() as i64)],
                    Err(_) => vec![g(ERR)],
                }
            });
            Some(match r { Ok(o) => o, Err((code, loc)) => outcome_args(code, 0, &loc) })
        }
        _ => None,
    }
}
