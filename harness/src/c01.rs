//! C01 — every array returned by a safe API is well formed: a panel of real kernels is run on
//! inputs in every physical layout (from the C09 valid-layout generator), the returned arrays are
//! dumped physically and the extracted specification validator (coq spec_valid) must accept them.
use crate::c09::{self, Node, Nulls, Ty};
use crate::util::*;
use arrow_array::{make_array, Array, ArrayRef, BooleanArray, UInt32Array};
use arrow_data::transform::MutableArrayData;
use arrow_data::ArrayData;
use arrow_schema::{DataType, IntervalUnit, SortOptions, UnionMode};
use num_bigint::BigInt;

pub fn from_dt(dt: &DataType) -> Option<Ty> {
    use DataType::*;
    Some(match dt {
        Null => Ty::Null,
        Boolean => Ty::Bool,
        Int8 | UInt8 => Ty::Fixed(1),
        Int16 | UInt16 | Float16 => Ty::Fixed(2),
        Int32 | UInt32 | Float32 | Date32 | Time32(_) | Decimal32(_, _) | Interval(IntervalUnit::YearMonth) => Ty::Fixed(4),
        Int64 | UInt64 | Float64 | Date64 | Time64(_) | Timestamp(_, _) | Duration(_) | Decimal64(_, _) | Interval(IntervalUnit::DayTime) => Ty::Fixed(8),
        Decimal128(_, _) | Interval(IntervalUnit::MonthDayNano) => Ty::Fixed(16),
        Decimal256(_, _) => Ty::Fixed(32),
        FixedSizeBinary(n) => Ty::FixedBin(*n),
        Binary => Ty::Bin { large: false, utf8: false },
        LargeBinary => Ty::Bin { large: true, utf8: false },
        Utf8 => Ty::Bin { large: false, utf8: true },
        LargeUtf8 => Ty::Bin { large: true, utf8: true },
        BinaryView => Ty::View { utf8: false },
        Utf8View => Ty::View { utf8: true },
        List(f) => Ty::List { large: false, nullable: f.is_nullable(), c: Box::new(from_dt(f.data_type())?) },
        LargeList(f) => Ty::List { large: true, nullable: f.is_nullable(), c: Box::new(from_dt(f.data_type())?) },
        Map(f, _) => Ty::List { large: false, nullable: f.is_nullable(), c: Box::new(from_dt(f.data_type())?) },
        ListView(f) => Ty::ListView { large: false, nullable: f.is_nullable(), c: Box::new(from_dt(f.data_type())?) },
        LargeListView(f) => Ty::ListView { large: true, nullable: f.is_nullable(), c: Box::new(from_dt(f.data_type())?) },
        FixedSizeList(f, n) => Ty::FixedList { n: *n, nullable: f.is_nullable(), c: Box::new(from_dt(f.data_type())?) },
        Struct(fs) => Ty::Struct(fs.iter().map(|f| Some((f.is_nullable(), from_dt(f.data_type())?))).collect::<Option<Vec<_>>>()?),
        Dictionary(k, v) => {
            let (kw, signed) = match k.as_ref() { Int8 => (1, true), Int16 => (2, true), Int32 => (4, true), Int64 => (8, true), UInt8 => (1, false), UInt16 => (2, false), UInt32 => (4, false), UInt64 => (8, false), _ => return None };
            Ty::Dict { kw, signed, v: Box::new(from_dt(v)?) }
        }
        RunEndEncoded(r, v) => { let rw = match r.data_type() { Int16 => 2, Int32 => 4, Int64 => 8, _ => return None }; Ty::Ree { rw, v: Box::new(from_dt(v.data_type())?) } }
        Union(fs, mode) => Ty::Union { dense: *mode == UnionMode::Dense, fs: fs.iter().map(|(id, f)| Some((id, from_dt(f.data_type())?))).collect::<Option<Vec<_>>>()? },
    })
}

/// Physical dump of a real array.
pub fn from_data(d: &ArrayData) -> Option<Node> {
    let ty = from_dt(d.data_type())?;
    let nulls = d.nulls().map(|n| Nulls { bytes: n.validity().to_vec(), off: n.offset(), len: n.len(), count: n.null_count() });
    let kids = d.child_data().iter().map(from_data).collect::<Option<Vec<_>>>()?;
    Some(Node { ty, len: d.len(), off: d.offset(), nulls, bufs: d.buffers().iter().map(|b| b.as_slice().to_vec()).collect(), kids })
}

/// [validate_full verdict] ++ tree
pub fn dump(a: &dyn Array) -> Option<Args> {
    let d = a.to_data();
    // the specification validator counts lengths in (unary, once extracted) `nat`: an array whose logical length is
    // huge (e.g. a run array whose single run end is i32::MAX) cannot be evaluated by it; such outputs are not compared
    fn too_long(d: &arrow_data::ArrayData) -> bool { d.len().saturating_add(d.offset()) > (1 << 20) || d.child_data().iter().any(too_long) }
    if too_long(&d) { return None; }
    let node = from_data(&d)?;
    let vf = d.validate_full();
    if let (Err(e), true) = (&vf, std::env::var("VERIF_PANIC_MSG").is_ok()) { eprintln!("validate_full of a returned array: {e}"); }
    let mut out: Args = vec![g(vf.is_ok() as u8)];
    c09::encode(&node, &mut out);
    Some(out)
}

/// Builders: params = [builder kind, then ops: 0 v = append value derived from v, 1 = append null, 2 n = n nulls,
/// 3 = finish_cloned (result discarded, keeps building), 4 v n = append the value n times]
fn builder_script(params: &[i64]) -> ArrayRef {
    use arrow_array::builder::*;
    use arrow_array::types::{Int32Type, Int8Type};
    let kind = params[0];
    let ops = &params[1..];
    let s_of = |v: i64| -> String { let alpha = ["", "a", "é", "😀", "0123456789abc", "xyz"]; format!("{}{}", alpha[(v as usize) % alpha.len()], v) };
    macro_rules! run { ($b:expr, $val:expr, $null:expr) => {{
        let mut b = $b; let mut i = 0;
        while i < ops.len() { match ops[i] {
            0 => { let v = ops.get(i + 1).copied().unwrap_or(0); $val(&mut b, v); i += 2 }
            1 => { $null(&mut b); i += 1 }
            2 => { let n = ops.get(i + 1).copied().unwrap_or(0); for _ in 0..n { $null(&mut b) } i += 2 }
            3 => { let _ = b.finish_cloned(); i += 1 }
            _ => { let v = ops.get(i + 1).copied().unwrap_or(0); let n = ops.get(i + 2).copied().unwrap_or(0); for _ in 0..n { $val(&mut b, v) } i += 3 }
        } }
        std::sync::Arc::new(b.finish()) as ArrayRef
    }}; }
    match kind {
        0 => run!(Int32Builder::new(), |b: &mut Int32Builder, v: i64| b.append_value(v as i32), |b: &mut Int32Builder| b.append_null()),
        1 => run!(StringBuilder::new(), |b: &mut StringBuilder, v: i64| b.append_value(s_of(v)), |b: &mut StringBuilder| b.append_null()),
        2 => run!(ListBuilder::new(Int32Builder::new()), |b: &mut ListBuilder<Int32Builder>, v: i64| { for k in 0..(v % 4) { if k == 2 { b.values().append_null() } else { b.values().append_value((v + k) as i32) } } b.append(true) }, |b: &mut ListBuilder<Int32Builder>| b.append(false)),
        3 => run!(StringDictionaryBuilder::<Int8Type>::new(), |b: &mut StringDictionaryBuilder<Int8Type>, v: i64| { let _ = b.append(s_of(v % 7)); }, |b: &mut StringDictionaryBuilder<Int8Type>| b.append_null()),
        4 => run!(BooleanBuilder::new(), |b: &mut BooleanBuilder, v: i64| b.append_value(v % 2 == 0), |b: &mut BooleanBuilder| b.append_null()),
        5 => run!(StringViewBuilder::new().with_fixed_block_size(32), |b: &mut StringViewBuilder, v: i64| b.append_value(s_of(v)), |b: &mut StringViewBuilder| b.append_null()),
        6 => run!(FixedSizeBinaryBuilder::new(3), |b: &mut FixedSizeBinaryBuilder, v: i64| { let _ = b.append_value([v as u8, 1, 2]); }, |b: &mut FixedSizeBinaryBuilder| b.append_null()),
        7 => run!(PrimitiveDictionaryBuilder::<Int8Type, Int32Type>::new(), |b: &mut PrimitiveDictionaryBuilder<Int8Type, Int32Type>, v: i64| { let _ = b.append((v % 9) as i32); }, |b: &mut PrimitiveDictionaryBuilder<Int8Type, Int32Type>| b.append_null()),
        8 => run!(LargeBinaryBuilder::new(), |b: &mut LargeBinaryBuilder, v: i64| b.append_value(s_of(v).as_bytes()), |b: &mut LargeBinaryBuilder| b.append_null()),
        10 | 11 => { // view builders incl. append_array of another view array while a long value is still un-flushed
            let mut other = StringViewBuilder::new().with_fixed_block_size(64);
            for k in 0..5 { if k % 2 == 0 { other.append_value(format!("long-value-number-{k}-xxxxxxxxxxxxxxxx")) } else { other.append_value("s") } }
            let other = other.finish();
            let mut b = if kind == 10 { StringViewBuilder::new() } else { StringViewBuilder::new().with_fixed_block_size(40) };
            let mut i = 0;
            while i < ops.len() { match ops[i] {
                0 => { let v = ops.get(i + 1).copied().unwrap_or(0); b.append_value(format!("{}{}", if v % 2 == 0 { "a-value-longer-than-twelve-bytes-" } else { "" }, v)); i += 2 }
                1 => { b.append_null(); i += 1 }
                2 => { b.append_array(&other); i += 2 }
                3 => { let _ = b.finish_cloned(); i += 1 }
                _ => { let o = ops.get(i + 1).copied().unwrap_or(0) as usize % 5; b.append_array(&other.slice(o, 5 - o)); i += 3 }
            } }
            std::sync::Arc::new(b.finish()) as ArrayRef
        }
        _ => run!(FixedSizeListBuilder::new(Int32Builder::new(), 2), |b: &mut FixedSizeListBuilder<Int32Builder>, v: i64| { b.values().append_value(v as i32); b.values().append_null(); b.append(true) }, |b: &mut FixedSizeListBuilder<Int32Builder>| { b.values().append_null(); b.values().append_null(); b.append(false) }),
    }
}

fn decode_inputs(a: &Args, start: usize, n: usize) -> Option<Vec<ArrayRef>> {
    let rest: Args = a[start..].to_vec();
    let mut p = 0; let mut v = Vec::new();
    for _ in 0..n { let node = c09::decode(&rest, &mut p); v.push(make_array(c09::build_try_new(&node)?)) }
    Some(v)
}
fn bool_mask(r: &mut Rng, n: usize) -> Vec<i64> { let dens = r.below(5); (0..n).map(|_| match dens { 0 => 0, 1 => 1, _ => if r.chance(1, 6) { 2 } else { r.bool() as i64 } }).collect() }
fn to_bool_array(v: &[i64]) -> BooleanArray { v.iter().map(|x| match x { 0 => Some(false), 1 => Some(true), _ => None }).collect() }
fn to_idx_array(v: &[i64]) -> UInt32Array { v.iter().map(|x| if *x < 0 { None } else { Some(*x as u32) }).collect() }

pub fn run(op: &str, a: &Args) -> Option<Args> {
    if op != "c01.kernel" { return None }
    let k = to_usize(&a[0]);
    let params = to_i64s(&a[1]);
    let nin = to_usize(&a[2]);
    // building the typed input arrays may itself panic for nested Struct layouts that carry offsets (known
    // finding F3: ArrayData::slice and StructArray::from apply the offset twice): no call, nothing to check
    let ins = match std::panic::catch_unwind(std::panic::AssertUnwindSafe(|| decode_inputs(a, 3, nin))) { Ok(Some(v)) => v, _ => return Some(skip()) };
    // F83: ArrayData validation looks only at the null BUFFER of a non-nullable child; a Dictionary / RunEndEncoded
    // child whose VALUES contain nulls is accepted under a non-nullable field although its logical rows are null.
    // Kernels that materialise the logical values (row-format decode) then return a plain non-nullable child with
    // nulls. Such inputs are logically inconsistent with their own schema: not fed to the panel.
    fn nonnull_fields_ok(a: &dyn Array) -> bool {
        let d = a.to_data();
        let fields: Vec<bool> = match d.data_type() {
            DataType::Struct(fs) => fs.iter().map(|f| f.is_nullable()).collect(),
            DataType::List(f) | DataType::LargeList(f) | DataType::ListView(f) | DataType::LargeListView(f) | DataType::FixedSizeList(f, _) | DataType::Map(f, _) => vec![f.is_nullable()],
            DataType::Union(fs, _) => fs.iter().map(|(_, f)| f.is_nullable()).collect(),
            DataType::RunEndEncoded(_, v) => vec![false, v.is_nullable()],
            DataType::Dictionary(_, _) => vec![true],
            _ => vec![],
        };
        d.child_data().iter().enumerate().all(|(i, c)| {
            let ca = make_array(c.clone());
            (fields.get(i).copied().unwrap_or(true) || ca.logical_null_count() == 0) && nonnull_fields_ok(ca.as_ref())
        })
    }
    if !ins.iter().all(|x| std::panic::catch_unwind(std::panic::AssertUnwindSafe(|| nonnull_fields_ok(x.as_ref()))).unwrap_or(false)) { return Some(skip()) }
    // C01 constrains what a safe operation RETURNS; a (safe) panic returns nothing: skipped, not a violation
    let out = std::panic::catch_unwind(std::panic::AssertUnwindSafe(|| run_kernel(k, &params, &ins)));
    match out { Ok(Some(Ok(o))) => Some(dump(o.as_ref()).unwrap_or_else(skip)), _ => Some(skip()) }
}

fn run_kernel(k: usize, params: &[i64], ins: &[ArrayRef]) -> Option<Result<ArrayRef, arrow_schema::ArrowError>> {
    let x = &ins[0];
    let out: Result<ArrayRef, arrow_schema::ArrowError> = match k {
        0 => { let o = (params[0] as usize).min(x.len()); let l = (params[1] as usize).min(x.len() - o); Ok(x.slice(o, l)) }
        1 => arrow_select::take::take(x.as_ref(), &to_idx_array(params), None),
        2 => arrow_select::filter::filter(x.as_ref(), &to_bool_array(params)),
        3 => arrow_select::concat::concat(&ins.iter().map(|y| y.as_ref()).collect::<Vec<_>>()),
        4 => { let idx: Vec<(usize, usize)> = params.chunks(2).map(|c| (c[0] as usize, c[1] as usize)).collect();
               arrow_select::interleave::interleave(&ins.iter().map(|y| y.as_ref()).collect::<Vec<_>>(), &idx) }
        5 => arrow_select::nullif::nullif(x.as_ref(), &to_bool_array(params)),
        6 => arrow_select::window::shift(x.as_ref(), params[0]),
        7 => arrow_ord::sort::sort(x.as_ref(), Some(SortOptions { descending: params[0] != 0, nulls_first: params[1] != 0 })),
        8 => arrow_ord::sort::sort_limit(x.as_ref(), None, Some(params[0] as usize)),
        9 => { // MutableArrayData: extend by ranges and nulls
            let datas: Vec<ArrayData> = ins.iter().map(|y| y.to_data()).collect();
            let mut m = MutableArrayData::new(datas.iter().collect(), true, 0);
            for c in params.chunks(3) { let i = c[0] as usize; if c[0] < 0 { m.extend_nulls(c[1] as usize) } else { let s = (c[1] as usize).min(datas[i].len()); let e = (c[2] as usize).clamp(s, datas[i].len()); m.extend(i, s, e) } }
            Ok(make_array(m.freeze()))
        }
        10 => { let to = match params[0] { 0 => DataType::Utf8, 1 => DataType::LargeUtf8, 2 => DataType::Utf8View, 3 => DataType::Int64, 4 => DataType::Binary,
                    5 => DataType::Dictionary(Box::new(DataType::Int32), Box::new(x.data_type().clone())), 6 => DataType::BinaryView, _ => DataType::Float64 };
                if arrow_cast::can_cast_types(x.data_type(), &to) { arrow_cast::cast(x.as_ref(), &to) } else { return None } }
        11 => { // row format round trip
            let conv = arrow_row::RowConverter::new(vec![arrow_row::SortField::new(x.data_type().clone())]);
            match conv { Ok(c) => c.convert_columns(&[x.clone()]).and_then(|rows| c.convert_rows(rows.iter())).map(|mut v| v.remove(0)), Err(_) => return None } }
        12 => arrow_select::zip::zip(&to_bool_array(params), &ins[0], &ins[1]),
        13 => Ok(builder_script(params)),
        14 => { // garbage collection of view arrays (null slots may hold long views)
            use arrow_array::cast::AsArray;
            match x.data_type() { DataType::Utf8View => Ok(std::sync::Arc::new(x.as_string_view().gc()) as ArrayRef), DataType::BinaryView => Ok(std::sync::Arc::new(x.as_binary_view().gc()) as ArrayRef), _ => return None } }
        15 => { // Dictionary<Int8, Binary> whose values are pieces of UTF-8 text cut at arbitrary byte positions, cast to text types
            use arrow_array::{BinaryArray, DictionaryArray, Int8Array};
            let text = "aé€😀ßxyz日本".as_bytes();
            let mut vals: Vec<&[u8]> = Vec::new(); let mut i = 0usize; let mut pi = 2usize;
            while i < text.len() { let step = (1 + (params.get(pi).copied().unwrap_or(1) as usize) % 3).min(text.len() - i); vals.push(&text[i..i + step]); i += step; pi += 1; }
            let nvals = vals.len();
            let values = BinaryArray::from_iter_values(vals);
            let nkeys = (params[1] as usize) % 5;
            let keys = Int8Array::from((0..nkeys).map(|k| { let v = params.get(2 + k).copied().unwrap_or(0); if v % 7 == 0 { None } else { Some((v as usize % nvals) as i8) } }).collect::<Vec<_>>());
            let d = DictionaryArray::try_new(keys, std::sync::Arc::new(values)).ok()?;
            let to = match params[0] % 4 { 0 => DataType::Utf8View, 1 => DataType::Utf8, 2 => DataType::LargeUtf8, _ => DataType::Dictionary(Box::new(DataType::Int8), Box::new(DataType::Utf8View)) };
            if arrow_cast::can_cast_types(d.data_type(), &to) { arrow_cast::cast(&d, &to) } else { return None } }
        16 => { // take with more indices than an Int16 run-end can count
            let n = params[0] as usize; let len = x.len(); if len == 0 { return None }
            let idx = UInt32Array::from((0..n).map(|i| ((i * 7 + params[1] as usize) % len) as u32 * (params[2] as u32 % 2) ).collect::<Vec<_>>());
            arrow_select::take::take(x.as_ref(), &idx, None) }
        _ => return None,
    };
    Some(out)
}

pub fn generate(tier: &str, r: &mut Rng, emit: &mut dyn FnMut(Case)) {
    let n = if tier == "thorough" { 30000 } else { 3000 };
    for _ in 0..n {
        let ty = c09::gen_ty(r, 2);
        let k = match r.below(40) { 0 => 16, 1 | 2 => 15, 3 | 4 => 14, x => x % 14 };
        let ty = if k == 14 { Ty::View { utf8: r.bool() } } else if k == 16 { Ty::Ree { rw: 2, v: Box::new(Ty::Fixed(4)) } } else { ty };
        let nin = match k { 3 | 4 | 9 => 1 + r.below(3), 12 => 2, _ => 1 };
        let len0 = if r.chance(1, 10) { 0 } else { r.below(12) };
        let mut nodes = Vec::new();
        for i in 0..nin { let len = if k == 12 { len0 } else if i == 0 { len0 } else { r.below(8) }; nodes.push(c09::gen_valid(r, &ty, len, false)) }
        let params: Vec<i64> = match k {
            0 => vec![r.below(len0 + 1) as i64, r.below(len0 + 2) as i64],
            1 => (0..r.below(10)).map(|_| if len0 == 0 || r.chance(1, 6) { -1 } else { r.below(len0) as i64 }).collect(),
            2 | 5 | 12 => bool_mask(r, len0),
            4 => (0..r.below(9)).flat_map(|_| { let i = r.below(nin); let l = nodes[i].len; if l == 0 { vec![] } else { vec![i as i64, r.below(l) as i64] } }).collect(),
            6 => vec![r.range(-14, 14)],
            7 => vec![r.bool() as i64, r.bool() as i64],
            8 => vec![r.below(len0 + 2) as i64],
            9 => (0..r.below(6)).flat_map(|_| if r.chance(1, 5) { vec![-1, r.below(4) as i64, 0] } else { let i = r.below(nin); let l = nodes[i].len; let s = r.below(l + 1); vec![i as i64, s as i64, (s + r.below(l - s + 1)) as i64] }).collect(),
            10 => vec![r.below(8) as i64],
            14 => vec![],
            15 => (0..14).map(|_| r.below(50) as i64).collect(),
            16 => vec![*r.pick(&[33000i64, 40000, 70000]), r.below(7) as i64, r.below(2) as i64],
            13 => { let mut v = vec![r.below(12) as i64]; for _ in 0..r.below(12) { match r.below(6) { 0 | 1 => v.extend([0, r.below(40) as i64]), 2 => v.push(1), 3 => v.extend([2, r.below(70) as i64]), 4 => v.push(3), _ => v.extend([4, r.below(40) as i64, r.below(70) as i64]) } } v }
            _ => vec![],
        };
        let mut args: Args = vec![g(k), gs(&params), g(nin)];
        for nd in &nodes { c09::encode(nd, &mut args) }
        let mut tenc = String::new(); enc_head(&ty, &mut tenc);
        emit(Case::new("c01.kernel", args, &["c01.valid.post1"], format!("k{k} t{}", tenc)));
    }
}
fn enc_head(t: &Ty, out: &mut String) {
    *out = match t { Ty::Null => "null".into(), Ty::Bool => "bool".into(), Ty::Fixed(w) => format!("fx{w}"), Ty::FixedBin(_) => "fsb".into(), Ty::Bin { large, utf8 } => format!("bin{}{}", *large as u8, *utf8 as u8),
        Ty::View { .. } => "view".into(), Ty::List { .. } => "list".into(), Ty::ListView { .. } => "listview".into(), Ty::FixedList { .. } => "fsl".into(), Ty::Struct(_) => "struct".into(),
        Ty::Dict { .. } => "dict".into(), Ty::Ree { .. } => "ree".into(), Ty::Union { .. } => "union".into() };
}
