//! C01 — every array returned by a safe API is well formed: a panel of real kernels is run on
//! inputs in every physical layout (from the C09 valid-layout generator), the returned arrays are
//! dumped physically and the extracted specification validator (coq spec_valid) must accept them.
use crate::c09::{self, Node, Nulls, Ty};
use crate::util::*;
use arrow_array::{make_array, Array, ArrayRef, BooleanArray, UInt32Array};
use arrow_data::transform::MutableArrayData;
use arrow_data::ArrayData;
use arrow_schema::{DataType, IntervalUnit, SortOptions, UnionMode};
use num_bigint::BigInt;

pub fn from_dt(dt: &DataType) -> Option<Ty> {
    use DataType::*;
    Some(match dt {
        Null => Ty::Null,
        Boolean => Ty::Bool,
        Int8 | UInt8 => Ty::Fixed(1),
        Int16 | UInt16 | Float16 => Ty::Fixed(2),
        Int32 | UInt32 | Float32 | Date32 | Time32(_) | Decimal32(_, _) | Interval(IntervalUnit::YearMonth) => Ty::Fixed(4),
        Int64 | UInt64 | Float64 | Date64 | Time64(_) | Timestamp(_, _) | Duration(_) | Decimal64(_, _) | Interval(IntervalUnit::DayTime) => Ty::Fixed(8),
        Decimal128(_, _) | Interval(IntervalUnit::MonthDayNano) => Ty::Fixed(16),
        Decimal256(_, _) => Ty::Fixed(32),
        FixedSizeBinary(n) => Ty::FixedBin(*n),
        Binary => Ty::Bin { large: false, utf8: false },
        LargeBinary => Ty::Bin { large: true, utf8: false },
        Utf8 => Ty::Bin { large: false, utf8: true },
        LargeUtf8 => Ty::Bin { large: true, utf8: true },
        BinaryView => Ty::View { utf8: false },
        Utf8View => Ty::View { utf8: true },
        List(f) => Ty::List { large: false, nullable: f.is_nullable(), c: Box::new(from_dt(f.data_type())?) },
        LargeList(f) => Ty::List { large: true, nullable: f.is_nullable(), c: Box::new(from_dt(f.data_type())?) },
        Map(f, _) => Ty::List { large: false, nullable: f.is_nullable(), c: Box::new(from_dt(f.data_type())?) },
        ListView(f) => Ty::ListView { large: false, nullable: f.is_nullable(), c: Box::new(from_dt(f.data_type())?) },
        LargeListView(f) => Ty::ListView { large: true, nullable: f.is_nullable(), c: Box::new(from_dt(f.data_type())?) },
        FixedSizeList(f, n) => Ty::FixedList { n: *n, nullable: f.is_nullable(), c: Box::new(from_dt(f.data_type())?) },
        Struct(fs) => Ty::Struct(fs.iter().map(|f| Some((f.is_nullable(), from_dt(f.data_type())?))).collect::<Option<Vec<_>>>()?),
        Dictionary(k, v) => {
            let (kw, signed) = match k.as_ref() { Int8 => (1, true), Int16 => (2, true), Int32 => (4, true), Int64 => (8, true), UInt8 => (1, false), UInt16 => (2, false), UInt32 => (4, false), UInt64 => (8, false), _ => return None };
            Ty::Dict { kw, signed, v: Box::new(from_dt(v)?) }
        }
        RunEndEncoded(r, v) => { let rw = match r.data_type() { Int16 => 2, Int32 => 4, Int64 => 8, _ => return None }; Ty::Ree { rw, v: Box::new(from_dt(v.data_type())?) } }
        Union(fs, mode) => Ty::Union { dense: *mode == UnionMode::Dense, fs: fs.iter().map(|(id, f)| Some((id, from_dt(f.data_type())?))).collect::<Option<Vec<_>>>()? },
    })
}

/// Physical dump of a real array.
pub fn from_data(d: &ArrayData) -> Option<Node> {
    let ty = from_dt(d.data_type())?;
    let nulls = d.nulls().map(|n| Nulls { bytes: n.validity().to_vec(), off: n.offset(), len: n.len(), count: n.null_count() });
    let kids = d.child_data().iter().map(from_data).collect::<Option<Vec<_>>>()?;
    Some(Node { ty, len: d.len(), off: d.offset(), nulls, bufs: d.buffers().iter().map(|b| b.as_slice().to_vec()).collect(), kids })
}

/// [validate_full verdict] ++ tree
pub fn dump(a: &dyn Array) -> Option<Args> {
    let d = a.to_data();
    let node = from_data(&d)?;
    let vf = d.validate_full();
    if let (Err(e), true) = (&vf, std::env::var("VERIF_PANIC_MSG").is_ok()) { eprintln!("validate_full of a returned array: {e}"); }
    let mut out: Args = vec![g(vf.is_ok() as u8)];
    c09::encode(&node, &mut out);
    Some(out)
}

fn decode_inputs(a: &Args, start: usize, n: usize) -> Option<Vec<ArrayRef>> {
    let rest: Args = a[start..].to_vec();
    let mut p = 0; let mut v = Vec::new();
    for _ in 0..n { let node = c09::decode(&rest, &mut p); v.push(make_array(c09::build_try_new(&node)?)) }
    Some(v)
}
fn bool_mask(r: &mut Rng, n: usize) -> Vec<i64> { let dens = r.below(5); (0..n).map(|_| match dens { 0 => 0, 1 => 1, _ => if r.chance(1, 6) { 2 } else { r.bool() as i64 } }).collect() }
fn to_bool_array(v: &[i64]) -> BooleanArray { v.iter().map(|x| match x { 0 => Some(false), 1 => Some(true), _ => None }).collect() }
fn to_idx_array(v: &[i64]) -> UInt32Array { v.iter().map(|x| if *x < 0 { None } else { Some(*x as u32) }).collect() }

pub fn run(op: &str, a: &Args) -> Option<Args> {
    if op != "c01.kernel" { return None }
    let k = to_usize(&a[0]);
    let params = to_i64s(&a[1]);
    let nin = to_usize(&a[2]);
    // building the typed input arrays may itself panic for nested Struct layouts that carry offsets (known
    // finding F3: ArrayData::slice and StructArray::from apply the offset twice): no call, nothing to check
    let ins = match std::panic::catch_unwind(std::panic::AssertUnwindSafe(|| decode_inputs(a, 3, nin))) { Ok(Some(v)) => v, _ => return Some(skip()) };
    // C01 constrains what a safe operation RETURNS; a (safe) panic returns nothing: skipped, not a violation
    let out = std::panic::catch_unwind(std::panic::AssertUnwindSafe(|| run_kernel(k, &params, &ins)));
    match out { Ok(Some(Ok(o))) => Some(dump(o.as_ref()).unwrap_or_else(skip)), _ => Some(skip()) }
}

fn run_kernel(k: usize, params: &[i64], ins: &[ArrayRef]) -> Option<Result<ArrayRef, arrow_schema::ArrowError>> {
    let x = &ins[0];
    let out: Result<ArrayRef, arrow_schema::ArrowError> = match k {
        0 => { let o = (params[0] as usize).min(x.len()); let l = (params[1] as usize).min(x.len() - o); Ok(x.slice(o, l)) }
        1 => arrow_select::take::take(x.as_ref(), &to_idx_array(params), None),
        2 => arrow_select::filter::filter(x.as_ref(), &to_bool_array(params)),
        3 => arrow_select::concat::concat(&ins.iter().map(|y| y.as_ref()).collect::<Vec<_>>()),
        4 => { let idx: Vec<(usize, usize)> = params.chunks(2).map(|c| (c[0] as usize, c[1] as usize)).collect();
               arrow_select::interleave::interleave(&ins.iter().map(|y| y.as_ref()).collect::<Vec<_>>(), &idx) }
        5 => arrow_select::nullif::nullif(x.as_ref(), &to_bool_array(params)),
        6 => arrow_select::window::shift(x.as_ref(), params[0]),
        7 => arrow_ord::sort::sort(x.as_ref(), Some(SortOptions { descending: params[0] != 0, nulls_first: params[1] != 0 })),
        8 => arrow_ord::sort::sort_limit(x.as_ref(), None, Some(params[0] as usize)),
        9 => { // MutableArrayData: extend by ranges and nulls
            let datas: Vec<ArrayData> = ins.iter().map(|y| y.to_data()).collect();
            let mut m = MutableArrayData::new(datas.iter().collect(), true, 0);
            for c in params.chunks(3) { let i = c[0] as usize; if c[0] < 0 { m.extend_nulls(c[1] as usize) } else { let s = (c[1] as usize).min(datas[i].len()); let e = (c[2] as usize).clamp(s, datas[i].len()); m.extend(i, s, e) } }
            Ok(make_array(m.freeze()))
        }
        10 => { let to = match params[0] { 0 => DataType::Utf8, 1 => DataType::LargeUtf8, 2 => DataType::Utf8View, 3 => DataType::Int64, 4 => DataType::Binary,
                    5 => DataType::Dictionary(Box::new(DataType::Int32), Box::new(x.data_type().clone())), 6 => DataType::BinaryView, _ => DataType::Float64 };
                if arrow_cast::can_cast_types(x.data_type(), &to) { arrow_cast::cast(x.as_ref(), &to) } else { return None } }
        11 => { // row format round trip
            let conv = arrow_row::RowConverter::new(vec![arrow_row::SortField::new(x.data_type().clone())]);
            match conv { Ok(c) => c.convert_columns(&[x.clone()]).and_then(|rows| c.convert_rows(rows.iter())).map(|mut v| v.remove(0)), Err(_) => return None } }
        12 => arrow_select::zip::zip(&to_bool_array(params), &ins[0], &ins[1]),
        _ => return None,
    };
    Some(out)
}

pub fn generate(tier: &str, r: &mut Rng, emit: &mut dyn FnMut(Case)) {
    let n = if tier == "thorough" { 30000 } else { 3000 };
    for _ in 0..n {
        let ty = c09::gen_ty(r, 2);
        let k = r.below(13);
        let nin = match k { 3 | 4 | 9 => 1 + r.below(3), 12 => 2, _ => 1 };
        let len0 = if r.chance(1, 10) { 0 } else { r.below(12) };
        let mut nodes = Vec::new();
        for i in 0..nin { let len = if k == 12 { len0 } else if i == 0 { len0 } else { r.below(8) }; nodes.push(c09::gen_valid(r, &ty, len, false)) }
        let params: Vec<i64> = match k {
            0 => vec![r.below(len0 + 1) as i64, r.below(len0 + 2) as i64],
            1 => (0..r.below(10)).map(|_| if len0 == 0 || r.chance(1, 6) { -1 } else { r.below(len0) as i64 }).collect(),
            2 | 5 | 12 => bool_mask(r, len0),
            4 => (0..r.below(9)).flat_map(|_| { let i = r.below(nin); let l = nodes[i].len; if l == 0 { vec![] } else { vec![i as i64, r.below(l) as i64] } }).collect(),
            6 => vec![r.range(-14, 14)],
            7 => vec![r.bool() as i64, r.bool() as i64],
            8 => vec![r.below(len0 + 2) as i64],
            9 => (0..r.below(6)).flat_map(|_| if r.chance(1, 5) { vec![-1, r.below(4) as i64, 0] } else { let i = r.below(nin); let l = nodes[i].len; let s = r.below(l + 1); vec![i as i64, s as i64, (s + r.below(l - s + 1)) as i64] }).collect(),
            10 => vec![r.below(8) as i64],
            _ => vec![],
        };
        let mut args: Args = vec![g(k), gs(&params), g(nin)];
        for nd in &nodes { c09::encode(nd, &mut args) }
        let mut tenc = String::new(); enc_head(&ty, &mut tenc);
        emit(Case::new("c01.kernel", args, &["c01.valid.post1"], format!("k{k} t{}", tenc)));
    }
}
fn enc_head(t: &Ty, out: &mut String) {
    *out = match t { Ty::Null => "null".into(), Ty::Bool => "bool".into(), Ty::Fixed(w) => format!("fx{w}"), Ty::FixedBin(_) => "fsb".into(), Ty::Bin { large, utf8 } => format!("bin{}{}", *large as u8, *utf8 as u8),
        Ty::View { .. } => "view".into(), Ty::List { .. } => "list".into(), Ty::ListView { .. } => "listview".into(), Ty::FixedList { .. } => "fsl".into(), Ty::Struct(_) => "struct".into(),
        Ty::Dict { .. } => "dict".into(), Ty::Ree { .. } => "ree".into(), Ty::Union { .. } => "union".into() };
}
