// (included into c05_e2e.rs) generators for the end-to-end and level cases

fn gen_leaf_type(r: &mut Rng) -> DataType {
    match r.below(30) {
        0 => DataType::Boolean, 1 => DataType::Int8, 2 => DataType::Int16, 3 => DataType::Int32, 4 => DataType::Int64,
        5 => DataType::UInt8, 6 => DataType::UInt16, 7 => DataType::UInt32, 8 => DataType::UInt64,
        9 => DataType::Float32, 10 => DataType::Float64, 11 | 12 => DataType::Utf8, 13 => DataType::LargeUtf8, 14 => DataType::Utf8View,
        15 => DataType::Binary, 16 => DataType::LargeBinary, 17 => DataType::BinaryView,
        18 => DataType::FixedSizeBinary(*r.pick(&[1, 2, 3, 4, 7, 8, 16, 20])),
        19 => { let p = 1 + r.below(38) as u8; DataType::Decimal128(p, r.below(p as usize + 1) as i8) }
        20 => DataType::Date32,
        21 => DataType::Timestamp(unit_of(r.below(4) as i64), match r.below(4) { 0 => None, k => Some(TZS[k - 1].into()) }),
        22 => DataType::Dictionary(Box::new(DataType::Int32), Box::new(DataType::Utf8)),
        23 => match r.below(7) {
            0 => DataType::Dictionary(Box::new(DataType::Int8), Box::new(DataType::Utf8)),
            1 => DataType::Dictionary(Box::new(DataType::UInt16), Box::new(DataType::LargeUtf8)),
            2 => DataType::Dictionary(Box::new(DataType::Int32), Box::new(DataType::Int64)),
            3 => DataType::Dictionary(Box::new(DataType::Int32), Box::new(DataType::Binary)),
            4 => DataType::Dictionary(Box::new(DataType::Int32), Box::new(DataType::Float64)),
            5 => DataType::Dictionary(Box::new(DataType::Int8), Box::new(DataType::Int32)),
            _ => DataType::Dictionary(Box::new(DataType::Int32), Box::new(DataType::Utf8)),
        },
        24 => DataType::Float16,
        25 => { let p = 1 + r.below(76) as u8; DataType::Decimal256(p, r.below(p as usize + 1) as i8) }
        26 => if r.bool() { DataType::Time32(unit_of(r.below(2) as i64)) } else { DataType::Time64(unit_of(2 + r.below(2) as i64)) },
        // KNOWN-FINDING candidate: Decimal32 with precision 1 is mapped to physical INT64 (arrow/schema/mod.rs:
        // `*precision > 1 && *precision <= 9`), and the Int64 column writer has no Decimal32 arm, so
        // ArrowWriter::write fails with "Cannot coerce Decimal32(1, s) to I64".  Precision 1 is excluded here.
        27 => { let p = 2 + r.below(8) as u8; DataType::Decimal32(p, r.below(p as usize + 1) as i8) }
        28 => { let p = 1 + r.below(18) as u8; DataType::Decimal64(p, r.below(p as usize + 1) as i8) }
        29 => { // run-end encoded: documented to come back as the value type
            let v = match r.below(6) { 0 => DataType::Int32, 1 => DataType::Int64, 2 => DataType::Utf8, 3 => DataType::Boolean, 4 => DataType::Float64, _ => DataType::Binary };
            DataType::RunEndEncoded(Arc::new(Field::new("run_ends", DataType::Int32, false)), Arc::new(Field::new("values", v, true)))
        }
        _ => DataType::Int32,
    }
}

fn gen_name(r: &mut Rng, i: usize) -> String {
    match r.below(6) { 0 => format!("c{i}"), 1 => format!("Col {i}"), 2 => format!("é{i}"), 3 => format!("a.b{i}"), _ => format!("f{i}") }
}

fn gen_type(r: &mut Rng, depth: usize) -> DataType {
    if depth == 0 || r.chance(2, 5) { return gen_leaf_type(r); }
    match r.below(8) {
        6 => DataType::ListView(Arc::new(Field::new("item", gen_type(r, depth - 1), r.chance(2, 3)))),
        7 => DataType::LargeListView(Arc::new(Field::new("item", gen_type(r, depth - 1), r.chance(2, 3)))),
        0 | 1 => { let n = 1 + r.below(3); DataType::Struct(Fields::from((0..n).map(|i| Field::new(gen_name(r, i), gen_type(r, depth - 1), r.chance(2, 3))).collect::<Vec<_>>())) }
        2 => DataType::List(Arc::new(Field::new(*r.pick(&["item", "element", "x"]), gen_type(r, depth - 1), r.chance(2, 3)))),
        3 => DataType::LargeList(Arc::new(Field::new("item", gen_type(r, depth - 1), r.chance(2, 3)))),
        4 => DataType::FixedSizeList(Arc::new(Field::new("item", gen_type(r, depth - 1), r.chance(2, 3))), *r.pick(&[1, 1, 2, 3])),
        _ => {
            let key = match r.below(3) { 0 => DataType::Int32, 1 => DataType::Int64, _ => DataType::Utf8 };
            let entries = Field::new("entries", DataType::Struct(Fields::from(vec![Field::new("key", key, false), Field::new("value", gen_type(r, depth - 1), r.chance(2, 3))])), false);
            DataType::Map(Arc::new(entries), false)
        }
    }
}

fn gen_config(r: &mut Rng) -> Vec<i64> {
    let mut c = vec![0i64; C_LEN];
    c[C_VERSION] = 1 + r.below(2) as i64;
    c[C_COMPRESSION] = if r.chance(1, 3) { 0 } else { r.below(8) as i64 };
    c[C_DICT] = r.chance(2, 3) as i64;
    c[C_DICT_LIMIT] = *r.pick(&[0i64, 0, 1, 8, 24, 64, 200, 1000]);
    c[C_PAGE_ROWS] = *r.pick(&[0i64, 0, 1, 2, 3, 7, 20, 100]);
    c[C_PAGE_BYTES] = *r.pick(&[0i64, 0, 1, 16, 64, 256, 1024]);
    c[C_BATCH] = *r.pick(&[0i64, 0, 1, 2, 3, 5, 16, 64]);
    c[C_RG_ROWS] = *r.pick(&[0i64, 0, 0, 1, 2, 7, 33, 64, 200]);
    c[C_STATS] = r.below(3) as i64;
    c[C_BLOOM] = *r.pick(&[0i64, 0, 1, 2]);
    c[C_CDC] = if r.chance(1, 4) { 1 + r.below(4) as i64 } else { 0 };
    c[C_ENC_SEED] = if r.chance(3, 4) { 1 + (r.next() >> 40) as i64 } else { 0 };
    c[C_READ_BATCH] = *r.pick(&[1i64, 2, 3, 7, 16, 64, 1024]);
    c[C_MODE] = r.chance(1, 4) as i64;
    c[C_ORDER_SEED] = (r.next() >> 40) as i64;
    c[C_LAYOUT_SEED] = (r.next() >> 40) as i64;
    c[C_RG_BYTES] = if r.chance(1, 6) { *r.pick(&[1i64, 64, 512, 4096]) } else { 0 };
    c[C_FLAGS] = if r.chance(1, 2) { r.below(64) as i64 } else { 0 };
    c
}

fn gen_partition(r: &mut Rng, n: usize) -> Vec<i64> {
    let mut v = Vec::new();
    match r.below(5) {
        0 => v.push(n as i64),
        1 => { let mut left = n; while left > 0 { v.push(1); left -= 1; if r.chance(1, 10) { v.push(0); } } }
        _ => {
            let mut left = n;
            while left > 0 {
                let m = *r.pick(&[1usize, 4, 40, 300]); let k = (1 + r.below(m)).min(left);
                v.push(k as i64); left -= k;
                if r.chance(1, 4) { v.push(0); }
                if r.chance(1, 20) { v.push(0); }
            }
        }
    }
    if r.chance(1, 6) { v.insert(0, 0); }
    v
}

fn pick_rows(r: &mut Rng) -> usize {
    match r.below(8) { 0 => 0, 1 => 1, 2 => *r.pick(&[7usize, 8, 9, 31, 32, 33, 63, 64, 65, 127, 128, 129]), 3 => 200 + r.below(300), _ => 1 + r.below(120) }
}

fn int_range(dt: &DataType) -> Option<(i128, i128)> {
    Some(match dt {
        DataType::Int8 => (i8::MIN as i128, i8::MAX as i128), DataType::Int16 => (i16::MIN as i128, i16::MAX as i128),
        DataType::Int32 | DataType::Date32 | DataType::Time32(_) => (i32::MIN as i128, i32::MAX as i128),
        DataType::Int64 | DataType::Timestamp(_, _) | DataType::Time64(_) => (i64::MIN as i128, i64::MAX as i128),
        DataType::UInt8 => (0, u8::MAX as i128), DataType::UInt16 => (0, u16::MAX as i128),
        DataType::UInt32 => (0, u32::MAX as i128), DataType::UInt64 => (0, u64::MAX as i128),
        _ => return None,
    })
}

/// values of one top-level column; integer-like columns are sometimes constant / arithmetic progressions /
/// slowly varying (delta encodings: zero-width mini blocks, wrap-around at the type's limits), strings sorted-ish
fn gen_column_vals(f: &Field, nrows: usize, r: &mut Rng, null_pct: u32) -> Vec<Val> {
    if let Some((lo, hi)) = int_range(f.data_type()) {
        if r.chance(2, 5) {
            let span = (hi - lo + 1) as u128;
            let wrap = |x: i128| lo + ((x - lo).rem_euclid(span as i128));
            let mut cur = match r.below(4) { 0 => lo, 1 => hi, 2 => 0i128.clamp(lo, hi), _ => lo + ((r.next() as u128) % span) as i128 };
            let step: i128 = match r.below(6) { 0 => 0, 1 => 1, 2 => -1, 3 => r.range(-1000, 1000) as i128, 4 => (span / 2) as i128, _ => (span as i128 / 3) + 1 };
            let noise = r.chance(1, 3);
            return (0..nrows).map(|_| {
                cur = wrap(cur + step + if noise { r.range(0, 3) as i128 } else { 0 });
                if f.is_nullable() && r.chance(null_pct.min(40), 100) { Val::Null } else { Val::Int(BigInt::from(cur)) }
            }).collect();
        }
    }
    if let DataType::RunEndEncoded(_, _) = f.data_type() {   // runs of equal values (and of nulls)
        let mut out: Vec<Val> = Vec::with_capacity(nrows);
        while out.len() < nrows {
            let v = gen_val(f.data_type(), f.is_nullable(), r, null_pct.min(40));
            let m = *r.pick(&[1usize, 2, 5, 30, 200]); let k = 1 + r.below(m);
            for _ in 0..k { if out.len() < nrows { out.push(v.clone()); } }
        }
        return out;
    }
    (0..nrows).map(|_| gen_val(f.data_type(), f.is_nullable(), r, null_pct)).collect()
}

fn gen_roundtrip(r: &mut Rng, emit: &mut dyn FnMut(Case)) {
    let ncols = 1 + r.below(4);
    let depth = r.below(4);
    let fields: Vec<Field> = (0..ncols).map(|i| Field::new(gen_name(r, i), gen_type(r, depth), r.chance(3, 4))).collect();
    let schema = Schema::new(fields);
    let mut nrows = pick_rows(r);
    if depth == 0 && r.chance(1, 10) { nrows = 500 + r.below(900); }
    // keep files small: deep list nesting multiplies leaf counts
    if depth >= 2 { nrows = nrows.min(150); }
    let null_pct = *r.pick(&[0u32, 5, 20, 50, 95]);
    let mut content: Vec<BigInt> = vec![nrows.into()];
    for f in schema.fields() {
        for v in gen_column_vals(f, nrows, r, null_pct) { enc_val(f.data_type(), &v, &mut content); }
    }
    let cfg = gen_config(r);
    let part = gen_partition(r, nrows);
    let tag = format!("rt v{} m{} d{} c{} cdc{} dict{}{}", cfg[C_VERSION], cfg[C_MODE], depth, cfg[C_COMPRESSION], (cfg[C_CDC] > 0) as u8, cfg[C_DICT], if cfg[C_DICT_LIMIT] > 0 && cfg[C_DICT_LIMIT] < 100 { "f" } else { "" });
    let expected = Schema::new(schema.fields().iter().map(|f| read_back_field(f)).collect::<Vec<_>>());
    let (es, ws) = (enc_schema(&expected), enc_schema(&schema));
    let written = if es == ws { vec![] } else { bigs(&ws) };
    emit(Case::new("c05.roundtrip", vec![bigs(&cfg), bigs(&part), bigs(&es), content, written], &["c05.roundtrip.spec"], tag));
}

fn gen_path_value(path: &[i64], kinds: &[i64], fsl: &[i64], ki: usize, r: &mut Rng, null_pct: u32, out: &mut Vec<i64>) {
    match path.first() {
        None => out.push(match r.below(6) { 0 => i64::MIN, 1 => i64::MAX, 2 => 0, _ => r.range(-50, 50) }),
        Some(0) => gen_path_value(&path[1..], kinds, fsl, ki, r, null_pct, out),
        Some(1) => { if r.chance(null_pct, 100) { out.push(0); } else { out.push(1); gen_path_value(&path[1..], kinds, fsl, ki, r, null_pct, out); } }
        _ => {
            let n = if kinds[ki] == 2 { fsl[ki] as usize } else { match r.below(7) { 0 | 1 => 0, 2 => 1, 3 => 2, 4 => if ki == 0 && r.chance(1, 12) { 64 + r.below(140) } else { r.below(6) }, _ => r.below(6) } };
            out.push(n as i64);
            for _ in 0..n { gen_path_value(&path[1..], kinds, fsl, ki + 1, r, null_pct, out); }
        }
    }
}

fn gen_levels(r: &mut Rng, emit: &mut dyn FnMut(Case)) {
    // path: up to 6 nodes, at most 3 Rep; never two markers in a row without meaning (Req/Opt pairs are structs)
    let len = r.below(7);
    let mut path: Vec<i64> = Vec::new();
    let mut nrep = 0;
    for _ in 0..len { let n = r.below(3) as i64; if n == 2 { if nrep == 3 { continue; } nrep += 1; } path.push(n); }
    let kinds: Vec<i64> = (0..nrep).map(|_| *r.pick(&[0i64, 0, 1, 2, 3, 4, 5])).collect();
    let fsl: Vec<i64> = (0..nrep).map(|_| *r.pick(&[1i64, 2, 3])).collect();
    let nrows = match r.below(8) { 0 => 0, 1 => 1, 2 | 3 => 60 + r.below(100), 4 => 150 + r.below(250), _ => 1 + r.below(40) };
    let null_pct = *r.pick(&[0u32, 10, 30, 60, 100]);
    let mut toks = Vec::new();
    for _ in 0..nrows { gen_path_value(&path, &kinds, &fsl, 0, r, null_pct, &mut toks); }
    if toks.len() > 12000 { return; }
    let mut cfg = gen_config(r);
    cfg[C_CDC] = if r.chance(1, 6) { cfg[C_CDC] } else { 0 };
    let mut lay = vec![(r.next() >> 40) as i64, nrep as i64];
    lay.extend(&kinds); lay.extend(&fsl); lay.extend(&cfg);
    let tag: String = path.iter().map(|n| match n { 0 => 'q', 1 => 'o', _ => 'r' }).collect();
    let ktag: String = kinds.iter().map(|k| char::from(b'0' + *k as u8)).collect();
    let args = vec![bigs(&path), bigs(&toks), bigs(&lay)];
    emit(Case::new("c05.levels", args.clone(), &["c05.levels.spec"], format!("lv {tag} {ktag}")));
    emit(Case::new("c05.assemble", args, &["c05.assemble.spec"], format!("as {tag} {ktag}")));
}

pub fn generate(tier: &str, r: &mut Rng, emit: &mut dyn FnMut(Case)) {
    let (nrt, nlv) = if tier == "thorough" { (3000, 2500) } else { (400, 300) };
    for _ in 0..nlv { gen_levels(r, emit); }
    for _ in 0..nrt { gen_roundtrip(r, emit); }
}
