//! C12 — arithmetic, aggregation and boolean kernels: implementation runs and case generators.
//!
//! Case conventions (see coq/Model/D_C12.v): arrays travel as [values] [validity]; the header group
//! carries type, operation and layout (scalar flags, has-null-buffer flags, slice offsets).
//! Values under null slots are arbitrary ("garbage") on purpose.  Kernel outputs are compared in
//! canonical form: [validity bits] [values, 0 under nulls]  or the error group [-1; kind].
use crate::util::*;
use arrow_arith::{aggregate, boolean, numeric};
use arrow_array::cast::AsArray;
use arrow_array::types::*;
use arrow_array::{Array, ArrayRef, ArrowNumericType, ArrowPrimitiveType, BooleanArray, Datum, PrimitiveArray, Scalar};
use arrow_buffer::{i256, BooleanBuffer, NullBuffer, ScalarBuffer};
use arrow_schema::{ArrowError, DataType};
use num_bigint::{BigInt, Sign};
use num_traits::{One, Signed, Zero};

// ------------------------------------------------------------------------------------------ natives
pub trait Nat: Copy {
    fn from_big(b: &BigInt) -> Self;
    fn to_big(self) -> BigInt;
}
macro_rules! nat_prim { ($($t:ty),*) => { $(impl Nat for $t {
    fn from_big(b: &BigInt) -> Self { <$t>::try_from(b).expect("native range") }
    fn to_big(self) -> BigInt { BigInt::from(self) }
})* } }
nat_prim!(i8, i16, i32, i64, i128, u8, u16, u32, u64);
impl Nat for i256 {
    fn from_big(b: &BigInt) -> Self {
        let mut bytes = b.to_signed_bytes_le();
        assert!(bytes.len() <= 32, "i256 range");
        let fill = if b.sign() == Sign::Minus { 0xFF } else { 0 };
        bytes.resize(32, fill);
        i256::from_le_bytes(bytes.try_into().unwrap())
    }
    fn to_big(self) -> BigInt { BigInt::from_signed_bytes_le(&self.to_le_bytes()) }
}

fn err_kind(e: &ArrowError) -> i64 {
    match e {
        ArrowError::ArithmeticOverflow(_) => E_OVERFLOW,
        ArrowError::DivideByZero => E_DIVZERO,
        ArrowError::InvalidArgumentError(_) | ArrowError::ComputeError(_) => E_INVALID,
        ArrowError::NotYetImplemented(_) => E_UNSUPPORTED,
        _ => E_INVALID,
    }
}

fn h(a: &Args, i: usize) -> i64 { i64::try_from(&a[0][i]).expect("header") }
fn hb(a: &Args, i: usize) -> bool { h(a, i) != 0 }

/// Physical array with `off` leading rows that are sliced away again (non-zero value offset and
/// validity bit offset); the leading rows are a fixed pattern so that `run` stays a pure function.
fn build<T: ArrowPrimitiveType>(vals: &Group, valid: Option<&Group>, off: usize) -> PrimitiveArray<T>
where T::Native: Nat {
    let mut v: Vec<T::Native> = (0..off).map(|i| T::Native::from_big(&BigInt::from((i * 37 + 11) % 100))).collect();
    v.extend(vals.iter().map(T::Native::from_big));
    let nulls = valid.map(|bits| {
        let mut b: Vec<bool> = (0..off).map(|i| i % 3 != 1).collect();
        b.extend(bits.iter().map(|x| !x.is_zero()));
        NullBuffer::from(b)
    });
    PrimitiveArray::<T>::new(ScalarBuffer::from(v), nulls).slice(off, vals.len())
}

fn out_prim<T: ArrowPrimitiveType>(r: Result<ArrayRef, ArrowError>) -> Args where T::Native: Nat {
    match r {
        Err(e) => err(err_kind(&e)),
        Ok(arr) => {
            let p = arr.as_primitive_opt::<T>().expect("result type");
            let valid: Group = (0..p.len()).map(|i| BigInt::from(p.is_valid(i) as u8)).collect();
            let vals: Group = (0..p.len()).map(|i| if p.is_valid(i) { p.value(i).to_big() } else { BigInt::zero() }).collect();
            vec![valid, vals]
        }
    }
}

fn binop(op: i64, l: &dyn Datum, r: &dyn Datum) -> Result<ArrayRef, ArrowError> {
    match op {
        0 => numeric::add_wrapping(l, r),
        1 => numeric::add(l, r),
        2 => numeric::sub_wrapping(l, r),
        3 => numeric::sub(l, r),
        4 => numeric::mul_wrapping(l, r),
        5 => numeric::mul(l, r),
        6 => numeric::div(l, r),
        _ => numeric::rem(l, r),
    }
}

fn call_binop<TL: ArrowPrimitiveType, TR: ArrowPrimitiveType>(
    op: i64, l: PrimitiveArray<TL>, l_s: bool, r: PrimitiveArray<TR>, r_s: bool,
) -> Result<ArrayRef, ArrowError> {
    match (l_s, r_s) {
        (false, false) => binop(op, &l, &r),
        (true, false) => binop(op, &Scalar::new(l), &r),
        (false, true) => binop(op, &l, &Scalar::new(r)),
        (true, true) => binop(op, &Scalar::new(l), &Scalar::new(r)),
    }
}

macro_rules! int_dispatch {
    ($signed:expr, $bits:expr, $f:ident, $($arg:expr),*) => {
        match ($signed, $bits) {
            (true, 8) => $f::<Int8Type>($($arg),*), (true, 16) => $f::<Int16Type>($($arg),*),
            (true, 32) => $f::<Int32Type>($($arg),*), (true, 64) => $f::<Int64Type>($($arg),*),
            (false, 8) => $f::<UInt8Type>($($arg),*), (false, 16) => $f::<UInt16Type>($($arg),*),
            (false, 32) => $f::<UInt32Type>($($arg),*), (false, 64) => $f::<UInt64Type>($($arg),*),
            _ => panic!("type"),
        }
    };
}

/// header: [signed; bits; op; l_scalar; r_scalar; l_hasnulls; r_hasnulls; l_off; r_off]
fn run_arith<T: ArrowPrimitiveType>(a: &Args) -> Args where T::Native: Nat {
    let l = build::<T>(&a[1], hb(a, 5).then_some(&a[2]), h(a, 7) as usize);
    let r = build::<T>(&a[3], hb(a, 6).then_some(&a[4]), h(a, 8) as usize);
    out_prim::<T>(call_binop(h(a, 2), l, hb(a, 3), r, hb(a, 4)))
}

/// header: [signed; bits; wrapping; hasnulls; off]
fn run_neg<T: ArrowPrimitiveType>(a: &Args) -> Args where T::Native: Nat {
    let x = build::<T>(&a[1], hb(a, 3).then_some(&a[2]), h(a, 4) as usize);
    out_prim::<T>(if hb(a, 2) { numeric::neg_wrapping(&x) } else { numeric::neg(&x) })
}

fn run_i256(a: &Args) -> Args {
    let op = to_i64(&a[0]);
    let x = i256::from_big(&a[1][0]);
    let y = i256::from_big(&a[2][0]);
    let v = |r: i256| vec![g(r.to_big())];
    let o = |r: Option<i256>| vec![r.map(|z| vec![z.to_big()]).unwrap_or_default()];
    match op {
        0 => v(x.wrapping_add(y)),
        1 => v(x.wrapping_sub(y)),
        2 => v(x.wrapping_mul(y)),
        3 => v(x.wrapping_neg()),
        4 => o(x.checked_add(y)),
        5 => o(x.checked_sub(y)),
        6 => o(x.checked_mul(y)),
        7 => o(x.checked_neg()),
        8 => o(x.checked_div(y)),
        9 => o(x.checked_rem(y)),
        10 => v(x.wrapping_div(y)),
        11 => v(x.wrapping_rem(y)),
        12 => vec![g(match x.cmp(&y) { std::cmp::Ordering::Less => -1, std::cmp::Ordering::Equal => 0, _ => 1 })],
        _ => v(x.wrapping_abs()),
    }
}

macro_rules! dec_dispatch {
    ($bits:expr, $f:ident, $($arg:expr),*) => {
        match $bits {
            32 => $f::<Decimal32Type>($($arg),*), 64 => $f::<Decimal64Type>($($arg),*),
            128 => $f::<Decimal128Type>($($arg),*), 256 => $f::<Decimal256Type>($($arg),*),
            _ => panic!("decimal width"),
        }
    };
}

/// header: [bits; op; l_scalar; r_scalar; l_hasnulls; r_hasnulls; p1; s1; p2; s2; l_off; r_off]
fn run_decimal<T: DecimalType>(a: &Args) -> Args where T::Native: Nat {
    let l = build::<T>(&a[1], hb(a, 4).then_some(&a[2]), h(a, 10) as usize)
        .with_precision_and_scale(h(a, 6) as u8, h(a, 7) as i8).expect("valid l type");
    let r = build::<T>(&a[3], hb(a, 5).then_some(&a[4]), h(a, 11) as usize)
        .with_precision_and_scale(h(a, 8) as u8, h(a, 9) as i8).expect("valid r type");
    let op = match h(a, 1) { 0 => 1, 1 => 3, 2 => 5, 3 => 6, _ => 7 };
    let res = call_binop(op, l, hb(a, 2), r, hb(a, 3));
    let ps = match &res {
        Ok(arr) => match arr.data_type() {
            DataType::Decimal32(p, s) | DataType::Decimal64(p, s) | DataType::Decimal128(p, s) | DataType::Decimal256(p, s) => Some((*p, *s)),
            _ => panic!("result type"),
        },
        Err(_) => None,
    };
    let mut out = out_prim::<T>(res);
    if let Some((p, s)) = ps { out.push(vec![BigInt::from(p), BigInt::from(s)]); }
    out
}

fn build_bool(vals: &Group, valid: Option<&Group>, off: usize) -> BooleanArray {
    let mut v: Vec<bool> = (0..off).map(|i| i % 5 < 2).collect();
    v.extend(vals.iter().map(|x| !x.is_zero()));
    let nulls = valid.map(|bits| {
        let mut b: Vec<bool> = (0..off).map(|i| i % 3 != 1).collect();
        b.extend(bits.iter().map(|x| !x.is_zero()));
        NullBuffer::from(b)
    });
    BooleanArray::new(BooleanBuffer::from(v), nulls).slice(off, vals.len())
}
fn out_bool(r: Result<BooleanArray, ArrowError>) -> Args {
    match r {
        Err(e) => err(err_kind(&e)),
        Ok(b) => vec![(0..b.len()).map(|i| BigInt::from(b.is_valid(i) as u8)).collect(),
                      (0..b.len()).map(|i| BigInt::from((b.is_valid(i) && b.value(i)) as u8)).collect()],
    }
}
/// header: [op; l_hasnulls; r_hasnulls; l_off; r_off]
fn run_bool(a: &Args) -> Args {
    let l = build_bool(&a[1], hb(a, 1).then_some(&a[2]), h(a, 3) as usize);
    let r = build_bool(&a[3], hb(a, 2).then_some(&a[4]), h(a, 4) as usize);
    out_bool(match h(a, 0) {
        0 => boolean::and_kleene(&l, &r), 1 => boolean::or_kleene(&l, &r),
        2 => boolean::and(&l, &r), 3 => boolean::or(&l, &r), 4 => boolean::and_not(&l, &r),
        5 => boolean::not(&l), 6 => boolean::is_null(&l), _ => boolean::is_not_null(&l),
    })
}

macro_rules! agg_dispatch {
    ($signed:expr, $bits:expr, $f:ident, $($arg:expr),*) => {
        match ($signed, $bits) {
            (true, 128) => $f::<Decimal128Type>($($arg),*), (true, 256) => $f::<Decimal256Type>($($arg),*),
            (s, b) => int_dispatch!(s, b, $f, $($arg),*),
        }
    };
}
/// header: [signed; bits; aggop; hasnulls; off; log2 lanes (model only)]
fn run_agg<T: ArrowNumericType>(a: &Args) -> Args
where T::Native: Nat + std::ops::BitAnd<Output = T::Native> + std::ops::BitOr<Output = T::Native> + std::ops::BitXor<Output = T::Native> {
    let x = build::<T>(&a[1], hb(a, 3).then_some(&a[2]), h(a, 4) as usize);
    let o = |r: Option<T::Native>| vec![r.map(|z| vec![z.to_big()]).unwrap_or_default()];
    match h(a, 2) {
        0 => o(aggregate::sum(&x)),
        1 => match aggregate::sum_checked(&x) { Ok(r) => o(r), Err(e) => err(err_kind(&e)) },
        2 => o(aggregate::min(&x)),
        3 => o(aggregate::max(&x)),
        4 => o(aggregate::bit_and(&x)),
        5 => o(aggregate::bit_or(&x)),
        _ => o(aggregate::bit_xor(&x)),
    }
}
/// header: [op; hasnulls; off]
fn run_boolagg(a: &Args) -> Args {
    let x = build_bool(&a[1], hb(a, 1).then_some(&a[2]), h(a, 2) as usize);
    let r = if h(a, 0) == 0 { aggregate::bool_and(&x) } else { aggregate::bool_or(&x) };
    vec![r.map(|b| vec![BigInt::from(b as u8)]).unwrap_or_default()]
}

/// temporal kernels that reduce to checked i64 / i32 add and sub.  Same header as c12.arith (signed = 1,
/// bits = 64 or 32, op in {1 add, 3 sub}) followed by [kind; unit; use the *_wrapping entry point]:
/// kind 0 Duration op Duration, 1 Timestamp op Duration, 2 Timestamp - Timestamp -> Duration,
/// 3 Interval(YearMonth) op Interval(YearMonth), 4 Date64 - Date64 -> Duration(ms).
/// (for these types add_wrapping/sub_wrapping are checked as well)
fn run_temporal(a: &Args) -> Args {
    fn go<TL: ArrowPrimitiveType, TR: ArrowPrimitiveType, TO: ArrowPrimitiveType>(a: &Args) -> Args
    where TL::Native: Nat, TR::Native: Nat, TO::Native: Nat {
        let l = build::<TL>(&a[1], hb(a, 5).then_some(&a[2]), h(a, 7) as usize);
        let r = build::<TR>(&a[3], hb(a, 6).then_some(&a[4]), h(a, 8) as usize);
        let op = h(a, 2) - if hb(a, 11) { 1 } else { 0 };
        out_prim::<TO>(call_binop(op, l, hb(a, 3), r, hb(a, 4)))
    }
    match (h(a, 9), h(a, 10)) {
        (0, 0) => go::<DurationSecondType, DurationSecondType, DurationSecondType>(a),
        (0, 1) => go::<DurationMillisecondType, DurationMillisecondType, DurationMillisecondType>(a),
        (0, 2) => go::<DurationMicrosecondType, DurationMicrosecondType, DurationMicrosecondType>(a),
        (0, _) => go::<DurationNanosecondType, DurationNanosecondType, DurationNanosecondType>(a),
        (1, 0) => go::<TimestampSecondType, DurationSecondType, TimestampSecondType>(a),
        (1, 1) => go::<TimestampMillisecondType, DurationMillisecondType, TimestampMillisecondType>(a),
        (1, 2) => go::<TimestampMicrosecondType, DurationMicrosecondType, TimestampMicrosecondType>(a),
        (1, _) => go::<TimestampNanosecondType, DurationNanosecondType, TimestampNanosecondType>(a),
        (2, 0) => go::<TimestampSecondType, TimestampSecondType, DurationSecondType>(a),
        (2, 1) => go::<TimestampMillisecondType, TimestampMillisecondType, DurationMillisecondType>(a),
        (2, 2) => go::<TimestampMicrosecondType, TimestampMicrosecondType, DurationMicrosecondType>(a),
        (2, _) => go::<TimestampNanosecondType, TimestampNanosecondType, DurationNanosecondType>(a),
        (3, _) => go::<IntervalYearMonthType, IntervalYearMonthType, IntervalYearMonthType>(a),
        _ => go::<Date64Type, Date64Type, DurationMillisecondType>(a),
    }
}

pub fn run(op: &str, a: &Args) -> Option<Args> {
    Some(match op {
        "c12.arith" => int_dispatch!(hb(a, 0), h(a, 1), run_arith, a),
        "c12.temporal" => run_temporal(a),
        "c12.neg" => agg_dispatch!(hb(a, 0), h(a, 1), run_neg, a),
        "c12.i256" => run_i256(a),
        "c12.decimal" => dec_dispatch!(h(a, 0), run_decimal, a),
        "c12.bool" => run_bool(a),
        "c12.agg" => agg_dispatch!(hb(a, 0), h(a, 1), run_agg, a),
        "c12.boolagg" => run_boolagg(a),
        _ => return None,
    })
}

// ------------------------------------------------------------------------------------------ generators
fn pow2(k: u32) -> BigInt { BigInt::one() << k }
fn tmin(signed: bool, bits: u32) -> BigInt { if signed { -pow2(bits - 1) } else { BigInt::zero() } }
fn tmax(signed: bool, bits: u32) -> BigInt { if signed { pow2(bits - 1) - 1 } else { pow2(bits) - 1 } }
fn in_range(signed: bool, bits: u32, z: &BigInt) -> bool { *z >= tmin(signed, bits) && *z <= tmax(signed, bits) }

/// boundary-dense values of the type: ±2^k ± {0,1,2}, MIN, MAX, -1, 0, clipped to the range
fn boundary(signed: bool, bits: u32) -> Vec<BigInt> {
    let mut v = vec![BigInt::zero(), tmin(signed, bits), tmax(signed, bits), tmin(signed, bits) + 1, tmax(signed, bits) - 1];
    for k in 0..=bits {
        for d in -2i32..=2 {
            for sgn in [1, -1] {
                let z = pow2(k) * sgn + d;
                if in_range(signed, bits, &z) { v.push(z); }
            }
        }
    }
    v.sort(); v.dedup(); v
}

fn rand_val(r: &mut Rng, signed: bool, bits: u32, bnd: &[BigInt]) -> BigInt {
    match r.below(10) {
        0..=5 => r.pick(bnd).clone(),
        6 => BigInt::from(r.range(-3, 3)).max(tmin(signed, bits)),
        _ => {
            // uniformly random bit pattern of random magnitude
            let k = 1 + r.below(bits as usize) as u32;
            let mut z = BigInt::zero();
            for _ in 0..((k + 63) / 64) { z = (z << 64) + BigInt::from(r.next()); }
            z = z % pow2(k);
            if signed && r.bool() { z = -z - 1; }
            if in_range(signed, bits, &z) { z } else { BigInt::zero() }
        }
    }
}

/// exact result / error kind of one row (generator-side oracle, used only to shape inputs:
/// which rows to hide under nulls so that a checked kernel can succeed)
fn row_error(signed: bool, bits: u32, op: i64, a: &BigInt, b: &BigInt) -> i64 {
    let chk = |z: BigInt| if in_range(signed, bits, &z) { 0 } else { E_OVERFLOW };
    match op {
        1 => chk(a + b), 3 => chk(a - b), 5 => chk(a * b),
        6 => if b.is_zero() { E_DIVZERO } else if signed && *a == tmin(signed, bits) && *b == BigInt::from(-1) { E_OVERFLOW } else { 0 },
        7 => if b.is_zero() { E_DIVZERO } else { 0 },
        _ => 0,
    }
}

struct Side { vals: Vec<BigInt>, valid: Vec<bool>, hasnulls: bool, scalar: bool, off: usize }
impl Side {
    fn groups(&self) -> (Group, Group) {
        (self.vals.clone(), if self.hasnulls { gbools(self.valid.iter().copied()) } else { vec![] })
    }
}

fn emit_arith(emit: &mut dyn FnMut(Case), signed: bool, bits: u32, op: i64, l: &Side, r: &Side, tag: String) {
    emit_arith_x(emit, signed, bits, op, l, r, tag, None);
}
/// `temporal`: Some((kind, unit, wrapping entry point)) runs the same rows through a temporal kernel
fn emit_arith_x(emit: &mut dyn FnMut(Case), signed: bool, bits: u32, op: i64, l: &Side, r: &Side, tag: String, temporal: Option<(i64, i64, bool)>) {
    let (lv, ln) = l.groups();
    let (rv, rn) = r.groups();
    let mut hdr: Group = vec![(signed as i64).into(), bits.into(), op.into(), (l.scalar as i64).into(), (r.scalar as i64).into(),
        (l.hasnulls as i64).into(), (r.hasnulls as i64).into(), l.off.into(), r.off.into()];
    match temporal {
        None => emit(Case::new("c12.arith", vec![hdr, lv, ln, rv, rn], &["c12.arith", "c12.arith.spec"], tag)),
        Some((kind, unit, w)) => {
            hdr.extend([BigInt::from(kind), BigInt::from(unit), BigInt::from(w as u8)]);
            emit(Case::new("c12.temporal", vec![hdr, lv, ln, rv, rn], &["c12.arith", "c12.arith.spec"], format!("tmp k{} u{} w{} {}", kind, unit, w as u8, tag)));
        }
    }
}

fn len_class(n: usize) -> &'static str {
    match n { 0 => "0", 1 => "1", 2..=7 => "s", 8..=63 => "m", 64 => "64", 65..=127 => "l", 128 => "128", _ => "xl" }
}

/// random array pair over the boundary set with the requested error policy
fn gen_arith_random(r: &mut Rng, emit: &mut dyn FnMut(Case), signed: bool, bits: u32, op: i64, bnd: &[BigInt]) {
    gen_arith_random_x(r, emit, signed, bits, op, bnd, None)
}
fn gen_arith_random_x(r: &mut Rng, emit: &mut dyn FnMut(Case), signed: bool, bits: u32, op: i64, bnd: &[BigInt], temporal: Option<(i64, i64, bool)>) {
    let layout = r.below(10); // 0..5 array/array, 6,7 scalar left / right, 8 both scalar, 9 special
    let n = match r.below(8) { 0 => r.below(4), 1 => 63 + r.below(4), 2 => 127 + r.below(3), _ => r.below(201) };
    let (ls, rs) = match layout { 6 => (true, false), 7 => (false, true), 8 => (true, true), _ => (false, false) };
    let ln = if ls { 1 } else { n };
    let rn = if rs { 1 } else if layout == 9 && r.chance(1, 3) { n + 1 + r.below(2) } else { n };
    let mk = |r: &mut Rng, len: usize, scalar: bool| -> Side {
        let vals: Vec<BigInt> = (0..len).map(|_| rand_val(r, signed, bits, bnd)).collect();
        let nullmode = r.below(6); // 0 no buffer, 1 buffer all valid, 2 sparse nulls, 3 dense nulls, 4 all null, 5 no buffer
        let valid: Vec<bool> = (0..len).map(|_| match nullmode { 1 => true, 2 => !r.chance(1, 10), 3 => r.bool(), 4 => false, _ => true }).collect();
        Side { vals, valid, hasnulls: !matches!(nullmode, 0 | 5), scalar, off: if r.chance(1, 3) { 0 } else { r.below(71) } }
    };
    let mut l = mk(r, ln, ls);
    let mut rr = mk(r, rn, rs);
    // error policy: keep erroring rows (expect Err) in 1/4 of the cases, otherwise hide them under nulls
    let keep_errors = r.chance(1, 4);
    let mut has_err = false;
    if ln == rn || ls || rs {
        let rows = ln.max(rn);
        if !(ls && rs) || true {
            for i in 0..rows {
                let (li, ri) = (if ls { 0 } else { i }, if rs { 0 } else { i });
                if li >= ln || ri >= rn { continue; }
                let lval = !l.hasnulls || l.valid[li];
                let rval = !rr.hasnulls || rr.valid[ri];
                if lval && rval && row_error(signed, bits, op, &l.vals[li], &rr.vals[ri]) != 0 {
                    if keep_errors { has_err = true; continue; }
                    // hide the row: null on a non-scalar side, or replace the value when both sides cannot take a null
                    if !rs && (r.bool() || ls) {
                        if !rr.hasnulls { rr.hasnulls = true; }
                        rr.valid[ri] = false;
                    } else if !ls {
                        if !l.hasnulls { l.hasnulls = true; }
                        l.valid[li] = false;
                    } else {
                        has_err = true;
                    }
                }
            }
        }
    }
    let tag = format!("ar {}{} op{} lay{} n{} nl{}{} e{}", if signed { 'i' } else { 'u' }, bits, op, layout, len_class(n),
        l.hasnulls as u8, rr.hasnulls as u8, has_err as u8);
    emit_arith_x(emit, signed, bits, op, &l, &rr, tag, temporal);
}

/// rows drawn from the delicate operand pairs (MIN,-1), (MIN,1), (x,0), (MAX,MAX), ... as valid rows
fn gen_arith_special(r: &mut Rng, emit: &mut dyn FnMut(Case), signed: bool, bits: u32, op: i64) {
    let (mn, mx) = (tmin(signed, bits), tmax(signed, bits));
    let m1 = if signed { BigInt::from(-1) } else { mx.clone() };
    let pairs: Vec<(BigInt, BigInt)> = vec![
        (mn.clone(), m1.clone()), (mn.clone(), BigInt::one()), (m1.clone(), mn.clone()), (mx.clone(), m1.clone()),
        (mn.clone(), mn.clone()), (mx.clone(), mx.clone()), (mn.clone(), mx.clone()), (mx.clone(), mn.clone()),
        (mx.clone(), BigInt::one()), (mn.clone() + 1, m1.clone()), (BigInt::zero(), m1.clone()), (mx.clone(), BigInt::from(2)),
        (mn.clone(), BigInt::from(2)), (BigInt::from(7), BigInt::zero()), (mn.clone(), BigInt::zero()), (BigInt::zero(), BigInt::zero()),
        (&mx / 2 + 1, BigInt::from(2)), (&mx / 2, BigInt::from(2)), (&mn / 2, BigInt::from(2)), (&mn / 2 - if signed { 1 } else { 0 }, BigInt::from(2)),
    ];
    for &(ref a, ref b) in &pairs {
        // the pair alone or among harmless rows; array/array or scalar layouts; with or without null buffers
        let n = 1 + r.below(5);
        let pos = r.below(n);
        let lay = r.below(3);
        let (ls, rs) = if n == 1 { (lay == 1, lay == 2) } else { (false, false) };
        let mut l = Side { vals: vec![BigInt::one(); n], valid: vec![true; n], hasnulls: r.bool(), scalar: ls, off: r.below(20) };
        let mut rr = Side { vals: vec![BigInt::one(); n], valid: vec![true; n], hasnulls: r.bool(), scalar: rs, off: r.below(20) };
        l.vals[pos] = a.clone(); rr.vals[pos] = b.clone();
        emit_arith(emit, signed, bits, op, &l, &rr, format!("arsp {}{} op{} e{}", if signed { 'i' } else { 'u' }, bits, op, (row_error(signed, bits, op, a, b) != 0) as u8));
    }
}

/// 8-bit: every operand pair.  For each left value `a`: one array case over all 256 right values
/// with the erroring rows hidden under nulls (the erroring operands stay in the value buffer), and
/// each erroring pair on its own in a short array (surrounded by null rows holding garbage).
fn gen_arith_exhaustive8(r: &mut Rng, emit: &mut dyn FnMut(Case), signed: bool, op: i64, sample: Option<usize>) {
    let bits = 8;
    let all: Vec<BigInt> = if signed { (-128..128).map(BigInt::from).collect() } else { (0..256).map(BigInt::from).collect() };
    let picks: Vec<usize> = match sample { None => (0..256).collect(), Some(k) => (0..k).map(|_| r.below(256)).collect() };
    for &ai in &picks {
        let a = &all[ai];
        for layout in 0..3 {
            if sample.is_some() && r.below(3) != layout { continue; }
            // layout 0: [a;256] op all ; 1: Scalar(a) op all ; 2: all op Scalar(a)
            let fixed_left = layout != 2;
            let errs: Vec<bool> = all.iter().map(|b| if fixed_left { row_error(signed, bits, op, a, b) } else { row_error(signed, bits, op, b, a) } != 0).collect();
            let any = errs.iter().any(|e| *e);
            let arr = Side { vals: all.clone(), valid: errs.iter().map(|e| !e).collect(), hasnulls: any, scalar: false, off: r.below(9) };
            let fixed = Side { vals: vec![a.clone(); if layout == 0 { 256 } else { 1 }], valid: vec![true; if layout == 0 { 256 } else { 1 }],
                hasnulls: r.chance(1, 4), scalar: layout != 0, off: r.below(9) };
            let tag = format!("ar8 {} op{} lay{} nl{}", if signed { 'i' } else { 'u' }, op, layout, any as u8);
            if fixed_left { emit_arith(emit, signed, bits, op, &fixed, &arr, tag) } else { emit_arith(emit, signed, bits, op, &arr, &fixed, tag) }
        }
        // erroring pairs individually
        for b in &all {
            if row_error(signed, bits, op, a, b) == 0 { continue; }
            if sample.is_some() && !r.chance(1, 12) { continue; }
            let n = 1 + r.below(4);
            let pos = r.below(n);
            let garbage = |r: &mut Rng| all[r.below(256)].clone();
            let mut l = Side { vals: (0..n).map(|_| garbage(r)).collect(), valid: vec![false; n], hasnulls: n > 1 || r.bool(), scalar: false, off: r.below(9) };
            let mut rr = Side { vals: (0..n).map(|_| garbage(r)).collect(), valid: vec![true; n], hasnulls: r.bool(), scalar: false, off: r.below(9) };
            l.vals[pos] = a.clone(); rr.vals[pos] = b.clone(); l.valid[pos] = true;
            let lay = r.below(3);
            if n == 1 && lay == 1 { l.scalar = true; } else if n == 1 && lay == 2 { rr.scalar = true; }
            emit_arith(emit, signed, bits, op, &l, &rr, format!("ar8e {} op{} n{}", if signed { 'i' } else { 'u' }, op, n));
        }
    }
}

/// 16-bit: one operand from a small boundary set against all 65536 values of the other operand
fn gen_arith_16(r: &mut Rng, emit: &mut dyn FnMut(Case), signed: bool, op: i64) {
    let bits = 16;
    let all: Vec<BigInt> = if signed { (-32768..32768).map(BigInt::from).collect() } else { (0..65536).map(BigInt::from).collect() };
    let fixed: Vec<BigInt> = if signed { [-32768, -32767, -1, 0, 1, 2, 32766, 32767].iter().map(|x| BigInt::from(*x)).collect() }
        else { [0, 1, 2, 255, 256, 257, 65534, 65535].iter().map(|x| BigInt::from(*x)).collect() };
    for a in &fixed {
        for chunk in 0..16 {
            let slice = &all[chunk * 4096..(chunk + 1) * 4096];
            for left in [true, false] {
                let errs: Vec<bool> = slice.iter().map(|b| if left { row_error(signed, bits, op, a, b) } else { row_error(signed, bits, op, b, a) } != 0).collect();
                let any = errs.iter().any(|e| *e);
                let arr = Side { vals: slice.to_vec(), valid: errs.iter().map(|e| !e).collect(), hasnulls: any, scalar: false, off: r.below(9) };
                let sc = Side { vals: vec![a.clone()], valid: vec![true], hasnulls: false, scalar: true, off: 0 };
                let tag = format!("ar16 {} op{} left{} nl{}", if signed { 'i' } else { 'u' }, op, left as u8, any as u8);
                if left { emit_arith(emit, signed, bits, op, &sc, &arr, tag) } else { emit_arith(emit, signed, bits, op, &arr, &sc, tag) }
            }
        }
    }
}

fn gen_neg(r: &mut Rng, emit: &mut dyn FnMut(Case), signed: bool, bits: u32, wrapping: bool, vals: Vec<BigInt>, hide_errors: bool, tagp: &str) {
    let n = vals.len();
    let nullmode = r.below(5);
    let mut valid: Vec<bool> = (0..n).map(|_| match nullmode { 2 => !r.chance(1, 10), 3 => r.bool(), 4 => false, _ => true }).collect();
    let mut hasnulls = nullmode >= 1;
    let mut has_err = false;
    if !wrapping && signed {
        for i in 0..n {
            if valid[i] && vals[i] == tmin(signed, bits) {
                if hide_errors { valid[i] = false; hasnulls = true; } else { has_err = true; }
            }
        }
    }
    let hdr: Group = vec![(signed as i64).into(), bits.into(), (wrapping as i64).into(), (hasnulls as i64).into(), (if r.bool() { 0 } else { r.below(71) }).into()];
    let vg: Group = vals;
    let ng: Group = if hasnulls { gbools(valid.iter().copied()) } else { vec![] };
    emit(Case::new("c12.neg", vec![hdr, vg, ng], &["c12.neg", "c12.neg.spec"],
        format!("{tagp} {}{} w{} n{} nl{} e{}", if signed { 'i' } else { 'u' }, bits, wrapping as u8, len_class(n), hasnulls as u8, has_err as u8)));
}

fn gen_i256(tier: &str, r: &mut Rng, emit: &mut dyn FnMut(Case)) {
    let mut bnd = boundary(true, 256);
    // limb edges: values around multiples of 2^64 / 2^128 with all-ones / zero limbs
    for k in [63u32, 64, 65, 127, 128, 129, 191, 192, 193, 254, 255] {
        for d in -2i32..=2 {
            for m in [BigInt::one(), BigInt::from(3), pow2(64) - 1, pow2(127) - 1, pow2(128) - 1] {
                for sgn in [1, -1] {
                    let z: BigInt = (pow2(k) * &m + d) * sgn;
                    if in_range(true, 256, &z) { bnd.push(z); }
                }
            }
        }
    }
    bnd.sort(); bnd.dedup();
    let n = if tier == "thorough" { 400_000 } else { 20_000 };
    for i in 0..n {
        let op = (i % 14) as i64;
        let x = rand_val(r, true, 256, &bnd);
        let mut y = rand_val(r, true, 256, &bnd);
        if matches!(op, 8..=11) && r.chance(2, 3) {
            // divisors of every magnitude (the long division has 1..4 digit paths)
            let k = 1 + r.below(255) as u32;
            let mut z = BigInt::zero();
            for _ in 0..4 { z = (z << 64) + BigInt::from(r.next()); }
            y = z % pow2(k); if r.bool() { y = -y; }
            if r.chance(1, 6) { y = r.pick(&bnd).clone(); }
        }
        if matches!(op, 2 | 6) && r.chance(1, 2) {
            // products near the representable edge: y ~ MAX / x
            if !x.is_zero() { y = (tmax(true, 256) / &x) + BigInt::from(r.range(-2, 2)); }
            if !in_range(true, 256, &y) { y = BigInt::one(); }
        }
        let ymag = y.bits();
        emit(Case::new("c12.i256", vec![g(op), g(x.clone()), g(y.clone())], &["c12.i256", "c12.i256.spec"],
            format!("i256 op{} x{} y{}", op, x.bits() / 64, ymag / 64)));
    }
}

// ---- boolean kernels
fn gen_bool(tier: &str, r: &mut Rng, emit: &mut dyn FnMut(Case)) {
    let thorough = tier == "thorough";
    let mut lens: Vec<usize> = (0..=200).collect();
    if !thorough { lens = (0..=10).chain(60..=70).chain(120..=134).chain([191, 192, 193, 200]).collect(); }
    for &n in &lens {
        for op in 0..8i64 {
            for _ in 0..(if thorough { 6 } else { 2 }) {
                let bits = |r: &mut Rng, n: usize, mode: usize| -> Vec<bool> {
                    (0..n).map(|i| match mode { 0 => false, 1 => true, 2 => i % 2 == 0, 3 => r.chance(1, 10), 4 => !r.chance(1, 10), _ => r.bool() }).collect()
                };
                let (lm, rm, lnm, rnm) = (r.below(7), r.below(7), r.below(7), r.below(7));
                let rn = if op < 5 && r.chance(1, 40) { n + 1 } else { n };
                let lv = bits(r, n, lm); let rv = bits(r, rn, rm);
                let lhn = r.chance(2, 3); let rhn = r.chance(2, 3);
                let lnull = bits(r, n, 1 + lnm % 6); let rnull = bits(r, rn, 1 + rnm % 6);
                let lnull = if lnm == 0 { vec![false; n] } else { lnull };
                let (lo, ro) = (if r.chance(1, 4) { 0 } else { r.below(71) }, if r.chance(1, 4) { 0 } else { r.below(71) });
                let hdr: Group = vec![op.into(), (lhn as i64).into(), (rhn as i64).into(), lo.into(), ro.into()];
                let args = vec![hdr, gbools(lv), if lhn { gbools(lnull) } else { vec![] }, gbools(rv), if rhn { gbools(rnull) } else { vec![] }];
                emit(Case::new("c12.bool", args, &["c12.bool", "c12.bool.spec"],
                    format!("bool op{} n{} nl{}{} o{}{} mm{}", op, len_class(n), lhn as u8, rhn as u8, lo % 8, ro % 8, (rn != n) as u8)));
            }
        }
        for op in 0..2i64 {
            for _ in 0..(if thorough { 8 } else { 3 }) {
                // mostly-true / mostly-false vectors so that both answers occur, false or true only under nulls
                let mode = r.below(6);
                let mut v: Vec<bool> = (0..n).map(|_| match mode { 0 => true, 1 => false, 2 => !r.chance(1, 60), 3 => r.chance(1, 60), _ => r.bool() }).collect();
                let hn = r.chance(2, 3);
                let nm = r.below(5);
                let mut valid: Vec<bool> = (0..n).map(|_| match nm { 0 => true, 1 => false, 2 => !r.chance(1, 10), _ => r.bool() }).collect();
                if n > 0 && r.chance(1, 3) {
                    // the only deciding bit sits under a null (must be ignored) or is the single valid one
                    let p = r.below(n);
                    v[p] = op == 1; for i in 0..n { if i != p { v[i] = op == 0; } }
                    valid[p] = r.bool();
                }
                let off = if r.chance(1, 4) { 0 } else { r.below(71) };
                let hdr: Group = vec![op.into(), (hn as i64).into(), off.into()];
                emit(Case::new("c12.boolagg", vec![hdr, gbools(v), if hn { gbools(valid) } else { vec![] }], &["c12.boolagg.spec"],
                    format!("bagg op{} n{} nl{} o{} m{}", op, len_class(n), hn as u8, off % 8, mode)));
            }
        }
    }
}

// ---- aggregates
fn gen_agg(tier: &str, r: &mut Rng, emit: &mut dyn FnMut(Case)) {
    let thorough = tier == "thorough";
    let types: [(bool, u32); 10] = [(true, 8), (true, 16), (true, 32), (true, 64), (false, 8), (false, 16), (false, 32), (false, 64), (true, 128), (true, 256)];
    for (signed, bits) in types {
        let bnd = boundary(signed, bits);
        let mut lens: Vec<usize> = if thorough { (0..=200).collect() } else { (0..=9).chain([15, 16, 17, 31, 32, 33, 63, 64, 65, 95, 96, 97, 127, 128, 129, 191, 192, 193, 200]).collect() };
        lens.extend([255, 256, 257, 1000]);
        for &n in &lens {
            for aggop in 0..7i64 {
                for _ in 0..(if thorough { 3 } else { 1 }) {
                    let vm = r.below(5); // 0 boundary-dense, 1 small, 2 small with one extreme, 3 random, 4 cancelling extremes
                    let vals: Vec<BigInt> = (0..n).map(|i| match vm {
                        0 => rand_val(r, signed, bits, &bnd),
                        1 => BigInt::from(r.range(if signed { -3 } else { 0 }, 3)),
                        2 => if r.chance(1, (n as u32).max(1)) { if r.bool() { tmax(signed, bits) } else { tmin(signed, bits) } } else { BigInt::from(r.range(0, 2)) },
                        3 => rand_val(r, signed, bits, &bnd[..1]),
                        _ => if i % 2 == 0 { tmax(signed, bits) - BigInt::from(r.below(3)) } else if signed { -tmax(signed, bits) + BigInt::from(r.below(3)) } else { BigInt::from(r.below(2)) },
                    }).collect();
                    let nm = r.below(7); // 0,1 no buffer; 2 buffer all valid; 3 sparse; 4 dense; 5 all null; 6 single valid
                    let mut valid: Vec<bool> = (0..n).map(|_| match nm { 3 => !r.chance(1, 12), 4 => r.bool(), 5 | 6 => false, _ => true }).collect();
                    if nm == 6 && n > 0 { let p = r.below(n); valid[p] = true; }
                    let hn = nm >= 2;
                    let off = if r.chance(1, 3) { 0 } else { r.below(71) };
                    let hdr: Group = vec![(signed as i64).into(), bits.into(), aggop.into(), (hn as i64).into(), off.into(), r.below(7).into()];
                    let models: &[&str] = if aggop < 4 { &["c12.agg", "c12.agg.spec"] } else { &["c12.agg.spec"] };
                    emit(Case::new("c12.agg", vec![hdr, vals, if hn { gbools(valid) } else { vec![] }], models,
                        format!("agg {}{} op{} n{} nm{} vm{}", if signed { 'i' } else { 'u' }, bits, aggop, len_class(n), nm, vm)));
                }
            }
        }
    }
}

// ---- decimals
fn dec_max(bits: u32) -> i64 { match bits { 32 => 9, 64 => 18, 128 => 38, _ => 76 } }
/// generator-side oracle of one decimal row (shapes inputs only): 0 = fine, else error kind
fn dec_row_error(bits: u32, op: i64, lm: &BigInt, rm: &BigInt, x: &BigInt, y: &BigInt) -> i64 {
    let fits = |z: &BigInt| in_range(true, bits, z);
    let a = x * lm; if !fits(&a) { return E_OVERFLOW; }
    let b = y * rm; if !fits(&b) { return E_OVERFLOW; }
    match op {
        0 => if fits(&(a + b)) { 0 } else { E_OVERFLOW },
        1 => if fits(&(a - b)) { 0 } else { E_OVERFLOW },
        2 => if fits(&(a * b)) { 0 } else { E_OVERFLOW },
        _ => if b.is_zero() { E_DIVZERO } else if a == tmin(true, bits) && b == BigInt::from(-1) { E_OVERFLOW } else { 0 },
    }
}
fn pow10(k: i64) -> BigInt { let mut z = BigInt::one(); for _ in 0..k { z *= 10; } z }

fn gen_decimal(tier: &str, r: &mut Rng, emit: &mut dyn FnMut(Case)) {
    let thorough = tier == "thorough";
    for bits in [32u32, 64, 128, 256] {
        let maxp = dec_max(bits);
        let bnd = boundary(true, bits);
        for op in 0..5i64 {
            let mut made = 0;
            let want = if thorough { 1500 } else { 150 };
            let mut tries = 0;
            while made < want && tries < want * 50 {
                tries += 1;
                let p1 = 1 + r.below(maxp as usize) as i64;
                let p2 = if r.chance(1, 3) { p1 } else { 1 + r.below(maxp as usize) as i64 };
                let sc = |r: &mut Rng, p: i64| -> i64 { match r.below(4) { 0 => 0, 1 => p, 2 => r.range(-12, p.min(maxp)), _ => r.range(0, p) } };
                let s1 = sc(r, p1);
                let s2 = if r.chance(1, 3) && s1 <= p2 { s1 } else { sc(r, p2) };
                // documented result type and multipliers (generator-side copy of the documented rules)
                let (rp_doc, rs, el, er) = match op {
                    0 | 1 => { let rs = s1.max(s2); (rs + (p1 - s1).max(p2 - s2) + 1, rs, rs - s1, rs - s2) }
                    2 => (p1 + p2 + 1, s1 + s2, 0, 0),
                    3 => { let rs = (s1 + 4).min(maxp); let e = rs - s1 + s2; (p1 - s1 + s2 + rs, rs, e.max(0), (-e).max(0)) }
                    _ => { let rs = s1.max(s2); ((p1 - s1).min(p2 - s2) + rs, rs, rs - s1, rs - s2) }
                };
                // the documented precision must be a positive number (the `as u8` of a non-positive i8 is outside the documented rules)
                if rp_doc < 1 || rp_doc > 127 { continue; }
                let (lm, rm) = (pow10(el), pow10(er));
                let mult_ok = in_range(true, bits, &lm) && in_range(true, bits, &rm);
                // rem with a rescaling multiplier 10^(max(s1,s2)-s_i) that does not fit the native type must report
                // Overflow like add/sub (finding F17: the source used pow_wrapping there and returned a wrong remainder;
                // fixed in /repo 9e1df4d).  This class is generated on purpose, at a higher rate for rem.
                if !mult_ok && !r.chance(if op == 4 { 5 } else { 1 }, 10) { continue; }
                if op == 2 && rs > maxp && !r.chance(1, 10) { continue; }
                made += 1;
                let layout = r.below(8); // 0..4 array/array, 5 scalar left, 6 scalar right, 7 both scalar
                let n = match r.below(6) { 0 => r.below(3), 1 => 63 + r.below(3), _ => r.below(100) };
                let (ls, rsc) = match layout { 5 => (true, false), 6 => (false, true), 7 => (true, true), _ => (false, false) };
                let (ln, rn) = (if ls { 1 } else { n }, if rsc { 1 } else { n });
                let vmode = r.below(4); // 0 within precision, 1 small, 2 native boundary, 3 within precision near the edge
                let val = |r: &mut Rng, p: i64| -> BigInt {
                    let lim = pow10(p.min(maxp)) - 1;
                    let z = match vmode {
                        0 => { let k = r.below(p as usize + 1) as i64; let m = pow10(k); let mut z = BigInt::zero(); for _ in 0..5 { z = (z << 64) + BigInt::from(r.next()); } z % (m + 1) }
                        1 => BigInt::from(r.range(0, 20)),
                        2 => return rand_val(r, true, bits, &bnd),
                        _ => &lim - BigInt::from(r.below(3)),
                    };
                    let z = if z > lim { lim } else { z };
                    if r.bool() { -z } else { z }
                };
                let mk = |r: &mut Rng, len: usize, p: i64, scalar: bool| -> Side {
                    let vals: Vec<BigInt> = (0..len).map(|_| val(r, p)).collect();
                    let nm = r.below(5);
                    let valid: Vec<bool> = (0..len).map(|_| match nm { 2 => !r.chance(1, 10), 3 => r.bool(), 4 => false, _ => true }).collect();
                    Side { vals, valid, hasnulls: nm >= 1, scalar, off: if r.chance(1, 3) { 0 } else { r.below(71) } }
                };
                let mut l = mk(r, ln, p1, ls);
                let mut rr = mk(r, rn, p2, rsc);
                let keep_errors = r.chance(1, 5);
                let mut has_err = !mult_ok || (op == 2 && rs > maxp);
                if mult_ok {
                    for i in 0..ln.max(rn) {
                        let (li, ri) = (if ls { 0 } else { i }, if rsc { 0 } else { i });
                        if li >= ln || ri >= rn { continue; }
                        if (l.hasnulls && !l.valid[li]) || (rr.hasnulls && !rr.valid[ri]) { continue; }
                        let e = dec_row_error(bits, op, &lm, &rm, &l.vals[li], &rr.vals[ri]);
                        if e == 0 { continue; }
                        // rem: MIN % -1 is reported as overflow by mod_checked although the remainder 0 is representable
                        // (outside every declared precision); never generated as a valid row
                        let forbidden = op == 4 && e == E_OVERFLOW && l.vals[li].clone() * &lm == tmin(true, bits) && rr.vals[ri].clone() * &rm == BigInt::from(-1);
                        if keep_errors && !forbidden { has_err = true; continue; }
                        if !rsc { rr.hasnulls = true; rr.valid[ri] = false; }
                        else if !ls { l.hasnulls = true; l.valid[li] = false; }
                        else if forbidden { rr.vals[ri] = BigInt::one(); } else { has_err = true; }
                    }
                }
                let (lv, lnn) = l.groups(); let (rv, rnn) = rr.groups();
                let hdr: Group = vec![bits.into(), op.into(), (ls as i64).into(), (rsc as i64).into(), (l.hasnulls as i64).into(), (rr.hasnulls as i64).into(),
                    p1.into(), s1.into(), p2.into(), s2.into(), l.off.into(), rr.off.into()];
                emit(Case::new("c12.decimal", vec![hdr, lv, lnn, rv, rnn], &["c12.decimal", "c12.decimal.spec"],
                    format!("dec{} op{} lay{} eq{} el{} er{} v{} e{}", bits, op, layout, (s1 == s2) as u8, el.min(3), er.min(3), vmode, has_err as u8)));
            }
        }
    }
}

pub fn generate(tier: &str, r: &mut Rng, emit: &mut dyn FnMut(Case)) {
    let thorough = tier == "thorough";
    // --- integer kernels
    for signed in [true, false] {
        for op in 0..8 {
            gen_arith_exhaustive8(r, emit, signed, op, if thorough { None } else { Some(6) });
            if thorough { gen_arith_16(r, emit, signed, op); }
        }
        for bits in [8u32, 16, 32, 64] {
            let bnd = boundary(signed, bits);
            for op in 0..8 {
                gen_arith_special(r, emit, signed, bits, op);
                for _ in 0..(if thorough { 400 } else { 40 }) { gen_arith_random(r, emit, signed, bits, op, &bnd); }
            }
            for wrapping in [false, true] {
                for _ in 0..(if thorough { 200 } else { 20 }) {
                    let n = match r.below(4) { 0 => r.below(3), 1 => 63 + r.below(3), _ => r.below(201) };
                    let vals = (0..n).map(|_| rand_val(r, signed, bits, &bnd)).collect();
                    let hide = r.chance(3, 4);
                    gen_neg(r, emit, signed, bits, wrapping, vals, hide, "neg");
                }
            }
        }
        // neg: MIN as a valid row (alone / among others), and hidden under a null, for every signed width
        // (128/256: the Decimal128/256 natives through the checked `neg`)
        if signed {
            for bits in [8u32, 16, 32, 64, 128, 256] {
                let bnd = boundary(true, bits);
                for wrapping in [false, true] {
                    if wrapping && bits > 64 { continue; }
                    for variant in 0..(if thorough { 24 } else { 8 }) {
                        let n = if variant == 0 { 1 } else { 1 + r.below(70) };
                        let mut vals: Vec<BigInt> = (0..n).map(|_| rand_val(r, true, bits, &bnd)).collect();
                        for v in vals.iter_mut() { if *v == tmin(true, bits) { *v = BigInt::one(); } }
                        let p = r.below(n);
                        vals[p] = tmin(true, bits);
                        gen_neg(r, emit, true, bits, wrapping, vals, variant % 2 == 1, "negmin");
                    }
                }
            }
            for bits in [128u32, 256] {
                let bnd = boundary(true, bits);
                for _ in 0..(if thorough { 100 } else { 10 }) {
                    let n = r.below(100);
                    let vals = (0..n).map(|_| rand_val(r, true, bits, &bnd)).collect();
                    let hide = r.chance(3, 4);
                    gen_neg(r, emit, true, bits, false, vals, hide, "neg");
                }
            }
        }
        // neg: every 8-bit and 16-bit value
        for (bits, chunk) in [(8u32, 256usize), (16, 4096)] {
            let all: Vec<BigInt> = if signed { (-(1i64 << (bits - 1))..(1i64 << (bits - 1))).map(BigInt::from).collect() } else { (0..(1i64 << bits)).map(BigInt::from).collect() };
            for wrapping in [false, true] {
                for c in all.chunks(chunk) {
                    if !thorough && bits == 16 && !r.chance(1, 4) { continue; }
                    gen_neg(r, emit, signed, bits, wrapping, c.to_vec(), true, "negx");
                }
            }
            if signed { gen_neg(r, emit, signed, bits, false, vec![tmin(true, bits)], false, "negx"); }
        }
    }
    // --- temporal kernels on the same checked i64 / i32 closures
    for kind in 0..5i64 {
        let bits = if kind == 3 { 32 } else { 64 };
        let bnd = boundary(true, bits);
        for unit in 0..(if kind < 3 { 4 } else { 1 }) {
            for op in [1i64, 3] {
                if op == 1 && (kind == 2 || kind == 4) { continue; }
                for _ in 0..(if thorough { 150 } else { 15 }) {
                    let w = r.bool();
                    gen_arith_random_x(r, emit, true, bits, op, &bnd, Some((kind, unit, w)));
                }
            }
        }
    }
    gen_i256(tier, r, emit);
    gen_bool(tier, r, emit);
    gen_agg(tier, r, emit);
    gen_decimal(tier, r, emit);
}
