//! C14 — incremental decoders are independent of how the input is chunked.
//!
//! The implementation ops run the REAL push decoders of arrow-rs under a given chunking, following
//! each decoder's documented driver protocol, and return a canonical outcome:
//!   [status] [nrows, ncols] [schema digest] [row digest] [all batches <= batch_size]
//! `c14.chunk`  : one explicit chunking; the case carries the outcome of the single-chunk run
//!                (computed at generation time) and the spec op returns exactly that baseline.
//! `c14.sweep`  : a whole family of chunkings (every split point, all 2^(n-1) partitions, ...)
//!                evaluated inside one case; reports the first chunking whose outcome differs from
//!                the single-chunk run (recomputed inside the op) - the spec says "none".
//! `c14.ipc_calls` / `c14.ipc_events` / `c14.avro_ocf` : per-call observables tied to the Coq models.
use crate::util::*;
use num_bigint::BigInt;
use std::io::{BufRead, Read};
use std::panic::{catch_unwind, AssertUnwindSafe};
use std::sync::Arc;

use arrow_array::builder::*;
use arrow_array::types::*;
use arrow_array::*;
use arrow_buffer::Buffer;
use arrow_schema::{ArrowError, DataType, Field, Fields, Schema, SchemaRef, TimeUnit};

// ------------------------------------------------------------------------------------------------
// formats
pub const F_IPC: i64 = 1;
pub const F_CSV: i64 = 2;
pub const F_JSON: i64 = 3;
pub const F_AVRO_OCF: i64 = 4;
pub const F_AVRO_SOE: i64 = 5;
pub const F_PARQUET: i64 = 6;
pub const F_FLIGHT: i64 = 7;

/// driver variant meaning "the one-shot pull reader of the format on the whole input"
pub const V_PULL: i64 = 9;

// status codes (0 = Ok). 100+k = ArrowError variant k, 200+k AvroError, 300+k ParquetError, 400+k FlightError
const ST_PANIC: i64 = 8;
const ST_TRAILING: i64 = 50; // input ended inside a message (Avro single-object decoder leaves bytes unconsumed)
const ST_PROTOCOL: i64 = 51; // decoder made no progress where the protocol guarantees it (never expected)

fn arrow_err(e: &ArrowError) -> i64 {
    100 + match e {
        ArrowError::NotYetImplemented(_) => 1,
        ArrowError::ExternalError(_) => 2,
        ArrowError::CastError(_) => 3,
        ArrowError::MemoryError(_) => 4,
        ArrowError::ParseError(_) => 5,
        ArrowError::SchemaError(_) => 6,
        ArrowError::ComputeError(_) => 7,
        ArrowError::DivideByZero => 8,
        ArrowError::ArithmeticOverflow(_) => 9,
        ArrowError::CsvError(_) => 10,
        ArrowError::JsonError(_) => 11,
        ArrowError::AvroError(_) => 12,
        ArrowError::IoError(_, _) => 13,
        ArrowError::IpcError(_) => 14,
        ArrowError::InvalidArgumentError(_) => 15,
        ArrowError::ParquetError(_) => 16,
        ArrowError::CDataInterface(_) => 17,
        ArrowError::DictionaryKeyOverflowError => 18,
        ArrowError::RunEndIndexOverflowError => 19,
        ArrowError::OffsetOverflowError(_) => 20,
    }
}
fn avro_err(e: &arrow_avro::errors::AvroError) -> i64 {
    use arrow_avro::errors::AvroError as A;
    200 + match e {
        A::General(_) => 1,
        A::NYI(_) => 2,
        A::EOF(_) => 3,
        A::ArrowError(_) => 4,
        A::IndexOutOfBound(_, _) => 5,
        A::InvalidArgument(_) => 6,
        A::ParseError(_) => 7,
        A::SchemaError(_) => 8,
        A::External(_) => 9,
        A::IoError(_, _) => 10,
        A::NeedMoreData(_) => 11,
        A::NeedMoreDataRange(_) => 12,
        _ => 13,
    }
}
fn parquet_err(e: &parquet::errors::ParquetError) -> i64 {
    use parquet::errors::ParquetError as P;
    300 + match e {
        P::General(_) => 1,
        P::NYI(_) => 2,
        P::EOF(_) => 3,
        P::ArrowError(_) => 4,
        P::IndexOutOfBound(_, _) => 5,
        P::External(_) => 6,
        P::NeedMoreData(_) => 7,
        P::NeedMoreDataRange(_) => 8,
        #[allow(unreachable_patterns)]
        _ => 9,
    }
}

// ------------------------------------------------------------------------------------------------
// canonical outcome
#[derive(Clone, Debug, PartialEq, Eq)]
pub struct Outcome {
    pub status: i64,
    pub nrows: u64,
    pub ncols: u64,
    pub schema: u64,
    pub rows: u64,
    pub batch_ok: bool,
}
impl Outcome {
    fn groups(&self) -> Args {
        vec![g(self.status), vec![self.nrows.into(), self.ncols.into()], g(self.schema), g(self.rows), g(self.batch_ok as u8)]
    }
    fn panic() -> Self { Outcome { status: ST_PANIC, nrows: 0, ncols: 0, schema: 0, rows: 0, batch_ok: true } }
}

struct Fnv(u64);
impl Fnv {
    fn new() -> Self { Fnv(0xcbf29ce484222325) }
    fn byte(&mut self, b: u8) { self.0 ^= b as u64; self.0 = self.0.wrapping_mul(0x100000001b3); }
    fn bytes(&mut self, bs: &[u8]) { for b in bs { self.byte(*b) } }
}

fn schema_digest(s: &Schema) -> u64 {
    let mut h = Fnv::new();
    for f in s.fields() {
        h.bytes(f.name().as_bytes()); h.byte(0x1f);
        h.bytes(format!("{}", f.data_type()).as_bytes()); h.byte(0x1f);
        h.byte(f.is_nullable() as u8); h.byte(0x1e);
    }
    h.0 | 1
}

/// Collects batches in order; rows are digested row-major so that the digest does not depend on
/// where batch boundaries fall.
struct Sink { h: Fnv, nrows: u64, ncols: u64, schema: u64, max_batch: usize, limit: usize, dump: bool }
impl Sink {
    fn new(limit: usize) -> Self {
        Sink { h: Fnv::new(), nrows: 0, ncols: 0, schema: 0, max_batch: 0, limit, dump: std::env::var("VERIF_C14_DEBUG").is_ok() }
    }
    fn push(&mut self, b: &RecordBatch) {
        use arrow_cast::display::{ArrayFormatter, FormatOptions};
        let opts = FormatOptions::default().with_null("\u{1}N");
        let fmts: Vec<ArrayFormatter> = b.columns().iter().map(|c| ArrayFormatter::try_new(c.as_ref(), &opts).expect("formatter")).collect();
        self.ncols = b.num_columns() as u64;
        if self.schema == 0 { self.schema = schema_digest(b.schema().as_ref()); }
        else if self.schema != schema_digest(b.schema().as_ref()) { self.h.bytes(b"<schema-change>"); self.schema = schema_digest(b.schema().as_ref()); }
        self.max_batch = self.max_batch.max(b.num_rows());
        for r in 0..b.num_rows() {
            for f in &fmts {
                let s = f.value(r).try_to_string().unwrap_or_else(|_| "<fmt-error>".to_string());
                if self.dump { eprint!("{s}|"); }
                self.h.bytes(s.as_bytes()); self.h.byte(0x1f);
            }
            if self.dump { eprintln!(); }
            self.h.byte(0x1e);
            self.nrows += 1;
        }
    }
    fn done(self, status: i64, schema: Option<&Schema>) -> Outcome {
        let schema = match schema { Some(s) => schema_digest(s), None => self.schema };
        Outcome { status, nrows: self.nrows, ncols: self.ncols, schema, rows: self.h.0, batch_ok: self.max_batch <= self.limit }
    }
}

/// cut `input` at the (sorted, possibly repeated) positions `bounds`
fn cut<'a>(input: &'a [u8], bounds: &[usize]) -> Vec<&'a [u8]> {
    let mut out = Vec::with_capacity(bounds.len() + 1);
    let mut prev = 0usize;
    for &b in bounds {
        let b = b.min(input.len()).max(prev);
        out.push(&input[prev..b]);
        prev = b;
    }
    out.push(&input[prev..]);
    out
}

/// A `BufRead` that hands out the given chunks one at a time (the rest of the current chunk
/// after a partial `consume`). Empty chunks are skipped: `fill_buf` returning an empty slice
/// means end of input by the `BufRead` contract.
struct ChunkedReader<'a> { chunks: Vec<&'a [u8]>, ci: usize, off: usize, trace: Vec<usize> }
impl<'a> ChunkedReader<'a> {
    fn new(chunks: Vec<&'a [u8]>) -> Self { ChunkedReader { chunks: chunks.into_iter().filter(|c| !c.is_empty()).collect(), ci: 0, off: 0, trace: vec![] } }
    fn cur(&mut self) -> &'a [u8] {
        while self.ci < self.chunks.len() && self.off == self.chunks[self.ci].len() { self.ci += 1; self.off = 0; }
        if self.ci < self.chunks.len() { &self.chunks[self.ci][self.off..] } else { &[] }
    }
}
impl<'a> Read for ChunkedReader<'a> {
    fn read(&mut self, out: &mut [u8]) -> std::io::Result<usize> {
        let b = self.cur();
        let n = b.len().min(out.len());
        out[..n].copy_from_slice(&b[..n]);
        self.off += n;
        Ok(n)
    }
}
impl<'a> BufRead for ChunkedReader<'a> {
    fn fill_buf(&mut self) -> std::io::Result<&[u8]> { Ok(self.cur()) }
    fn consume(&mut self, amt: usize) { self.trace.push(amt); self.off += amt; }
}

// ------------------------------------------------------------------------------------------------
// IPC stream
fn run_ipc(input: &[u8], bounds: &[usize], variant: i64) -> Outcome {
    use arrow_ipc::reader::{StreamDecoder, StreamReader};
    let mut sink = Sink::new(usize::MAX);
    if variant == V_PULL {
        let mut r = match StreamReader::try_new(std::io::Cursor::new(input), None) {
            Ok(r) => r,
            Err(e) => return sink.done(arrow_err(&e), None),
        };
        let schema = r.schema();
        for b in &mut r {
            match b { Ok(b) => sink.push(&b), Err(e) => return sink.done(arrow_err(&e), Some(&schema)) }
        }
        return sink.done(0, Some(&schema));
    }
    let mut dec = StreamDecoder::new();
    let whole = Buffer::from(input.to_vec());
    let mut pos = 0usize;
    for c in cut(input, bounds) {
        // variant 0: every chunk is its own allocation; variant 1: zero-copy slices of one buffer
        let mut x = if variant == 1 { whole.slice_with_length(pos, c.len()) } else { Buffer::from(c.to_vec()) };
        pos += c.len();
        while !x.is_empty() {
            match dec.decode(&mut x) {
                Ok(Some(b)) => sink.push(&b),
                Ok(None) => {}
                Err(e) => { if sink.dump { eprintln!("ipc decode -> Err {e}"); } let s = dec.schema(); return sink.done(arrow_err(&e), s.as_deref()); }
            }
        }
    }
    let s = dec.schema();
    match dec.finish() {
        Ok(()) => sink.done(0, s.as_deref()),
        Err(e) => sink.done(arrow_err(&e), s.as_deref()),
    }
}

// ------------------------------------------------------------------------------------------------
// CSV
pub fn csv_schema(id: i64) -> SchemaRef {
    Arc::new(match id & 3 {
        0 => Schema::new(vec![Field::new("a", DataType::Int32, true), Field::new("b", DataType::Utf8, true)]),
        1 => Schema::new(vec![Field::new("a", DataType::Utf8, true), Field::new("b", DataType::Utf8, true), Field::new("c", DataType::Utf8, true)]),
        2 => Schema::new(vec![Field::new("x", DataType::Int64, true), Field::new("y", DataType::Float64, true),
                              Field::new("z", DataType::Boolean, true), Field::new("w", DataType::Utf8, true)]),
        _ => Schema::new(vec![Field::new("s", DataType::Utf8, true)]),
    })
}
pub const CSV_HEADER: i64 = 1 << 3;
pub const CSV_TRUNC: i64 = 1 << 4;
pub const CSV_ESCAPE: i64 = 1 << 5;
pub const CSV_SEMI: i64 = 1 << 6;
pub const CSV_COMMENT: i64 = 1 << 7;
pub const CSV_BOUNDS: i64 = 1 << 8;
pub const CSV_TERM: i64 = 1 << 9;
fn csv_builder(cfg: i64, bs: usize) -> arrow_csv::ReaderBuilder {
    let mut b = arrow_csv::ReaderBuilder::new(csv_schema(cfg)).with_batch_size(bs);
    if cfg & CSV_HEADER != 0 { b = b.with_header(true); }
    if cfg & CSV_TRUNC != 0 { b = b.with_truncated_rows(true); }
    if cfg & CSV_ESCAPE != 0 { b = b.with_escape(b'\\'); }
    if cfg & CSV_SEMI != 0 { b = b.with_delimiter(b';'); }
    if cfg & CSV_COMMENT != 0 { b = b.with_comment(b'#'); }
    if cfg & CSV_BOUNDS != 0 { b = b.with_bounds(1, 4); }
    if cfg & CSV_TERM != 0 { b = b.with_terminator(b'$'); }
    b
}
fn run_csv(cfg: i64, input: &[u8], bounds: &[usize], bs: usize, variant: i64) -> Outcome {
    let mut sink = Sink::new(bs);
    let schema = csv_schema(cfg);
    if variant == V_PULL {
        let r = match csv_builder(cfg, bs).build(std::io::Cursor::new(input)) { Ok(r) => r, Err(e) => return sink.done(arrow_err(&e), Some(&schema)) };
        for b in r { match b { Ok(b) => sink.push(&b), Err(e) => return sink.done(arrow_err(&e), Some(&schema)) } }
        return sink.done(0, Some(&schema));
    }
    // Documented protocol (Decoder doc example; variant 1 = BufReader::read with the capacity check):
    // decode(fill_buf()) until it returns 0, then flush; an empty buffer signals end of input, so
    // empty chunks are never handed to the decoder before the end (BufRead contract).
    let mut dec = csv_builder(cfg, bs).build_decoder();
    if variant == 2 {
        // EXPERIMENT ONLY (not generated): hand every chunk, including empty ones, to decode
        for c in cut(input, bounds).into_iter().chain(std::iter::once(&[][..])) {
            let mut rest = c;
            loop {
                let n = match dec.decode(rest) { Ok(n) => n, Err(e) => return sink.done(arrow_err(&e), Some(&schema)) };
                rest = &rest[n..];
                if n == 0 || dec.capacity() == 0 { match dec.flush() { Ok(Some(b)) => sink.push(&b), Ok(None) => {}, Err(e) => return sink.done(arrow_err(&e), Some(&schema)) } }
                if rest.is_empty() { break; }
            }
        }
        loop { match dec.flush() { Ok(Some(b)) => sink.push(&b), Ok(None) => break, Err(e) => return sink.done(arrow_err(&e), Some(&schema)) } }
        return sink.done(0, Some(&schema));
    }
    let mut rd = ChunkedReader::new(cut(input, bounds));
    let mut guard = 0usize;
    loop {
        loop {
            let buf = rd.cur();
            let decoded = match dec.decode(buf) { Ok(n) => n, Err(e) => return sink.done(arrow_err(&e), Some(&schema)) };
            rd.consume(decoded);
            if decoded == 0 || (variant == 1 && dec.capacity() == 0) { break; }
        }
        match dec.flush() {
            Ok(Some(b)) => sink.push(&b),
            Ok(None) => break,
            Err(e) => return sink.done(arrow_err(&e), Some(&schema)),
        }
        guard += 1;
        if guard > input.len() + 8 { return sink.done(ST_PROTOCOL, Some(&schema)); }
    }
    sink.done(0, Some(&schema))
}

// ------------------------------------------------------------------------------------------------
// JSON
pub fn json_schema(id: i64) -> SchemaRef {
    Arc::new(match id & 3 {
        0 => Schema::new(vec![Field::new("a", DataType::Int64, true), Field::new("b", DataType::Utf8, true)]),
        1 => Schema::new(vec![
            Field::new("a", DataType::Int64, true), Field::new("b", DataType::Utf8, true),
            Field::new("c", DataType::Boolean, true), Field::new("d", DataType::Float64, true),
            Field::new("e", DataType::List(Arc::new(Field::new("item", DataType::Int32, true))), true),
            Field::new("f", DataType::Struct(Fields::from(vec![Field::new("g", DataType::Utf8, true), Field::new("h", DataType::Int32, true)])), true)]),
        2 => Schema::new(vec![Field::new("s", DataType::Utf8, true)]),
        _ => Schema::new(vec![Field::new("n", DataType::Int64, true)]),
    })
}
pub const JS_STRICT: i64 = 1 << 3;
pub const JS_COERCE: i64 = 1 << 4;
pub const JS_FLATTEN: i64 = 1 << 5;
pub const JS_FIELD: i64 = 1 << 6;
pub const JS_IGNORE: i64 = 1 << 7;
fn json_builder(cfg: i64, bs: usize) -> arrow_json::ReaderBuilder {
    let schema = json_schema(cfg);
    let b = if cfg & JS_FIELD != 0 { arrow_json::ReaderBuilder::new_with_field(schema.field(0).clone()) } else { arrow_json::ReaderBuilder::new(schema) };
    b.with_batch_size(bs).with_strict_mode(cfg & JS_STRICT != 0).with_coerce_primitive(cfg & JS_COERCE != 0)
        .with_flatten(cfg & JS_FLATTEN != 0).with_ignore_type_conflicts(cfg & JS_IGNORE != 0)
}
/// variants: 0 = documented BufRead loop; 2 = raw push loop (every chunk, including empty ones, is
/// handed to decode; flush whenever decode stops short); k>=16 = as 0 plus extra flushes at
/// record boundaries chosen by a PRNG seeded with k (rows compared only if the run succeeds).
fn run_json(cfg: i64, input: &[u8], bounds: &[usize], bs: usize, variant: i64) -> Outcome {
    let mut sink = Sink::new(bs);
    let schema = json_schema(cfg);
    if variant == V_PULL {
        let r = match json_builder(cfg, bs).build(std::io::Cursor::new(input)) { Ok(r) => r, Err(e) => return sink.done(arrow_err(&e), Some(&schema)) };
        for b in r { match b { Ok(b) => sink.push(&b), Err(e) => return sink.done(arrow_err(&e), Some(&schema)) } }
        return sink.done(0, Some(&schema));
    }
    let mut dec = match json_builder(cfg, bs).build_decoder() { Ok(d) => d, Err(e) => return sink.done(arrow_err(&e), Some(&schema)) };
    macro_rules! flush { () => { match dec.flush() { Ok(Some(b)) => { sink.push(&b); true } Ok(None) => false, Err(e) => return sink.done(arrow_err(&e), Some(&schema)) } } }
    if variant == 2 {
        for c in cut(input, bounds) {
            let mut rest = c;
            loop {
                let n = match dec.decode(rest) { Ok(n) => n, Err(e) => return sink.done(arrow_err(&e), Some(&schema)) };
                rest = &rest[n..];
                if rest.is_empty() { break; }
                // stopped short: batch_size rows are buffered
                if !flush!() { return sink.done(ST_PROTOCOL, Some(&schema)); }
            }
        }
        while flush!() {}
        return sink.done(0, Some(&schema));
    }
    let mut rng = Rng::new(variant as u64);
    let mut rd = ChunkedReader::new(cut(input, bounds));
    let mut guard = 0usize;
    loop {
        let mut eof = false;
        loop {
            let buf = rd.cur();
            if buf.is_empty() { eof = true; break; }
            let read = buf.len();
            let decoded = match dec.decode(buf) { Ok(n) => n, Err(e) => return sink.done(arrow_err(&e), Some(&schema)) };
            rd.consume(decoded);
            if decoded != read { break; }
            if variant >= 16 && !dec.has_partial_record() && !dec.is_empty() && rng.chance(1, 3) { break; }
        }
        let got = flush!();
        if !got && eof { break; }
        guard += 1;
        if guard > 2 * input.len() + 8 { return sink.done(ST_PROTOCOL, Some(&schema)); }
    }
    sink.done(0, Some(&schema))
}

// ------------------------------------------------------------------------------------------------
// Avro
pub const AVRO_A: &str = r#"{"type":"record","name":"A","fields":[{"name":"x","type":"long"}]}"#;
pub const AVRO_B: &str = r#"{"type":"record","name":"B","fields":[{"name":"id","type":"long"},{"name":"name","type":"string"}]}"#;
pub const AVRO_C: &str = r#"{"type":"record","name":"C","fields":[{"name":"i","type":"int"},{"name":"d","type":"double"},{"name":"s","type":"string"},{"name":"b","type":"boolean"}]}"#;
pub const SOE_CONFLUENT: i64 = 1 << 3;
pub fn avro_arrow_schema(which: u8) -> Schema {
    let (json, fields) = match which {
        0 => (AVRO_A, vec![Field::new("x", DataType::Int64, false)]),
        1 => (AVRO_B, vec![Field::new("id", DataType::Int64, false), Field::new("name", DataType::Utf8, false)]),
        _ => (AVRO_C, vec![Field::new("i", DataType::Int32, false), Field::new("d", DataType::Float64, false),
                           Field::new("s", DataType::Utf8, false), Field::new("b", DataType::Boolean, false)]),
    };
    let mut md = std::collections::HashMap::new();
    md.insert(arrow_avro::schema::SCHEMA_METADATA_KEY.to_string(), json.to_string());
    Schema::new_with_metadata(fields, md)
}
fn soe_store(cfg: i64) -> arrow_avro::schema::SchemaStore {
    use arrow_avro::schema::*;
    if cfg & SOE_CONFLUENT != 0 {
        let mut st = SchemaStore::new_with_type(FingerprintAlgorithm::Id);
        st.set(Fingerprint::Id(1), AvroSchema::new(AVRO_A.to_string())).unwrap();
        st.set(Fingerprint::Id(2), AvroSchema::new(AVRO_B.to_string())).unwrap();
        st.set(Fingerprint::Id(0x01020304), AvroSchema::new(AVRO_C.to_string())).unwrap();
        st
    } else {
        let mut st = SchemaStore::new();
        for j in [AVRO_A, AVRO_B, AVRO_C] { st.register(AvroSchema::new(j.to_string())).unwrap(); }
        st
    }
}
fn run_avro_ocf(input: &[u8], bounds: &[usize], bs: usize, _variant: i64) -> Outcome {
    let mut sink = Sink::new(bs);
    let rd = ChunkedReader::new(cut(input, bounds));
    let r = match arrow_avro::reader::ReaderBuilder::new().with_batch_size(bs).build(rd) { Ok(r) => r, Err(e) => return sink.done(arrow_err(&e), None) };
    let schema = r.schema();
    for b in r { match b { Ok(b) => sink.push(&b), Err(e) => return sink.done(arrow_err(&e), Some(&schema)) } }
    sink.done(0, Some(&schema))
}
/// Single-object / Confluent framing. The decoder does not buffer input: `decode` returns the
/// number of bytes consumed and the caller re-offers the unconsumed tail together with the next
/// chunk ("may be 0 if more bytes are required, or less than data.len() if a prefix/body
/// straddles the chunk boundary").
fn run_avro_soe(cfg: i64, input: &[u8], bounds: &[usize], bs: usize, _variant: i64) -> Outcome {
    let mut sink = Sink::new(bs);
    let mut dec = match arrow_avro::reader::ReaderBuilder::new().with_batch_size(bs).with_writer_schema_store(soe_store(cfg)).build_decoder() {
        Ok(d) => d, Err(e) => return sink.done(arrow_err(&e), None) };
    let mut buf: Vec<u8> = Vec::new();
    macro_rules! flush { () => { match dec.flush() { Ok(Some(b)) => sink.push(&b), Ok(None) => {}, Err(e) => { if sink.dump { eprintln!("flush -> Err {e}"); } return sink.done(avro_err(&e), None) } } } }
    for c in cut(input, bounds) {
        buf.extend_from_slice(c);
        let mut guard = 0usize;
        loop {
            let n = match dec.decode(&buf) { Ok(n) => n, Err(e) => { if sink.dump { eprintln!("decode({} bytes) -> Err {e}", buf.len()); } return sink.done(avro_err(&e), None) } };
            if sink.dump { eprintln!("decode({} bytes) -> {n}", buf.len()); }
            buf.drain(..n);
            if dec.batch_is_full() { flush!(); } else if n == 0 || buf.is_empty() { break; }
            guard += 1;
            if guard > 2 * input.len() + 8 { return sink.done(ST_PROTOCOL, None); }
        }
    }
    flush!();
    sink.done(if buf.is_empty() { 0 } else { ST_TRAILING }, None)
}

// ------------------------------------------------------------------------------------------------
// Parquet metadata push decoder: the "chunking" is which byte ranges have been pushed before
// / in answer to the decoder's requests.
fn run_parquet(cfg: i64, input: &[u8], bounds: &[usize], variant: i64) -> Outcome {
    use parquet::file::metadata::{PageIndexPolicy, ParquetMetaData, ParquetMetaDataPushDecoder, ParquetMetaDataReader};
    use parquet::DecodeResult;
    let policy = match cfg & 3 { 0 => PageIndexPolicy::Skip, 1 => PageIndexPolicy::Optional, _ => PageIndexPolicy::Required };
    let bytes = bytes::Bytes::from(input.to_vec());
    let pull = ParquetMetaDataReader::new().with_page_index_policy(policy).parse_and_finish(&bytes);
    let out = |status: i64, m: Option<&ParquetMetaData>| -> Outcome {
        let eq = match (m, &pull) { (Some(a), Ok(b)) => (a == b) as u64, (None, Err(_)) => 1, _ => 0 };
        Outcome { status, nrows: m.map(|m| m.file_metadata().num_rows() as u64).unwrap_or(0), ncols: m.map(|m| m.num_row_groups() as u64).unwrap_or(0),
                  schema: m.map(|m| m.file_metadata().schema_descr().num_columns() as u64 + 1).unwrap_or(0), rows: eq, batch_ok: true }
    };
    if variant == V_PULL {
        return match &pull { Ok(m) => out(0, Some(m)), Err(_) => out(1, None) };
    }
    let n = input.len() as u64;
    let mut dec = match ParquetMetaDataPushDecoder::try_new(n) { Ok(d) => d.with_page_index_policy(policy), Err(_) => return out(1, None) };
    // prefetch: variant 1 pushes every chunk as its own range before the first try_decode;
    // variant 2 pushes only the last chunk (a suffix of the file); variant 0 pushes nothing.
    let chunks = cut(input, bounds);
    let mut pos = 0u64;
    for (i, c) in chunks.iter().enumerate() {
        let r = pos..pos + c.len() as u64;
        pos = r.end;
        if c.is_empty() { continue; }
        if variant == 1 || (variant == 2 && i + 1 == chunks.len()) {
            if dec.push_range(r.clone(), bytes.slice(r.start as usize..r.end as usize)).is_err() { return out(ST_PROTOCOL, None); }
        }
    }
    let mut guard = 0;
    loop {
        match dec.try_decode() {
            Ok(DecodeResult::Data(m)) => return out(0, Some(&m)),
            Ok(DecodeResult::NeedsData(ranges)) => {
                for r in ranges {
                    if r.end > n || r.start > r.end { return out(2, None); }
                    // variant 3: answer with a superset of the requested range
                    let (s, e) = if variant == 3 { (r.start.saturating_sub(cfg as u64 >> 2), (r.end + (cfg as u64 >> 2)).min(n)) } else { (r.start, r.end) };
                    if dec.push_range(s..e, bytes.slice(s as usize..e as usize)).is_err() { return out(ST_PROTOCOL, None); }
                }
            }
            Ok(DecodeResult::Finished) => return out(ST_PROTOCOL, None),
            Err(_) => return out(1, None),
        }
        guard += 1;
        if guard > 16 { return out(ST_PROTOCOL, None); }
    }
}

// ------------------------------------------------------------------------------------------------
// IPC stream framing walk (harness side): used for the oracle of the Coq model and to turn a
// stream into Flight messages.
pub struct Frame { pub meta: Vec<u8>, pub body: Vec<u8>, pub valid: bool, pub body_len: i64, pub kind: i64, pub rows: i64 }
/// kind: 0 = no batch (Schema/Dictionary/NONE), 1 = RecordBatch, 2 = error when the message is decoded
pub fn walk_ipc(input: &[u8]) -> Vec<Frame> {
    use arrow_ipc::MessageHeader;
    let mut out = vec![];
    let mut pos = 0usize;
    let mut seen_schema = false;
    loop {
        if input.len() - pos < 4 { break; }
        let mut w: [u8; 4] = input[pos..pos + 4].try_into().unwrap();
        pos += 4;
        if w == [0xff; 4] {
            if input.len() - pos < 4 { break; }
            w = input[pos..pos + 4].try_into().unwrap();
            pos += 4;
        }
        let size = u32::from_le_bytes(w) as usize;
        if size == 0 { break; }
        if input.len() - pos < size { break; }
        let meta = input[pos..pos + size].to_vec();
        pos += size;
        match arrow_ipc::root_as_message(&meta) {
            Err(_) => { out.push(Frame { meta, body: vec![], valid: false, body_len: 0, kind: 2, rows: 0 }); break; }
            Ok(m) => {
                let bl = m.bodyLength();
                let (kind, rows) = match m.header_type() {
                    MessageHeader::Schema => if seen_schema { (2, 0) } else { seen_schema = true; (0, 0) },
                    MessageHeader::RecordBatch => if seen_schema { (1, m.header_as_record_batch().map(|b| b.length()).unwrap_or(0)) } else { (2, 0) },
                    MessageHeader::DictionaryBatch => if seen_schema { (0, 0) } else { (2, 0) },
                    MessageHeader::NONE => (0, 0),
                    _ => (2, 0),
                };
                let avail = input.len() - pos;
                let take = if bl < 0 { 0 } else { (bl as usize).min(avail) };
                let body = input[pos..pos + take].to_vec();
                pos += take;
                let complete = bl >= 0 && take == bl as usize;
                out.push(Frame { meta, body, valid: true, body_len: bl, kind, rows });
                if !complete || kind == 2 { break; }
            }
        }
    }
    out
}

// Flight: the same messages delivered as a stream of FlightData; "chunking" = poll schedule
// (Pending returned k times before a message is yielded) and the alignment of the body allocation.
struct SchedStream { items: std::collections::VecDeque<(usize, arrow_flight::FlightData)> }
impl futures::Stream for SchedStream {
    type Item = Result<arrow_flight::FlightData, arrow_flight::error::FlightError>;
    fn poll_next(mut self: std::pin::Pin<&mut Self>, cx: &mut std::task::Context<'_>) -> std::task::Poll<Option<Self::Item>> {
        match self.items.front_mut() {
            None => std::task::Poll::Ready(None),
            Some((pending, _)) if *pending > 0 => { *pending -= 1; cx.waker().wake_by_ref(); std::task::Poll::Pending }
            Some(_) => { let (_, d) = self.items.pop_front().unwrap(); std::task::Poll::Ready(Some(Ok(d))) }
        }
    }
}
fn run_flight(input: &[u8], bounds: &[usize], _variant: i64) -> Outcome {
    use arrow_flight::decode::{DecodedPayload, FlightDataDecoder};
    use futures::StreamExt;
    let mut sink = Sink::new(usize::MAX);
    let frames = walk_ipc(input);
    let mut items = std::collections::VecDeque::new();
    for (i, f) in frames.iter().enumerate() {
        let k = bounds.get(i).copied().unwrap_or(0);
        // body placed at offset (k % 9) * 8 + (k % 2) of an over-allocated buffer: varies 64-byte alignment
        let shift = (k % 9) * 8 + (k % 2);
        let mut store = vec![0u8; shift + f.body.len()];
        store[shift..].copy_from_slice(&f.body);
        let body = bytes::Bytes::from(store).slice(shift..);
        let d = arrow_flight::FlightData { flight_descriptor: None, data_header: bytes::Bytes::from(f.meta.clone()), app_metadata: bytes::Bytes::new(), data_body: body };
        items.push_back((k % 4, d));
    }
    let mut dec = FlightDataDecoder::new(SchedStream { items });
    let mut schema: Option<SchemaRef> = None;
    let status = futures::executor::block_on(async {
        while let Some(r) = dec.next().await {
            match r {
                Ok(d) => match d.payload {
                    DecodedPayload::Schema(s) => schema = Some(s),
                    DecodedPayload::RecordBatch(b) => sink.push(&b),
                    DecodedPayload::None => {}
                },
                Err(e) => { return match e { arrow_flight::error::FlightError::Arrow(a) => arrow_err(&a), arrow_flight::error::FlightError::DecodeError(_) => 402, arrow_flight::error::FlightError::ProtocolError(_) => 403, _ => 401 }; }
            }
        }
        0
    });
    sink.done(status, schema.as_deref())
}

// ------------------------------------------------------------------------------------------------
pub fn outcome(fmt: i64, cfg: i64, bs: usize, variant: i64, input: &[u8], bounds: &[usize]) -> Outcome {
    if std::env::var("VERIF_C14_DEBUG").is_ok() { std::panic::set_hook(Box::new(|i| eprintln!("PANIC {i}"))); }
    let r = catch_unwind(AssertUnwindSafe(|| match fmt {
        F_IPC => run_ipc(input, bounds, variant),
        F_CSV => run_csv(cfg, input, bounds, bs, variant),
        F_JSON => run_json(cfg, input, bounds, bs, variant),
        F_AVRO_OCF => run_avro_ocf(input, bounds, bs, variant),
        F_AVRO_SOE => run_avro_soe(cfg, input, bounds, bs, variant),
        F_PARQUET => run_parquet(cfg, input, bounds, variant),
        F_FLIGHT => run_flight(input, bounds, variant),
        _ => Outcome::panic(),
    }));
    let mut o = r.unwrap_or_else(|_| Outcome::panic());
    // runs with extra flushes legitimately emit a different number of rows before a later error
    if fmt == F_JSON && variant >= 16 && o.status != 0 { o.nrows = 0; o.rows = 0; o.ncols = 0; }
    o
}
/// the single-chunk run the property compares against (same normalisation as `outcome`)
fn baseline_inproc(fmt: i64, cfg: i64, bs: usize, variant: i64, input: &[u8]) -> Outcome {
    let bv = match fmt { F_IPC | F_JSON | F_CSV | F_PARQUET | F_FLIGHT => 0, _ => 0 };
    let mut o = outcome(fmt, cfg, bs, bv, input, &[]);
    if fmt == F_JSON && variant >= 16 && o.status != 0 { o.nrows = 0; o.rows = 0; o.ncols = 0; }
    if variant == V_PULL { o = pull_view(fmt, o); }
    o
}
/// what a pull reader is required to agree on: for the self-describing stream formats the pull
/// readers report errors differently (and IPC's StreamReader treats a clean end without EOS
/// like the decoder), so only successful runs are compared in full.
fn pull_view(_fmt: i64, o: Outcome) -> Outcome { o }

fn family_count(fam: i64, n: usize, p: usize, nallowed: usize) -> BigInt {
    match fam {
        7 => BigInt::from(nallowed),
        8 => BigInt::from(1u8) << nallowed,
        9 => BigInt::from(1),
        0 | 4 => BigInt::from(n + 1),
        1 => if n == 0 { BigInt::from(1) } else { BigInt::from(1u8) << (n - 1) },
        2 => BigInt::from(1),
        3 => BigInt::from(p),
        5 => BigInt::from(n.saturating_sub(1)) * BigInt::from(n.saturating_sub(2)) / 2,
        6 => if p == 0 { BigInt::from(1) } else { BigInt::from(1u8) << (p - 1) },
        _ => BigInt::from(0),
    }
}
/// enumerate the chunkings of a family; returns the first whose outcome differs from `base`
fn sweep(fmt: i64, cfg: i64, bs: usize, variant: i64, input: &[u8], fam: i64, p: usize, q: usize, allowed: &[usize]) -> Option<(Vec<usize>, Outcome)> {
    let n = input.len();
    let base = baseline_inproc(fmt, cfg, bs, variant, input);
    let mut check = |b: &[usize]| -> Option<(Vec<usize>, Outcome)> {
        let o = outcome(fmt, cfg, bs, variant, input, b);
        if o != base || !o.batch_ok { Some((b.to_vec(), o)) } else { None }
    };
    match fam {
        0 => { for i in 0..=n { if let Some(f) = check(&[i]) { return Some(f); } } }
        4 => { for i in 0..=n { if let Some(f) = check(&[i, i]) { return Some(f); } } }
        1 => {
            let m = n.saturating_sub(1);
            for mask in 0u64..(1u64 << m) {
                let b: Vec<usize> = (0..m).filter(|j| mask >> j & 1 == 1).map(|j| j + 1).collect();
                if let Some(f) = check(&b) { return Some(f); }
            }
        }
        2 => { let b: Vec<usize> = (1..n).collect(); if let Some(f) = check(&b) { return Some(f); } }
        // families over an explicit list of admissible cut positions
        7 => { for &i in allowed { if let Some(f) = check(&[i]) { return Some(f); } } }
        8 => { for mask in 0u64..(1u64 << allowed.len()) {
                   let b: Vec<usize> = (0..allowed.len()).filter(|j| mask >> j & 1 == 1).map(|j| allowed[j]).collect();
                   if let Some(f) = check(&b) { return Some(f); } } }
        9 => { if let Some(f) = check(allowed) { return Some(f); } }
        3 => { for k in 1..=p { let b: Vec<usize> = (1..n).filter(|i| i % k == 0).collect(); if let Some(f) = check(&b) { return Some(f); } } }
        5 => { for i in 1..n { for j in (i + 1)..n { if let Some(f) = check(&[i, j]) { return Some(f); } } } }
        6 => {
            // all partitions of the window [q, q+p), the rest of the input in one chunk on either side
            let m = p.saturating_sub(1);
            for mask in 0u64..(1u64 << m) {
                let mut b: Vec<usize> = vec![q.min(n)];
                b.extend((0..m).filter(|j| mask >> j & 1 == 1).map(|j| (q + j + 1).min(n)));
                b.push((q + p).min(n));
                if let Some(f) = check(&b) { return Some(f); }
            }
        }
        _ => {}
    }
    None
}

fn run_direct(op: &str, a: &Args) -> Option<Args> {
    Some(match op {
        "c14.baseline" => {
            let h = to_i64s(&a[0]);
            baseline_inproc(h[0], h[1], h[2] as usize, h[3], &to_u8s(&a[1])).groups()
        }
        "c14.chunk" => {
            let h = to_i64s(&a[0]);
            let input = to_u8s(&a[1]);
            let bounds: Vec<usize> = a[2].iter().map(|b| usize::try_from(b).unwrap()).collect();
            let mut o = outcome(h[0], h[1], h[2] as usize, h[3], &input, &bounds);
            if h[3] == V_PULL { o = pull_view(h[0], o); }
            o.groups()
        }
        "c14.sweep" => {
            let h = to_i64s(&a[0]);
            let input = to_u8s(&a[1]);
            let f = to_i64s(&a[2]);
            let (fam, p, q) = (f[0], f[1] as usize, f.get(2).copied().unwrap_or(0) as usize);
            let allowed: Vec<usize> = f.iter().skip(3).map(|x| *x as usize).collect();
            let mut out = vec![vec![family_count(fam, input.len(), p, allowed.len())]];
            match sweep(h[0], h[1], h[2] as usize, h[3], &input, fam, p, q, &allowed) {
                None => { out.push(vec![]); out.push(vec![]); }
                Some((b, o)) => { out.push(b.iter().map(|x| BigInt::from(*x)).collect()); out.push(o.groups().into_iter().flatten().collect()); }
            }
            out
        }
        "c14.ipc_calls" | "c14.ipc_events" => {
            use arrow_ipc::reader::StreamDecoder;
            let input = to_u8s(&a[0]);
            let bounds: Vec<usize> = a[1].iter().map(|b| usize::try_from(b).unwrap()).collect();
            let mut dec = StreamDecoder::new();
            let mut calls: Vec<BigInt> = vec![];
            let mut tags: Vec<BigInt> = vec![];
            let mut status = 0i64;
            'outer: for (ci, c) in cut(&input, &bounds).into_iter().enumerate() {
                let mut x = Buffer::from(c.to_vec());
                while !x.is_empty() {
                    let before = x.len();
                    let r = dec.decode(&mut x);
                    let (code, tag) = match &r { Ok(None) => (0, 0), Ok(Some(b)) => (1, b.num_rows() as i64), Err(_) => (2, 0) };
                    calls.extend([BigInt::from(ci), BigInt::from(before - x.len()), BigInt::from(code), BigInt::from(tag)]);
                    if code == 1 { tags.push(tag.into()); }
                    if code == 2 { status = 1; break 'outer; }
                }
            }
            let fin = if status == 1 { -1 } else if dec.finish().is_ok() { 1 } else { 0 };
            if op == "c14.ipc_calls" { vec![calls, g(fin)] }
            else { vec![tags, g(if status == 1 { 1 } else if fin == 1 { 0 } else { 2 })] }
        }
        "c14.json_calls" | "c14.json_rows" => {
            // per-call observables of arrow_json::reader::Decoder (empty schema: every row must be an
            // object, no column is decoded): bytes consumed, len(), has_partial_record(); flushed rows
            let h = to_i64s(&a[0]);
            let input = to_u8s(&a[1]);
            let bounds: Vec<usize> = a[2].iter().map(|b| usize::try_from(b).unwrap()).collect();
            let mut dec = arrow_json::ReaderBuilder::new(Arc::new(Schema::empty())).with_batch_size(h[0] as usize).with_flatten(h[1] != 0).build_decoder().unwrap();
            let mut calls: Vec<BigInt> = vec![];
            let mut fls: Vec<BigInt> = vec![];
            let mut status = 0i64;
            'outer: for c in cut(&input, &bounds) {
                let mut rest = c;
                loop {
                    match dec.decode(rest) {
                        Err(_) => { status = 1; break 'outer; }
                        Ok(n) => {
                            calls.extend([BigInt::from(n), BigInt::from(dec.len()), BigInt::from(dec.has_partial_record() as u8)]);
                            rest = &rest[n..];
                            if rest.is_empty() { break; }
                            match dec.flush() { Ok(Some(b)) => fls.push(b.num_rows().into()), Ok(None) => { status = ST_PROTOCOL; break 'outer; } Err(_) => { status = 2; break 'outer; } }
                        }
                    }
                }
            }
            if status == 0 { match dec.flush() { Ok(Some(b)) => fls.push(b.num_rows().into()), Ok(None) => {}, Err(_) => status = 2 } }
            if op == "c14.json_calls" { vec![calls, fls, g(status)] }
            else { vec![vec![fls.iter().fold(BigInt::from(0), |x, y| x + y)], g(status)] }
        }
        "c14.avro_ocf" | "c14.avro_vals" => {
            // OCF file with the single-long record schema: trace of BufRead::consume amounts
            // (= bytes consumed by each HeaderDecoder / BlockDecoder call), decoded values, status
            let input = to_u8s(&a[0]);
            let bounds: Vec<usize> = a[1].iter().map(|b| usize::try_from(b).unwrap()).collect();
            let mut rd = ChunkedReader::new(cut(&input, &bounds));
            let mut vals: Vec<BigInt> = vec![];
            let mut status = 0i64;
            {
                match arrow_avro::reader::ReaderBuilder::new().with_batch_size(1 << 20).build(&mut rd) {
                    Err(_) => status = 1,
                    Ok(r) => for b in r {
                        match b {
                            Ok(b) => { let c = b.column(0).as_any().downcast_ref::<Int64Array>().expect("long column"); vals.extend(c.values().iter().map(|v| BigInt::from(*v))); }
                            Err(_) => { status = 2; break; }
                        }
                    },
                }
            }
            if status != 0 { vals.clear(); }
            if op == "c14.avro_vals" { vec![vals, g(status)] } else { vec![rd.trace.iter().map(|x| BigInt::from(*x)).collect(), vals, g(status)] }
        }
        _ => return None,
    })
}


// ------------------------------------------------------------------------------------------------
// process isolation: the decoders run in a worker process (`harness replay <fifo>` with
// VERIF_C14_WORKER set), so that an abort inside arrow-rs (allocation failure, non-unwinding panic)
// or a hang under some chunking is reported as an outcome of that case instead of killing the run.
mod worker {
    use super::*;
    use std::io::Write;
    use std::sync::mpsc::{channel, Receiver};
    use std::sync::Mutex;
    struct W { child: std::process::Child, tx: std::fs::File, rx: Receiver<Option<String>>, dir: std::path::PathBuf }
    static W: Mutex<Option<W>> = Mutex::new(None);
    static SEQ: std::sync::atomic::AtomicUsize = std::sync::atomic::AtomicUsize::new(0);
    fn spawn() -> Option<W> {
        let n = SEQ.fetch_add(1, std::sync::atomic::Ordering::SeqCst);
        let dir = std::env::temp_dir().join(format!("c14w-{}-{}", std::process::id(), n));
        std::fs::create_dir_all(&dir).ok()?;
        let (fin, fout) = (dir.join("in"), dir.join("out"));
        for f in [&fin, &fout] { if !std::process::Command::new("mkfifo").arg(f).status().ok()?.success() { return None; } }
        let child = std::process::Command::new(std::env::current_exe().ok()?).arg("replay").arg(&fin)
            .env("VERIF_C14_WORKER", &fout).stdout(std::process::Stdio::null()).spawn().ok()?;
        let tx = std::fs::OpenOptions::new().write(true).open(&fin).ok()?; // blocks until the worker opens its end
        let (s, rx) = channel();
        std::thread::spawn(move || {
            use std::io::BufRead;
            let f = match std::fs::File::open(&fout) { Ok(f) => f, Err(_) => { let _ = s.send(None); return; } };
            let mut rd = std::io::BufReader::new(f);
            loop {
                let mut line = String::new();
                match rd.read_line(&mut line) { Ok(0) | Err(_) => { let _ = s.send(None); return; } Ok(_) => { if s.send(Some(line)).is_err() { return; } } }
            }
        });
        Some(W { child, tx, rx, dir })
    }
    fn kill(w: &mut W) { let _ = w.child.kill(); let _ = w.child.wait(); let _ = std::fs::remove_dir_all(&w.dir); }
    pub fn call(op: &str, a: &Args) -> Args {
        let mut g = W.lock().unwrap();
        if g.is_none() { *g = spawn(); }
        let Some(w) = g.as_mut() else { return err(E_IO) };
        let line = format!("0:{op}\tx\t{}\n", fmt_args(a));
        if w.tx.write_all(line.as_bytes()).and_then(|_| w.tx.flush()).is_err() { kill(w); *g = None; return err(E_PANIC); }
        let secs = std::env::var("VERIF_C14_TIMEOUT").ok().and_then(|s| s.parse().ok()).unwrap_or(120u64);
        match w.rx.recv_timeout(std::time::Duration::from_secs(secs)) {
            Ok(Some(l)) => { let _ = std::fs::remove_dir_all(&w.dir); parse_args(l.trim_end()) }
            // worker died (abort) or hangs: this case crashed the real code
            _ => { kill(w); *g = None; err(E_PANIC) }
        }
    }
    static OUT: Mutex<Option<std::fs::File>> = Mutex::new(None);
    /// in the worker: run the op, report the result on the side channel
    pub fn serve(path: &str, op: &str, a: &Args) -> Option<Args> {
        {
            let mut o = OUT.lock().unwrap();
            if o.is_none() { *o = std::fs::OpenOptions::new().write(true).open(path).ok(); }
        }
        let r = catch_unwind(AssertUnwindSafe(|| run_direct(op, a))).unwrap_or_else(|_| Some(err(E_PANIC)))?;
        let mut o = OUT.lock().unwrap();
        if let Some(f) = o.as_mut() { let _ = f.write_all(format!("{}\n", fmt_args(&r)).as_bytes()); let _ = f.flush(); }
        Some(r)
    }
}

pub fn run(op: &str, a: &Args) -> Option<Args> {
    if !matches!(op, "c14.baseline" | "c14.chunk" | "c14.sweep" | "c14.ipc_calls" | "c14.ipc_events" | "c14.avro_ocf" | "c14.avro_vals" | "c14.json_calls" | "c14.json_rows") { return None; }
    if let Ok(path) = std::env::var("VERIF_C14_WORKER") { return worker::serve(&path, op, a); }
    if std::env::var("VERIF_C14_INPROC").is_ok() { return run_direct(op, a); }
    Some(worker::call(op, a))
}
/// the single-chunk run, computed in the worker
pub fn baseline(fmt: i64, cfg: i64, bs: usize, variant: i64, input: &[u8]) -> Outcome {
    let r = run("c14.baseline", &vec![vec![BigInt::from(fmt), BigInt::from(cfg), BigInt::from(bs), BigInt::from(variant)], gbytes(input)]).unwrap();
    if r.len() != 5 { return Outcome::panic(); }
    let u = |g: &Group, i: usize| -> u64 { g.get(i).and_then(|x| u64::try_from(x).ok()).unwrap_or(0) };
    Outcome { status: r[0].first().and_then(|x| i64::try_from(x).ok()).unwrap_or(ST_PANIC), nrows: u(&r[1], 0), ncols: u(&r[1], 1), schema: u(&r[2], 0), rows: u(&r[3], 0), batch_ok: u(&r[4], 0) == 1 }
}

// ================================================================================================
// generators
fn rand_utf8(r: &mut Rng, max: usize) -> String {
    let n = r.below(max + 1);
    let pool = ["a", "b", "Z", "0", " ", "é", "ß", "€", "漢", "😀", "\u{7f}", "x", "y"];
    (0..n).map(|_| *r.pick(&pool)).collect()
}

// ---- IPC
fn ipc_batch(sid: usize, r: &mut Rng, rows: usize) -> RecordBatch {
    let opt_i32 = |r: &mut Rng| if r.chance(1, 4) { None } else { Some(r.range(-5, 1000) as i32) };
    match sid {
        0 => RecordBatch::try_from_iter_with_nullable(vec![("a", Arc::new(Int32Array::from((0..rows).map(|_| opt_i32(r)).collect::<Vec<_>>())) as ArrayRef, true)]).unwrap(),
        1 => {
            let a: Int32Array = (0..rows).map(|_| opt_i32(r)).collect();
            let b: StringArray = (0..rows).map(|_| if r.chance(1, 4) { None } else { Some(rand_utf8(r, 6)) }).collect();
            RecordBatch::try_from_iter_with_nullable(vec![("a", Arc::new(a) as ArrayRef, true), ("b", Arc::new(b) as ArrayRef, true)]).unwrap()
        }
        2 => {
            let mut b = StringDictionaryBuilder::<Int8Type>::new();
            for _ in 0..rows { if r.chance(1, 5) { b.append_null() } else { b.append_value(*r.pick(&["x", "yy", "zzz"])) } }
            RecordBatch::try_from_iter_with_nullable(vec![("d", Arc::new(b.finish()) as ArrayRef, true)]).unwrap()
        }
        3 => {
            let mut b = ListBuilder::new(Int16Builder::new());
            for _ in 0..rows {
                if r.chance(1, 5) { b.append(false) } else { for _ in 0..r.below(4) { b.values().append_value(r.range(-3, 300) as i16) } b.append(true) }
            }
            RecordBatch::try_from_iter_with_nullable(vec![("l", Arc::new(b.finish()) as ArrayRef, true)]).unwrap()
        }
        4 => RecordBatch::try_from_iter_with_nullable(vec![("n", Arc::new(NullArray::new(rows)) as ArrayRef, true)]).unwrap(),
        5 => {
            let x: Int64Array = (0..rows).map(|_| Some(r.range(-9, 9))).collect();
            let y: BooleanArray = (0..rows).map(|_| if r.chance(1, 4) { None } else { Some(r.bool()) }).collect();
            let s = StructArray::from(vec![(Arc::new(Field::new("x", DataType::Int64, true)), Arc::new(x) as ArrayRef), (Arc::new(Field::new("y", DataType::Boolean, true)), Arc::new(y) as ArrayRef)]);
            RecordBatch::try_from_iter_with_nullable(vec![("s", Arc::new(s) as ArrayRef, true)]).unwrap()
        }
        _ => {
            let b: BooleanArray = (0..rows).map(|_| Some(r.bool())).collect();
            let f: Float64Array = (0..rows).map(|_| Some(r.range(-100, 100) as f64 / 8.0)).collect();
            let bin: BinaryArray = (0..rows).map(|_| if r.chance(1, 4) { None } else { Some({ let k = r.below(5); r.bytes(k) }) }).collect::<Vec<Option<Vec<u8>>>>().iter().map(|x| x.as_deref()).collect();
            let ts: TimestampMillisecondArray = (0..rows).map(|_| Some(r.range(0, 1 << 40))).collect();
            RecordBatch::try_from_iter_with_nullable(vec![("b", Arc::new(b) as ArrayRef, true), ("f", Arc::new(f) as ArrayRef, true), ("bin", Arc::new(bin) as ArrayRef, true), ("ts", Arc::new(ts) as ArrayRef, true)]).unwrap()
        }
    }
}
/// a stream written by the real StreamWriter; returns (bytes, tag)
fn ipc_stream(r: &mut Rng, with_eos: bool) -> (Vec<u8>, String) { let (b, t, _) = ipc_stream_c(r, with_eos); (b, t) }
fn ipc_stream_c(r: &mut Rng, with_eos: bool) -> (Vec<u8>, String, bool) {
    use arrow_ipc::writer::{IpcWriteOptions, StreamWriter};
    use arrow_ipc::MetadataVersion;
    let sid = r.below(7);
    let nb = r.below(4);
    let legacy = r.chance(1, 6);
    let align = *r.pick(&[8usize, 8, 16, 64]);
    let mut opts = if legacy { IpcWriteOptions::try_new(8, true, MetadataVersion::V4).unwrap() } else { IpcWriteOptions::try_new(align, false, MetadataVersion::V5).unwrap() };
    let comp = if !legacy && r.chance(1, 6) { if r.bool() { Some(arrow_ipc::CompressionType::LZ4_FRAME) } else { Some(arrow_ipc::CompressionType::ZSTD) } } else { None };
    if comp.is_some() { opts = opts.try_with_compression(comp).unwrap(); }
    let first_rows = r.below(5);
    let first = ipc_batch(sid, r, first_rows);
    let mut buf = Vec::new();
    {
        let mut w = StreamWriter::try_new_with_options(&mut buf, &first.schema(), opts).unwrap();
        for i in 0..nb {
            let rows = if r.chance(1, 4) { 0 } else { 1 + r.below(5) };
            let b = if i == 0 { first.slice(0, first.num_rows().min(rows)) } else { ipc_batch(sid, r, rows) };
            w.write(&b).unwrap();
        }
        if with_eos { w.finish().unwrap(); } else { w.flush().unwrap(); }
        let _ = w;
    }
    if !with_eos {
        // into_inner() without finish(): the stream simply ends after the last message
    }
    (buf, format!("s{sid} b{nb} l{} a{align} c{}", legacy as u8, comp.is_some() as u8), comp.is_some())
}

fn put_all(emit: &mut dyn FnMut(Case), r: &mut Rng, tier: &str, fmt: i64, cfg: i64, bs: usize, variants: &[i64], input: &[u8], tag: &str, exhaustive_small: bool) {
    let n = input.len();
    let thorough = tier == "thorough";
    let head = |v: i64| vec![BigInt::from(fmt), BigInt::from(cfg), BigInt::from(bs), BigInt::from(v)];
    let sw = |emit: &mut dyn FnMut(Case), v: i64, fam: i64, p: usize, q: usize| {
        emit(Case::new("c14.sweep", vec![head(v), gbytes(input), vec![fam.into(), p.into(), q.into()]], &["c14.sweep.spec"], format!("f{fmt} sweep{fam} v{v} {tag}")));
    };
    for &v in variants {
        if v == V_PULL { continue; }
        // every single split point (incl. 0 and n: leading / trailing empty chunk), all-1-byte
        sw(emit, v, 0, 0, 0);
        sw(emit, v, 2, 0, 0);
        if n <= 600 || thorough { sw(emit, v, 4, 0, 0); }
        sw(emit, v, 3, if thorough { 9 } else { 5 }, 0);
        if n <= 13 && exhaustive_small { sw(emit, v, 1, 0, 0); }
        else if n >= 2 {
            // exhaustive partitions of a window
            let w = if thorough { 11 } else { 8 }.min(n);
            for _ in 0..(if thorough { 4 } else { 2 }) { let q = r.below(n - w + 1); sw(emit, v, 6, w, q); }
            if n <= 40 { sw(emit, v, 5, 0, 0); }
        }
        // explicit random multi-splits, with empty chunks inserted
        let base = baseline(fmt, cfg, bs, v, input);
        for _ in 0..(if thorough { 12 } else { 4 }) {
            let k = 1 + r.below(8);
            let mut b: Vec<usize> = (0..k).map(|_| r.below(n + 1)).collect();
            if r.chance(1, 2) { let d = b[r.below(b.len())]; b.push(d); if r.bool() { b.push(d); } }
            b.sort();
            let mut args = vec![head(v), gbytes(input), b.iter().map(|x| BigInt::from(*x)).collect()];
            args.extend(base.groups());
            emit(Case::new("c14.chunk", args, &["c14.chunk.spec"], format!("f{fmt} multi v{v} {tag}")));
        }
    }
    if variants.contains(&V_PULL) {
        let base = baseline(fmt, cfg, bs, V_PULL, input);
        let mut args = vec![head(V_PULL), gbytes(input), vec![]];
        args.extend(base.groups());
        emit(Case::new("c14.chunk", args, &["c14.chunk.spec"], format!("f{fmt} pull {tag}")));
    }
}

pub fn generate(tier: &str, r: &mut Rng, emit: &mut dyn FnMut(Case)) {
    let thorough = tier == "thorough";
    let scale = if thorough { 8 } else { 1 };
    gen_ipc(tier, r, emit, 14 * scale);
    gen_csv(tier, r, emit, 60 * scale);
    gen_json(tier, r, emit, 60 * scale);
    gen_avro(tier, r, emit, 12 * scale);
    gen_parquet(tier, r, emit, 4 * scale);
    gen_ipc_model(tier, r, emit, 10 * scale);
    gen_avro_model(tier, r, emit, 40 * scale);
    gen_json_model(tier, r, emit, 40 * scale);
}

fn gen_json_model(tier: &str, r: &mut Rng, emit: &mut dyn FnMut(Case), count: usize) {
    for i in 0..count {
        let flatten = r.chance(1, 3);
        let cfg = 1 | if flatten { JS_FLATTEN } else { 0 };
        let (bytes, tag) = json_doc_x(r, cfg, true);
        let bs = *r.pick(&[1usize, 2, 3, 1024]);
        let n = bytes.len();
        let mut put = |b: Vec<usize>, what: &str| {
            let args = vec![vec![BigInt::from(bs), BigInt::from(flatten as u8)], gbytes(&bytes), b.iter().map(|x| BigInt::from(*x)).collect()];
            emit(Case::new("c14.json_calls", args.clone(), &["c14.json_calls"], format!("json calls {what} {tag} bs{bs}")));
            emit(Case::new("c14.json_rows", args, &["c14.json_rows", "c14.json_rows.spec"], format!("json rows {what} {tag} bs{bs}")));
        };
        put(vec![], "one");
        for _ in 0..(if tier == "thorough" { 30 } else { 12 }) { put(rand_bounds(r, n), "rand"); }
        if i % 4 == 0 || (tier == "thorough" && i % 2 == 0) { for p in 0..=n { put(vec![p], "split"); } }
    }
}

// ---- cases tying the Coq framing models to the code
fn rand_bounds(r: &mut Rng, n: usize) -> Vec<usize> {
    let mut b: Vec<usize> = match r.below(6) {
        0 => (1..n).collect(),                                        // one byte at a time
        1 => { let k = 1 + r.below(9); (1..n).filter(|i| i % k == 0).collect() }
        2 => vec![r.below(n + 1)],
        _ => (0..1 + r.below(10)).map(|_| r.below(n + 1)).collect(),
    };
    if r.chance(1, 3) && !b.is_empty() { let d = b[r.below(b.len())]; b.push(d); }
    b.sort();
    b
}
/// every truncation of a stream at / around its framing boundaries (inside the continuation marker,
/// inside the size prefix, inside / right after the metadata, inside / right after the body)
fn ipc_boundary_cuts(bytes: &[u8]) -> Vec<usize> {
    let f = walk_ipc(bytes);
    let legacy = bytes.len() >= 4 && bytes[..4] != [0xff; 4];
    let hdr = if legacy { 4 } else { 8 };
    let mut cuts = vec![];
    let mut pos = 0usize;
    for fr in &f { for d in 1..=hdr + 1 { cuts.push(pos + d); } pos += hdr + fr.meta.len(); cuts.push(pos - 1); cuts.push(pos); cuts.push(pos + 1); pos += fr.body.len(); cuts.push(pos); }
    for d in 1..hdr { cuts.push(pos + d); }
    cuts.retain(|c| *c <= bytes.len());
    cuts.sort(); cuts.dedup();
    cuts
}
/// the extracted IPC model keeps sizes in unary: only streams whose every size prefix (including a
/// trailing, incomplete message) is small are used for the model correspondence
fn ipc_sizes_small(input: &[u8]) -> bool {
    let mut pos = 0usize;
    loop {
        if input.len() - pos < 4 { return true; }
        let mut w: [u8; 4] = input[pos..pos + 4].try_into().unwrap();
        pos += 4;
        if w == [0xff; 4] { if input.len() - pos < 4 { return true; } w = input[pos..pos + 4].try_into().unwrap(); pos += 4; }
        let size = u32::from_le_bytes(w) as usize;
        if size == 0 { return true; }
        if size > 65535 { return false; }
        if input.len() - pos < size { return true; }
        let bl = match arrow_ipc::root_as_message(&input[pos..pos + size]) { Ok(m) => m.bodyLength(), Err(_) => return true };
        pos += size;
        if bl < 0 || bl > 65535 { return false; }
        if input.len() - pos < bl as usize { return true; }
        pos += bl as usize;
    }
}
fn gen_ipc_model(tier: &str, r: &mut Rng, emit: &mut dyn FnMut(Case), count: usize) {
    // all boundary truncations of two streams (one with, one without the EOS marker)
    for with_eos in [true, false] {
        let (full, tag) = ipc_stream(r, with_eos);
        for k in ipc_boundary_cuts(&full) {
            let bytes = &full[..k];
            let frames = walk_ipc(bytes);
            let oracle: Vec<BigInt> = frames.iter().flat_map(|f| [BigInt::from(f.valid as u8), BigInt::from(f.body_len.max(0)), BigInt::from(f.kind), BigInt::from(f.rows)]).collect();
            for j in 0..3 {
                let b = if j == 0 { vec![] } else { rand_bounds(r, k) };
                let args = vec![gbytes(bytes), b.iter().map(|x| BigInt::from(*x)).collect(), oracle.clone()];
                emit(Case::new("c14.ipc_calls", args.clone(), &["c14.ipc_calls"], format!("ipc calls trunc {tag}")));
                emit(Case::new("c14.ipc_events", args, &["c14.ipc_events", "c14.ipc_events.spec"], format!("ipc events trunc {tag}")));
            }
        }
    }
    for i in 0..count {
        let with_eos = !r.chance(1, 4);
        let (mut bytes, tag) = ipc_stream(r, with_eos);
        let kind = r.below(6);
        match kind {
            0 => { let k = r.below(bytes.len() + 1); bytes.truncate(k); }
            // junk only after a complete EOS: junk directly after a message would be read as a size prefix
            // of up to 2^32 - 1, which the extracted model represents in unary
            1 => if with_eos { bytes.extend({ let k = 1 + r.below(6); r.bytes(k) }) },
            2 => { let (b2, _) = ipc_stream(r, true); if with_eos && r.bool() { bytes.truncate(bytes.len() - 8); } bytes.extend(b2); }
            3 => { // drop the schema message: the first batch arrives without a schema
                let f = walk_ipc(&bytes);
                if let Some(f0) = f.first() { let skip = 8 + f0.meta.len() + f0.body.len(); if skip <= bytes.len() { bytes.drain(..skip); } }
            }
            _ => {}
        }
        if kind == 5 { let cuts = ipc_boundary_cuts(&bytes); if !cuts.is_empty() { let k = *r.pick(&cuts); bytes.truncate(k); } }
        if !ipc_sizes_small(&bytes) { continue; }
        let frames = walk_ipc(&bytes);
        let oracle: Vec<BigInt> = frames.iter().flat_map(|f| [BigInt::from(f.valid as u8), BigInt::from(f.body_len.max(0)), BigInt::from(f.kind), BigInt::from(f.rows)]).collect();
        let n = bytes.len();
        let mut put = |b: Vec<usize>, what: &str| {
            let args = vec![gbytes(&bytes), b.iter().map(|x| BigInt::from(*x)).collect(), oracle.clone()];
            emit(Case::new("c14.ipc_calls", args.clone(), &["c14.ipc_calls"], format!("ipc calls {what} k{kind} {tag}")));
            emit(Case::new("c14.ipc_events", args, &["c14.ipc_events", "c14.ipc_events.spec"], format!("ipc events {what} k{kind} {tag}")));
        };
        put(vec![], "one");
        for _ in 0..(if tier == "thorough" { 40 } else { 16 }) { put(rand_bounds(r, n), "rand"); }
        if i % 5 == 0 || (tier == "thorough" && i % 2 == 0) { for p in 0..=n { put(vec![p], "split"); } }
    }
}

fn enc_long(v: i64, pad: usize, out: &mut Vec<u8>) {
    let mut z = ((v << 1) ^ (v >> 63)) as u64;
    let mut groups = vec![];
    loop { groups.push((z & 0x7f) as u8); z >>= 7; if z == 0 { break; } }
    let total = (groups.len() + pad).min(10).max(groups.len());
    while groups.len() < total { groups.push(0); }
    // a 10-group encoding may only carry one bit in its last group
    let last = groups.len() - 1;
    for (i, gr) in groups.iter().enumerate() { out.push(if i == last { *gr } else { gr | 0x80 }); }
}
/// hand-built OCF file for the schema {x: long}: metadata map blocks and block framing use
/// non-canonical (padded) varints so that every length prefix can straddle a chunk boundary
fn ocf_long_file(r: &mut Rng) -> (Vec<u8>, String) {
    let pad = |r: &mut Rng| if r.chance(1, 3) { r.below(4) } else { 0 };
    let mut f = vec![b'O', b'b', b'j', 1u8];
    let mut entries: Vec<(Vec<u8>, Vec<u8>)> = vec![(b"avro.schema".to_vec(), AVRO_A.as_bytes().to_vec())];
    if r.bool() { entries.push((b"avro.codec".to_vec(), b"null".to_vec())); }
    if r.chance(1, 3) { entries.push((b"".to_vec(), b"".to_vec())); }
    if r.chance(1, 3) { entries.push((b"k".to_vec(), { let k = r.below(20); r.bytes(k) })); }
    if r.bool() { entries.reverse(); }
    let mut i = 0;
    while i < entries.len() {
        let take = 1 + r.below(entries.len() - i);
        let mut body = vec![];
        for (k, v) in &entries[i..i + take] {
            enc_long(k.len() as i64, pad(r), &mut body); body.extend(k);
            enc_long(v.len() as i64, pad(r), &mut body); body.extend(v);
        }
        if r.chance(1, 3) { enc_long(-(take as i64), pad(r), &mut f); enc_long(body.len() as i64, pad(r), &mut f); } else { enc_long(take as i64, pad(r), &mut f); }
        f.extend(body);
        i += take;
    }
    enc_long(0, pad(r), &mut f);
    let sync = r.bytes(16);
    f.extend(&sync);
    let nb = r.below(4);
    let inv = r.below(10);
    for bi in 0..nb {
        let c = r.below(5);
        let mut data = vec![];
        for _ in 0..c {
            let v = match r.below(6) { 0 => r.range(-64, 63), 1 => r.range(-100000, 100000), 2 => i64::MAX - r.below(2) as i64, 3 => i64::MIN + r.below(2) as i64, 4 => (r.next() >> r.below(64)) as i64, _ => 0 };
            enc_long(v, pad(r), &mut data);
        }
        let mut count = c as i64;
        if inv == 0 && bi == 0 { count = -1 - r.below(3) as i64; }                  // negative count
        if inv == 1 && bi == 0 && c > 0 { count += 1; }                              // more records announced than present
        if inv == 2 && bi == 0 && c > 0 { let l = data.len(); data[l - 1] |= 0x80; data.extend([0x80u8; 10]); data.push(0x7f); } // over-long varint
        if inv == 3 && bi == 0 && c > 0 { data.clear(); }                            // count > 0 but empty payload: block skipped
        if inv == 4 && bi == 0 { f.extend([0x80u8; 10]); f.push(2); }               // over-long block count
        enc_long(count, pad(r), &mut f);
        enc_long(data.len() as i64, pad(r), &mut f);
        f.extend(&data);
        if inv == 5 && bi + 1 == nb { let mut s2 = sync.clone(); s2[r.below(16)] ^= 1; f.extend(s2); } else { f.extend(&sync); }
    }
    if inv == 6 { let k = r.below(f.len() + 1); f.truncate(k); }
    if inv == 7 { f[r.below(4)] ^= 0x20; }
    (f, format!("ocfl b{nb} i{}", inv.min(8)))
}
fn gen_avro_model(tier: &str, r: &mut Rng, emit: &mut dyn FnMut(Case), count: usize) {
    for i in 0..count {
        let (bytes, tag) = ocf_long_file(r);
        let n = bytes.len();
        let mut put = |b: Vec<usize>, what: &str| {
            let args = vec![gbytes(&bytes), b.iter().map(|x| BigInt::from(*x)).collect()];
            emit(Case::new("c14.avro_ocf", args.clone(), &["c14.avro_ocf"], format!("avro trace {what} {tag}")));
            emit(Case::new("c14.avro_vals", args, &["c14.avro_vals", "c14.avro_vals.spec"], format!("avro vals {what} {tag}")));
        };
        put(vec![], "one");
        for _ in 0..(if tier == "thorough" { 30 } else { 12 }) { put(rand_bounds(r, n), "rand"); }
        if i % 8 == 0 || (tier == "thorough" && i % 3 == 0) { for p in 0..=n { put(vec![p], "split"); } }
    }
}

fn gen_ipc(tier: &str, r: &mut Rng, emit: &mut dyn FnMut(Case), count: usize) {
    for i in 0..count {
        let with_eos = !r.chance(1, 5);
        let (mut bytes, tag, compressed) = ipc_stream_c(r, with_eos);
        // body bytes of compressed streams are never corrupted: the 8-byte uncompressed-length prefix
        // of a compressed buffer is trusted by arrow-ipc (decompress_to_buffer allocates it: a flipped
        // high bit aborts the process with an allocation failure - out of scope here, see report)
        let kind = if i < 4 { 0 } else { let k = r.below(8); if k == 7 && compressed { 0 } else { k } };
        // KNOWN-FINDING candidate (arrow-ipc/src/reader/stream.rs:160,210): a message whose bodyLength
        // is 0 (the schema, a batch without buffers) is only processed when the NEXT bytes arrive
        // (`while !buffer.is_empty()`), so a stream that ends without the optional EOS marker right
        // after such a message loses it and finish() fails, while StreamReader returns it. Witness:
        // StreamWriter::try_new(.., {a: Int32}) + flush, no finish(): decoder.schema() stays None and
        // finish() = Err("Unexpected End of Stream"); StreamReader: schema, 0 batches, Ok.
        // The pull comparison skips exactly: no EOS and last message with empty body.
        let mut pull = with_eos || walk_ipc(&bytes).last().map(|f| f.body_len > 0).unwrap_or(false);
        match kind {
            0 | 1 | 2 => {}
            3 => { let k = r.below(bytes.len() + 1); bytes.truncate(k); pull = false; }
            4 => { bytes.extend({ let k = 1 + r.below(6); r.bytes(k) }); pull = false; }
            5 => { let (b2, _) = ipc_stream(r, true); if r.bool() { bytes.truncate(bytes.len().saturating_sub(if with_eos { 8 } else { 0 })); } bytes.extend(b2); pull = false; }
            6 => { // corrupt a size prefix / continuation marker / body byte (never flatbuffer metadata)
                let frames = walk_ipc(&bytes);
                if !frames.is_empty() && !bytes.is_empty() {
                    let p = r.below(8.min(bytes.len()));
                    bytes[p] ^= 1 << r.below(8);
                }
                pull = false;
            }
            _ => { // body byte flip
                let frames = walk_ipc(&bytes);
                let mut pos = 0usize; let mut target = None;
                for f in &frames { pos += 8 + f.meta.len(); if !f.body.is_empty() && r.chance(1, 2) { target = Some(pos + r.below(f.body.len())); } pos += f.body.len(); }
                if let Some(t) = target { if t < bytes.len() { bytes[t] ^= 1 << r.below(8); } }
                pull = false;
            }
        }
        let vs: Vec<i64> = if pull { vec![0, 1, V_PULL] } else { vec![0, 1] };
        put_all(emit, r, tier, F_IPC, 0, 0, &vs, &bytes, &format!("k{kind} e{} {tag}", with_eos as u8), false);
        if kind <= 2 {
            // Flight: same messages, poll schedules / body alignments
            let base = baseline(F_FLIGHT, 0, 0, 0, &bytes);
            for _ in 0..3 {
                let b: Vec<usize> = (0..8).map(|_| r.below(40)).collect();
                let mut args = vec![vec![BigInt::from(F_FLIGHT), 0.into(), 0.into(), 0.into()], gbytes(&bytes), b.iter().map(|x| BigInt::from(*x)).collect()];
                args.extend(base.groups());
                emit(Case::new("c14.chunk", args, &["c14.chunk.spec"], format!("f7 sched {tag}")));
            }
        }
    }
}

// ---- CSV
fn csv_field(r: &mut Rng, ty: &DataType, delim: char, escape: bool) -> String {
    if r.chance(1, 7) { return String::new(); }
    match ty {
        DataType::Int32 | DataType::Int64 => { let v = r.range(-50, 5000).to_string(); if r.chance(1, 8) { format!("\"{v}\"") } else { v } }
        DataType::Float64 => format!("{}", r.range(-1000, 1000) as f64 / 16.0),
        DataType::Boolean => (*r.pick(&["true", "false", "TRUE", "False"])).to_string(),
        _ => {
            let mut s = String::new();
            let quoted = r.chance(1, 2);
            for _ in 0..r.below(6) {
                match r.below(if quoted { 12 } else { 8 }) {
                    0 => s.push('a'), 1 => s.push(' '), 2 => s.push('é'), 3 => s.push('€'), 4 => s.push('😀'), 5 => s.push('z'), 6 => s.push('7'), 7 => s.push('-'),
                    8 => s.push(delim), 9 => s.push('\n'), 10 => s.push_str("\r\n"),
                    _ => if escape { s.push_str("\\\"") } else { s.push_str("\"\"") },
                }
            }
            if quoted { format!("\"{s}\"") } else { s }
        }
    }
}
fn csv_doc(r: &mut Rng, cfg: i64) -> (Vec<u8>, String) {
    let schema = csv_schema(cfg);
    let delim = if cfg & CSV_SEMI != 0 { ';' } else { ',' };
    let term: &str = if cfg & CSV_TERM != 0 { "$" } else if r.chance(1, 3) { "\r\n" } else { "\n" };
    let mixed = cfg & CSV_TERM == 0 && r.chance(1, 5);
    let rows = r.below(7);
    let mut s = String::new();
    let mut line = |s: &mut String, r: &mut Rng, fields: Vec<String>, last: bool| {
        s.push_str(&fields.join(&delim.to_string()));
        if !(last && r.chance(1, 3)) { if mixed { s.push_str(if r.bool() { "\r\n" } else { "\n" }) } else { s.push_str(term) } }
    };
    if cfg & CSV_HEADER != 0 { line(&mut s, r, schema.fields().iter().map(|f| f.name().clone()).collect(), rows == 0); }
    for i in 0..rows {
        if cfg & CSV_COMMENT != 0 && r.chance(1, 5) { s.push_str("# a comment, with \"quote\n"); }
        let mut fields: Vec<String> = schema.fields().iter().map(|f| csv_field(r, f.data_type(), delim, cfg & CSV_ESCAPE != 0)).collect();
        if cfg & CSV_TRUNC != 0 && r.chance(1, 3) { fields.truncate(1 + r.below(fields.len())); }
        line(&mut s, r, fields, i + 1 == rows);
    }
    let mut bytes = s.into_bytes();
    // invalid variants
    let inv = r.below(12);
    match inv {
        0 => bytes.extend_from_slice(b"1,2,3,4,5,6\n"),                 // too many fields
        1 => bytes.extend_from_slice(b"\"unterminated,1\n2"),          // quote never closed
        2 => { if !bytes.is_empty() { let p = r.below(bytes.len()); bytes[p] = 0xff; } } // invalid UTF-8 (or broken number)
        3 => bytes.extend_from_slice(b"x\"y,z\n"),                       // stray quote
        4 => bytes.extend_from_slice(b"notanumber,1\n"),
        5 => { let k = r.below(bytes.len() + 1); bytes.truncate(k); }
        _ => {}
    }
    (bytes, format!("c{cfg} r{rows} i{}", inv.min(6)))
}
fn gen_csv(tier: &str, r: &mut Rng, emit: &mut dyn FnMut(Case), count: usize) {
    // tiny hand-written inputs: all 2^(n-1) partitions
    let tiny: [(&[u8], i64); 12] = [
        (b"1,a\r\n2,\"b\"\r\n", 0), (b"\"a\"\"b\",c,d\n", 1), (b"1,\"x\ny\"\n2,z", 0), (b"a,b,c\r\n\r\nd,e,f", 1),
        (b"\xe2\x82\xac\n\"\xf0\x9f\x98\x80\"\n", 3), (b"1,\"\"\n,\n", 0), (b"\"a\\\"b\"\n", 3 | CSV_ESCAPE), (b"a;b;c$d;e;f$", 1 | CSV_SEMI | CSV_TERM),
        (b"#c\nx\n#d\ny\n", 3 | CSV_COMMENT), (b"1\n2,b\n3\n", 0 | CSV_TRUNC),
        // short rows that still contain delimiters, in 3- and 4-column schemas (padding must count the fields of the whole row,
        // not of the last read_record call: seed C14-m6)
        (b"1,2,3\n4,5\n6\n7,8,9\n", 1 | CSV_TRUNC), (b"1,2.5\n2,1.5,true\n3\n4,0.5,false,w\n", 2 | CSV_TRUNC),
    ];
    for (inp, cfg) in tiny {
        for bs in [1usize, 2, 1024] {
            put_all(emit, r, tier, F_CSV, cfg, bs, &[0, 1, V_PULL], inp, "tiny", true);
        }
    }
    for _ in 0..count {
        let mut cfg = r.below(4) as i64;
        for (bit, den) in [(CSV_HEADER, 3), (CSV_TRUNC, 6), (CSV_ESCAPE, 6), (CSV_SEMI, 6), (CSV_COMMENT, 8), (CSV_BOUNDS, 10), (CSV_TERM, 10)] { if r.chance(1, den) { cfg |= bit; } }
        let (bytes, tag) = csv_doc(r, cfg);
        let bs = *r.pick(&[1usize, 1, 2, 3, 4, 5, 1024]);
        let v = if r.bool() { 0 } else { 1 };
        put_all(emit, r, tier, F_CSV, cfg, bs, &[v, V_PULL], &bytes, &format!("{tag} bs{bs}"), true);
    }
}

// ---- JSON
fn json_string(r: &mut Rng) -> String {
    let mut s = String::from("\"");
    for _ in 0..r.below(7) {
        match r.below(16) {
            0 => s.push_str("\\n"), 1 => s.push_str("\\\""), 2 => s.push_str("\\\\"), 3 => s.push_str("\\/"), 4 => s.push_str("\\t"),
            5 => s.push_str("\\u00e9"), 6 => s.push_str("\\u20AC"), 7 => s.push_str("\\uD83D\\uDE00"), 8 => s.push_str("\\ud834\\udd1e"),
            9 => s.push('é'), 10 => s.push('€'), 11 => s.push('😀'), 12 => s.push_str("\\b\\f\\r"), 13 => s.push(' '), 14 => s.push('{'), _ => s.push('a'),
        }
    }
    s.push('"');
    s
}
fn json_number(r: &mut Rng, float: bool) -> String {
    if float { (*r.pick(&["1.5", "-0.25", "1e3", "2.5E-2", "-1.0e+2", "0", "12345.678"])).to_string() } else { r.range(-1000, 100000).to_string() }
}
fn ws(r: &mut Rng) -> &'static str { *r.pick(&["", "", "", " ", "\t", "\n", "\r\n", "  "]) }
fn json_value(r: &mut Rng, ty: &DataType, depth: usize) -> String {
    if r.chance(1, 8) { return "null".to_string(); }
    match ty {
        DataType::Int64 | DataType::Int32 => json_number(r, false),
        DataType::Float64 => { let fl = r.chance(2, 3); json_number(r, fl) }
        DataType::Boolean => (if r.bool() { "true" } else { "false" }).to_string(),
        DataType::Utf8 => json_string(r),
        DataType::List(f) => { let k = r.below(4); let items: Vec<String> = (0..k).map(|_| format!("{}{}{}", ws(r), json_value(r, f.data_type(), depth + 1), ws(r))).collect(); format!("[{}{}]", items.join(","), ws(r)) }
        DataType::Struct(fs) => json_object(r, fs, depth + 1),
        _ => "null".to_string(),
    }
}
fn json_object(r: &mut Rng, fields: &Fields, depth: usize) -> String {
    let mut parts = vec![];
    for f in fields.iter() {
        if r.chance(1, 6) { continue; }
        parts.push(format!("{}\"{}\"{}:{}{}{}", ws(r), f.name(), ws(r), ws(r), json_value(r, f.data_type(), depth), ws(r)));
    }
    if depth == 0 && r.chance(1, 8) { parts.push(format!("\"extra\":{}", *r.pick(&["1", "\"x\"", "[1,{\"q\":null}]", "{\"a\":{}}"]))); }
    if r.chance(1, 4) { parts.reverse(); }
    format!("{{{}{}}}", parts.join(","), ws(r))
}
fn json_doc(r: &mut Rng, cfg: i64) -> (Vec<u8>, String) { json_doc_x(r, cfg, false) }
/// `lexical_only`: only invalid variants that the tape decoder itself rejects (no raw invalid UTF-8, no bare scalar rows)
fn json_doc_x(r: &mut Rng, cfg: i64, lexical_only: bool) -> (Vec<u8>, String) {
    let schema = json_schema(cfg);
    let rows = r.below(7);
    let mut s = String::new();
    let flatten = cfg & JS_FLATTEN != 0;
    let mut open = false;
    for i in 0..rows {
        if flatten && !open && r.chance(1, 2) { s.push('['); open = true; }
        let row = if cfg & JS_FIELD != 0 { json_value(r, schema.field(0).data_type(), 0) } else { json_object(r, schema.fields(), 0) };
        s.push_str(&row);
        if open { if r.chance(1, 3) { s.push(']'); open = false; s.push_str(*r.pick(&["\n", " ", ""])); } else { s.push_str(*r.pick(&[",", " , ", ",\n"])); } }
        else if cfg & JS_FIELD != 0 { s.push_str(*r.pick(&["\n", " ", "\r\n"])); }
        else if i + 1 < rows || r.chance(2, 3) { s.push_str(*r.pick(&["\n", "\n", " ", "", "\r\n", "\n\n"])); }
    }
    if open { s.push(']'); }
    let mut bytes = s.into_bytes();
    let mut inv = r.below(14);
    if lexical_only && (inv == 4 || inv == 8) { inv = 13; }
    match inv {
        0 => bytes.extend_from_slice(b"{\"a\": nul}"),
        1 => bytes.extend_from_slice(b"{\"b\": \"\\x\"}"),
        2 => bytes.extend_from_slice(b"{\"b\": \"\\uD83Dx\"}"),
        3 => bytes.extend_from_slice(b"{\"b\": \"\\uDE00\"}"),
        4 => { if !bytes.is_empty() { let p = r.below(bytes.len()); bytes[p] = 0xff; } }
        5 => { let k = r.below(bytes.len() + 1); bytes.truncate(k); }
        6 => bytes.extend_from_slice(b"{\"a\": \"str\"}\n"),
        7 => bytes.extend_from_slice(b"{\"a\" 1}"),
        8 => bytes.extend_from_slice(b"12"),
        _ => {}
    }
    (bytes, format!("j{cfg} r{rows} i{}", inv.min(9)))
}
fn gen_json(tier: &str, r: &mut Rng, emit: &mut dyn FnMut(Case), count: usize) {
    let tiny: [(&[u8], i64); 10] = [
        (b"{\"a\":1}{\"a\":2}", 0), (b"{\"b\":\"\\u00e9\"}", 0), (b"\"\\uD83D\\uDE00\"", 2 | JS_FIELD), (b"1 22\n333", 3 | JS_FIELD),
        (b"[{\"a\":1},{}]", 0 | JS_FLATTEN), (b"{\"a\":null}\n", 0), (b"\"\xe2\x82\xac\" \"x\"", 2 | JS_FIELD), (b"{\"a\":tru}", 0), (b"-1e2\n", 3 | JS_FIELD), (b"{\"b\":\"\\\\\"}", 0),
    ];
    for (inp, cfg) in tiny {
        for bs in [1usize, 2, 1024] {
            put_all(emit, r, tier, F_JSON, cfg, bs, &[0, 2, 17, V_PULL], inp, "tiny", true);
        }
    }
    for _ in 0..count {
        let mut cfg = r.below(4) as i64;
        if cfg >= 2 { cfg |= JS_FIELD; }
        for (bit, den) in [(JS_STRICT, 8), (JS_COERCE, 8), (JS_FLATTEN, 5), (JS_IGNORE, 8)] { if r.chance(1, den) { cfg |= bit; } }
        let (bytes, tag) = json_doc(r, cfg);
        let bs = *r.pick(&[1usize, 1, 2, 3, 4, 5, 1024]);
        let vv = 16 + r.below(1000) as i64;
        let v = *r.pick(&[0i64, 2, vv]);
        put_all(emit, r, tier, F_JSON, cfg, bs, &[v, V_PULL], &bytes, &format!("{tag} bs{bs}"), true);
    }
}

// ---- Avro
fn avro_batch(which: u8, r: &mut Rng, rows: usize) -> RecordBatch {
    let schema = Arc::new(avro_arrow_schema(which));
    let big = |r: &mut Rng| -> i64 { match r.below(6) { 0 => r.range(-64, 64), 1 => r.range(-9000, 9000), 2 => i64::MAX - r.below(3) as i64, 3 => i64::MIN + r.below(3) as i64, 4 => (r.next() >> r.below(60)) as i64, _ => r.range(-3, 3) } };
    let cols: Vec<ArrayRef> = match which {
        0 => vec![Arc::new(Int64Array::from((0..rows).map(|_| big(r)).collect::<Vec<_>>()))],
        1 => vec![Arc::new(Int64Array::from((0..rows).map(|_| big(r)).collect::<Vec<_>>())), Arc::new(StringArray::from((0..rows).map(|_| rand_utf8(r, 5)).collect::<Vec<_>>()))],
        _ => vec![Arc::new(Int32Array::from((0..rows).map(|_| r.range(-70000, 70000) as i32).collect::<Vec<_>>())),
                  Arc::new(Float64Array::from((0..rows).map(|_| r.range(-99, 99) as f64 / 4.0).collect::<Vec<_>>())),
                  Arc::new(StringArray::from((0..rows).map(|_| rand_utf8(r, 4)).collect::<Vec<_>>())),
                  Arc::new(BooleanArray::from((0..rows).map(|_| r.bool()).collect::<Vec<_>>()))],
    };
    RecordBatch::try_new(schema, cols).unwrap()
}
fn avro_ocf_file(r: &mut Rng) -> (Vec<u8>, String) {
    use arrow_avro::compression::CompressionCodec;
    use arrow_avro::writer::{format::AvroOcfFormat, WriterBuilder};
    let which = r.below(3) as u8;
    let codec = match r.below(8) { 0 => Some(CompressionCodec::Deflate), 1 => Some(CompressionCodec::Snappy), 2 => Some(CompressionCodec::ZStandard), _ => None };
    let nb = r.below(4);
    let mut w = WriterBuilder::new(avro_arrow_schema(which)).with_compression(codec).build::<_, AvroOcfFormat>(Vec::new()).unwrap();
    for _ in 0..nb { let rows = 1 + r.below(5); w.write(&avro_batch(which, r, rows)).unwrap(); }
    w.finish().unwrap();
    (w.into_inner(), format!("ocf s{which} b{nb} c{}", codec.is_some() as u8))
}
/// single-object / Confluent framed messages built row by row with the real Encoder; also returns
/// the cut positions that do not fall strictly inside a record body (see KNOWN-FINDING note below)
fn avro_soe_stream(r: &mut Rng, cfg: i64) -> (Vec<u8>, Vec<usize>, String) {
    use arrow_avro::schema::FingerprintStrategy;
    use arrow_avro::writer::{format::AvroSoeFormat, WriterBuilder};
    let mut out: Vec<u8> = vec![];
    let mut allowed: Vec<usize> = vec![0];
    let groups = 1 + r.below(3);
    let mixed = r.chance(1, 3);
    let first = r.below(3) as u8;
    let plen = if cfg & SOE_CONFLUENT != 0 { 5 } else { 10 };
    for _ in 0..groups {
        let which = if mixed { r.below(3) as u8 } else { first };
        let strat = if cfg & SOE_CONFLUENT != 0 { FingerprintStrategy::Id([1u32, 2, 0x01020304][which as usize]) } else { FingerprintStrategy::Rabin };
        let mut enc = WriterBuilder::new(avro_arrow_schema(which)).with_fingerprint_strategy(strat).build_encoder::<AvroSoeFormat>().unwrap();
        let rows = 1 + r.below(4);
        enc.encode(&avro_batch(which, r, rows)).unwrap();
        let rows = enc.flush();
        for m in rows.iter() {
            let s = out.len();
            out.extend_from_slice(&m);
            for p in s + 1..=s + plen { allowed.push(p); }   // inside / right after the prefix
            allowed.push(out.len());                          // message boundary
        }
    }
    allowed.sort(); allowed.dedup();
    (out, allowed, format!("soe c{cfg} g{groups} m{}", mixed as u8))
}
fn gen_avro(tier: &str, r: &mut Rng, emit: &mut dyn FnMut(Case), count: usize) {
    for _ in 0..count {
        let (mut bytes, tag) = avro_ocf_file(r);
        let inv = r.below(8);
        match inv {
            0 => { let k = r.below(bytes.len() + 1); bytes.truncate(k); }
            1 => { let n = bytes.len(); if n > 4 { let p = n - 1 - r.below(16.min(n)); bytes[p] ^= 0x55; } }   // trailing sync marker
            2 => { let p = r.below(4); bytes[p] ^= 1; }                                                      // magic
            _ => {}
        }
        let bs = *r.pick(&[1usize, 2, 3, 1024]);
        put_all(emit, r, tier, F_AVRO_OCF, 0, bs, &[0], &bytes, &format!("{tag} i{} bs{bs}", inv.min(3)), false);
    }
    for _ in 0..count {
        let cfg = if r.chance(1, 3) { SOE_CONFLUENT } else { 0 };
        let (mut bytes, mut allowed, tag) = avro_soe_stream(r, cfg);
        let inv = r.below(8);
        match inv {
            0 => { let k = r.below(bytes.len() + 1); bytes.truncate(k); allowed.retain(|p| *p <= k); }
            1 => { if bytes.len() > 3 { bytes[2] ^= 0x40; } }     // unknown fingerprint
            2 => { bytes[0] ^= 0x01; }                            // bad magic
            _ => {}
        }
        let bs = *r.pick(&[1usize, 2, 3, 1024]);
        // KNOWN-FINDING candidate (arrow-avro/src/reader/mod.rs Decoder::decode): a decode() call that
        // sees a record body only partially either fails with "bad varint" (cut inside / before a
        // varint) or leaves the fields decoded so far in the column builders and decodes them again
        // on the retry (flush then fails with "all columns in a record batch must have the
        // specified row count"). Witnesses: Confluent id 1 {x:long}: 00 00000001 9E|FA 02 ;
        // id 2 {id:long,name:string}: 00 00000002 02 06 61|62 63. Cuts strictly inside a record
        // body are therefore excluded here; cuts inside the prefix and between messages are kept.
        put_restricted(emit, r, tier, F_AVRO_SOE, cfg, bs, 0, &bytes, &allowed, &format!("{tag} i{} bs{bs}", inv.min(3)));
    }
}

fn put_restricted(emit: &mut dyn FnMut(Case), r: &mut Rng, tier: &str, fmt: i64, cfg: i64, bs: usize, v: i64, input: &[u8], allowed: &[usize], tag: &str) {
    let head = vec![BigInt::from(fmt), BigInt::from(cfg), BigInt::from(bs), BigInt::from(v)];
    let fam = |fam: i64, list: &[usize]| -> Group { let mut f: Vec<BigInt> = vec![fam.into(), 0.into(), 0.into()]; f.extend(list.iter().map(|x| BigInt::from(*x))); f };
    emit(Case::new("c14.sweep", vec![head.clone(), gbytes(input), fam(7, allowed)], &["c14.sweep.spec"], format!("f{fmt} sweep7 {tag}")));
    emit(Case::new("c14.sweep", vec![head.clone(), gbytes(input), fam(9, allowed)], &["c14.sweep.spec"], format!("f{fmt} sweep9 {tag}")));
    // all subsets of a window of the admissible positions
    let w = if tier == "thorough" { 12 } else { 9 }.min(allowed.len());
    for _ in 0..2 { let q = r.below(allowed.len() - w + 1); emit(Case::new("c14.sweep", vec![head.clone(), gbytes(input), fam(8, &allowed[q..q + w])], &["c14.sweep.spec"], format!("f{fmt} sweep8 {tag}"))); }
    let base = baseline(fmt, cfg, bs, v, input);
    for _ in 0..(if tier == "thorough" { 12 } else { 4 }) {
        let k = 1 + r.below(8);
        let mut b: Vec<usize> = (0..k).map(|_| *r.pick(allowed)).collect();
        if r.chance(1, 2) { let d = b[r.below(b.len())]; b.push(d); }
        b.sort();
        let mut args = vec![head.clone(), gbytes(input), b.iter().map(|x| BigInt::from(*x)).collect()];
        args.extend(base.groups());
        emit(Case::new("c14.chunk", args, &["c14.chunk.spec"], format!("f{fmt} multi {tag}")));
    }
}

// ---- Parquet
fn parquet_file(r: &mut Rng) -> (Vec<u8>, String) {
    use parquet::arrow::ArrowWriter;
    use parquet::file::properties::{EnabledStatistics, WriterProperties};
    let sid = *r.pick(&[0usize, 1, 6]);
    let stats = *r.pick(&[EnabledStatistics::None, EnabledStatistics::Chunk, EnabledStatistics::Page, EnabledStatistics::Page]);
    let props = WriterProperties::builder().set_max_row_group_row_count(Some(1 + r.below(4))).set_statistics_enabled(stats).set_data_page_row_count_limit(2).set_write_batch_size(2).build();
    let first_rows = 1 + r.below(6);
    let first = ipc_batch(sid, r, first_rows);
    let mut buf = Vec::new();
    let mut w = ArrowWriter::try_new(&mut buf, first.schema(), Some(props)).unwrap();
    w.write(&first).unwrap();
    if r.bool() { let rows = 1 + r.below(4); w.write(&ipc_batch(sid, r, rows)).unwrap(); }
    w.close().unwrap();
    (buf, format!("pq s{sid}"))
}
fn gen_parquet(_tier: &str, r: &mut Rng, emit: &mut dyn FnMut(Case), count: usize) {
    for _ in 0..count {
        let (mut bytes, tag) = parquet_file(r);
        let n = bytes.len();
        let inv = r.below(6);
        match inv {
            0 => { bytes[n - 1] ^= 1; }                        // footer magic
            1 => { bytes[n - 5] ^= 0x40; }                     // metadata length grows beyond the file / changes
            2 => { let k = 8 + r.below(n - 8); bytes = bytes[n - k..].to_vec(); } // a file that lost its head
            _ => {}
        }
        let n = bytes.len();
        // KNOWN-FINDING candidate (parquet/src/file/metadata/push_decoder.rs:390): when the footer's
        // metadata length exceeds file_len - 8, `file_len - footer_len - metadata_len` underflows
        // (panic with overflow checks; a wrapped-around range request without) where the pull reader
        // returns an error. Such files are only given to the pull reader.
        let flen = u32::from_le_bytes(bytes[n - 8..n - 4].try_into().unwrap()) as usize;
        let push_ok = flen + 8 <= n;
        for policy in 0..3i64 {
            if !push_ok { break; }
            for variant in [0i64, 1, 2, 3] {
                let cfg = policy | ((r.below(20) as i64) << 2);
                let base = baseline(F_PARQUET, cfg, 0, variant, &bytes);
                for _ in 0..6 {
                    let k = 1 + r.below(5);
                    let mut b: Vec<usize> = (0..k).map(|_| if r.chance(1, 2) { n - r.below(n.min(600)) } else { r.below(n + 1) }).collect();
                    b.sort();
                    let mut args = vec![vec![BigInt::from(F_PARQUET), cfg.into(), 0.into(), variant.into()], gbytes(&bytes), b.iter().map(|x| BigInt::from(*x)).collect()];
                    args.extend(base.groups());
                    emit(Case::new("c14.chunk", args, &["c14.chunk.spec"], format!("f6 v{variant} p{policy} i{} {tag}", inv.min(3))));
                }
            }
        }
        // the pull reader
        if !push_ok { continue; }
        let cfg = 1;
        let base = baseline(F_PARQUET, cfg, 0, V_PULL, &bytes);
        let mut args = vec![vec![BigInt::from(F_PARQUET), cfg.into(), 0.into(), V_PULL.into()], gbytes(&bytes), vec![]];
        args.extend(base.groups());
        emit(Case::new("c14.chunk", args, &["c14.chunk.spec"], format!("f6 pull {tag}")));
    }
}
